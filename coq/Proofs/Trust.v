(* Lemmas about Model/Trust.v instantiated over the exact reals (Lib/GenericFieldR.v). *)
From Coq Require Import Reals Lra Lia QArith Qreals.
From SV Require Import Lib.Base Lib.GenericField Lib.GenericFieldR Gen.TrustConsts Model.Trust.
Local Open Scope R_scope.

(* ------------------------------------------------------------------ sums *)
Definition Rsum (l : list R) : R := fold_right Rplus 0 l.

Lemma Rsum_cons : forall x l, Rsum (x :: l) = x + Rsum l.
Proof. reflexivity. Qed.

Lemma fold_left_Rplus : forall l a, fold_left Rplus l a = a + Rsum l.
Proof. induction l as [|x l IH]; intro a; simpl; [lra|]. rewrite IH. lra. Qed.

Lemma fsum_Rsum : forall l, @fsum RF l = Rsum l.
Proof. intro l. unfold fsum. cbn [T zero add RF]. rewrite fold_left_Rplus. lra. Qed.

Lemma Rsum_app : forall a b, Rsum (a ++ b) = Rsum a + Rsum b.
Proof. induction a as [|x a IH]; intro b; simpl; [lra|]. rewrite IH. lra. Qed.

Lemma Rsum_map_plus : forall {A} (f g : A -> R) l,
  Rsum (map (fun x => f x + g x) l) = Rsum (map f l) + Rsum (map g l).
Proof. induction l as [|x l IH]; simpl; [lra|]. rewrite IH. lra. Qed.

Lemma Rsum_map_scal : forall {A} c (f : A -> R) l,
  Rsum (map (fun x => c * f x) l) = c * Rsum (map f l).
Proof. induction l as [|x l IH]; simpl; [lra|]. rewrite IH. lra. Qed.

Lemma Rsum_map_ext : forall {A} (f g : A -> R) l,
  (forall x, In x l -> f x = g x) -> Rsum (map f l) = Rsum (map g l).
Proof.
  induction l as [|x l IH]; intro H; simpl; [reflexivity|].
  rewrite (H x (or_introl eq_refl)), IH; [reflexivity|]. intros y Hy. apply H. now right.
Qed.

Lemma Rsum_map_le : forall {A} (f g : A -> R) l,
  (forall x, In x l -> f x <= g x) -> Rsum (map f l) <= Rsum (map g l).
Proof.
  induction l as [|x l IH]; intro H; simpl; [lra|].
  pose proof (H x (or_introl eq_refl)). assert (Rsum (map f l) <= Rsum (map g l)).
  { apply IH. intros y Hy. apply H. now right. } lra.
Qed.

Lemma Rsum_map_nonneg : forall {A} (f : A -> R) l,
  (forall x, In x l -> 0 <= f x) -> 0 <= Rsum (map f l).
Proof.
  induction l as [|x l IH]; intro H; simpl; [lra|].
  pose proof (H x (or_introl eq_refl)). assert (0 <= Rsum (map f l)).
  { apply IH. intros y Hy. apply H. now right. } lra.
Qed.

Lemma Rsum_map_const0 : forall {A} (f : A -> R) l,
  (forall x, In x l -> f x = 0) -> Rsum (map f l) = 0.
Proof.
  intros A f l H. rewrite (Rsum_map_ext f (fun _ => 0) l H).
  induction l; simpl; [reflexivity|]. rewrite IHl; [lra|]. intros y Hy. apply H. now right.
Qed.

Lemma Rsum_map_const : forall {A} (c : R) (l : list A),
  Rsum (map (fun _ => c) l) = INR (length l) * c.
Proof.
  induction l as [|x l IH]; [simpl; lra|]. cbn [map Rsum fold_right]. fold (Rsum (map (fun _ : A => c) l)).
  rewrite IH. change (length (x :: l)) with (S (length l)). rewrite S_INR. lra.
Qed.

Lemma Rsum_filter_split : forall {A} (p : A -> bool) (f : A -> R) l,
  Rsum (map f l) = Rsum (map f (filter p l)) + Rsum (map f (filter (fun x => negb (p x)) l)).
Proof.
  induction l as [|x l IH]; simpl; [lra|]. destruct (p x); simpl; rewrite IH; lra.
Qed.

Lemma Rsum_filter_le : forall {A} (p q : A -> bool) (f : A -> R) l,
  (forall x, In x l -> 0 <= f x) -> (forall x, In x l -> p x = true -> q x = true) ->
  Rsum (map f (filter p l)) <= Rsum (map f (filter q l)).
Proof.
  induction l as [|x l IH]; intros Hf Hpq; simpl; [lra|].
  assert (IH' : Rsum (map f (filter p l)) <= Rsum (map f (filter q l))).
  { apply IH; intros y Hy; [apply Hf|apply Hpq]; now right. }
  pose proof (Hf x (or_introl eq_refl)) as Hx. pose proof (Hpq x (or_introl eq_refl)) as Hx'.
  destruct (p x) eqn:Ep; [rewrite (Hx' eq_refl); simpl; lra|]. destruct (q x); simpl; lra.
Qed.

(* a sum over a duplicate-free sub-list of non-negative terms is at most the whole sum *)
Lemma Rsum_incl_le : forall {A} (f : A -> R) s l,
  NoDup s -> incl s l -> (forall x, In x l -> 0 <= f x) -> Rsum (map f s) <= Rsum (map f l).
Proof.
  intros A f s. induction s as [|a s IH]; intros l Hnd Hin Hf; simpl.
  - now apply Rsum_map_nonneg.
  - inversion Hnd as [|? ? Hna Hnd']; subst.
    destruct (in_split a l (Hin a (or_introl eq_refl))) as [l1 [l2 ->]].
    rewrite map_app, Rsum_app. simpl.
    assert (Rsum (map f s) <= Rsum (map f (l1 ++ l2))).
    { apply IH; [assumption| |].
      - intros x Hx. pose proof (Hin x (or_intror Hx)) as H. apply in_app_or in H.
        apply in_or_app. destruct H as [H|[H|H]]; [now left|subst; contradiction|now right].
      - intros x Hx. apply Hf. apply in_app_or in Hx. apply in_or_app. destruct Hx; [now left|right; now right]. }
    rewrite map_app, Rsum_app in H. lra.
Qed.

Lemma Rsum_ge_member : forall {A} (f : A -> R) l x,
  In x l -> (forall y, In y l -> 0 <= f y) -> f x <= Rsum (map f l).
Proof.
  intros A f l x Hin Hf. pose proof (Rsum_incl_le f [x] l) as H. simpl in H.
  assert (f x + 0 <= Rsum (map f l)); [|lra]. apply H; [constructor; [intros []|constructor]| |assumption].
  intros y [->|[]]; assumption.
Qed.

(* changing a function at one point of a duplicate-free list changes the sum by the difference *)
Lemma Rsum_update : forall (g g' : N -> R) l x,
  NoDup l -> In x l -> (forall j, j <> x -> g' j = g j) ->
  Rsum (map g' l) = Rsum (map g l) + (g' x - g x).
Proof.
  induction l as [|a l IH]; intros x Hnd Hin Hg; [destruct Hin|].
  inversion Hnd as [|? ? Hna Hnd']; subst. simpl. destruct Hin as [->|Hin].
  - rewrite (Rsum_map_ext g' g l); [lra|]. intros y Hy. apply Hg. intros ->. contradiction.
  - rewrite (IH x Hnd' Hin Hg). rewrite (Hg a); [lra|]. intros ->. contradiction.
Qed.

(* indicator sums: exactly one key of a duplicate-free list equals k *)
Lemma Rsum_indicator : forall (ks : list N) (k : N) (c : R),
  NoDup ks -> In k ks -> Rsum (map (fun i => if (k =? i)%N then c else 0) ks) = c.
Proof.
  induction ks as [|a ks IH]; intros k c Hnd Hin; [destruct Hin|].
  inversion Hnd as [|? ? Hna Hnd']; subst. simpl. destruct Hin as [->|Hin].
  - rewrite N.eqb_refl. rewrite Rsum_map_const0; [lra|].
    intros y Hy. destruct (N.eqb_spec k y); [subst; contradiction|reflexivity].
  - destruct (N.eqb_spec k a); [subst; contradiction|]. rewrite IH; [lra|assumption|assumption].
Qed.

(* grouping: summing, for every key of a duplicate-free list that covers all keys in use, the
   terms carrying that key gives the whole sum *)
Lemma Rsum_group : forall {A} (key : A -> N) (g : A -> R) (ks : list N) (l : list A),
  NoDup ks -> (forall a, In a l -> In (key a) ks) ->
  Rsum (map (fun i => Rsum (map g (filter (fun a => (key a =? i)%N) l))) ks) = Rsum (map g l).
Proof.
  intros A key g ks l Hnd. induction l as [|a l IH]; intro Hin.
  - simpl. apply Rsum_map_const0. reflexivity.
  - cbn [map Rsum fold_right]. fold (Rsum (map g l)). rewrite <- IH by (intros b Hb; apply Hin; now right).
    rewrite <- (Rsum_indicator ks (key a) (g a) Hnd (Hin a (or_introl eq_refl))) at 1.
    rewrite <- Rsum_map_plus. apply Rsum_map_ext. intros i _. simpl.
    destruct (key a =? i)%N; simpl; lra.
Qed.

(* ------------------------------------------------------------------ small list facts *)
Lemma memN_In : forall x l, memN x l = true <-> In x l.
Proof.
  intros x l. unfold memN. rewrite existsb_exists. split.
  - intros [y [Hy E]]. apply N.eqb_eq in E. now subst.
  - intro H. exists x. split; [assumption|apply N.eqb_refl].
Qed.

Lemma memN_false : forall x l, memN x l = false <-> ~ In x l.
Proof. intros x l. rewrite <- memN_In. destruct (memN x l); split; congruence. Qed.

Lemma dedupN_In : forall l x, In x (dedupN l) <-> In x l.
Proof.
  induction l as [|a l IH]; intro x; simpl; [tauto|]. rewrite filter_In, IH.
  destruct (N.eqb_spec x a); subst; simpl; intuition congruence.
Qed.

Lemma NoDup_filter : forall {A} (p : A -> bool) l, NoDup l -> NoDup (filter p l).
Proof.
  induction l as [|a l IH]; intro H; simpl; [constructor|]. inversion H; subst.
  destruct (p a); [constructor; [rewrite filter_In; tauto|]|]; auto.
Qed.

Lemma dedupN_NoDup : forall l, NoDup (dedupN l).
Proof.
  induction l as [|a l IH]; simpl; constructor.
  - rewrite filter_In. rewrite N.eqb_refl. simpl. intros [_ H]. discriminate.
  - now apply NoDup_filter.
Qed.

Lemma filter_all_true : forall {A} (p : A -> bool) l, (forall x, In x l -> p x = true) -> filter p l = l.
Proof.
  induction l as [|a l IH]; intro H; simpl; [reflexivity|]. rewrite (H a (or_introl eq_refl)).
  rewrite IH; [reflexivity|]. intros y Hy. apply H. now right.
Qed.

Lemma dedupN_id : forall l, NoDup l -> dedupN l = l.
Proof.
  induction l as [|a l IH]; intro H; simpl; [reflexivity|]. inversion H; subst.
  rewrite IH by assumption. f_equal. apply filter_all_true. intros y Hy. destruct (N.eqb_spec y a); [subst; contradiction|reflexivity].
Qed.

Lemma filter_filter_comm_key : forall {A} (p q : A -> bool) l,
  filter p (filter q l) = filter (fun x => q x && p x) l.
Proof.
  induction l as [|a l IH]; simpl; [reflexivity|]. destruct (q a); simpl; [destruct (p a)|]; rewrite IH; reflexivity.
Qed.

Lemma filter_map_comm : forall {A B} (f : A -> B) (p : B -> bool) l,
  filter p (map f l) = map f (filter (fun x => p (f x)) l).
Proof. induction l as [|a l IH]; simpl; [reflexivity|]. destruct (p (f a)); simpl; rewrite IH; reflexivity. Qed.

(* ------------------------------------------------------------------ association lists *)
Lemma aget_map_keys : forall {A} (g : N -> A) ks i,
  aget (map (fun k => (k, g k)) ks) i = if memN i ks then Some (g i) else None.
Proof.
  induction ks as [|k ks IH]; intro i; simpl; [reflexivity|]. rewrite IH.
  rewrite (N.eqb_sym i k). destruct (N.eqb_spec k i); subst; reflexivity.
Qed.

Lemma vget_map_keys : forall (g : N -> R) ks i,
  @vget RF (map (fun k => (k, g k)) ks) i = if memN i ks then g i else 0.
Proof. intros. unfold vget. rewrite aget_map_keys. destruct (memN i ks); reflexivity. Qed.

Lemma map_snd_map_keys : forall (g : N -> R) (ks : list N),
  map snd (map (fun k => (k, g k)) ks) = map g ks.
Proof. intros. rewrite map_map. reflexivity. Qed.

Lemma ltb_R_true : forall a b : R, @ltb RF a b = true <-> a < b.
Proof. intros. cbn [ltb RF]. destruct (Rlt_dec a b); split; intros; try assumption; try reflexivity; try discriminate; contradiction. Qed.

Lemma ltb_R_false : forall a b : R, @ltb RF a b = false <-> b <= a.
Proof. intros. cbn [ltb RF]. destruct (Rlt_dec a b); split; intros; try discriminate; try reflexivity; lra. Qed.

(* ------------------------------------------------------------------ constants over R *)
Lemma of_N_R_nat : forall n, @of_N RF (N.of_nat n) = INR n.
Proof. intro n. cbn [of_N RF]. rewrite nat_N_Z. symmetry. apply INR_IZR_INZ. Qed.

Lemma of_N_R_nonneg : forall n, 0 <= @of_N RF n.
Proof. intro n. cbn [of_N RF]. apply IZR_le. lia. Qed.

Lemma of_N_R_add : forall a b, @of_N RF (a + b) = @of_N RF a + @of_N RF b.
Proof. intros. cbn [of_N RF]. rewrite N2Z.inj_add. apply plus_IZR. Qed.

Lemma of_N_R_le : forall a b, (a <= b)%N -> @of_N RF a <= @of_N RF b.
Proof. intros. cbn [of_N RF]. apply IZR_le. lia. Qed.

Lemma of_N_R_pos : forall a, (0 < a)%N -> 0 < @of_N RF a.
Proof. intros. cbn [of_N RF]. apply IZR_lt. lia. Qed.

Lemma alpha_R : @alpha RF = 2 / 5.
Proof. unfold alpha, of_Q, TRUST_ALPHA. cbn. lra. Qed.

Lemma conv_thr_R : @conv_thr RF = 1 / 10000.
Proof. unfold conv_thr, of_Q, TRUST_CONV_THRESHOLD. cbn. lra. Qed.

Lemma alpha_bounds : 0 < @alpha RF < 1.
Proof. rewrite alpha_R. lra. Qed.

(* ------------------------------------------------------------------ one round *)
Definition V (v : vec RF) (i : N) : R := @vget RF v i.

Lemma Rsum_filter_ind : forall {A} (p : A -> bool) (f : A -> R) l,
  Rsum (map (fun x => f x * (if p x then 1 else 0)) l) = Rsum (map f (filter p l)).
Proof. induction l as [|x l IH]; simpl; [reflexivity|]. destruct (p x); simpl; rewrite IH; lra. Qed.

Lemma Rsum_mem_const : forall (ks pre : list N) (c : R),
  NoDup ks -> NoDup pre -> incl pre ks ->
  Rsum (map (fun i => if memN i pre then c else 0) ks) = INR (length pre) * c.
Proof.
  intros ks pre c Hks. induction pre as [|a pre IH]; intros Hpre Hin.
  - simpl. rewrite Rsum_map_const0; [lra|reflexivity].
  - inversion Hpre as [|? ? Hna Hpre']; subst.
    rewrite (Rsum_map_ext _ (fun i => (if (a =? i)%N then c else 0) + (if memN i pre then c else 0))).
    + rewrite Rsum_map_plus, Rsum_indicator, IH; try assumption.
      * change (length (a :: pre)) with (S (length pre)). rewrite S_INR. lra.
      * intros x Hx. apply Hin. now right.
      * apply Hin. now left.
    + intros i _. change (memN i (a :: pre)) with ((i =? a)%N || memN i pre).
      rewrite (N.eqb_sym i a). destruct (N.eqb_spec a i) as [E|E]; simpl.
      * rewrite <- E. apply memN_false in Hna. rewrite Hna. lra.
      * lra.
Qed.

Definition isnil {A} (l : list A) : bool := match l with [] => true | _ => false end.
Lemma isnil_true : forall {A} (l : list A), isnil l = true -> l = [].
Proof. destruct l; [reflexivity|discriminate]. Qed.
Lemma isnil_false : forall {A} (l : list A), isnil l = false -> l <> [].
Proof. destruct l; [discriminate|]. intros _ H. discriminate. Qed.
Lemma length_pos_INR : forall {A} (l : list A), l <> [] -> 0 < INR (length l).
Proof. destruct l; [contradiction|]. intros _. apply lt_0_INR. simpl. lia. Qed.

Section RoundR.
Variables nodes ks pre : list N.
Variable es : list (edge RF).
Let wes := @wedges RF es.

Hypothesis Hnodes : NoDup nodes.
Hypothesis Hn0 : nodes <> [].
Hypothesis Hks : NoDup ks.
Hypothesis Hnk : incl nodes ks.
Hypothesis Hpre : NoDup pre.
Hypothesis Hpk : incl pre ks.
Hypothesis Hnopre : pre = [] -> ks = nodes.
Hypothesis Hpos : forall e, In e es -> 0 < e_val e.
Hypothesis Hends : forall e, In e es -> In (e_from e) ks /\ In (e_to e) ks.

Definition dist (v : vec RF) : Prop := (forall i, 0 <= V v i) /\ Rsum (map (V v) ks) = 1.

Lemma has_out_In : forall e, In e es -> @has_out RF es (e_from e) = true.
Proof. intros e He. unfold has_out. apply existsb_exists. exists e. split; [assumption|apply N.eqb_refl]. Qed.

Lemma outsum_R : forall j, @outsum RF es j = Rsum (map e_val (filter (fun e => (e_from e =? j)%N) es)).
Proof. intro j. unfold outsum. apply fsum_Rsum. Qed.

Lemma outsum_pos : forall j, @has_out RF es j = true -> 0 < @outsum RF es j.
Proof.
  intros j H. rewrite outsum_R. unfold has_out in H. apply existsb_exists in H. destruct H as [e [He Ej]].
  assert (G : forall l : list (edge RF), (forall x, In x l -> 0 < e_val x) -> In e l ->
              0 < Rsum (map e_val (filter (fun e0 : edge RF => (e_from e0 =? j)%N) l))).
  { induction l as [|x l IH]; intros Hl Hin; [destruct Hin|]. cbn [filter].
    assert (0 <= Rsum (map e_val (filter (fun e0 : edge RF => (e_from e0 =? j)%N) l))).
    { apply Rsum_map_nonneg. intros y Hy. apply filter_In in Hy. left. apply Hl. right. tauto. }
    destruct Hin as [->|Hin].
    - rewrite Ej. cbn [map]. rewrite Rsum_cons. pose proof (Hl e (or_introl eq_refl)). lra.
    - pose proof (IH (fun y Hy => Hl y (or_intror Hy)) Hin).
      destruct (e_from x =? j)%N; [|assumption].
      cbn [map]. rewrite Rsum_cons. pose proof (Hl x (or_introl eq_refl)). lra. }
  apply G; assumption.
Qed.

Lemma wes_from : forall e, In e wes -> exists e0, In e0 es /\ e_from e = e_from e0 /\ e_to e = e_to e0 /\
                                         e_val e = e_val e0 / @outsum RF es (e_from e0).
Proof.
  intros e He. unfold wes, wedges in He. apply in_map_iff in He. destruct He as [e0 [<- He0]].
  exists e0. cbn. repeat split; assumption || reflexivity.
Qed.

Lemma wes_nonneg : forall e, In e wes -> 0 <= e_val e.
Proof.
  intros e He. destruct (wes_from e He) as [e0 [He0 [_ [_ ->]]]].
  pose proof (Hpos e0 He0). pose proof (outsum_pos _ (has_out_In e0 He0)).
  apply Rlt_le. apply Rdiv_lt_0_compat; assumption.
Qed.

(* rows of the normalised matrix sum to 1 (nodes with a statement) or 0 (without) *)
Lemma rowsum : forall j,
  Rsum (map e_val (filter (fun e => (e_from e =? j)%N) wes)) = if @has_out RF es j then 1 else 0.
Proof.
  intro j. unfold wes, wedges. rewrite filter_map_comm. cbn [e_from]. rewrite map_map. cbn [e_val].
  rewrite (Rsum_map_ext _ (fun e : edge RF => / @outsum RF es j * e_val e)).
  2:{ intros e He. apply filter_In in He. destruct He as [_ E]. apply N.eqb_eq in E. rewrite E.
      cbn [div RF]. unfold Rdiv. lra. }
  rewrite Rsum_map_scal. rewrite <- outsum_R.
  destruct (@has_out RF es j) eqn:E.
  - pose proof (outsum_pos j E). field. lra.
  - rewrite outsum_R. unfold has_out in E.
    assert (filter (fun e : edge RF => (e_from e =? j)%N) es = []) as ->.
    { induction es as [|x l IH]; [reflexivity|]. simpl in *. apply orb_false_iff in E. destruct E as [E1 E2].
      rewrite E1. apply IH; [| |assumption].
      - intros e He. apply Hpos. now right.
      - intros e He. apply Hends. now right. }
    simpl. lra.
Qed.

Definition inc (v : vec RF) (i : N) : R :=
  Rsum (map (fun e : edge RF => e_val e * V v (e_from e)) (filter (fun e => (e_to e =? i)%N) wes)).

Lemma incoming_R : forall v i, @incoming RF wes v i = inc v i.
Proof. intros. unfold incoming, inc. rewrite fsum_Rsum. reflexivity. Qed.

Definition dang (v : vec RF) : R := Rsum (map (V v) (filter (fun k => negb (@has_out RF es k)) ks)).

Lemma dangling_R : forall v, @dangling RF ks es v = dang v.
Proof. intros. unfold dangling, dang. rewrite fsum_Rsum. reflexivity. Qed.

Lemma inc_nonneg : forall v i, (forall j, 0 <= V v j) -> 0 <= inc v i.
Proof.
  intros v i Hv. unfold inc. apply Rsum_map_nonneg. intros e He. apply filter_In in He.
  apply Rmult_le_pos; [apply wes_nonneg; tauto|apply Hv].
Qed.

Lemma wes_ends : forall e, In e wes -> In (e_from e) ks /\ In (e_to e) ks.
Proof. intros e He. destruct (wes_from e He) as [e0 [He0 [-> [-> _]]]]. now apply Hends. Qed.

(* total mass pushed along edges = mass of the nodes that make statements *)
Lemma inc_total : forall v, Rsum (map (inc v) ks) = Rsum (map (V v) ks) - dang v.
Proof.
  intro v. unfold inc.
  rewrite (Rsum_group (@e_to RF) (fun e : edge RF => e_val e * V v (e_from e)) ks wes Hks) by (intros a Ha; apply wes_ends; assumption).
  rewrite <- (Rsum_group (@e_from RF) (fun e : edge RF => e_val e * V v (e_from e)) ks wes Hks) by (intros a Ha; apply wes_ends; assumption).
  rewrite (Rsum_map_ext _ (fun j => V v j * (if @has_out RF es j then 1 else 0))).
  2:{ intros j _. rewrite <- rowsum.
      rewrite (Rsum_map_ext _ (fun e : edge RF => V v j * e_val e)).
      - apply Rsum_map_scal.
      - intros e He. apply filter_In in He. destruct He as [_ E]. apply N.eqb_eq in E. rewrite E. lra. }
  rewrite Rsum_filter_ind. unfold dang.
  rewrite (Rsum_filter_split (@has_out RF es) (V v) ks). lra.
Qed.

Lemma dang_bounds : forall v, dist v -> 0 <= dang v <= 1.
Proof.
  intros v [Hv Hs]. split.
  - unfold dang. apply Rsum_map_nonneg. intros; apply Hv.
  - rewrite <- Hs. unfold dang. rewrite (Rsum_filter_split (fun k => negb (@has_out RF es k)) (V v) ks).
    assert (0 <= Rsum (map (V v) (filter (fun x => negb (negb (@has_out RF es x))) ks))); [|lra].
    apply Rsum_map_nonneg. intros; apply Hv.
Qed.

Definition tmass (v : vec RF) : R := @alpha RF + (1 - @alpha RF) * dang v.

(* the un-normalised next vector as an explicit function *)
Definition rawf (v : vec RF) (i : N) : R :=
  if isnil pre then (1 - @alpha RF) * inc v i + tmass v / INR (length nodes)
  else if memN i pre then (1 - @alpha RF) * inc v i + tmass v * (1 / INR (length pre))
       else (1 - @alpha RF) * inc v i.

Lemma raw_round_R : forall v,
  @raw_round RF nodes ks pre es wes v = map (fun i => (i, rawf v i)) ks.
Proof.
  intro v. unfold raw_round, rawf, teleport_mass, tmass, nF, pre_val. rewrite dangling_R.
  destruct pre; apply map_ext; intro i; rewrite incoming_R, ?of_N_R_nat; reflexivity.
Qed.

Lemma length_nodes_pos : 0 < INR (length nodes).
Proof. apply length_pos_INR. exact Hn0. Qed.

Lemma rawf_total : forall v, dist v -> Rsum (map (rawf v) ks) = 1.
Proof.
  intros v Hd. pose proof Hd as [Hv Hs]. unfold rawf. destruct (isnil pre) eqn:Epre.
  - rewrite Rsum_map_plus, Rsum_map_scal, inc_total, Hs, Rsum_map_const.
    rewrite (Hnopre (isnil_true _ Epre)). pose proof length_nodes_pos. unfold tmass. field. lra.
  - rewrite (Rsum_map_ext _ (fun i => (1 - @alpha RF) * inc v i + (if memN i pre then tmass v * (1 / INR (length pre)) else 0))).
    2:{ intros i _. destruct (memN i pre); lra. }
    rewrite Rsum_map_plus, Rsum_map_scal, inc_total, Hs, Rsum_mem_const by assumption.
    pose proof (length_pos_INR pre (isnil_false _ Epre)).
    unfold tmass. field. lra.
Qed.

Lemma tmass_bounds : forall v, dist v -> @alpha RF <= tmass v <= 1.
Proof. intros v Hd. pose proof (dang_bounds v Hd). pose proof alpha_bounds. unfold tmass. split; nra. Qed.

Lemma rawf_nonneg : forall v i, dist v -> 0 <= rawf v i.
Proof.
  intros v i Hd. pose proof (tmass_bounds v Hd). pose proof alpha_bounds. pose proof (inc_nonneg v i (proj1 Hd)).
  assert (0 <= (1 - @alpha RF) * inc v i) by (apply Rmult_le_pos; lra).
  unfold rawf. destruct (isnil pre) eqn:Epre.
  - pose proof length_nodes_pos. assert (0 <= tmass v / INR (length nodes)) by (apply Rlt_le, Rdiv_lt_0_compat; lra). lra.
  - pose proof (length_pos_INR pre (isnil_false _ Epre)).
    assert (0 <= tmass v * (1 / INR (length pre))).
    { apply Rmult_le_pos; [lra|]. apply Rlt_le, Rdiv_lt_0_compat; lra. }
    destruct (memN i pre); lra.
Qed.

Lemma normalise_unit : forall (g : N -> R) l,
  Rsum (map g l) = 1 -> @normalise RF (map (fun i => (i, g i)) l) = map (fun i => (i, g i / 1)) l.
Proof.
  intros g l H. unfold normalise. rewrite map_snd_map_keys, fsum_Rsum, H.
  assert (@ltb RF (@zero RF) 1 = true) as -> by (apply ltb_R_true; cbn; lra).
  rewrite map_map. reflexivity.
Qed.

(* the next vector, pointwise *)
Lemma round_vget : forall v i, dist v ->
  V (fst (@round RF nodes ks pre es wes v)) i = if memN i ks then rawf v i else 0.
Proof.
  intros v i Hd. unfold round. cbn [fst]. rewrite raw_round_R, normalise_unit by (apply rawf_total; assumption).
  unfold V. rewrite vget_map_keys. destruct (memN i ks); [field|reflexivity].
Qed.

Lemma round_dist : forall v, dist v -> dist (fst (@round RF nodes ks pre es wes v)).
Proof.
  intros v Hd. split.
  - intro i. rewrite round_vget by assumption. destruct (memN i ks); [apply rawf_nonneg; assumption|lra].
  - rewrite (Rsum_map_ext _ (rawf v)); [apply rawf_total; assumption|].
    intros i Hi. rewrite round_vget by assumption. apply memN_In in Hi. rewrite Hi. reflexivity.
Qed.

Lemma round_diff : forall v,
  snd (@round RF nodes ks pre es wes v) =
  Rsum (map (fun i => Rabs (V v i - V (fst (@round RF nodes ks pre es wes v)) i)) nodes).
Proof. intro v. unfold round. cbn [fst snd]. unfold l1diff. rewrite fsum_Rsum. reflexivity. Qed.

(* ---- anchor floor: whatever anybody states, an anchor receives alpha/|A| in every round ---- *)
Lemma round_anchor_floor : forall v a, dist v -> In a pre ->
  @alpha RF / INR (length pre) <= V (fst (@round RF nodes ks pre es wes v)) a.
Proof.
  intros v a Hd Ha. rewrite round_vget by assumption.
  assert (memN a ks = true) as -> by (apply memN_In, Hpk, Ha).
  assert (Epre : isnil pre = false) by (destruct pre; [destruct Ha|reflexivity]).
  unfold rawf. rewrite Epre.
  assert (memN a pre = true) as -> by (apply memN_In; assumption).
  pose proof (tmass_bounds v Hd). pose proof alpha_bounds. pose proof (inc_nonneg v a (proj1 Hd)).
  pose proof (length_pos_INR pre (isnil_false _ Epre)).
  assert (0 <= (1 - @alpha RF) * inc v a) by (apply Rmult_le_pos; lra).
  assert (@alpha RF / INR (length pre) <= tmass v * (1 / INR (length pre))).
  { unfold Rdiv. rewrite Rmult_1_l. apply Rmult_le_compat_r; [apply Rlt_le, Rinv_0_lt_compat; assumption|lra]. }
  lra.
Qed.

Definition floorP (v : vec RF) : Prop := forall a, In a pre -> @alpha RF / INR (length pre) <= V v a.

Lemma iterate_inv : forall fuel iter v, dist v -> (fuel = O -> floorP v) ->
  dist (fst (@iterate RF nodes ks pre es wes fuel iter v)) /\
  floorP (fst (@iterate RF nodes ks pre es wes fuel iter v)).
Proof.
  induction fuel as [|k IH]; intros iter v Hd Hf.
  - cbn [iterate fst]. split; [assumption|apply Hf; reflexivity].
  - cbn [iterate].
    pose proof (round_dist v Hd) as Hd'.
    assert (Hf' : floorP (fst (@round RF nodes ks pre es wes v))) by (intros a Ha; apply round_anchor_floor; assumption).
    destruct (@round RF nodes ks pre es wes v) as [nv diff] eqn:Er. cbn [fst] in Hd', Hf'.
    destruct (@ltb RF diff (@conv_thr RF) && (TRUST_MIN_ITERATIONS <=? iter + TRUST_MIN_ITER_OFFSET)%N); [cbn [fst]; split; assumption|].
    destruct ((TRUST_CUT1_N <? N.of_nat (length nodes))%N && (TRUST_CUT1_ITER <? iter)%N); [cbn [fst]; split; assumption|].
    destruct ((TRUST_CUT2_N <? N.of_nat (length nodes))%N && (TRUST_CUT2_ITER <? iter)%N); [cbn [fst]; split; assumption|].
    apply IH; [assumption|intros _; assumption].
Qed.

(* the starting vector *)
Lemma init_vec_V : forall i, V (@init_vec RF nodes) i = if memN i nodes then 1 / INR (length nodes) else 0.
Proof. intro i. unfold V, init_vec, nF. rewrite vget_map_keys, of_N_R_nat. reflexivity. Qed.

Lemma Rsum_mem_all : forall (l s : list N) (c : R), NoDup l -> NoDup s -> incl s l ->
  Rsum (map (fun i => if memN i s then c else 0) l) = INR (length s) * c.
Proof. intros. apply Rsum_mem_const; assumption. Qed.

Lemma init_vec_dist : dist (@init_vec RF nodes).
Proof.
  pose proof length_nodes_pos as Hn. split.
  - intro i. rewrite init_vec_V. destruct (memN i nodes); [|lra]. apply Rlt_le, Rdiv_lt_0_compat; lra.
  - rewrite (Rsum_map_ext _ (fun i => if memN i nodes then 1 / INR (length nodes) else 0)) by (intros; apply init_vec_V).
    rewrite Rsum_mem_const by assumption. field. lra.
Qed.

(* anything a round establishes holds of the loop's result *)
Lemma iterate_est : forall (P : vec RF -> Prop),
  (forall v, dist v -> P (fst (@round RF nodes ks pre es wes v))) ->
  forall fuel iter v, dist v -> (fuel = O -> P v) -> P (fst (@iterate RF nodes ks pre es wes fuel iter v)).
Proof.
  intros P HP. induction fuel as [|k IH]; intros iter v Hd Hf.
  - cbn [iterate fst]. apply Hf; reflexivity.
  - cbn [iterate]. pose proof (round_dist v Hd) as Hd'. pose proof (HP v Hd) as Hp.
    destruct (@round RF nodes ks pre es wes v) as [nv diff] eqn:Er. cbn [fst] in Hd', Hp.
    destruct (@ltb RF diff (@conv_thr RF) && (TRUST_MIN_ITERATIONS <=? iter + TRUST_MIN_ITER_OFFSET)%N); [exact Hp|].
    destruct ((TRUST_CUT1_N <? N.of_nat (length nodes))%N && (TRUST_CUT1_ITER <? iter)%N); [exact Hp|].
    destruct ((TRUST_CUT2_N <? N.of_nat (length nodes))%N && (TRUST_CUT2_ITER <? iter)%N); [exact Hp|].
    apply IH; [assumption|intros _; assumption].
Qed.

(* the vector is an association list over exactly the keys *)
Definition canon (v : vec RF) : Prop := v = map (fun i => (i, V v i)) ks.

Lemma canon_map : forall g : N -> R, canon (map (fun i => (i, g i)) ks).
Proof.
  intro g. unfold canon. apply map_ext_in. intros i Hi. unfold V. rewrite vget_map_keys.
  apply memN_In in Hi. rewrite Hi. reflexivity.
Qed.

Lemma round_canon : forall v, dist v -> canon (fst (@round RF nodes ks pre es wes v)).
Proof.
  intros v Hd. unfold round. cbn [fst]. rewrite raw_round_R, normalise_unit by (apply rawf_total; assumption).
  apply canon_map.
Qed.

(* ---- closed sets: mass can only leak out ---- *)
Section Closed.
Variable Sy : list N.
Hypothesis HSnd : NoDup Sy.
Hypothesis HSn : incl Sy nodes.
Hypothesis HSpre : forall i, In i Sy -> ~ In i pre.
Hypothesis Hanch : pre <> [].
(* nobody outside the set makes a (positive) statement about a member *)
Hypothesis Hclosed : forall e, In e es -> In (e_to e) Sy -> In (e_from e) Sy.

Definition massR (v : vec RF) : R := Rsum (map (V v) Sy).

Lemma mass_R : forall v, @mass RF v Sy = massR v.
Proof. intro v. unfold mass, massR. apply fsum_Rsum. Qed.

Lemma round_mass_decay : forall v, dist v ->
  massR (fst (@round RF nodes ks pre es wes v)) <= (1 - @alpha RF) * massR v.
Proof.
  intros v Hd. pose proof Hd as [Hv Hs]. pose proof alpha_bounds as Ha. unfold massR.
  rewrite (Rsum_map_ext _ (fun i => (1 - @alpha RF) * inc v i)).
  2:{ intros i Hi. rewrite round_vget by assumption.
      assert (memN i ks = true) as -> by (apply memN_In, Hnk, HSn, Hi).
      assert (Epre : isnil pre = false) by (destruct pre; [contradiction|reflexivity]).
      unfold rawf. rewrite Epre.
      assert (memN i pre = false) as -> by (apply memN_false, HSpre, Hi). reflexivity. }
  rewrite Rsum_map_scal. apply Rmult_le_compat_l; [lra|].
  set (g := fun e : edge RF => e_val e * V v (e_from e)).
  (* sum over members of the edges that END in the set *)
  assert (E1 : Rsum (map (inc v) Sy) = Rsum (map g (filter (fun e => memN (e_to e) Sy) wes))).
  { rewrite <- (Rsum_group (@e_to RF) g Sy (filter (fun e => memN (e_to e) Sy) wes) HSnd).
    - apply Rsum_map_ext. intros i Hi. unfold inc. f_equal. f_equal. rewrite filter_filter_comm_key.
      apply filter_ext_in. intros e _. destruct (N.eqb_spec (e_to e) i) as [E|E].
      + rewrite andb_true_r. symmetry. apply memN_In. rewrite E. assumption.
      + rewrite andb_false_r. reflexivity.
    - intros e He. apply filter_In in He. apply memN_In. tauto. }
  (* those edges START in the set (closedness), and edges starting in the set carry at most the set's mass *)
  assert (E2 : Rsum (map g (filter (fun e => memN (e_to e) Sy) wes)) <= Rsum (map g (filter (fun e => memN (e_from e) Sy) wes))).
  { apply Rsum_filter_le.
    - intros e He. unfold g. apply Rmult_le_pos; [apply wes_nonneg; assumption|apply Hv].
    - intros e He Ht. destruct (wes_from e He) as [e0 [He0 [Ef [Et _]]]]. rewrite Ef. rewrite Et in Ht.
      apply memN_In. apply Hclosed; [assumption|]. apply memN_In. assumption. }
  assert (E3 : Rsum (map g (filter (fun e => memN (e_from e) Sy) wes)) =
               Rsum (map (fun j => V v j * (if @has_out RF es j then 1 else 0)) Sy)).
  { rewrite <- (Rsum_group (@e_from RF) g Sy (filter (fun e => memN (e_from e) Sy) wes) HSnd).
    - apply Rsum_map_ext. intros j Hj. rewrite <- rowsum.
      rewrite filter_filter_comm_key.
      rewrite (filter_ext_in (fun x : edge RF => memN (e_from x) Sy && (e_from x =? j)%N) (fun e => (e_from e =? j)%N)).
      2:{ intros e _. destruct (N.eqb_spec (e_from e) j) as [E|E].
          - rewrite andb_true_r. apply memN_In. rewrite E. assumption.
          - rewrite andb_false_r. reflexivity. }
      rewrite (Rsum_map_ext g (fun e : edge RF => V v j * e_val e)).
      + apply Rsum_map_scal.
      + intros e He. apply filter_In in He. destruct He as [_ E]. apply N.eqb_eq in E. unfold g. rewrite E. lra.
    - intros e He. apply filter_In in He. apply memN_In. tauto. }
  rewrite E1. eapply Rle_trans; [exact E2|]. rewrite E3.
  apply Rsum_map_le. intros j _. specialize (Hv j). destruct (@has_out RF es j); nra.
Qed.

Lemma massR_nonneg : forall v, dist v -> 0 <= massR v.
Proof. intros v [Hv _]. unfold massR. apply Rsum_map_nonneg. intros; apply Hv. Qed.

(* the L1 change of a round is at least the mass the set lost *)
Lemma round_diff_ge : forall v, dist v ->
  massR v - massR (fst (@round RF nodes ks pre es wes v)) <= snd (@round RF nodes ks pre es wes v).
Proof.
  intros v Hd. rewrite round_diff. set (nv := fst (@round RF nodes ks pre es wes v)).
  eapply Rle_trans; [|apply (Rsum_incl_le (fun i => Rabs (V v i - V nv i)) Sy nodes HSnd HSn); intros; apply Rabs_pos].
  unfold massR. assert (Rsum (map (V v) Sy) - Rsum (map (V nv) Sy) = Rsum (map (fun i => V v i - V nv i) Sy)) as ->.
  { rewrite (Rsum_map_ext (fun i => V v i - V nv i) (fun i => V v i + (-1) * V nv i)) by (intros; lra).
    rewrite Rsum_map_plus, Rsum_map_scal. lra. }
  apply Rsum_map_le. intros i _. apply Rle_abs.
Qed.


(* ---- the whole loop ---- *)
Lemma pow_S_shift : forall (x : R) (a b : N), (b + 1 <= a)%N ->
  x ^ N.to_nat (a - b) = x * x ^ N.to_nat (a - (b + 1)).
Proof.
  intros x a b H. replace (N.to_nat (a - b)) with (S (N.to_nat (a - (b + 1)))) by lia. reflexivity.
Qed.

Definition exit_reason (fuel : nat) (iter : N) (r : vec RF * N) : Prop :=
  (fuel <> O /\ (TRUST_MIN_ITERATIONS <= snd r)%N /\ massR (fst r) < 3 / 2 * @conv_thr RF)
  \/ ((TRUST_CUT1_N < N.of_nat (length nodes))%N /\ (TRUST_CUT1_ITER + 2 <= snd r)%N)
  \/ ((TRUST_CUT2_N < N.of_nat (length nodes))%N /\ (TRUST_CUT2_ITER + 2 <= snd r)%N)
  \/ snd r = (iter + N.of_nat fuel)%N.

Lemma iterate_spec : forall fuel iter v, dist v ->
  let r := @iterate RF nodes ks pre es wes fuel iter v in
  dist (fst r) /\ (iter <= snd r <= iter + N.of_nat fuel)%N /\ (fuel <> O -> (iter < snd r)%N) /\
  massR (fst r) <= (1 - @alpha RF) ^ N.to_nat (snd r - iter) * massR v /\
  exit_reason fuel iter r.
Proof.
  induction fuel as [|k IH]; intros iter v Hd.
  - cbn [iterate fst snd]. split; [assumption|]. split; [lia|]. split; [intro H; contradiction|]. split.
    + replace (N.to_nat (iter - iter)) with O by lia. rewrite pow_O. lra.
    + unfold exit_reason. right. right. right. cbn [snd]. lia.
  - cbn [iterate].
    pose proof (round_dist v Hd) as Hd'. pose proof (round_mass_decay v Hd) as Hm.
    pose proof (round_diff_ge v Hd) as Hdiff.
    destruct (@round RF nodes ks pre es wes v) as [nv diff] eqn:Er. cbn [fst snd] in Hd', Hm, Hdiff.
    assert (Hone : massR nv <= (1 - @alpha RF) ^ N.to_nat (iter + 1 - iter) * massR v).
    { replace (N.to_nat (iter + 1 - iter)) with 1%nat by lia. rewrite pow_1. lra. }
    destruct (@ltb RF diff (@conv_thr RF) && (TRUST_MIN_ITERATIONS <=? iter + TRUST_MIN_ITER_OFFSET)%N) eqn:Ec.
    { apply andb_true_iff in Ec. destruct Ec as [Ec Emin]. apply N.leb_le in Emin. unfold TRUST_MIN_ITER_OFFSET in Emin.
      cbn [fst snd]. split; [assumption|]. split; [lia|]. split; [intros _; lia|]. split; [assumption|].
      left. split; [discriminate|]. split; [exact Emin|]. cbn [fst]. apply ltb_R_true in Ec. rewrite alpha_R in Hm. lra. }
    destruct ((TRUST_CUT1_N <? N.of_nat (length nodes))%N && (TRUST_CUT1_ITER <? iter)%N) eqn:E1.
    { cbn [fst snd]. split; [assumption|]. split; [lia|]. split; [intros _; lia|]. split; [assumption|].
      right. left. cbn [snd]. apply andb_true_iff in E1. destruct E1 as [A B].
      apply N.ltb_lt in A. apply N.ltb_lt in B. lia. }
    destruct ((TRUST_CUT2_N <? N.of_nat (length nodes))%N && (TRUST_CUT2_ITER <? iter)%N) eqn:E2.
    { cbn [fst snd]. split; [assumption|]. split; [lia|]. split; [intros _; lia|]. split; [assumption|].
      right. right. left. cbn [snd]. apply andb_true_iff in E2. destruct E2 as [A B].
      apply N.ltb_lt in A. apply N.ltb_lt in B. lia. }
    specialize (IH (iter + 1)%N nv Hd'). cbv zeta in IH.
    destruct IH as [I1 [I2 [I3 [I4 I5]]]].
    set (r := @iterate RF nodes ks pre es wes k (iter + 1) nv) in *.
    split; [assumption|]. split; [lia|]. split; [intros _; lia|]. split.
    + rewrite (pow_S_shift _ (snd r) iter) by lia.
      pose proof alpha_bounds. pose proof (massR_nonneg v Hd).
      assert (0 <= (1 - @alpha RF) ^ N.to_nat (snd r - (iter + 1))) by (apply pow_le; lra).
      eapply Rle_trans; [exact I4|].
      replace ((1 - @alpha RF) * (1 - @alpha RF) ^ N.to_nat (snd r - (iter + 1)) * massR v)
        with ((1 - @alpha RF) ^ N.to_nat (snd r - (iter + 1)) * ((1 - @alpha RF) * massR v)) by ring.
      apply Rmult_le_compat_l; [assumption|exact Hm].
    + unfold exit_reason in *. destruct I5 as [[A B]|[A|[A|A]]].
      * left. split; [discriminate|exact B].
      * right. left. assumption.
      * right. right. left. assumption.
      * right. right. right. lia.
Qed.

Lemma init_mass : massR (@init_vec RF nodes) = INR (length Sy) / INR (length nodes).
Proof.
  unfold massR. rewrite (Rsum_map_ext _ (fun _ => 1 / INR (length nodes))).
  - rewrite Rsum_map_const. pose proof length_nodes_pos. field. lra.
  - intros i Hi. rewrite init_vec_V. assert (memN i nodes = true) as -> by (apply memN_In, HSn, Hi). reflexivity.
Qed.

End Closed.
End RoundR.

(* ------------------------------------------------------------------ states *)
Definition wf (st : state RF) : Prop := NoDup (st_pre st).

Lemma NoDup_app_disj : forall {A} (a b : list A),
  NoDup a -> NoDup b -> (forall x, In x a -> ~ In x b) -> NoDup (a ++ b).
Proof.
  induction a as [|x a IH]; intros b Ha Hb Hd; simpl; [assumption|]. inversion Ha; subst. constructor.
  - intro H. apply in_app_or in H. destruct H; [contradiction|]. apply (Hd x); [now left|assumption].
  - apply IH; try assumption. intros y Hy. apply Hd. now right.
Qed.

Section StateFacts.
Variable st : state RF.
Hypothesis Hwf : wf st.
Hypothesis Hne : @node_set RF st <> [].

Let nodes := @node_set RF st.
Let ks := @keys RF st.
Let pre := st_pre st.
Let es := @pos_edges RF (st_local st).

Lemma sf_nodes : NoDup nodes. Proof. apply dedupN_NoDup. Qed.

Lemma sf_ks : NoDup ks.
Proof.
  unfold ks, keys. apply NoDup_app_disj; [apply dedupN_NoDup|apply NoDup_filter; exact Hwf|].
  intros x Hx Hx'. unfold extra_anchors in Hx'. apply filter_In in Hx'. destruct Hx' as [_ E].
  apply negb_true_iff, memN_false in E. contradiction.
Qed.

Lemma sf_nk : incl nodes ks. Proof. intros x Hx. unfold ks, keys. apply in_or_app. now left. Qed.

Lemma sf_pk : incl pre ks.
Proof.
  intros a Ha. unfold ks, keys. apply in_or_app. destruct (memN a (@node_set RF st)) eqn:E.
  - left. apply memN_In. assumption.
  - right. unfold extra_anchors. apply filter_In. split; [assumption|]. rewrite E. reflexivity.
Qed.

Lemma sf_nopre : pre = [] -> ks = nodes.
Proof. intro H. unfold ks, keys, extra_anchors. fold pre. rewrite H. simpl. apply app_nil_r. Qed.

Lemma sf_pos : forall e, In e es -> 0 < e_val e.
Proof. intros e He. unfold es, pos_edges in He. apply filter_In in He. destruct He as [_ E]. apply ltb_R_true in E. exact E. Qed.

Lemma sf_ends : forall e, In e es -> In (e_from e) ks /\ In (e_to e) ks.
Proof.
  intros e He. unfold es, pos_edges in He. apply filter_In in He. destruct He as [He _].
  assert (forall x, In x [e_from e; e_to e] -> In x nodes).
  { intros x Hx. unfold nodes, node_set. apply dedupN_In. apply in_or_app. left.
    apply in_flat_map. exists e. split; assumption. }
  split; apply sf_nk, H; simpl; tauto.
Qed.

Definition tv : vec RF := fst (@power RF st).

Ltac sf_solve := first [exact sf_nodes|exact Hne|exact sf_ks|exact sf_nk|exact Hwf|exact sf_pk|exact sf_nopre|exact sf_pos|exact sf_ends].

Lemma sf_init : dist ks (@init_vec RF nodes).
Proof. apply init_vec_dist; sf_solve. Qed.

Lemma fuel_nonzero : N.to_nat TRUST_MAX_ITERATIONS = O -> forall P : Prop, P.
Proof. unfold TRUST_MAX_ITERATIONS. intro H. discriminate. Qed.

Lemma tv_dist : dist ks tv.
Proof.
  unfold tv, power. fold nodes ks pre es.
  apply iterate_inv; try sf_solve; [apply sf_init|intro H; apply (fuel_nonzero H)].
Qed.

Lemma tv_floor : forall a, In a pre -> @alpha RF / INR (length pre) <= V tv a.
Proof.
  unfold tv, power. fold nodes ks pre es.
  apply iterate_inv; try sf_solve; [apply sf_init|intro H; apply (fuel_nonzero H)].
Qed.

Lemma tv_canon : canon ks tv.
Proof.
  unfold tv, power. fold nodes ks pre es.
  apply (iterate_est nodes ks pre es) with (P := canon ks); try sf_solve.
  - intros v Hd. apply round_canon; try sf_solve. assumption.
  - apply sf_init.
  - intro H; apply (fuel_nonzero H).
Qed.

End StateFacts.

(* ------------------------------------------------------------------ multi-factor multiplier *)
Lemma Rinv_nonneg : forall b, 0 <= b -> 0 <= / b.
Proof.
  intros b Hb. destruct (Req_dec b 0) as [->|Hn]; [rewrite Rinv_0; lra|].
  apply Rlt_le, Rinv_0_lt_compat. lra.
Qed.

Lemma Rdiv_nonneg : forall a b, 0 <= a -> 0 <= b -> 0 <= a / b.
Proof. intros. unfold Rdiv. apply Rmult_le_pos; [assumption|apply Rinv_nonneg; assumption]. Qed.

Lemma of_Q_R_nonneg : forall q, 0 <= @of_Q RF q.
Proof. intro q. unfold of_Q. cbn [div RF]. apply Rdiv_nonneg; apply of_N_R_nonneg. Qed.

Lemma Rdiv_le_cross : forall a b c d, 0 < b -> 0 < d -> a * d <= c * b -> a / b <= c / d.
Proof.
  intros a b c d Hb Hd H. apply (Rmult_le_reg_r (b * d)); [apply Rmult_lt_0_compat; assumption|].
  replace (a / b * (b * d)) with (a * d) by (field; lra).
  replace (c / d * (b * d)) with (c * b) by (field; lra). assumption.
Qed.

Definition rrR (s : nstat) : R := @response_rate RF s.

Lemma default_rate_R : @of_Q RF TRUST_MF_DEFAULT_RATE = 1 / 2.
Proof. unfold of_Q, TRUST_MF_DEFAULT_RATE. cbn. lra. Qed.

Lemma default_rate_bounds : 0 <= @of_Q RF TRUST_MF_DEFAULT_RATE <= 1.
Proof. unfold of_Q, TRUST_MF_DEFAULT_RATE. cbn. lra. Qed.

Lemma rr_bounds : forall s, 0 <= rrR s <= 1.
Proof.
  intro s. unfold rrR, response_rate. destruct (0 <? s_ok s + s_fail s)%N eqn:E.
  - apply N.ltb_lt in E. pose proof (of_N_R_nonneg (s_ok s)). pose proof (of_N_R_nonneg (s_fail s)).
    pose proof (of_N_R_pos _ E) as Hp. rewrite of_N_R_add in *. cbn [div RF]. split.
    + apply Rdiv_nonneg; lra.
    + apply (Rmult_le_reg_r (@of_N RF (s_ok s) + @of_N RF (s_fail s))); [assumption|].
      unfold Rdiv. rewrite Rmult_assoc, Rinv_l by lra. lra.
  - exact default_rate_bounds.
Qed.

(* the response rate is monotone: more successes never lower it, more failures never raise it *)
Lemma rr_mono : forall s s', (s_ok s <= s_ok s')%N -> (s_fail s' <= s_fail s)%N -> rrR s <= rrR s'.
Proof.
  intros s s' Hok Hfail. unfold rrR, response_rate.
  pose proof (of_N_R_nonneg (s_ok s)) as A. pose proof (of_N_R_nonneg (s_fail s)) as B.
  pose proof (of_N_R_nonneg (s_ok s')) as A'. pose proof (of_N_R_nonneg (s_fail s')) as B'.
  pose proof (of_N_R_le _ _ Hok) as LA. pose proof (of_N_R_le _ _ Hfail) as LB.
  destruct (0 <? s_ok s + s_fail s)%N eqn:E; destruct (0 <? s_ok s' + s_fail s')%N eqn:E'.
  - apply N.ltb_lt in E. apply N.ltb_lt in E'. pose proof (of_N_R_pos _ E) as P. pose proof (of_N_R_pos _ E') as P'.
    rewrite !of_N_R_add in *. cbn [div RF]. apply Rdiv_le_cross; try assumption.
    assert (@of_N RF (s_ok s) * @of_N RF (s_fail s') <= @of_N RF (s_ok s') * @of_N RF (s_fail s)); [|lra].
    apply Rmult_le_compat; assumption.
  - apply N.ltb_ge in E'. assert (s_ok s = 0%N) as -> by lia. cbn [div RF of_N]. simpl Z.of_N.
    pose proof default_rate_bounds. unfold Rdiv. rewrite Rmult_0_l. lra.
  - apply N.ltb_ge in E. apply N.ltb_lt in E'. assert (s_fail s' = 0%N) as H0 by lia.
    rewrite H0, N.add_0_r in *. pose proof (of_N_R_pos _ E'). pose proof default_rate_bounds. cbn [div RF].
    unfold Rdiv. rewrite Rinv_r by lra. lra.
  - lra.
Qed.

Section Factor.
Variable ln1p : N -> R.
Hypothesis Hln : forall x, 0 <= ln1p x.

Definition restR (s : nstat) : R :=
  @of_Q RF TRUST_MF_W_UPTIME * @fmin RF (@of_N RF (s_up s) / @of_Q RF TRUST_MF_UPTIME_DAY) (@of_Q RF TRUST_MF_UPTIME_CAP)
  + @of_Q RF TRUST_MF_W_STORAGE * (ln1p (s_sto s) / @of_Q RF TRUST_MF_LOG_DIV_STORAGE)
  + @of_Q RF TRUST_MF_W_BANDWIDTH * (ln1p (s_bw s) / @of_Q RF TRUST_MF_LOG_DIV_BANDWIDTH)
  + @of_Q RF TRUST_MF_W_COMPUTE * (ln1p (s_cpu s) / @of_Q RF TRUST_MF_LOG_DIV_COMPUTE).

Lemma factor_split : forall s, @factor RF ln1p s = @of_Q RF TRUST_MF_W_RATE * rrR s + restR s.
Proof. intro s. unfold factor, restR, rrR. cbn [add mul div RF T]. ring. Qed.

Lemma fmin_nonneg : forall a b : R, 0 <= a -> 0 <= b -> 0 <= @fmin RF a b.
Proof. intros a b Ha Hb. unfold fmin. destruct (@ltb RF b a); assumption. Qed.

Lemma restR_nonneg : forall s, 0 <= restR s.
Proof.
  intro s. unfold restR.
  assert (forall w a q, 0 <= a -> 0 <= @of_Q RF w * (a / @of_Q RF q)).
  { intros. apply Rmult_le_pos; [apply of_Q_R_nonneg|apply Rdiv_nonneg; [assumption|apply of_Q_R_nonneg]]. }
  assert (0 <= @of_Q RF TRUST_MF_W_UPTIME * @fmin RF (@of_N RF (s_up s) / @of_Q RF TRUST_MF_UPTIME_DAY) (@of_Q RF TRUST_MF_UPTIME_CAP)).
  { apply Rmult_le_pos; [apply of_Q_R_nonneg|]. apply fmin_nonneg; [|apply of_Q_R_nonneg].
    apply Rdiv_nonneg; [apply of_N_R_nonneg|apply of_Q_R_nonneg]. }
  pose proof (H TRUST_MF_W_STORAGE _ TRUST_MF_LOG_DIV_STORAGE (Hln (s_sto s))).
  pose proof (H TRUST_MF_W_BANDWIDTH _ TRUST_MF_LOG_DIV_BANDWIDTH (Hln (s_bw s))).
  pose proof (H TRUST_MF_W_COMPUTE _ TRUST_MF_LOG_DIV_COMPUTE (Hln (s_cpu s))). lra.
Qed.

Lemma factor_nonneg : forall s, 0 <= @factor RF ln1p s.
Proof.
  intro s. rewrite factor_split. pose proof (restR_nonneg s). pose proof (rr_bounds s).
  assert (0 <= @of_Q RF TRUST_MF_W_RATE * rrR s) by (apply Rmult_le_pos; [apply of_Q_R_nonneg|lra]). lra.
Qed.

(* the multiplier is monotone in the response counters (everything else equal) *)
Lemma factor_mono : forall s s',
  s_up s' = s_up s -> s_sto s' = s_sto s -> s_bw s' = s_bw s -> s_cpu s' = s_cpu s ->
  (s_ok s <= s_ok s')%N -> (s_fail s' <= s_fail s)%N ->
  @factor RF ln1p s <= @factor RF ln1p s'.
Proof.
  intros s s' E1 E2 E3 E4 Hok Hfail. rewrite !factor_split.
  assert (restR s' = restR s) as -> by (unfold restR; rewrite E1, E2, E3, E4; reflexivity).
  pose proof (rr_mono s s' Hok Hfail). pose proof (of_Q_R_nonneg TRUST_MF_W_RATE).
  assert (@of_Q RF TRUST_MF_W_RATE * rrR s <= @of_Q RF TRUST_MF_W_RATE * rrR s') by (apply Rmult_le_compat_l; assumption).
  lra.
Qed.

End Factor.

(* ------------------------------------------------------------------ final scores *)
Lemma normalise_R : forall (g : N -> R) l,
  @normalise RF (map (fun i => (i, g i)) l) =
  map (fun i => (i, if Rlt_dec 0 (Rsum (map g l)) then g i / Rsum (map g l) else g i)) l.
Proof.
  intros g l. unfold normalise. rewrite map_snd_map_keys, fsum_Rsum. cbn [ltb RF zero].
  destruct (Rlt_dec 0 (Rsum (map g l))); [rewrite map_map|]; reflexivity.
Qed.

(* normalising non-negative weights: a distribution, or all zero *)
Lemma norm_dist : forall (l : list N) (w : N -> R),
  (forall j, 0 <= w j) ->
  let tot := Rsum (map w l) in
  let sc := fun i => if Rlt_dec 0 tot then w i / tot else w i in
  (forall i, In i l -> 0 <= sc i <= 1) /\ (Rsum (map sc l) = 1 \/ forall i, In i l -> sc i = 0).
Proof.
  intros l w Hw tot sc. unfold sc. destruct (Rlt_dec 0 tot) as [Hp|Hn].
  - split.
    + intros i Hi. pose proof (Rsum_ge_member w l i Hi (fun y _ => Hw y)) as Hle. fold tot in Hle. split.
      * apply Rdiv_nonneg; [apply Hw|lra].
      * apply (Rmult_le_reg_r tot); [assumption|]. unfold Rdiv. rewrite Rmult_assoc, Rinv_l by lra. lra.
    + left. rewrite (Rsum_map_ext _ (fun i => / tot * w i)) by (intros; unfold Rdiv; lra).
      rewrite Rsum_map_scal. fold tot. field. lra.
  - assert (Ht : tot = 0).
    { assert (0 <= tot) by (apply Rsum_map_nonneg; intros; apply Hw). lra. }
    assert (Hz : forall i, In i l -> w i = 0).
    { intros i Hi. pose proof (Rsum_ge_member w l i Hi (fun y _ => Hw y)) as Hle. fold tot in Hle.
      pose proof (Hw i). lra. }
    split; [intros i Hi; rewrite (Hz i Hi); lra|right; assumption].
Qed.

(* raising one weight (others unchanged) never lowers that entry's normalised share *)
Lemma norm_mono : forall (l : list N) (w w' : N -> R) x,
  NoDup l -> In x l -> (forall j, 0 <= w j) -> (forall j, j <> x -> w' j = w j) -> w x <= w' x ->
  (if Rlt_dec 0 (Rsum (map w l)) then w x / Rsum (map w l) else w x) <=
  (if Rlt_dec 0 (Rsum (map w' l)) then w' x / Rsum (map w' l) else w' x).
Proof.
  intros l w w' x Hnd Hin Hw Hsame Hle.
  pose proof (Rsum_update w w' l x Hnd Hin Hsame) as Hup.
  pose proof (Rsum_ge_member w l x Hin (fun y _ => Hw y)) as Hmem.
  set (tot := Rsum (map w l)) in *. set (tot' := Rsum (map w' l)) in *.
  pose proof (Hw x) as Hx.
  destruct (Rlt_dec 0 tot) as [Hp|Hn].
  - destruct (Rlt_dec 0 tot') as [Hp'|Hn']; [|lra].
    apply Rdiv_le_cross; try assumption. rewrite Hup. nra.
  - assert (w x = 0) by lra. destruct (Rlt_dec 0 tot') as [Hp'|Hn'].
    + rewrite H. apply Rdiv_nonneg; lra.
    + lra.
Qed.

Section Scores.
Variable ln1p : N -> R.
Hypothesis Hln : forall x, 0 <= ln1p x.

Definition weight (st : state RF) (d : R) (i : N) : R :=
  V (tv st) i * @factor RF ln1p (@stats_of RF st i) * d.

Definition total (st : state RF) (d : R) : R := Rsum (map (weight st d) (@keys RF st)).

Definition score (st : state RF) (d : R) (i : N) : R :=
  if Rlt_dec 0 (total st d) then weight st d i / total st d else weight st d i.

Lemma global_trust_R : forall st d, wf st -> @node_set RF st <> [] ->
  @global_trust RF ln1p st d = map (fun i => (i, score st d i)) (@keys RF st).
Proof.
  intros st d Hwf Hne. unfold global_trust. destruct (@node_set RF st) eqn:E; [contradiction|]. rewrite <- E in Hne.
  unfold finalise. fold (tv st). rewrite (tv_canon st Hwf Hne) at 1. rewrite map_map. cbn [fst snd mul RF].
  rewrite (normalise_R (fun i => V (tv st) i * @factor RF ln1p (@stats_of RF st i) * d)). reflexivity.
Qed.

Lemma weight_nonneg : forall st d i, wf st -> @node_set RF st <> [] -> 0 <= d -> 0 <= weight st d i.
Proof.
  intros st d i Hwf Hne Hd. unfold weight. pose proof (proj1 (tv_dist st Hwf Hne) i). pose proof (factor_nonneg ln1p Hln (@stats_of RF st i)).
  apply Rmult_le_pos; [apply Rmult_le_pos|]; assumption.
Qed.

Lemma global_trust_V : forall st d i, wf st -> @node_set RF st <> [] ->
  V (@global_trust RF ln1p st d) i = if memN i (@keys RF st) then score st d i else 0.
Proof. intros. rewrite global_trust_R by assumption. unfold V. apply vget_map_keys. Qed.

(* C10_distribution on one computation *)
Lemma scores_dist : forall st d, wf st -> @node_set RF st <> [] -> 0 <= d ->
  (forall i, In i (@keys RF st) -> 0 <= score st d i <= 1) /\
  (Rsum (map (score st d) (@keys RF st)) = 1 \/ forall i, In i (@keys RF st) -> score st d i = 0).
Proof.
  intros st d Hwf Hne Hd.
  exact (norm_dist (@keys RF st) (weight st d) (fun j => weight_nonneg st d j Hwf Hne Hd)).
Qed.

(* the decay factor (the clock) cancels *)
Lemma score_decay_irrelevant : forall st d1 d2 i, wf st -> @node_set RF st <> [] -> 0 < d1 -> 0 < d2 ->
  score st d1 i = score st d2 i.
Proof.
  intros st d1 d2 i Hwf Hne H1 H2. unfold score.
  assert (Ht : forall d, total st d = d * total st 1).
  { intro d. unfold total. rewrite <- Rsum_map_scal. apply Rsum_map_ext. intros j _. unfold weight. ring. }
  assert (Hw : forall d, weight st d i = d * weight st 1 i) by (intro d; unfold weight; ring).
  assert (0 <= total st 1).
  { unfold total. apply Rsum_map_nonneg. intros j _. apply weight_nonneg; try assumption. lra. }
  rewrite (Ht d1), (Ht d2), (Hw d1), (Hw d2).
  destruct (Rlt_dec 0 (d1 * total st 1)) as [A|A]; destruct (Rlt_dec 0 (d2 * total st 1)) as [B|B].
  - field. split; [nra|lra].
  - exfalso. apply B. assert (0 < total st 1) by nra. nra.
  - exfalso. apply A. assert (0 < total st 1) by nra. nra.
  - assert (total st 1 = 0) by nra.
    assert (weight st 1 i = 0 \/ ~ In i (@keys RF st)) as [Hz|Hz].
    { destruct (in_dec N.eq_dec i (@keys RF st)) as [Hi|Hi]; [left|right; assumption].
      pose proof (Rsum_ge_member (weight st 1) (@keys RF st) i Hi (fun y _ => weight_nonneg st 1 y Hwf Hne ltac:(lra))) as Hm.
      fold (total st 1) in Hm. pose proof (weight_nonneg st 1 i Hwf Hne ltac:(lra)). lra. }
    + rewrite Hz. lra.
    + (* outside the keys the vector is 0 *)
      assert (V (tv st) i = 0).
      { rewrite (tv_canon st Hwf Hne). unfold V. rewrite vget_map_keys. apply memN_false in Hz. rewrite Hz. reflexivity. }
      unfold weight. rewrite H3. lra.
Qed.

(* two states with the same graph and anchors: same eigenvector part *)
Lemma power_congr : forall st st' : state RF,
  st_local st' = st_local st -> st_pre st' = st_pre st -> @node_set RF st' = @node_set RF st ->
  @power RF st' = @power RF st /\ @keys RF st' = @keys RF st.
Proof.
  intros st st' El Ep En. unfold power, keys, extra_anchors. rewrite El, Ep, En. split; reflexivity.
Qed.

(* C10 monotonicity, abstractly: the same graph, one node's multiplier raised *)
Lemma score_mono : forall st st' d x,
  wf st -> @node_set RF st <> [] -> 0 <= d ->
  st_local st' = st_local st -> st_pre st' = st_pre st -> @node_set RF st' = @node_set RF st ->
  (forall j, j <> x -> @stats_of RF st' j = @stats_of RF st j) ->
  @factor RF ln1p (@stats_of RF st x) <= @factor RF ln1p (@stats_of RF st' x) ->
  In x (@keys RF st) ->
  score st d x <= score st' d x.
Proof.
  intros st st' d x Hwf Hne Hd El Ep En Hsame Hf Hx.
  destruct (power_congr st st' El Ep En) as [Epow Ekeys].
  unfold score, total. rewrite Ekeys.
  assert (Etv : tv st' = tv st) by (unfold tv; rewrite Epow; reflexivity).
  apply norm_mono.
  - apply sf_ks. exact Hwf.
  - exact Hx.
  - intro j. apply weight_nonneg; assumption.
  - intros j Hj. unfold weight. rewrite Etv, (Hsame j Hj). reflexivity.
  - unfold weight. rewrite Etv. pose proof (proj1 (tv_dist st Hwf Hne) x).
    apply Rmult_le_compat_r; [assumption|]. apply Rmult_le_compat_l; assumption.
Qed.

End Scores.

(* ------------------------------------------------------------------ association lists, node sets *)
Lemma aget_aset : forall {A} (l : list (N * A)) k a i,
  aget (aset l k a) i = if (k =? i)%N then Some a else aget l i.
Proof.
  induction l as [|[k' a'] l IH]; intros k a i; simpl.
  - reflexivity.
  - destruct (N.eqb_spec k' k) as [->|Hn]; simpl.
    + destruct (N.eqb_spec k i); reflexivity.
    + rewrite IH. destruct (N.eqb_spec k' i) as [->|Hn']; [|reflexivity].
      destruct (N.eqb_spec k i); [subst; contradiction|reflexivity].
Qed.

Lemma aget_adel : forall {A} (l : list (N * A)) k i,
  aget (adel l k) i = if (k =? i)%N then None else aget l i.
Proof.
  induction l as [|[k' a'] l IH]; intros k i; simpl.
  - destruct (k =? i)%N; reflexivity.
  - destruct (N.eqb_spec k' k) as [->|Hn]; simpl.
    + rewrite IH. destruct (N.eqb_spec k i); reflexivity.
    + rewrite IH. destruct (N.eqb_spec k' i) as [->|Hn']; [|reflexivity].
      destruct (N.eqb_spec k i); [subst; contradiction|reflexivity].
Qed.

Lemma aget_None : forall {A} (l : list (N * A)) k, aget l k = None <-> ~ In k (map fst l).
Proof.
  induction l as [|[k' a'] l IH]; intro k; simpl; [tauto|].
  destruct (N.eqb_spec k' k) as [->|Hn]; [split; [discriminate|intro H; exfalso; apply H; now left]|].
  rewrite IH. split; [intros H [E|E]; [contradiction|contradiction]|tauto].
Qed.

Lemma map_fst_aset : forall {A} (l : list (N * A)) k a,
  map fst (aset l k a) = if memN k (map fst l) then map fst l else map fst l ++ [k].
Proof.
  induction l as [|[k' a'] l IH]; intros k a; simpl; [reflexivity|].
  unfold memN. simpl. rewrite (N.eqb_sym k k'). destruct (N.eqb_spec k' k) as [->|Hn]; simpl; [reflexivity|].
  rewrite IH. unfold memN. destruct (existsb (N.eqb k) (map fst l)); reflexivity.
Qed.

Lemma dedupN_app_fresh : forall l a, ~ In a l -> dedupN (l ++ [a]) = dedupN l ++ [a].
Proof.
  induction l as [|b l IH]; intros a Ha; simpl.
  - reflexivity.
  - rewrite IH by (intro; apply Ha; now right). rewrite filter_app. simpl.
    destruct (N.eqb_spec a b) as [->|Hn]; [exfalso; apply Ha; now left|reflexivity].
Qed.

Lemma dedupN_app_dup : forall l x, In x l -> dedupN (l ++ [x]) = dedupN l.
Proof.
  induction l as [|a l IH]; intros x Hx; [destruct Hx|]. simpl.
  destruct (in_dec N.eq_dec x l) as [Hin|Hnin].
  - rewrite IH by assumption. reflexivity.
  - destruct Hx as [->|Hx]; [|contradiction].
    rewrite dedupN_app_fresh by assumption. rewrite filter_app. simpl. rewrite N.eqb_refl. simpl.
    rewrite app_nil_r. reflexivity.
Qed.

Section Ops.
Variable ln1p : N -> R.
Hypothesis Hln : forall x, 0 <= ln1p x.

Notation stepR := (@step RF ln1p).
Notation runR := (@run RF ln1p).

Definition with_stats (st : state RF) (i : N) (u : supd) : state RF := fst (stepR st (UpdStats i u)).

Lemma with_stats_local : forall st i u, st_local (with_stats st i u) = st_local st. Proof. reflexivity. Qed.
Lemma with_stats_pre : forall st i u, st_pre (with_stats st i u) = st_pre st. Proof. reflexivity. Qed.
Lemma with_stats_cache : forall st i u, st_cache (with_stats st i u) = st_cache st. Proof. reflexivity. Qed.

Lemma with_stats_of : forall st i u j,
  @stats_of RF (with_stats st i u) j = if (i =? j)%N then apply_upd (@stats_of RF st i) u else @stats_of RF st j.
Proof.
  intros. unfold with_stats, stats_of at 1. cbn [step fst st_stats]. rewrite aget_aset.
  destruct (i =? j)%N; reflexivity.
Qed.

Lemma with_stats_In : forall st i u, In i (@node_set RF (with_stats st i u)).
Proof.
  intros. unfold node_set. apply dedupN_In. apply in_or_app. right. unfold with_stats. cbn [step fst st_stats].
  rewrite map_fst_aset. destruct (memN i (map fst (st_stats st))) eqn:E; [apply memN_In; assumption|].
  apply in_or_app. right. now left.
Qed.

(* statistics about a node that is already known do not change the node set *)
Lemma with_stats_node_set : forall st i u, In i (@node_set RF st) -> @node_set RF (with_stats st i u) = @node_set RF st.
Proof.
  intros st i u Hi. unfold node_set in *. unfold with_stats. cbn [step fst st_stats st_local].
  rewrite map_fst_aset. destruct (memN i (map fst (st_stats st))) eqn:E; [reflexivity|].
  rewrite app_assoc. apply dedupN_app_dup. apply (proj1 (dedupN_In _ _)) in Hi. exact Hi.
Qed.

(* two different reports about the same node give the same node set *)
Lemma with_stats_node_set2 : forall st i u u', @node_set RF (with_stats st i u) = @node_set RF (with_stats st i u').
Proof.
  intros. unfold node_set, with_stats. cbn [step fst st_stats st_local]. rewrite !map_fst_aset. reflexivity.
Qed.

Lemma wf_init : forall pre, wf (@init RF pre).
Proof. intro pre. unfold wf, init. cbn [st_pre]. apply dedupN_NoDup. Qed.

Lemma wf_step : forall st o, wf st -> wf (fst (stepR st o)).
Proof.
  intros st o H. unfold wf in *. destruct o; cbn [step fst st_pre]; try assumption.
  - destruct (memN i (st_pre st)) eqn:E; [assumption|]. apply NoDup_app_disj; [assumption|constructor; [intros []|constructor]|].
    intros x Hx [->|[]]. apply memN_false in E. contradiction.
  - apply NoDup_filter. assumption.
Qed.

Lemma run_cons : forall st o ops,
  runR st (o :: ops) = (fst (runR (fst (stepR st o)) ops), snd (stepR st o) :: snd (runR (fst (stepR st o)) ops)).
Proof.
  intros. cbn [run]. destruct (stepR st o) as [st1 r]. cbn [fst snd]. destruct (runR st1 ops); reflexivity.
Qed.

Lemma wf_run : forall ops st, wf st -> wf (fst (runR st ops)).
Proof.
  induction ops as [|o ops IH]; intros st H; [exact H|]. rewrite run_cons. cbn [fst]. apply IH, wf_step, H.
Qed.

(* ---- every computed map is well formed ---- *)
Definition good_map (m : vec RF) : Prop :=
  (forall i x, In (i, x) m -> 0 <= x <= 1) /\
  (Rsum (map snd m) = 1 \/ forall i x, In (i, x) m -> x = 0).

Lemma global_trust_good : forall st d, wf st -> 0 <= d -> good_map (@global_trust RF ln1p st d).
Proof.
  intros st d Hwf Hd. destruct (list_eq_dec N.eq_dec (@node_set RF st) []) as [E|Hne].
  - unfold global_trust. rewrite E. split; [intros i x []|right; intros i x []].
  - rewrite (global_trust_R ln1p st d Hwf Hne). destruct (scores_dist ln1p Hln st d Hwf Hne Hd) as [A B]. split.
    + intros i x Hin. apply in_map_iff in Hin. destruct Hin as [j [E Hj]]. inversion E; subst. apply A, Hj.
    + rewrite map_snd_map_keys. destruct B as [B|B]; [left; exact B|right].
      intros i x Hin. apply in_map_iff in Hin. destruct Hin as [j [E Hj]]. inversion E; subst. apply B, Hj.
Qed.

Definition decay_ok (o : op RF) : Prop := match o with Compute d => 0 <= d | _ => True end.

Lemma run_good : forall ops st, wf st -> Forall decay_ok ops ->
  forall m, In (OMap m) (snd (runR st ops)) -> good_map m.
Proof.
  induction ops as [|o ops IH]; intros st Hwf Hd m Hin; [destruct Hin|].
  rewrite run_cons in Hin. cbn [snd] in Hin. inversion Hd as [|? ? Ho Hd']; subst. destruct Hin as [E|Hin].
  - destruct o; cbn [step snd] in E; try discriminate. inversion E; subst. apply global_trust_good; assumption.
  - apply (IH (fst (stepR st o))); [apply wf_step; assumption|assumption|assumption].
Qed.

(* ---- the clock cancels ---- *)
Lemma global_trust_decay : forall st d1 d2, wf st -> 0 < d1 -> 0 < d2 ->
  @global_trust RF ln1p st d1 = @global_trust RF ln1p st d2.
Proof.
  intros st d1 d2 Hwf H1 H2. destruct (list_eq_dec N.eq_dec (@node_set RF st) []) as [E|Hne].
  - unfold global_trust. rewrite E. reflexivity.
  - rewrite !(global_trust_R ln1p) by assumption. apply map_ext. intro i.
    rewrite (score_decay_irrelevant ln1p Hln st d1 d2 i); try assumption. reflexivity.
Qed.

Definition undecay (o : op RF) : op RF := match o with Compute _ => @Compute RF 1 | o => o end.
Definition decay_pos (o : op RF) : Prop := match o with Compute d => 0 < d | _ => True end.

Lemma run_undecay : forall ops st, wf st -> Forall decay_pos ops -> runR st (map undecay ops) = runR st ops.
Proof.
  induction ops as [|o ops IH]; intros st Hwf Hd; [reflexivity|]. inversion Hd as [|? ? Ho Hd']; subst.
  cbn [map]. rewrite !run_cons.
  assert (E : stepR st (undecay o) = stepR st o).
  { destruct o; try reflexivity. cbn [undecay step]. rewrite (global_trust_decay st 1 d Hwf); [reflexivity|lra|exact Ho]. }
  rewrite E. rewrite IH; [reflexivity|apply wf_step; assumption|assumption].
Qed.

(* ---- the cache: get_trust answers the last published score ---- *)
Lemma publish_get : forall (m c : vec RF) i, NoDup (map fst m) ->
  aget (@publish RF c m) i = match aget m i with Some x => Some x | None => aget c i end.
Proof.
  induction m as [|[k a] m IH]; intros c i Hnd; [reflexivity|].
  inversion Hnd as [|? ? Hk Hnd']; subst. unfold publish in *. cbn [fold_left fst snd]. rewrite IH by assumption.
  cbn [aget]. destruct (N.eqb_spec k i) as [->|Hn].
  - rewrite (proj2 (aget_None m i) Hk). rewrite aget_aset, N.eqb_refl. reflexivity.
  - destruct (aget m i); [reflexivity|]. rewrite aget_aset. destruct (N.eqb_spec k i); [contradiction|reflexivity].
Qed.

Lemma global_trust_keys : forall st d, wf st ->
  map fst (@global_trust RF ln1p st d) = match @node_set RF st with [] => [] | _ => @keys RF st end.
Proof.
  intros st d Hwf. destruct (list_eq_dec N.eq_dec (@node_set RF st) []) as [E|Hne].
  - unfold global_trust. rewrite E. reflexivity.
  - rewrite (global_trust_R ln1p st d Hwf Hne). rewrite map_map. cbn [fst]. rewrite map_id.
    destruct (@node_set RF st); [contradiction|reflexivity].
Qed.

Lemma global_trust_nodup : forall st d, wf st -> NoDup (map fst (@global_trust RF ln1p st d)).
Proof.
  intros st d Hwf. rewrite global_trust_keys by assumption.
  destruct (@node_set RF st) eqn:E; [constructor|]. apply sf_ks. exact Hwf.
Qed.

Definition answer (st : state RF) (i : N) : R :=
  match aget (st_cache st) i with Some x => x | None => @of_Q RF TRUST_UNKNOWN_SCORE end.

Lemma query_answer : forall st i, stepR st (Query i) = (st, @OVal RF (answer st i)).
Proof. reflexivity. Qed.

(* right after a computation every id of the returned map reads its returned score *)
Lemma compute_then_query : forall st d i, wf st ->
  In i (map fst (@global_trust RF ln1p st d)) ->
  answer (fst (stepR st (Compute d))) i = V (@global_trust RF ln1p st d) i.
Proof.
  intros st d i Hwf Hi. unfold answer. cbn [step fst st_cache]. rewrite publish_get by (apply global_trust_nodup; assumption).
  unfold V, vget. destruct (aget (@global_trust RF ln1p st d) i) eqn:E; [reflexivity|].
  apply aget_None in E. contradiction.
Qed.

(* operations that leave the published score of [i] alone *)
Definition keeps (i : N) (o : op RF) : Prop :=
  match o with
  | Compute _ => False
  | AddPre j => j <> i
  | RemoveNode j => j <> i
  | _ => True
  end.

Lemma keeps_answer : forall ops st i, Forall (keeps i) ops -> answer (fst (runR st ops)) i = answer st i.
Proof.
  induction ops as [|o ops IH]; intros st i H; [reflexivity|]. inversion H as [|? ? Ho H']; subst.
  rewrite run_cons. cbn [fst]. rewrite IH by assumption. unfold answer.
  destruct o; cbn [step fst st_cache keeps] in *; try reflexivity.
  - rewrite aget_aset. destruct (N.eqb_spec i0 i); [contradiction|reflexivity].
  - rewrite aget_adel. destruct (N.eqb_spec i0 i); [contradiction|reflexivity].
  - contradiction.
Qed.

(* ids that no operation and no anchor set ever mentioned read 0 *)
Definition mentions (i : N) (o : op RF) : Prop :=
  match o with
  | UpdLocal f t _ => f = i \/ t = i
  | UpdStats j _ => j = i
  | AddPre j => j = i
  | _ => False
  end.

Definition unknown (st : state RF) (i : N) : Prop :=
  ~ In i (st_pre st) /\ aget (st_cache st) i = None /\ ~ In i (@node_set RF st).

Lemma upd_local_ends : forall (l : list (edge RF)) f t nv x,
  In x (flat_map (fun e => [e_from e; e_to e]) (@upd_local RF l f t nv)) ->
  In x (flat_map (fun e => [e_from e; e_to e]) l) \/ x = f \/ x = t.
Proof.
  induction l as [|e l IH]; intros f t nv x H; simpl in H.
  - destruct H as [<-|[<-|[]]]; tauto.
  - destruct ((e_from e =? f)%N && (e_to e =? t)%N) eqn:E.
    + apply andb_true_iff in E. destruct E as [E1 E2]. apply N.eqb_eq in E1. apply N.eqb_eq in E2.
      simpl in H. simpl. destruct H as [<-|[<-|H]]; tauto.
    + simpl in H. simpl. destruct H as [<-|[<-|H]]; try tauto. apply IH in H. tauto.
Qed.

Lemma unknown_step : forall st o i, wf st -> unknown st i -> ~ mentions i o -> unknown (fst (stepR st o)) i.
Proof.
  intros st o i Hwf [Hp [Hc Hn]] Hm. unfold unknown, node_set in *.
  destruct o; cbn [step fst st_pre st_cache st_local st_stats mentions] in *.
  - split; [assumption|]. split; [assumption|]. intro H. apply Hn. apply (proj1 (dedupN_In _ _)) in H. apply dedupN_In.
    apply in_app_or in H. apply in_or_app. destruct H as [H|H]; [|now right].
    apply upd_local_ends in H. destruct H as [H|[H|H]]; [now left|subst; tauto|subst; tauto].
  - split; [assumption|]. split; [assumption|]. intro H. apply Hn. apply (proj1 (dedupN_In _ _)) in H. apply dedupN_In.
    apply in_app_or in H. apply in_or_app. destruct H as [H|H]; [now left|right].
    rewrite map_fst_aset in H. destruct (memN i0 (map fst (st_stats st))); [assumption|].
    apply in_app_or in H. destruct H as [H|[H|[]]]; [assumption|subst; contradiction].
  - split; [|split; [|assumption]].
    + destruct (memN i0 (st_pre st)); [assumption|]. intro H. apply in_app_or in H. destruct H as [H|[H|[]]]; [contradiction|subst; contradiction].
    + rewrite aget_aset. destruct (N.eqb_spec i0 i); [contradiction|assumption].
  - split; [|split; assumption]. intro H. apply filter_In in H. tauto.
  - split; [assumption|]. split.
    + rewrite aget_adel. destruct (i0 =? i)%N; [reflexivity|assumption].
    + intro H. apply Hn. apply (proj1 (dedupN_In _ _)) in H. apply dedupN_In. apply in_app_or in H. apply in_or_app.
      destruct H as [H|H]; [left|now right]. apply in_flat_map in H. destruct H as [e [He Hx]].
      apply filter_In in He. apply in_flat_map. exists e. tauto.
  - split; [assumption|]. split; [|assumption].
    rewrite publish_get by (apply global_trust_nodup; assumption).
    destruct (aget (@global_trust RF ln1p st d) i) eqn:E; [|assumption]. exfalso.
    assert (Hin : In i (map fst (@global_trust RF ln1p st d))).
    { destruct (in_dec N.eq_dec i (map fst (@global_trust RF ln1p st d))) as [H|H]; [assumption|].
      apply aget_None in H. congruence. }
    rewrite global_trust_keys in Hin by assumption. unfold node_set in Hin.
    destruct (dedupN (flat_map (fun e : edge RF => [e_from e; e_to e]) (st_local st) ++ map fst (st_stats st))) eqn:En; [destruct Hin|].
    unfold keys, extra_anchors, node_set in Hin. rewrite En in Hin. apply in_app_or in Hin.
    destruct Hin as [H|H]; [contradiction|]. apply filter_In in H. tauto.
  - split; [assumption|split; assumption].
Qed.

Lemma unknown_run : forall ops st i, wf st -> unknown st i -> Forall (fun o => ~ mentions i o) ops ->
  unknown (fst (runR st ops)) i.
Proof.
  induction ops as [|o ops IH]; intros st i Hwf Hu Hm; [exact Hu|]. inversion Hm; subst.
  rewrite run_cons. cbn [fst]. apply IH; [apply wf_step; assumption|apply unknown_step; assumption|assumption].
Qed.

Lemma unknown_init : forall pre i, ~ In i pre -> unknown (@init RF pre) i.
Proof.
  intros pre i H. unfold unknown, init. cbn [st_pre st_cache]. split; [rewrite dedupN_In; assumption|]. split.
  - apply aget_None. rewrite map_map. cbn [fst]. rewrite map_id. rewrite dedupN_In. assumption.
  - unfold node_set. cbn. intros [].
Qed.

End Ops.

(* ------------------------------------------------------------------ C11 at the level of states *)
Lemma pow_le_one : forall x k, 0 <= x <= 1 -> x ^ k <= 1.
Proof. intros x k H. induction k; simpl; [lra|]. assert (0 <= x ^ k) by (apply pow_le; lra). nra. Qed.

Lemma pow_antitone : forall x m k, 0 <= x <= 1 -> (m <= k)%nat -> x ^ k <= x ^ m.
Proof.
  intros x m k Hx Hmk. replace k with (m + (k - m))%nat by lia. rewrite pow_add.
  pose proof (pow_le_one x (k - m) Hx). assert (0 <= x ^ m) by (apply pow_le; lra). nra.
Qed.

Section C11.
Variable ln1p : N -> R.
Hypothesis Hln : forall x, 0 <= ln1p x.
Variable st : state RF.
Hypothesis Hwf : wf st.
Hypothesis Hne : @node_set RF st <> [].

Let nodes := @node_set RF st.
Let ks := @keys RF st.
Let pre := st_pre st.
Let es := @pos_edges RF (st_local st).

(* equal statistics: every known node has the same multiplier *)
Variable c : R.
Hypothesis Hequal : forall i, In i ks -> @factor RF ln1p (@stats_of RF st i) = c.
Variable d : R.
Hypothesis Hd : 0 <= d.

Lemma c_nonneg : 0 <= c.
Proof.
  destruct ks as [|k r] eqn:E.
  - exfalso. apply Hne. destruct (@node_set RF st) as [|x l] eqn:En; [reflexivity|].
    assert (In x ks) by (apply sf_nk; unfold nodes; rewrite En; now left). rewrite E in H. destruct H.
  - rewrite <- (Hequal k (or_introl eq_refl)). apply factor_nonneg. exact Hln.
Qed.

Lemma equal_total : total ln1p st d = c * d.
Proof.
  unfold total. rewrite (Rsum_map_ext _ (fun i => (c * d) * V (tv st) i)).
  - rewrite Rsum_map_scal. rewrite (proj2 (tv_dist st Hwf Hne)). lra.
  - intros i Hi. unfold weight. rewrite (Hequal i Hi). ring.
Qed.

Lemma equal_score : forall i, In i ks -> score ln1p st d i = if Rlt_dec 0 (c * d) then V (tv st) i else 0.
Proof.
  intros i Hi. unfold score. rewrite equal_total. unfold weight. rewrite (Hequal i Hi).
  pose proof c_nonneg. destruct (Rlt_dec 0 (c * d)).
  - replace (V (tv st) i * c * d) with (V (tv st) i * (c * d)) by ring.
    unfold Rdiv. rewrite Rmult_assoc, Rinv_r by lra. lra.
  - assert (c * d = 0) by nra. rewrite Rmult_assoc, H0. lra.
Qed.

Definition gt : vec RF := @global_trust RF ln1p st d.

Lemma gt_V : forall i, In i ks -> V gt i = if Rlt_dec 0 (c * d) then V (tv st) i else 0.
Proof.
  intros i Hi. unfold gt. rewrite global_trust_V by assumption. fold ks.
  apply memN_In in Hi. rewrite Hi. apply equal_score. apply memN_In. assumption.
Qed.

Lemma gt_sum : Rsum (map (V gt) ks) = if Rlt_dec 0 (c * d) then 1 else 0.
Proof.
  rewrite (Rsum_map_ext _ _ ks gt_V). destruct (Rlt_dec 0 (c * d)).
  - exact (proj2 (tv_dist st Hwf Hne)).
  - apply Rsum_map_const0. reflexivity.
Qed.

(* every anchor keeps alpha/|A| of the total, whatever anybody states *)
Lemma anchor_floor : forall a, In a pre ->
  @alpha RF / INR (length pre) * Rsum (map (V gt) ks) <= V gt a.
Proof.
  intros a Ha. rewrite gt_sum, gt_V by (apply sf_pk; assumption).
  destruct (Rlt_dec 0 (c * d)); [|lra]. rewrite Rmult_1_r. apply tv_floor; assumption.
Qed.

Variable Sy : list N.
Hypothesis HSnd : NoDup Sy.
Hypothesis HSn : incl Sy nodes.
Hypothesis HSpre : forall i, In i Sy -> ~ In i pre.
Hypothesis Hanch : pre <> [].
Hypothesis Hclosed : forall e, In e (st_local st) -> 0 < e_val e -> In (e_to e) Sy -> In (e_from e) Sy.

Lemma closed_es : forall e, In e es -> In (e_to e) Sy -> In (e_from e) Sy.
Proof.
  intros e He. unfold es, pos_edges in He. apply filter_In in He. destruct He as [He E].
  apply ltb_R_true in E. apply Hclosed; assumption.
Qed.

Definition share : R := INR (length Sy) / INR (length nodes).

Lemma share_le_1 : 0 <= share <= 1.
Proof.
  unfold share. pose proof (length_pos_INR nodes Hne) as Hn.
  pose proof (NoDup_incl_length HSnd HSn) as Hl. apply le_INR in Hl. pose proof (pos_INR (length Sy)). split.
  - apply Rdiv_nonneg; lra.
  - apply (Rmult_le_reg_r (INR (length nodes))); [assumption|]. unfold Rdiv. rewrite Rmult_assoc, Rinv_l by lra. lra.
Qed.

Ltac sfs := first [exact (sf_nodes st)|exact Hne|exact (sf_ks st Hwf)|exact (sf_nk st)|exact Hwf|exact (sf_pk st)
                  |exact (sf_nopre st)|exact (sf_pos st)|exact (sf_ends st)|exact HSnd|exact HSn|exact HSpre|exact Hanch|exact closed_es].

(* what the loop leaves in the closed set *)
Lemma power_spec :
  let r := @power RF st in
  massR Sy (fst r) <= (1 - @alpha RF) ^ N.to_nat (snd r) * share /\
  (0 < snd r)%N /\ exit_reason nodes Sy (N.to_nat TRUST_MAX_ITERATIONS) 0 r.
Proof.
  pose proof (iterate_spec nodes ks pre es Hne (sf_ks st Hwf) (sf_nk st) Hwf (sf_pk st) (sf_nopre st) (sf_pos st) (sf_ends st)
                Sy HSnd HSn HSpre Hanch closed_es (N.to_nat TRUST_MAX_ITERATIONS) 0%N (@init_vec RF nodes)) as H.
  specialize (H ltac:(apply init_vec_dist; sfs)). cbv zeta in H. destruct H as [_ [_ [H3 [H4 H5]]]].
  unfold power. fold nodes ks pre es. cbv zeta. rewrite N.sub_0_r in H4.
  rewrite (init_mass nodes Hne Sy HSn) in H4. split; [exact H4|]. split; [|exact H5].
  apply H3. unfold TRUST_MAX_ITERATIONS. discriminate.
Qed.

Definition massGT : R := Rsum (map (V gt) Sy).

Lemma massGT_le : massGT <= massR Sy (tv st).
Proof.
  unfold massGT, massR. apply Rsum_map_le. intros i Hi. rewrite gt_V by (apply sf_nk, HSn, Hi).
  destruct (Rlt_dec 0 (c * d)); [lra|]. apply (proj1 (tv_dist st Hwf Hne)).
Qed.

Lemma one_minus_alpha : 1 - @alpha RF = 3 / 5.
Proof. rewrite alpha_R. lra. Qed.

(* geometric decay with the number of rounds that ran *)
Lemma closed_set_decay : massGT <= (3 / 5) ^ N.to_nat (@rounds_run RF st) * share.
Proof.
  eapply Rle_trans; [apply massGT_le|]. destruct power_spec as [H _]. rewrite one_minus_alpha in H. exact H.
Qed.

Lemma decay_4 : forall k, (4 <= k)%nat -> (3 / 5) ^ k * share <= share / 7.
Proof.
  intros k Hk. pose proof share_le_1. pose proof (pow_antitone (3/5) 4 k ltac:(lra) Hk).
  assert ((3 / 5) ^ 4 = 81 / 625) by (simpl; lra). nra.
Qed.

(* every exit of the loop is taken after at least 4 rounds, so the bound is unconditional *)
Lemma rounds_ge_4 : (4 <= @rounds_run RF st)%N.
Proof.
  destruct power_spec as [_ [_ Hex]]. unfold exit_reason in Hex. unfold rounds_run.
  destruct Hex as [[_ [Hc _]]|[[_ Hc]|[[_ Hc]|Hc]]].
  - unfold TRUST_MIN_ITERATIONS in Hc. lia.
  - unfold TRUST_CUT1_ITER in Hc. lia.
  - unfold TRUST_CUT2_ITER in Hc. lia.
  - rewrite Hc. unfold TRUST_MAX_ITERATIONS. lia.
Qed.

Lemma sybil_seventh : massGT <= share / 7.
Proof.
  eapply Rle_trans; [apply closed_set_decay|]. apply decay_4. pose proof rounds_ge_4. lia.
Qed.

Lemma small_net : (N.of_nat (length nodes) <= 100)%N -> massGT < 1 / 1000.
Proof.
  intro Hn. destruct power_spec as [Hdec [Hpos Hex]]. rewrite one_minus_alpha in Hdec.
  unfold exit_reason in Hex. fold (tv st) in Hex. pose proof massGT_le as Hle. fold (tv st) in Hdec.
  destruct Hex as [[_ [_ Hc]]|[[Hc _]|[[Hc _]|Hc]]].
  - rewrite conv_thr_R in Hc. lra.
  - unfold TRUST_CUT1_N in Hc. lia.
  - unfold TRUST_CUT2_N in Hc. lia.
  - rewrite Hc in Hdec. pose proof share_le_1.
    assert ((3 / 5) ^ N.to_nat (0 + N.of_nat (N.to_nat TRUST_MAX_ITERATIONS)) <= (3 / 5) ^ 14).
    { apply pow_antitone; [lra|]. unfold TRUST_MAX_ITERATIONS. lia. }
    assert ((3 / 5) ^ 14 < 1 / 1000) by (simpl; lra).
    assert (0 <= (3 / 5) ^ N.to_nat (0 + N.of_nat (N.to_nat TRUST_MAX_ITERATIONS))) by (apply pow_le; lra).
    nra.
Qed.

End C11.

(* ------------------------------------------------------------------ history-level statements *)
Section Hist.
Variable ln1p : N -> R.
Hypothesis Hln : forall x, 0 <= ln1p x.

Notation stepR := (@step RF ln1p).
Notation runR := (@run RF ln1p).
Notation GT := (@global_trust RF ln1p).

Definition reach (pre : list N) (ops : list (op RF)) : state RF := fst (runR (@init RF pre) ops).

Lemma reach_wf : forall pre ops, wf (reach pre ops).
Proof. intros. apply wf_run, wf_init. Qed.

Lemma in_nonempty : forall {A} (x : A) l, In x l -> l <> [].
Proof. intros A x l H E. subst. destruct H. Qed.

Lemma hist_distribution : forall pre ops, Forall decay_ok ops ->
  forall m, In (OMap m) (snd (runR (@init RF pre) ops)) -> good_map m.
Proof. intros pre ops Hd m. apply (run_good ln1p Hln); [apply wf_init|assumption]. Qed.

Lemma hist_deterministic : forall pre ops, Forall decay_pos ops ->
  runR (@init RF pre) (map undecay ops) = runR (@init RF pre) ops.
Proof. intros. apply (run_undecay ln1p Hln); [apply wf_init|assumption]. Qed.

Lemma hist_query_last : forall pre ops1 d ops2 i,
  let st := reach pre ops1 in
  In i (map fst (GT st d)) -> Forall (keeps i) ops2 ->
  snd (stepR (fst (runR (fst (stepR st (Compute d))) ops2)) (Query i)) = @OVal RF (V (GT st d) i).
Proof.
  intros pre ops1 d ops2 i st Hi Hk. rewrite query_answer. cbn [snd]. f_equal.
  rewrite keeps_answer by assumption. apply compute_then_query; [apply reach_wf|assumption].
Qed.

Lemma unknown_score_R : @of_Q RF TRUST_UNKNOWN_SCORE = 0.
Proof. unfold of_Q, TRUST_UNKNOWN_SCORE. cbn. lra. Qed.

Lemma hist_query_unknown : forall pre ops i, ~ In i pre -> Forall (fun o => ~ mentions i o) ops ->
  snd (stepR (reach pre ops) (Query i)) = @OVal RF 0.
Proof.
  intros pre ops i Hp Hm. rewrite query_answer. cbn [snd]. f_equal. unfold answer.
  destruct (unknown_run ln1p ops (@init RF pre) i (wf_init pre) (unknown_init pre i Hp) Hm) as [_ [Hc _]].
  fold (reach pre ops) in Hc. rewrite Hc. apply unknown_score_R.
Qed.

Definition is_failure (u : supd) : Prop := u = UFailed \/ u = UUnavailable \/ u = UCorrupted \/ u = UProtocol.

Lemma GT_score : forall st d x, wf st -> In x (@keys RF st) -> @node_set RF st <> [] ->
  V (GT st d) x = score ln1p st d x.
Proof. intros st d x Hwf Hx Hne. rewrite global_trust_V by assumption. apply memN_In in Hx. rewrite Hx. reflexivity. Qed.

Lemma with_stats_wf : forall st i u, wf st -> wf (with_stats ln1p st i u).
Proof. intros. unfold with_stats. apply wf_step. assumption. Qed.

Lemma state_success_monotone : forall st x d, wf st -> 0 <= d -> In x (@node_set RF st) ->
  V (GT st d) x <= V (GT (with_stats ln1p st x UCorrect) d) x.
Proof.
  intros st x d Hwf Hd Hx. pose proof (in_nonempty _ _ Hx) as Hne.
  pose proof (with_stats_node_set ln1p st x UCorrect Hx) as En.
  destruct (power_congr st (with_stats ln1p st x UCorrect) eq_refl eq_refl En) as [_ Ek].
  assert (Hk : In x (@keys RF st)) by (apply sf_nk; assumption).
  rewrite (GT_score st d x Hwf Hk Hne).
  rewrite (GT_score (with_stats ln1p st x UCorrect) d x (with_stats_wf st x _ Hwf)) by (rewrite ?Ek, ?En; assumption).
  apply (score_mono ln1p Hln); try assumption; try reflexivity.
  - intros j Hj. rewrite with_stats_of. destruct (N.eqb_spec x j); [subst; contradiction|reflexivity].
  - rewrite with_stats_of, N.eqb_refl. apply (factor_mono ln1p); try reflexivity; cbn; lia.
Qed.

Lemma state_failure_monotone : forall st x u d, wf st -> 0 <= d -> is_failure u -> In x (@node_set RF st) ->
  V (GT (with_stats ln1p st x u) d) x <= V (GT st d) x.
Proof.
  intros st x u d Hwf Hd Hu Hx. pose proof (in_nonempty _ _ Hx) as Hne.
  pose proof (with_stats_node_set ln1p st x u Hx) as En.
  destruct (power_congr st (with_stats ln1p st x u) eq_refl eq_refl En) as [_ Ek].
  assert (Hk : In x (@keys RF st)) by (apply sf_nk; assumption).
  rewrite (GT_score st d x Hwf Hk Hne).
  rewrite (GT_score (with_stats ln1p st x u) d x (with_stats_wf st x _ Hwf)) by (rewrite ?Ek, ?En; assumption).
  apply (score_mono ln1p Hln); try assumption; try reflexivity.
  - rewrite En. assumption.
  - symmetry. assumption.
  - intros j Hj. rewrite with_stats_of. destruct (N.eqb_spec x j); [subst; contradiction|reflexivity].
  - rewrite with_stats_of, N.eqb_refl.
    destruct Hu as [ -> | [ -> | [ -> | -> ] ] ]; apply (factor_mono ln1p); try reflexivity; cbn; lia.
  - rewrite Ek. assumption.
Qed.

(* a heavier penalty never costs less *)
Lemma state_penalty_order : forall st x u u' d, wf st -> 0 <= d ->
  (u = UCorrupted \/ u = UProtocol) -> (u' = UFailed \/ u' = UUnavailable) ->
  V (GT (with_stats ln1p st x u) d) x <= V (GT (with_stats ln1p st x u') d) x.
Proof.
  intros st x u u' d Hwf Hd Hu Hu'.
  set (st1 := with_stats ln1p st x u). set (st2 := with_stats ln1p st x u').
  assert (H1 : In x (@node_set RF st1)) by apply with_stats_In.
  assert (H2 : In x (@node_set RF st2)) by apply with_stats_In.
  pose proof (with_stats_node_set2 ln1p st x u' u) as En. fold st1 st2 in En.
  destruct (power_congr st1 st2 eq_refl eq_refl En) as [_ Ek].
  assert (Hk : In x (@keys RF st1)) by (apply sf_nk; assumption).
  rewrite (GT_score st1 d x (with_stats_wf st x _ Hwf) Hk (in_nonempty _ _ H1)).
  rewrite (GT_score st2 d x (with_stats_wf st x _ Hwf)) by (rewrite ?Ek; try assumption; apply (in_nonempty _ _ H2)).
  apply (score_mono ln1p Hln); try assumption; try reflexivity.
  - apply (in_nonempty _ _ H1).
  - intros j Hj. unfold st1, st2. rewrite !with_stats_of. destruct (N.eqb_spec x j); [subst; contradiction|reflexivity].
  - unfold st1, st2. rewrite !with_stats_of, N.eqb_refl.
    destruct Hu as [ -> | -> ]; destruct Hu' as [ -> | -> ]; apply (factor_mono ln1p); try reflexivity; cbn;
      unfold TRUST_W_FAILED, TRUST_W_UNAVAILABLE, TRUST_W_CORRUPTED, TRUST_W_PROTOCOL; lia.
Qed.

(* a peer nobody has mentioned has no score before the report and a non-negative one after *)
Lemma state_new_peer : forall st x u d, wf st -> 0 <= d -> ~ In x (@keys RF st) ->
  V (GT st d) x = 0 /\ 0 <= V (GT (with_stats ln1p st x u) d) x.
Proof.
  intros st x u d Hwf Hd Hx. split.
  - destruct (list_eq_dec N.eq_dec (@node_set RF st) []) as [E|Hne].
    + unfold global_trust. rewrite E. reflexivity.
    + rewrite global_trust_V by assumption. apply memN_false in Hx. rewrite Hx. reflexivity.
  - pose proof (with_stats_In ln1p st x u) as Hin.
    pose proof (global_trust_good ln1p Hln (with_stats ln1p st x u) d (with_stats_wf st x u Hwf) Hd) as [Hg _].
    rewrite global_trust_V by (try apply with_stats_wf; try assumption; apply (in_nonempty _ _ Hin)).
    destruct (memN x (@keys RF (with_stats ln1p st x u))) eqn:E; [|lra].
    destruct (scores_dist ln1p Hln (with_stats ln1p st x u) d (with_stats_wf st x u Hwf) (in_nonempty _ _ Hin) Hd) as [A _].
    apply A. apply memN_In. assumption.
Qed.

End Hist.

(* ------------------------------------------------------------------ C11 at the level of histories *)
Section HistC11.
Variable ln1p : N -> R.
Hypothesis Hln : forall x, 0 <= ln1p x.
Notation GT := (@global_trust RF ln1p).

(* "node statistics are equal": every known node has the same multiplier *)
Definition equal_stats (st : state RF) : Prop :=
  forall i j, In i (@keys RF st) -> In j (@keys RF st) ->
              @factor RF ln1p (@stats_of RF st i) = @factor RF ln1p (@stats_of RF st j).

(* a set of identities that receives no (positive) trust statement from outside the set *)
Definition unvouched (st : state RF) (Sy : list N) : Prop :=
  NoDup Sy /\ incl Sy (@node_set RF st) /\ (forall i, In i Sy -> ~ In i (st_pre st)) /\
  (forall e, In e (st_local st) -> 0 < e_val e -> In (e_to e) Sy -> In (e_from e) Sy).

Definition pop_share (st : state RF) (Sy : list N) : R := INR (length Sy) / INR (length (@node_set RF st)).

Lemma mass_GT : forall st d Sy, @mass RF (GT st d) Sy = massGT ln1p st d Sy.
Proof. intros. unfold mass, massGT, gt. rewrite fsum_Rsum. reflexivity. Qed.

Lemma equal_stats_c : forall st, equal_stats st -> @node_set RF st <> [] ->
  exists c, forall i, In i (@keys RF st) -> @factor RF ln1p (@stats_of RF st i) = c.
Proof.
  intros st He Hne. destruct (@node_set RF st) as [|k r] eqn:E; [contradiction|].
  assert (Hk : In k (@keys RF st)) by (apply sf_nk; rewrite E; now left).
  exists (@factor RF ln1p (@stats_of RF st k)). intros i Hi. apply He; assumption.
Qed.

Lemma mass_nil : forall v : vec RF, @mass RF v [] = 0.
Proof. intro v. unfold mass. rewrite fsum_Rsum. reflexivity. Qed.

Lemma hist_closed_set_decay : forall pre ops d Sy,
  let st := reach ln1p pre ops in
  0 <= d -> st_pre st <> [] -> equal_stats st -> unvouched st Sy ->
  @mass RF (GT st d) Sy <= (3 / 5) ^ N.to_nat (@rounds_run RF st) * pop_share st Sy.
Proof.
  intros pre ops d Sy st Hd Ha He [H1 [H2 [H3 H4]]].
  destruct Sy as [|s Sy'] eqn:ES.
  - rewrite mass_nil. unfold pop_share. simpl. unfold Rdiv. rewrite Rmult_0_l, Rmult_0_r. lra.
  - rewrite <- ES in *. assert (Hne : @node_set RF st <> []).
    { apply (in_nonempty s). apply H2. rewrite ES. now left. }
    destruct (equal_stats_c st He Hne) as [c Hc]. rewrite mass_GT.
    exact (closed_set_decay ln1p Hln st (reach_wf ln1p pre ops) Hne c Hc d Hd Sy H1 H2 H3 Ha H4).
Qed.

Lemma hist_rounds_ge_4 : forall pre ops,
  let st := reach ln1p pre ops in
  @node_set RF st <> [] -> st_pre st <> [] -> (4 <= @rounds_run RF st)%N.
Proof.
  intros pre ops st Hne Ha.
  (* the empty set is closed; the exit analysis does not depend on the set *)
  apply (rounds_ge_4 st (reach_wf ln1p pre ops) Hne []); try assumption.
  - constructor.
  - intros x [].
  - intros i [].
  - intros e _ _ [].
Qed.

Lemma hist_sybil_seventh : forall pre ops d Sy,
  let st := reach ln1p pre ops in
  0 <= d -> st_pre st <> [] -> equal_stats st -> unvouched st Sy ->
  @mass RF (GT st d) Sy <= pop_share st Sy / 7.
Proof.
  intros pre ops d Sy st Hd Ha He [H1 [H2 [H3 H4]]].
  destruct Sy as [|s Sy'] eqn:ES.
  - rewrite mass_nil. unfold pop_share. simpl. unfold Rdiv. rewrite !Rmult_0_l. lra.
  - rewrite <- ES in *. assert (Hne : @node_set RF st <> []).
    { apply (in_nonempty s). apply H2. rewrite ES. now left. }
    destruct (equal_stats_c st He Hne) as [c Hc]. rewrite mass_GT.
    exact (sybil_seventh ln1p Hln st (reach_wf ln1p pre ops) Hne c Hc d Hd Sy H1 H2 H3 Ha H4).
Qed.

Lemma hist_small_net : forall pre ops d Sy,
  let st := reach ln1p pre ops in
  0 <= d -> st_pre st <> [] -> equal_stats st -> unvouched st Sy ->
  (length (@node_set RF st) <= 100)%nat ->
  @mass RF (GT st d) Sy < 1 / 1000.
Proof.
  intros pre ops d Sy st Hd Ha He [H1 [H2 [H3 H4]]] Hn.
  destruct Sy as [|s Sy'] eqn:ES.
  - rewrite mass_nil. lra.
  - rewrite <- ES in *. assert (Hne : @node_set RF st <> []).
    { apply (in_nonempty s). apply H2. rewrite ES. now left. }
    destruct (equal_stats_c st He Hne) as [c Hc]. rewrite mass_GT.
    apply (small_net ln1p Hln st (reach_wf ln1p pre ops) Hne c Hc d Hd Sy H1 H2 H3 Ha H4). lia.
Qed.

Lemma hist_anchor_floor : forall pre ops d a,
  let st := reach ln1p pre ops in
  0 <= d -> equal_stats st -> In a (st_pre st) ->
  @alpha RF / INR (length (st_pre st)) * @vsum RF (GT st d) <= @vget RF (GT st d) a.
Proof.
  intros pre ops d a st Hd He Ha.
  destruct (list_eq_dec N.eq_dec (@node_set RF st) []) as [E|Hne].
  - unfold global_trust. rewrite E. unfold vsum, vget. cbn. lra.
  - destruct (equal_stats_c st He Hne) as [c Hc].
    pose proof (anchor_floor ln1p Hln st (reach_wf ln1p pre ops) Hne c Hc d Hd a Ha) as H.
    unfold vsum. rewrite fsum_Rsum. unfold gt in H.
    rewrite (global_trust_R ln1p st d (reach_wf ln1p pre ops) Hne) at 1. rewrite map_snd_map_keys.
    rewrite (Rsum_map_ext (score ln1p st d) (V (GT st d)) (@keys RF st)); [exact H|].
    intros i Hi. symmetry. apply GT_score; try assumption. apply reach_wf.
Qed.

End HistC11.

(* ------------------------------------------------------------------ the corner in which get_trust
   does NOT return the last computed score: add_pre_trusted overwrites it with 0.9 *)
Definition query_full : Prop := forall (ln1p : N -> R) pre ops1 d ops2 i,
  let st := reach ln1p pre ops1 in
  In i (map fst (@global_trust RF ln1p st d)) ->
  Forall (fun o => match o with Compute _ => False | RemoveNode j => j <> i | _ => True end) ops2 ->
  snd (@step RF ln1p (fst (@run RF ln1p (fst (@step RF ln1p st (Compute d))) ops2)) (Query i))
  = @OVal RF (@vget RF (@global_trust RF ln1p st d) i).

Lemma anchor_initial_add_R : @of_Q RF TRUST_ANCHOR_INITIAL_ADD = 9 / 10.
Proof. unfold of_Q, TRUST_ANCHOR_INITIAL_ADD. cbn. lra. Qed.

Lemma query_full_refuted : ~ query_full.
Proof.
  intro H. set (ln0 := fun _ : N => 0).
  assert (Hln : forall x, 0 <= ln0 x) by (intro; unfold ln0; lra).
  specialize (H ln0 [] [UpdStats 1 UCorrect] 1 [@AddPre RF 1] 1%N). cbv zeta in H.
  set (st := reach ln0 [] [UpdStats 1 UCorrect]) in *.
  assert (Hwf : wf st) by apply reach_wf.
  assert (Hks : @keys RF st = [1%N]) by reflexivity.
  assert (Hne : @node_set RF st <> []) by (intro E; discriminate E).
  assert (Hin : In 1%N (map fst (@global_trust RF ln0 st 1))).
  { rewrite (global_trust_R ln0 st 1 Hwf Hne), Hks. simpl. now left. }
  specialize (H Hin). assert (HF : Forall (fun o : op RF => match o with Compute _ => False | RemoveNode j => j <> 1%N | _ => True end) [@AddPre RF 1]).
  { constructor; [exact I|constructor]. }
  specialize (H HF). rewrite query_answer in H. cbn [snd] in H.
  assert (HL : answer (fst (@run RF ln0 (fst (@step RF ln0 st (@Compute RF 1))) [@AddPre RF 1])) 1 = 9 / 10).
  { unfold answer. cbn [run step fst st_cache]. rewrite aget_aset, N.eqb_refl. apply anchor_initial_add_R. }
  rewrite HL in H. injection H as H.
  pose proof (global_trust_good ln0 Hln st 1 Hwf ltac:(lra)) as [_ Hg].
  rewrite (global_trust_R ln0 st 1 Hwf Hne), Hks in Hg, H. cbn [map snd] in Hg.
  unfold vget in H. cbn [map aget] in H. rewrite N.eqb_refl in H.
  destruct Hg as [Hg|Hg].
  - unfold Rsum in Hg. cbn [fold_right] in Hg. lra.
  - specialize (Hg 1%N (score ln0 st 1 1) (or_introl eq_refl)). lra.
Qed.
