(* The unconditional one-seventh bound of C11 is false for the repaired engine: a star-shaped network
   (one anchor, one self-rating identity, thousands of honest nodes without statements) leaves the loop
   through the convergence test after two rounds.  Everything over the exact reals. *)
From Coq Require Import Reals Lra Lia FinFun.
From SV Require Import Lib.Base Lib.GenericField Lib.GenericFieldR Gen.TrustConsts Model.Trust Proofs.Trust.
Local Open Scope R_scope.

(* ------------------------------------------------------------------ the loop can leave early:
   one anchor (2), one identity rating itself (1), honest nodes H that make no statement *)
Section Star.
Variable H : list N.
Hypothesis H1 : ~ In 1%N H.
Hypothesis H2 : ~ In 2%N H.
Hypothesis HH : NoDup H.

Definition star_nodes : list N := 1%N :: 2%N :: H.
Definition star_pre : list N := [2%N].
Definition star_es : list (edge RF) := [@mkEdge RF 1 1 1].

Lemma star_n0 : star_nodes <> []. Proof. discriminate. Qed.
Lemma star_nd : NoDup star_nodes.
Proof.
  unfold star_nodes. constructor; [intros [E|E]; [discriminate|contradiction]|]. constructor; assumption.
Qed.
Lemma star_pre_nd : NoDup star_pre. Proof. repeat constructor. intros []. Qed.
Lemma star_pk : incl star_pre star_nodes. Proof. intros x [<-|[]]. right. now left. Qed.
Lemma star_nopre : star_pre = [] -> star_nodes = star_nodes. Proof. reflexivity. Qed.
Lemma star_pos : forall e, In e star_es -> 0 < e_val e. Proof. intros e [<-|[]]. cbn. lra. Qed.
Lemma star_ends : forall e, In e star_es -> In (e_from e) star_nodes /\ In (e_to e) star_nodes.
Proof. intros e [<-|[]]. cbn. split; now left. Qed.

Ltac star := first [exact star_n0|exact star_nd|exact star_pre_nd|exact star_pk|exact star_nopre|exact star_pos|exact star_ends
                   |exact (incl_refl star_nodes)].

Definition star_next (v : vec RF) : vec RF :=
  fst (@round RF star_nodes star_nodes star_pre star_es (@wedges RF star_es) v).

Lemma star_wes : @wedges RF star_es = [@mkEdge RF 1 1 (1 / (0 + 1))].
Proof. reflexivity. Qed.

Lemma star_has_out : forall k, @has_out RF star_es k = (1 =? k)%N.
Proof. intro k. unfold has_out, star_es. cbn. apply orb_false_r. Qed.

Lemma star_dang : forall v, dist star_nodes v -> dang star_nodes star_es v = 1 - V v 1.
Proof.
  intros v [_ Hs]. unfold dang, star_nodes in *. cbn [filter]. rewrite !star_has_out.
  change (1 =? 1)%N with true. change (1 =? 2)%N with false. cbn [negb].
  rewrite (filter_all_true _ H).
  - cbn [map] in *. rewrite !Rsum_cons in *. lra.
  - intros k Hk. rewrite star_has_out. destruct (N.eqb_spec 1 k); [subst; contradiction|reflexivity].
Qed.

Lemma star_inc : forall v i, inc star_es v i = if (1 =? i)%N then V v 1 else 0.
Proof.
  intros v i. unfold inc. rewrite star_wes. cbn [filter e_to]. destruct (1 =? i)%N; cbn [map e_val e_from]; unfold Rsum; cbn [fold_right]; [field|reflexivity].
Qed.

Lemma star_step : forall v, dist star_nodes v ->
  V (star_next v) 1 = 3 / 5 * V v 1 /\ V (star_next v) 2 = 1 - 3 / 5 * V v 1 /\
  (forall h, In h H -> V (star_next v) h = 0).
Proof.
  intros v Hd. unfold star_next.
  assert (R : forall i, In i star_nodes ->
            V (fst (@round RF star_nodes star_nodes star_pre star_es (@wedges RF star_es) v)) i =
            rawf star_nodes star_nodes star_pre star_es v i).
  { intros i Hi. rewrite round_vget; try star; try assumption. apply memN_In in Hi. rewrite Hi. reflexivity. }
  split; [|split].
  - rewrite R by (now left). unfold rawf. cbn [isnil star_pre]. change (memN 1 star_pre) with false.
    rewrite star_inc. change (1 =? 1)%N with true. rewrite one_minus_alpha. reflexivity.
  - rewrite R by (right; now left). unfold rawf. cbn [isnil star_pre length]. change (memN 2 star_pre) with true.
    rewrite star_inc. change (1 =? 2)%N with false. unfold tmass. rewrite star_dang by assumption.
    rewrite one_minus_alpha, alpha_R. simpl INR. lra.
  - intros h Hh. rewrite R by (right; right; assumption). unfold rawf. cbn [isnil star_pre].
    assert (memN h star_pre = false) as -> by (apply memN_false; intros [E|[]]; subst; contradiction).
    rewrite star_inc. destruct (N.eqb_spec 1 h); [subst; contradiction|lra].
Qed.

Definition star_n : R := INR (length star_nodes).
Hypothesis Hbig : 4800 < star_n.

Definition v0 : vec RF := @init_vec RF star_nodes.
Definition v1 : vec RF := star_next v0.
Definition v2 : vec RF := star_next v1.

Lemma v0_dist : dist star_nodes v0.
Proof. apply init_vec_dist; star. Qed.
Lemma v1_dist : dist star_nodes v1.
Proof. unfold v1, star_next. apply round_dist; try star. apply v0_dist. Qed.

Lemma v0_V : forall i, In i star_nodes -> V v0 i = 1 / star_n.
Proof. intros i Hi. unfold v0. rewrite init_vec_V. apply memN_In in Hi. rewrite Hi. reflexivity. Qed.

Lemma v1_vals : V v1 1 = 3 / 5 / star_n /\ V v1 2 = 1 - 3 / 5 / star_n /\ forall h, In h H -> V v1 h = 0.
Proof.
  destruct (star_step v0 v0_dist) as [A [B C]]. fold v1 in A, B, C.
  rewrite (v0_V 1%N) in A, B by (now left). split; [|split; [|exact C]]; lra.
Qed.

Lemma v2_vals : V v2 1 = 9 / 25 / star_n /\ V v2 2 = 1 - 9 / 25 / star_n /\ forall h, In h H -> V v2 h = 0.
Proof.
  destruct (star_step v1 v1_dist) as [A [B C]]. fold v2 in A, B, C.
  destruct v1_vals as [A1 _]. rewrite A1 in A, B. split; [|split; [|exact C]]; lra.
Qed.

Lemma star_n_inv : 0 < / star_n < / 4800.
Proof.
  split; [apply Rinv_0_lt_compat; lra|]. apply Rinv_lt_contravar; [|exact Hbig]. apply Rmult_lt_0_compat; lra.
Qed.

Lemma diff1_big : @conv_thr RF <= snd (@round RF star_nodes star_nodes star_pre star_es (@wedges RF star_es) v0).
Proof.
  rewrite round_diff. fold (star_next v0). fold v1.
  pose proof (Rsum_ge_member (fun i => Rabs (V v0 i - V v1 i)) star_nodes 2%N ltac:(right; now left) (fun y _ => Rabs_pos _)) as Hm.
  cbv beta in Hm. destruct v1_vals as [_ [B _]]. rewrite B, (v0_V 2%N) in Hm by (right; now left).
  pose proof star_n_inv. rewrite conv_thr_R. eapply Rle_trans; [|exact Hm].
  rewrite Rabs_left1; unfold Rdiv in *; lra.
Qed.

Lemma diff2_small : snd (@round RF star_nodes star_nodes star_pre star_es (@wedges RF star_es) v1) < @conv_thr RF.
Proof.
  rewrite round_diff. fold (star_next v1). fold v2.
  destruct v1_vals as [A1 [B1 C1]]. destruct v2_vals as [A2 [B2 C2]].
  unfold star_nodes. cbn [map]. rewrite !Rsum_cons. rewrite A1, A2, B1, B2.
  rewrite (Rsum_map_const0 (fun i => Rabs (V v1 i - V v2 i)) H).
  2:{ intros h Hh. rewrite (C1 h Hh), (C2 h Hh). rewrite Rminus_0_r. apply Rabs_R0. }
  pose proof star_n_inv. rewrite conv_thr_R.
  rewrite (Rabs_right (3 / 5 / star_n - 9 / 25 / star_n)) by (unfold Rdiv; lra).
  rewrite (Rabs_left1 (1 - 3 / 5 / star_n - (1 - 9 / 25 / star_n))) by (unfold Rdiv; lra).
  unfold Rdiv. lra.
Qed.

Lemma iterate_step : forall nodes ks pre es wes k iter (v : vec RF),
  @iterate RF nodes ks pre es wes (S k) iter v =
  if @ltb RF (snd (@round RF nodes ks pre es wes v)) (@conv_thr RF) then (fst (@round RF nodes ks pre es wes v), (iter + 1)%N)
  else if (TRUST_CUT1_N <? N.of_nat (length nodes))%N && (TRUST_CUT1_ITER <? iter)%N then (fst (@round RF nodes ks pre es wes v), (iter + 1)%N)
  else if (TRUST_CUT2_N <? N.of_nat (length nodes))%N && (TRUST_CUT2_ITER <? iter)%N then (fst (@round RF nodes ks pre es wes v), (iter + 1)%N)
  else @iterate RF nodes ks pre es wes k (iter + 1)%N (fst (@round RF nodes ks pre es wes v)).
Proof. intros. cbn [iterate]. destruct (@round RF nodes ks pre es wes v); reflexivity. Qed.

(* the loop leaves after two rounds *)
Lemma star_loop :
  @iterate RF star_nodes star_nodes star_pre star_es (@wedges RF star_es) (N.to_nat TRUST_MAX_ITERATIONS) 0 v0 = (v2, 2%N).
Proof.
  change (N.to_nat TRUST_MAX_ITERATIONS) with (S (S 48)).
  rewrite iterate_step. rewrite (proj2 (ltb_R_false _ _) diff1_big).
  change (TRUST_CUT1_ITER <? 0)%N with false. change (TRUST_CUT2_ITER <? 0)%N with false. rewrite !andb_false_r.
  fold (star_next v0). fold v1. rewrite iterate_step. rewrite (proj2 (ltb_R_true _ _) diff2_small).
  fold (star_next v1). fold v2. reflexivity.
Qed.

Lemma star_mass : INR (length [1%N]) / star_n / 7 < massR [1%N] v2.
Proof.
  unfold massR. cbn [map length]. rewrite Rsum_cons. destruct v2_vals as [A _]. rewrite A.
  pose proof star_n_inv. simpl INR. unfold Rsum, fold_right, Rdiv. lra.
Qed.

End Star.

(* ---- a concrete instance: 4998 honest nodes ---- *)
Definition star_H : list N := map N.of_nat (seq 3 (N.to_nat 4998)).

Lemma star_H_notin : forall k, (k < 3)%N -> ~ In k star_H.
Proof.
  intros k Hk Hin. unfold star_H in Hin. apply in_map_iff in Hin. destruct Hin as [x [E Hx]].
  apply in_seq in Hx. lia.
Qed.

Lemma star_H_nodup : NoDup star_H.
Proof.
  unfold star_H. apply Injective_map_NoDup; [|apply seq_NoDup]. intros x y E. lia.
Qed.

Lemma star_H_big : 4800 < star_n star_H.
Proof.
  unfold star_n, star_nodes, star_H. cbn [length]. rewrite map_length, seq_length.
  rewrite !S_INR, INR_IZR_INZ, N_nat_Z. cbn. lra.
Qed.

Lemma star_H_ne : star_H <> [].
Proof. unfold star_H. intro E. apply (f_equal (@length N)) in E. rewrite map_length, seq_length in E. discriminate E. Qed.

Global Opaque star_H.

(* the unconditional one-seventh bound, at the level of the loop *)
Definition loop_seventh_full : Prop :=
  forall (nodes ks pre : list N) (es : list (edge RF)),
  nodes <> [] -> NoDup nodes -> NoDup ks -> incl nodes ks -> NoDup pre -> incl pre ks -> (pre = [] -> ks = nodes) ->
  (forall e, In e es -> 0 < e_val e) ->
  (forall e, In e es -> In (e_from e) ks /\ In (e_to e) ks) ->
  forall Sy : list N,
  NoDup Sy -> incl Sy nodes -> (forall i, In i Sy -> ~ In i pre) -> pre <> [] ->
  (forall e, In e es -> In (e_to e) Sy -> In (e_from e) Sy) ->
  massR Sy (fst (@iterate RF nodes ks pre es (@wedges RF es) (N.to_nat TRUST_MAX_ITERATIONS) 0 (@init_vec RF nodes)))
  <= INR (length Sy) / INR (length nodes) / 7.

Lemma loop_seventh_refuted : ~ loop_seventh_full.
Proof.
  intro Hfull.
  pose proof (star_H_notin 1 ltac:(lia)) as N1. pose proof (star_H_notin 2 ltac:(lia)) as N2.
  specialize (Hfull (star_nodes star_H) (star_nodes star_H) star_pre star_es
                (star_n0 star_H) (star_nd star_H N1 N2 star_H_nodup) (star_nd star_H N1 N2 star_H_nodup)
                (incl_refl _) star_pre_nd (star_pk star_H) (star_nopre star_H) star_pos (star_ends star_H) [1%N]).
  assert (Hle : massR [1%N] (fst (@iterate RF (star_nodes star_H) (star_nodes star_H) star_pre star_es (@wedges RF star_es)
                                  (N.to_nat TRUST_MAX_ITERATIONS) 0 (@init_vec RF (star_nodes star_H))))
                <= INR (length [1%N]) / INR (length (star_nodes star_H)) / 7).
  { apply Hfull.
    - repeat constructor. intros [].
    - intros x [<-|[]]. now left.
    - intros i [<-|[]] [E|[]]. discriminate.
    - discriminate.
    - intros e [<-|[]] _. now left. }
  fold (v0 star_H) in Hle. rewrite (star_loop star_H N1 N2 star_H_nodup star_H_big) in Hle. cbn [fst] in Hle.
  pose proof (star_mass star_H N1 N2 star_H_nodup star_H_big) as Hgt. unfold star_n in Hgt. lra.
Qed.

(* ---- the same configuration is reachable: a history that builds it ---- *)
Section StarHist.
Variable ln1p : N -> R.
Hypothesis Hln : forall x, 0 <= ln1p x.

Definition mk0 (h : N) : edge RF := @mkEdge RF 2 h 0.
Definition e11 : edge RF := @mkEdge RF 1 1 1.
Definition star_ops (H : list N) : list (op RF) :=
  @UpdLocal RF 1 1 true :: map (fun h => @UpdLocal RF 2 h false) H.

Lemma upd_local_fresh : forall (L : list (edge RF)) f t nv,
  (forall e, In e L -> ~ (e_from e = f /\ e_to e = t)) ->
  @upd_local RF L f t nv = L ++ [@mkEdge RF f t nv].
Proof.
  induction L as [|e L IH]; intros f t nv Hf; [reflexivity|]. cbn [upd_local].
  destruct ((e_from e =? f)%N && (e_to e =? t)%N) eqn:E.
  - exfalso. apply andb_true_iff in E. destruct E as [E1 E2]. apply N.eqb_eq in E1. apply N.eqb_eq in E2.
    apply (Hf e (or_introl eq_refl)). tauto.
  - cbn [app]. f_equal. apply IH. intros e' He'. apply Hf. now right.
Qed.

Lemma run_false_edges : forall (H : list N) (L : list (edge RF)) S P C,
  (forall e, In e L -> e_from e = 2%N -> ~ In (e_to e) H) -> NoDup H ->
  fst (@run RF ln1p (@mkSt RF L S P C) (map (fun h => @UpdLocal RF 2 h false) H)) = @mkSt RF (L ++ map mk0 H) S P C.
Proof.
  induction H as [|h H IH]; intros L S P C HL Hnd.
  - cbn. rewrite app_nil_r. reflexivity.
  - inversion Hnd as [|? ? Hh Hnd']; subst. cbn [map]. rewrite run_cons. cbn [fst step st_local st_stats st_pre st_cache].
    rewrite upd_local_fresh.
    + rewrite IH; [|intros e He Ef|assumption].
      * rewrite <- app_assoc. reflexivity.
      * apply in_app_or in He. destruct He as [He|[<-|[]]].
        -- intro Hin. apply (HL e He Ef). now right.
        -- cbn. assumption.
    + intros e He [Ef Et]. apply (HL e He Ef). rewrite Et. now left.
Qed.

Definition star_st (H : list N) : state RF := reach ln1p [2%N] (star_ops H).

Lemma star_st_eq : forall H, NoDup H ->
  star_st H = @mkSt RF (e11 :: map mk0 H) [] [2%N] [(2%N, @of_Q RF TRUST_ANCHOR_INITIAL)].
Proof.
  intros H Hnd. unfold star_st, reach, star_ops. rewrite run_cons. cbn [fst step init st_local st_stats st_pre st_cache upd_local dedupN filter map].
  rewrite run_false_edges; [reflexivity| |assumption].
  intros e [<-|[]] Ef. cbn in Ef. discriminate.
Qed.

Lemma dedupN_pairs : forall H, NoDup H -> ~ In 2%N H ->
  dedupN (flat_map (fun h => [2%N; h]) H) = match H with [] => [] | _ => 2%N :: H end.
Proof.
  induction H as [|h H IH]; intros Hnd H2; [reflexivity|]. inversion Hnd as [|? ? Hh Hnd']; subst.
  cbn [flat_map app dedupN]. rewrite IH by (try assumption; intro; apply H2; now right).
  assert (h <> 2%N) by (intro; subst; apply H2; now left).
  assert (F2 : filter (fun y => negb (y =? 2)%N) H = H).
  { apply filter_all_true. intros y Hy. destruct (N.eqb_spec y 2); [subst; exfalso; apply H2; now right|reflexivity]. }
  assert (Fh : filter (fun y => negb (y =? h)%N) H = H).
  { apply filter_all_true. intros y Hy. destruct (N.eqb_spec y h); [subst; contradiction|reflexivity]. }
  destruct H as [|h' H'].
  - cbn [filter]. destruct (N.eqb_spec h 2); [contradiction|]. reflexivity.
  - remember (h' :: H') as X. cbn [filter].
    destruct (N.eqb_spec 2 h) as [E|_]; [symmetry in E; contradiction|]. cbn [negb filter].
    destruct (N.eqb_spec h 2) as [E|_]; [contradiction|]. cbn [negb]. rewrite N.eqb_refl. cbn [negb].
    rewrite Fh, F2. reflexivity.
Qed.

Lemma star_node_set : forall H, H <> [] -> NoDup H -> ~ In 1%N H -> ~ In 2%N H ->
  @node_set RF (star_st H) = star_nodes H.
Proof.
  intros H Hne Hnd H1 H2. rewrite star_st_eq by assumption. unfold node_set. cbn [st_local st_stats map flat_map e_from e_to e11 app].
  rewrite app_nil_r.
  assert (E : flat_map (fun e : edge RF => [e_from e; e_to e]) (map mk0 H) = flat_map (fun h => [2%N; h]) H).
  { clear. induction H as [|h H IH]; [reflexivity|]. cbn. rewrite IH. reflexivity. }
  rewrite E. cbn [dedupN]. rewrite dedupN_pairs by assumption. destruct H as [|h H']; [contradiction|].
  unfold star_nodes. remember (h :: H') as X in *.
  assert (F1 : filter (fun y => negb (y =? 1)%N) X = X).
  { apply filter_all_true. intros y Hy. destruct (N.eqb_spec y 1); [subst y; contradiction|reflexivity]. }
  cbn [filter]. change (2 =? 1)%N with false. cbn [negb]. rewrite F1.
  change (1 =? 1)%N with true. cbn [negb filter]. change (2 =? 1)%N with false. cbn [negb]. rewrite F1. reflexivity.
Qed.

Lemma star_keys : forall H, H <> [] -> NoDup H -> ~ In 1%N H -> ~ In 2%N H -> @keys RF (star_st H) = star_nodes H.
Proof.
  intros H Hne Hnd H1 H2. unfold keys, extra_anchors. rewrite star_node_set by assumption.
  rewrite star_st_eq by assumption. cbn [st_pre filter]. change (memN 2 (star_nodes H)) with true. cbn [negb]. apply app_nil_r.
Qed.

Lemma star_pos_edges : forall H, NoDup H -> @pos_edges RF (st_local (star_st H)) = star_es.
Proof.
  intros H Hnd. rewrite star_st_eq by assumption. unfold pos_edges. cbn [st_local filter e_val e11].
  assert (@ltb RF (@zero RF) 1 = true) as -> by (apply ltb_R_true; cbn; lra).
  assert (E : filter (fun e : edge RF => @ltb RF (@zero RF) (e_val e)) (map mk0 H) = []).
  { clear. induction H as [|h H IH]; [reflexivity|]. cbn [map filter mk0 e_val].
    assert (@ltb RF (@zero RF) 0 = false) as -> by (apply ltb_R_false; cbn; lra). exact IH. }
  rewrite E. reflexivity.
Qed.

Lemma star_power : forall H, H <> [] -> NoDup H -> forall (H1 : ~ In 1%N H) (H2 : ~ In 2%N H), 4800 < star_n H ->
  @power RF (star_st H) = (v2 H, 2%N).
Proof.
  intros H Hne Hnd H1 H2 Hbig. unfold power. rewrite star_node_set, star_keys, star_pos_edges by assumption.
  assert (st_pre (star_st H) = star_pre) as -> by (rewrite star_st_eq by assumption; reflexivity).
  apply star_loop; assumption.
Qed.

End StarHist.

(* ---- the property as written (unconditional one-seventh bound) is FALSE for the repaired engine ---- *)
Definition seventh_full (ln1p : N -> R) : Prop := forall pre ops d Sy,
  let st := reach ln1p pre ops in
  0 <= d -> st_pre st <> [] -> equal_stats ln1p st -> unvouched st Sy ->
  @mass RF (@global_trust RF ln1p st d) Sy <= pop_share st Sy / 7.

Lemma w_rate_R : @of_Q RF TRUST_MF_W_RATE = 2 / 5.
Proof. unfold of_Q, TRUST_MF_W_RATE. cbn. lra. Qed.

Lemma factor_s0_pos : forall ln1p, (forall x, 0 <= ln1p x) -> 0 < @factor RF ln1p s0.
Proof.
  intros ln1p Hln. rewrite factor_split. pose proof (restR_nonneg ln1p Hln s0).
  assert (rrR s0 = 1 / 2) as -> by (unfold rrR, response_rate; cbn [s_ok s_fail s0]; change (0 <? 0 + 0)%N with false; apply default_rate_R).
  rewrite w_rate_R. lra.
Qed.

Lemma seventh_full_refuted : forall ln1p, (forall x, 0 <= ln1p x) -> ~ seventh_full ln1p.
Proof.
  intros ln1p Hln Hfull.
  pose proof (star_H_notin 1 ltac:(lia)) as N1. pose proof (star_H_notin 2 ltac:(lia)) as N2.
  pose proof star_H_ne as HHne.
  specialize (Hfull [2%N] (star_ops star_H) 1 [1%N]). cbv zeta in Hfull. fold (star_st ln1p star_H) in Hfull.
  pose proof (star_st_eq ln1p star_H star_H_nodup) as Est.
  pose proof (star_node_set ln1p star_H HHne star_H_nodup N1 N2) as Ens.
  pose proof (star_keys ln1p star_H HHne star_H_nodup N1 N2) as Eks.
  pose proof (star_power ln1p star_H HHne star_H_nodup N1 N2 star_H_big) as Epow.
  set (st := star_st ln1p star_H) in *.
  assert (Hwf : wf st) by (unfold st, star_st; apply reach_wf).
  assert (Hne : @node_set RF st <> []) by (rewrite Ens; discriminate).
  assert (Hstats : forall i, @stats_of RF st i = s0) by (intro i; unfold stats_of; rewrite Est; reflexivity).
  assert (Heq : forall i, In i (@keys RF st) -> @factor RF ln1p (@stats_of RF st i) = @factor RF ln1p s0)
    by (intros i _; rewrite Hstats; reflexivity).
  assert (Hle : @mass RF (@global_trust RF ln1p st 1) [1%N] <= pop_share st [1%N] / 7).
  { apply Hfull.
    - lra.
    - rewrite Est. discriminate.
    - intros i j _ _. rewrite !Hstats. reflexivity.
    - split; [repeat constructor; intros []|]. split; [intros x [<-|[]]; rewrite Ens; now left|].
      split; [intros i [<-|[]]; rewrite Est; intros [E|[]]; discriminate|].
      intros e He Hv Ht. rewrite Est in He. cbn [st_local] in He. destruct He as [<-|He]; [now left|].
      apply in_map_iff in He. destruct He as [h [<- _]]. cbn in Hv. lra. }
  rewrite (mass_GT ln1p) in Hle. unfold massGT in Hle. cbn [map] in Hle. rewrite Rsum_cons in Hle.
  rewrite (gt_V ln1p Hln st Hwf Hne (@factor RF ln1p s0) Heq 1 ltac:(lra) 1%N) in Hle by (rewrite Eks; now left).
  pose proof (factor_s0_pos ln1p Hln) as Hc.
  destruct (Rlt_dec 0 (@factor RF ln1p s0 * 1)) as [_|Hn]; [|lra].
  unfold tv in Hle. rewrite Epow in Hle. cbn [fst] in Hle.
  destruct (v2_vals star_H N1 N2 star_H_nodup) as [A _]. rewrite A in Hle.
  unfold pop_share in Hle. rewrite Ens in Hle. fold (star_n star_H) in Hle.
  pose proof (star_n_inv star_H star_H_big). cbn [length] in Hle. simpl INR in Hle.
  unfold Rsum, fold_right, Rdiv in Hle. lra.
Qed.
