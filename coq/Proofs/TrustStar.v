(* Why the convergence exit must not be taken before the fourth round (repair F11b).
   [iterate_old] is a faithful copy of the loop as it was before that repair (convergence exit allowed
   from the first round on).  For it the unconditional one-seventh bound of C11 is FALSE: a star-shaped
   network (one anchor, one self-rating identity, thousands of honest nodes without statements) leaves
   the old loop through the convergence test after two rounds with 0.36 of the identity's share.
   Everything over the exact reals.  The repaired loop ([iterate] in Model/Trust.v) satisfies the
   bound for every network: Proofs/Trust.v, [sybil_seventh]. *)
From Coq Require Import Reals Lra Lia FinFun.
From SV Require Import Lib.Base Lib.GenericField Lib.GenericFieldR Gen.TrustConsts Model.Trust Proofs.Trust.
Local Open Scope R_scope.

(* the loop before repair F11b: identical to [iterate] except that the convergence exit has no
   minimum number of rounds *)
Fixpoint iterate_old (nodes ks pre : list N) (es wes : list (edge RF)) (fuel : nat) (iter : N) (v : vec RF) : vec RF * N :=
  match fuel with
  | O => (v, iter)
  | S k =>
      let '(nv, diff) := @round RF nodes ks pre es wes v in
      if @ltb RF diff (@conv_thr RF) then (nv, iter + 1)%N
      else if (TRUST_CUT1_N <? N.of_nat (length nodes))%N && (TRUST_CUT1_ITER <? iter)%N then (nv, iter + 1)%N
      else if (TRUST_CUT2_N <? N.of_nat (length nodes))%N && (TRUST_CUT2_ITER <? iter)%N then (nv, iter + 1)%N
      else iterate_old nodes ks pre es wes k (iter + 1)%N nv
  end.

(* ------------------------------------------------------------------ the OLD loop can leave early:
   one anchor (2), one identity rating itself (1), honest nodes H that make no statement *)
Section Star.
Variable H : list N.
Hypothesis H1 : ~ In 1%N H.
Hypothesis H2 : ~ In 2%N H.
Hypothesis HH : NoDup H.

Definition star_nodes : list N := 1%N :: 2%N :: H.
Definition star_pre : list N := [2%N].
Definition star_es : list (edge RF) := [@mkEdge RF 1 1 1].

Lemma star_n0 : star_nodes <> []. Proof. discriminate. Qed.
Lemma star_nd : NoDup star_nodes.
Proof.
  unfold star_nodes. constructor; [intros [E|E]; [discriminate|contradiction]|]. constructor; assumption.
Qed.
Lemma star_pre_nd : NoDup star_pre. Proof. repeat constructor. intros []. Qed.
Lemma star_pk : incl star_pre star_nodes. Proof. intros x [<-|[]]. right. now left. Qed.
Lemma star_nopre : star_pre = [] -> star_nodes = star_nodes. Proof. reflexivity. Qed.
Lemma star_pos : forall e, In e star_es -> 0 < e_val e. Proof. intros e [<-|[]]. cbn. lra. Qed.
Lemma star_ends : forall e, In e star_es -> In (e_from e) star_nodes /\ In (e_to e) star_nodes.
Proof. intros e [<-|[]]. cbn. split; now left. Qed.

Ltac star := first [exact star_n0|exact star_nd|exact star_pre_nd|exact star_pk|exact star_nopre|exact star_pos|exact star_ends
                   |exact (incl_refl star_nodes)].

Definition star_next (v : vec RF) : vec RF :=
  fst (@round RF star_nodes star_nodes star_pre star_es (@wedges RF star_es) v).

Lemma star_wes : @wedges RF star_es = [@mkEdge RF 1 1 (1 / (0 + 1))].
Proof. reflexivity. Qed.

Lemma star_has_out : forall k, @has_out RF star_es k = (1 =? k)%N.
Proof. intro k. unfold has_out, star_es. cbn. apply orb_false_r. Qed.

Lemma star_dang : forall v, dist star_nodes v -> dang star_nodes star_es v = 1 - V v 1.
Proof.
  intros v [_ Hs]. unfold dang, star_nodes in *. cbn [filter]. rewrite !star_has_out.
  change (1 =? 1)%N with true. change (1 =? 2)%N with false. cbn [negb].
  rewrite (filter_all_true _ H).
  - cbn [map] in *. rewrite !Rsum_cons in *. lra.
  - intros k Hk. rewrite star_has_out. destruct (N.eqb_spec 1 k); [subst; contradiction|reflexivity].
Qed.

Lemma star_inc : forall v i, inc star_es v i = if (1 =? i)%N then V v 1 else 0.
Proof.
  intros v i. unfold inc. rewrite star_wes. cbn [filter e_to]. destruct (1 =? i)%N; cbn [map e_val e_from]; unfold Rsum; cbn [fold_right]; [field|reflexivity].
Qed.

Lemma star_step : forall v, dist star_nodes v ->
  V (star_next v) 1 = 3 / 5 * V v 1 /\ V (star_next v) 2 = 1 - 3 / 5 * V v 1 /\
  (forall h, In h H -> V (star_next v) h = 0).
Proof.
  intros v Hd. unfold star_next.
  assert (R : forall i, In i star_nodes ->
            V (fst (@round RF star_nodes star_nodes star_pre star_es (@wedges RF star_es) v)) i =
            rawf star_nodes star_nodes star_pre star_es v i).
  { intros i Hi. rewrite round_vget; try star; try assumption. apply memN_In in Hi. rewrite Hi. reflexivity. }
  split; [|split].
  - rewrite R by (now left). unfold rawf. cbn [isnil star_pre]. change (memN 1 star_pre) with false.
    rewrite star_inc. change (1 =? 1)%N with true. rewrite one_minus_alpha. reflexivity.
  - rewrite R by (right; now left). unfold rawf. cbn [isnil star_pre length]. change (memN 2 star_pre) with true.
    rewrite star_inc. change (1 =? 2)%N with false. unfold tmass. rewrite star_dang by assumption.
    rewrite one_minus_alpha, alpha_R. simpl INR. lra.
  - intros h Hh. rewrite R by (right; right; assumption). unfold rawf. cbn [isnil star_pre].
    assert (memN h star_pre = false) as -> by (apply memN_false; intros [E|[]]; subst; contradiction).
    rewrite star_inc. destruct (N.eqb_spec 1 h); [subst; contradiction|lra].
Qed.

Definition star_n : R := INR (length star_nodes).
Hypothesis Hbig : 4800 < star_n.

Definition v0 : vec RF := @init_vec RF star_nodes.
Definition v1 : vec RF := star_next v0.
Definition v2 : vec RF := star_next v1.

Lemma v0_dist : dist star_nodes v0.
Proof. apply init_vec_dist; star. Qed.
Lemma v1_dist : dist star_nodes v1.
Proof. unfold v1, star_next. apply round_dist; try star. apply v0_dist. Qed.

Lemma v0_V : forall i, In i star_nodes -> V v0 i = 1 / star_n.
Proof. intros i Hi. unfold v0. rewrite init_vec_V. apply memN_In in Hi. rewrite Hi. reflexivity. Qed.

Lemma v1_vals : V v1 1 = 3 / 5 / star_n /\ V v1 2 = 1 - 3 / 5 / star_n /\ forall h, In h H -> V v1 h = 0.
Proof.
  destruct (star_step v0 v0_dist) as [A [B C]]. fold v1 in A, B, C.
  rewrite (v0_V 1%N) in A, B by (now left). split; [|split; [|exact C]]; lra.
Qed.

Lemma v2_vals : V v2 1 = 9 / 25 / star_n /\ V v2 2 = 1 - 9 / 25 / star_n /\ forall h, In h H -> V v2 h = 0.
Proof.
  destruct (star_step v1 v1_dist) as [A [B C]]. fold v2 in A, B, C.
  destruct v1_vals as [A1 _]. rewrite A1 in A, B. split; [|split; [|exact C]]; lra.
Qed.

Lemma star_n_inv : 0 < / star_n < / 4800.
Proof.
  split; [apply Rinv_0_lt_compat; lra|]. apply Rinv_lt_contravar; [|exact Hbig]. apply Rmult_lt_0_compat; lra.
Qed.

Lemma diff1_big : @conv_thr RF <= snd (@round RF star_nodes star_nodes star_pre star_es (@wedges RF star_es) v0).
Proof.
  rewrite round_diff. fold (star_next v0). fold v1.
  pose proof (Rsum_ge_member (fun i => Rabs (V v0 i - V v1 i)) star_nodes 2%N ltac:(right; now left) (fun y _ => Rabs_pos _)) as Hm.
  cbv beta in Hm. destruct v1_vals as [_ [B _]]. rewrite B, (v0_V 2%N) in Hm by (right; now left).
  pose proof star_n_inv. rewrite conv_thr_R. eapply Rle_trans; [|exact Hm].
  rewrite Rabs_left1; unfold Rdiv in *; lra.
Qed.

Lemma diff2_small : snd (@round RF star_nodes star_nodes star_pre star_es (@wedges RF star_es) v1) < @conv_thr RF.
Proof.
  rewrite round_diff. fold (star_next v1). fold v2.
  destruct v1_vals as [A1 [B1 C1]]. destruct v2_vals as [A2 [B2 C2]].
  unfold star_nodes. cbn [map]. rewrite !Rsum_cons. rewrite A1, A2, B1, B2.
  rewrite (Rsum_map_const0 (fun i => Rabs (V v1 i - V v2 i)) H).
  2:{ intros h Hh. rewrite (C1 h Hh), (C2 h Hh). rewrite Rminus_0_r. apply Rabs_R0. }
  pose proof star_n_inv. rewrite conv_thr_R.
  rewrite (Rabs_right (3 / 5 / star_n - 9 / 25 / star_n)) by (unfold Rdiv; lra).
  rewrite (Rabs_left1 (1 - 3 / 5 / star_n - (1 - 9 / 25 / star_n))) by (unfold Rdiv; lra).
  unfold Rdiv. lra.
Qed.

Lemma iterate_old_step : forall nodes ks pre es wes k iter (v : vec RF),
  iterate_old nodes ks pre es wes (S k) iter v =
  if @ltb RF (snd (@round RF nodes ks pre es wes v)) (@conv_thr RF) then (fst (@round RF nodes ks pre es wes v), (iter + 1)%N)
  else if (TRUST_CUT1_N <? N.of_nat (length nodes))%N && (TRUST_CUT1_ITER <? iter)%N then (fst (@round RF nodes ks pre es wes v), (iter + 1)%N)
  else if (TRUST_CUT2_N <? N.of_nat (length nodes))%N && (TRUST_CUT2_ITER <? iter)%N then (fst (@round RF nodes ks pre es wes v), (iter + 1)%N)
  else iterate_old nodes ks pre es wes k (iter + 1)%N (fst (@round RF nodes ks pre es wes v)).
Proof. intros. cbn [iterate_old]. destruct (@round RF nodes ks pre es wes v); reflexivity. Qed.

(* the old loop leaves after two rounds *)
Lemma star_loop :
  iterate_old star_nodes star_nodes star_pre star_es (@wedges RF star_es) (N.to_nat TRUST_MAX_ITERATIONS) 0 v0 = (v2, 2%N).
Proof.
  change (N.to_nat TRUST_MAX_ITERATIONS) with (S (S 48)).
  rewrite iterate_old_step. rewrite (proj2 (ltb_R_false _ _) diff1_big).
  change (TRUST_CUT1_ITER <? 0)%N with false. change (TRUST_CUT2_ITER <? 0)%N with false. rewrite !andb_false_r.
  fold (star_next v0). fold v1. rewrite iterate_old_step. rewrite (proj2 (ltb_R_true _ _) diff2_small).
  fold (star_next v1). fold v2. reflexivity.
Qed.

Lemma star_mass : INR (length [1%N]) / star_n / 7 < massR [1%N] v2.
Proof.
  unfold massR. cbn [map length]. rewrite Rsum_cons. destruct v2_vals as [A _]. rewrite A.
  pose proof star_n_inv. simpl INR. unfold Rsum, fold_right, Rdiv. lra.
Qed.

End Star.

(* ---- a concrete instance: 4998 honest nodes ---- *)
Definition star_H : list N := map N.of_nat (seq 3 (N.to_nat 4998)).

Lemma star_H_notin : forall k, (k < 3)%N -> ~ In k star_H.
Proof.
  intros k Hk Hin. unfold star_H in Hin. apply in_map_iff in Hin. destruct Hin as [x [E Hx]].
  apply in_seq in Hx. lia.
Qed.

Lemma star_H_nodup : NoDup star_H.
Proof.
  unfold star_H. apply Injective_map_NoDup; [|apply seq_NoDup]. intros x y E. lia.
Qed.

Lemma star_H_big : 4800 < star_n star_H.
Proof.
  unfold star_n, star_nodes, star_H. cbn [length]. rewrite map_length, seq_length.
  rewrite !S_INR, INR_IZR_INZ, N_nat_Z. cbn. lra.
Qed.

Lemma star_H_ne : star_H <> [].
Proof. unfold star_H. intro E. apply (f_equal (@length N)) in E. rewrite map_length, seq_length in E. discriminate E. Qed.

Global Opaque star_H.

(* the unconditional one-seventh bound for the OLD loop *)
Definition old_loop_seventh_full : Prop :=
  forall (nodes ks pre : list N) (es : list (edge RF)),
  nodes <> [] -> NoDup nodes -> NoDup ks -> incl nodes ks -> NoDup pre -> incl pre ks -> (pre = [] -> ks = nodes) ->
  (forall e, In e es -> 0 < e_val e) ->
  (forall e, In e es -> In (e_from e) ks /\ In (e_to e) ks) ->
  forall Sy : list N,
  NoDup Sy -> incl Sy nodes -> (forall i, In i Sy -> ~ In i pre) -> pre <> [] ->
  (forall e, In e es -> In (e_to e) Sy -> In (e_from e) Sy) ->
  massR Sy (fst (iterate_old nodes ks pre es (@wedges RF es) (N.to_nat TRUST_MAX_ITERATIONS) 0 (@init_vec RF nodes)))
  <= INR (length Sy) / INR (length nodes) / 7.

Lemma old_loop_seventh_refuted : ~ old_loop_seventh_full.
Proof.
  intro Hfull.
  pose proof (star_H_notin 1 ltac:(lia)) as N1. pose proof (star_H_notin 2 ltac:(lia)) as N2.
  specialize (Hfull (star_nodes star_H) (star_nodes star_H) star_pre star_es
                (star_n0 star_H) (star_nd star_H N1 N2 star_H_nodup) (star_nd star_H N1 N2 star_H_nodup)
                (incl_refl _) star_pre_nd (star_pk star_H) (star_nopre star_H) star_pos (star_ends star_H) [1%N]).
  assert (Hle : massR [1%N] (fst (iterate_old (star_nodes star_H) (star_nodes star_H) star_pre star_es (@wedges RF star_es)
                                  (N.to_nat TRUST_MAX_ITERATIONS) 0 (@init_vec RF (star_nodes star_H))))
                <= INR (length [1%N]) / INR (length (star_nodes star_H)) / 7).
  { apply Hfull.
    - repeat constructor. intros [].
    - intros x [<-|[]]. now left.
    - intros i [<-|[]] [E|[]]. discriminate.
    - discriminate.
    - intros e [<-|[]] _. now left. }
  fold (v0 star_H) in Hle. rewrite (star_loop star_H N1 N2 star_H_nodup star_H_big) in Hle. cbn [fst] in Hle.
  pose proof (star_mass star_H N1 N2 star_H_nodup star_H_big) as Hgt. unfold star_n in Hgt. lra.
Qed.
