(* Lemmas and invariants for Model/Diversity.v (C13). *)
From SV Require Import Lib.Base Gen.DiversityConsts Model.Diversity.
Local Open Scope N_scope.

(* ------------------------------------------------------------------ *)
(* counter maps                                                        *)
(* ------------------------------------------------------------------ *)
Lemma del_cons : forall a v t k, del ((a, v) :: t) k = if (a =? k) then del t k else (a, v) :: del t k.
Proof. intros. unfold del. cbn [filter fst]. now destruct (a =? k). Qed.

Lemma peek_del : forall m k k', peek (del m k) k' = if (k =? k') then None else peek m k'.
Proof.
  induction m as [|[a v] t IH]; intros k k'.
  - cbn. now destruct (k =? k').
  - rewrite del_cons. cbn [peek]. destruct (a =? k) eqn:E.
    + rewrite IH. apply N.eqb_eq in E; subst a. now destruct (k =? k') eqn:E2.
    + cbn [peek]. destruct (a =? k') eqn:E2.
      * apply N.eqb_eq in E2; subst a. rewrite N.eqb_sym in E. now rewrite E.
      * apply IH.
Qed.

Lemma cnt_del : forall m k k', cnt (del m k) k' = if (k =? k') then 0 else cnt m k'.
Proof. intros. unfold cnt. rewrite peek_del. now destruct (k =? k'). Qed.

Lemma length_del_le : forall m k, (length (del m k) <= length m)%nat.
Proof.
  induction m as [|[a v] t IH]; intro k; [cbn; lia|].
  rewrite del_cons. destruct (a =? k); cbn [length]; specialize (IH k); lia.
Qed.

Lemma length_del_lt : forall m k c, peek m k = Some c -> (length (del m k) < length m)%nat.
Proof.
  induction m as [|[a v] t IH]; intros k c H; cbn [peek] in H; [discriminate|].
  rewrite del_cons. cbn [length]. destruct (a =? k) eqn:E.
  - pose proof (length_del_le t k). lia.
  - cbn [length]. specialize (IH _ _ H). lia.
Qed.

Lemma put_noevict : forall track m k v,
  N.of_nat (S (length (del m k))) <= track -> put track m k v = (k, v) :: del m k.
Proof.
  intros. unfold put. cbn [length].
  destruct (track <? N.of_nat (S (length (del m k)))) eqn:E; [|reflexivity].
  apply N.ltb_lt in E. lia.
Qed.

Lemma cnt_cons : forall m k v k', cnt ((k, v) :: m) k' = if (k =? k') then v else cnt m k'.
Proof. intros. unfold cnt. cbn [peek]. now destruct (k =? k'). Qed.

Lemma cnt_put : forall track m k v k',
  len m < track -> cnt (put track m k v) k' = if (k =? k') then v else cnt m k'.
Proof.
  intros. rewrite put_noevict.
  - rewrite cnt_cons, cnt_del. now destruct (k =? k').
  - pose proof (length_del_le m k). unfold len in H. lia.
Qed.

Lemma cnt_incr : forall track m k k',
  len m < track -> cnt (incr track m k) k' = cnt m k' + (if (k =? k') then 1 else 0).
Proof.
  intros. unfold incr. rewrite cnt_put by assumption.
  destruct (k =? k') eqn:E; [apply N.eqb_eq in E; subst; reflexivity | lia].
Qed.

Lemma cnt_decr : forall track m k k',
  len m <= track -> cnt (decr track m k) k' = cnt m k' - (if (k =? k') then 1 else 0).
Proof.
  intros track m k k' H. unfold decr. destruct (peek m k) as [c|] eqn:P.
  - destruct (0 <? c - 1) eqn:E.
    + rewrite put_noevict.
      * rewrite cnt_cons, cnt_del. destruct (k =? k') eqn:E2; [|lia].
        apply N.eqb_eq in E2; subst k'. unfold cnt. now rewrite P.
      * pose proof (length_del_lt _ _ _ P). unfold len in H. lia.
    + rewrite cnt_del. destruct (k =? k') eqn:E2; [|lia].
      apply N.eqb_eq in E2; subst k'. unfold cnt. rewrite P. apply N.ltb_ge in E. lia.
  - destruct (k =? k') eqn:E2; [|lia].
    apply N.eqb_eq in E2; subst k'. unfold cnt. rewrite P. reflexivity.
Qed.

Lemma len_put_le : forall track m k v, len (put track m k v) <= len m + 1.
Proof.
  intros. unfold put, len. pose proof (length_del_le m k).
  destruct (track <? _); cbn [length].
  - assert (L : (length (removelast ((k, v) :: del m k)) <= S (length (del m k)))%nat).
    { rewrite removelast_firstn_len. rewrite firstn_length. cbn [length]. lia. }
    lia.
  - lia.
Qed.

Lemma len_put_track : forall track m k v, len m <= track -> len (put track m k v) <= track.
Proof.
  intros. unfold put, len in *. pose proof (length_del_le m k).
  destruct (track <? N.of_nat (length ((k, v) :: del m k))) eqn:E.
  - rewrite removelast_firstn_len, firstn_length. cbn [length] in *. lia.
  - apply N.ltb_ge in E. exact E.
Qed.

Lemma len_incr_le : forall track m k, len (incr track m k) <= len m + 1.
Proof. intros. apply len_put_le. Qed.

Lemma len_decr_le : forall track m k, len m <= track -> len (decr track m k) <= len m.
Proof.
  intros track m k H. unfold decr. destruct (peek m k) as [c|] eqn:P; [|lia].
  pose proof (length_del_lt _ _ _ P) as L.
  destruct (0 <? c - 1).
  - rewrite put_noevict; unfold len in *; cbn [length]; lia.
  - unfold len. lia.
Qed.

(* ------------------------------------------------------------------ *)
(* levels, getm / setm                                                 *)
(* ------------------------------------------------------------------ *)
Lemma level_eqb_eq : forall a b, level_eqb a b = true <-> a = b.
Proof. destruct a, b; cbn; split; intro H; try reflexivity; try discriminate. Qed.
Lemma level_eqb_refl : forall a, level_eqb a a = true.
Proof. now destruct a. Qed.

Lemma getm_setm : forall s l m l', getm (setm s l m) l' = if level_eqb l l' then m else getm s l'.
Proof. intros s l m l'. destruct l, l'; reflexivity. Qed.
Lemma size_setm : forall s l m, e_size (setm s l m) = e_size s.
Proof. intros s l m. now destruct l. Qed.

(* the key an analysis holds at a level *)
Fixpoint key_at (ks : list (level * N)) (l : level) : option N :=
  match ks with
  | [] => None
  | (l', k) :: t => if level_eqb l' l then Some k else key_at t l
  end.

Lemma keys_levels_nodup : forall an, NoDup (map fst (keys_of an)).
Proof.
  intros [v4 k1 k2 k3 [asn country h v]]. unfold keys_of. cbn [an_v4 an_k1 an_k2 an_k3 an_at a_asn a_country].
  destruct v4, asn, country; cbn; repeat constructor; cbn; intuition discriminate.
Qed.

Lemma key_at_in : forall ks l k, NoDup (map fst ks) -> (key_at ks l = Some k <-> In (l, k) ks).
Proof.
  induction ks as [|[l' k'] t IH]; intros l k ND; cbn [key_at].
  - split; [discriminate | intros []].
  - inversion ND as [|? ? Hn ND']; subst. destruct (level_eqb l' l) eqn:E.
    + apply level_eqb_eq in E; subst l'. split.
      * intro H; inversion H; subst; now left.
      * intros [H|H]; [inversion H; reflexivity|]. exfalso. apply Hn. apply (in_map fst) in H. exact H.
    + rewrite IH by assumption. split; [intro; now right|].
      intros [H|H]; [|exact H]. inversion H; subst. rewrite level_eqb_refl in E. discriminate.
Qed.

Lemma has_key_key_at : forall l k an, has_key l k an = true <-> key_at (keys_of an) l = Some k.
Proof.
  intros. rewrite key_at_in by apply keys_levels_nodup. unfold has_key. rewrite existsb_exists. split.
  - intros [[l' k'] [Hin E]]. unfold lk_eqb in E. cbn [fst snd] in E. apply andb_true_iff in E as [E1 E2].
    apply level_eqb_eq in E1. apply N.eqb_eq in E2. now subst.
  - intro Hin. exists (l, k). split; [exact Hin|]. unfold lk_eqb. cbn [fst snd]. now rewrite level_eqb_refl, N.eqb_refl.
Qed.

Definition hk (l : level) (k : N) (an : analysis) : N := if has_key l k an then 1 else 0.

Lemma hk_key_at : forall l k an,
  hk l k an = match key_at (keys_of an) l with Some k' => if (k' =? k) then 1 else 0 | None => 0 end.
Proof.
  intros. unfold hk. destruct (has_key l k an) eqn:H.
  - apply has_key_key_at in H. rewrite H. now rewrite N.eqb_refl.
  - destruct (key_at (keys_of an) l) as [k'|] eqn:K; [|reflexivity].
    destruct (k' =? k) eqn:E; [|reflexivity]. apply N.eqb_eq in E; subst k'.
    apply has_key_key_at in K. congruence.
Qed.

(* ------------------------------------------------------------------ *)
(* folds of bump / drop                                                *)
(* ------------------------------------------------------------------ *)
Lemma getm_fold_bump : forall c ks s l, NoDup (map fst ks) ->
  getm (fold_left (bump c) ks s) l =
  match key_at ks l with Some k => incr (c_track c) (getm s l) k | None => getm s l end.
Proof.
  induction ks as [|[l' k'] t IH]; intros s l ND; cbn [fold_left key_at]; [reflexivity|].
  inversion ND as [|? ? Hn ND']; subst. rewrite IH by assumption.
  assert (G : getm (bump c s (l', k')) l = if level_eqb l' l then incr (c_track c) (getm s l') k' else getm s l)
    by (unfold bump; cbn [fst snd]; apply getm_setm).
  rewrite G. destruct (level_eqb l' l) eqn:E; [|reflexivity].
  apply level_eqb_eq in E; subst l'.
  destruct (key_at t l) as [k2|] eqn:K; [|reflexivity].
  exfalso. apply Hn. apply key_at_in in K; [|assumption]. apply (in_map fst) in K. exact K.
Qed.

Lemma getm_fold_drop : forall c ks s l, NoDup (map fst ks) ->
  getm (fold_left (drop c) ks s) l =
  match key_at ks l with Some k => decr (c_track c) (getm s l) k | None => getm s l end.
Proof.
  induction ks as [|[l' k'] t IH]; intros s l ND; cbn [fold_left key_at]; [reflexivity|].
  inversion ND as [|? ? Hn ND']; subst. rewrite IH by assumption.
  assert (G : getm (drop c s (l', k')) l = if level_eqb l' l then decr (c_track c) (getm s l') k' else getm s l)
    by (unfold drop; cbn [fst snd]; apply getm_setm).
  rewrite G. destruct (level_eqb l' l) eqn:E; [|reflexivity].
  apply level_eqb_eq in E; subst l'.
  destruct (key_at t l) as [k2|] eqn:K; [|reflexivity].
  exfalso. apply Hn. apply key_at_in in K; [|assumption]. apply (in_map fst) in K. exact K.
Qed.

Lemma size_fold_bump : forall c ks s, e_size (fold_left (bump c) ks s) = e_size s.
Proof. induction ks as [|a t IH]; intro s; cbn [fold_left]; [reflexivity|]. rewrite IH. unfold bump. apply size_setm. Qed.
Lemma size_fold_drop : forall c ks s, e_size (fold_left (drop c) ks s) = e_size s.
Proof. induction ks as [|a t IH]; intro s; cbn [fold_left]; [reflexivity|]. rewrite IH. unfold drop. apply size_setm. Qed.

(* tracking bounds *)
Definition Bounded (c : cfg) (s : enf) : Prop := forall l, len (getm s l) < c_track c.   (* room for one more key at every level *)
Definition Capped (c : cfg) (s : enf) : Prop := forall l, len (getm s l) <= c_track c.

Lemma bounded_capped : forall c s, Bounded c s -> Capped c s.
Proof. intros c s H l. specialize (H l). lia. Qed.

Lemma add_some : forall c s an s', add c s an = Some s' ->
  can_accept c s an = true /\ s' = fold_left (bump c) (keys_of an) s.
Proof. intros c s an s'. unfold add. destruct (can_accept c s an); [intro H; inversion H; auto | discriminate]. Qed.

(* counts after an admission / a removal *)
Lemma cnt_add : forall c s an s' l k, Bounded c s -> add c s an = Some s' ->
  cnt (getm s' l) k = cnt (getm s l) k + hk l k an.
Proof.
  intros c s an s' l k B H. apply add_some in H as [_ ->].
  rewrite getm_fold_bump by apply keys_levels_nodup. rewrite hk_key_at.
  destruct (key_at (keys_of an) l) as [k'|]; [|lia].
  rewrite cnt_incr by apply B. reflexivity.
Qed.

Lemma cnt_remove : forall c s an l k, Capped c s ->
  cnt (getm (remove c s an) l) k = cnt (getm s l) k - hk l k an.
Proof.
  intros c s an l k B. unfold remove.
  rewrite getm_fold_drop by apply keys_levels_nodup. rewrite hk_key_at.
  destruct (key_at (keys_of an) l) as [k'|]; [|lia].
  rewrite cnt_decr by apply B. reflexivity.
Qed.

Lemma size_add : forall c s an s', add c s an = Some s' -> e_size s' = e_size s.
Proof. intros c s an s' H. apply add_some in H as [_ ->]. apply size_fold_bump. Qed.
Lemma size_remove : forall c s an, e_size (remove c s an) = e_size s.
Proof. intros. apply size_fold_drop. Qed.

Lemma capped_add : forall c s an s', Capped c s -> add c s an = Some s' -> Capped c s'.
Proof.
  intros c s an s' B H l. apply add_some in H as [_ ->].
  rewrite getm_fold_bump by apply keys_levels_nodup.
  destruct (key_at (keys_of an) l); [|apply B]. apply len_put_track. apply B.
Qed.
Lemma capped_remove : forall c s an, Capped c s -> Capped c (remove c s an).
Proof.
  intros c s an B l. unfold remove. rewrite getm_fold_drop by apply keys_levels_nodup.
  destruct (key_at (keys_of an) l); [|apply B]. pose proof (len_decr_le (c_track c) (getm s l) n (B l)). specialize (B l). lia.
Qed.
Lemma len_add_le : forall c s an s' l, add c s an = Some s' -> len (getm s' l) <= len (getm s l) + 1.
Proof.
  intros c s an s' l H. apply add_some in H as [_ ->].
  rewrite getm_fold_bump by apply keys_levels_nodup.
  destruct (key_at (keys_of an) l); [apply len_incr_le | lia].
Qed.
Lemma len_remove_le : forall c s an l, Capped c s -> len (getm (remove c s an) l) <= len (getm s l).
Proof.
  intros c s an l B. unfold remove. rewrite getm_fold_drop by apply keys_levels_nodup.
  destruct (key_at (keys_of an) l); [apply len_decr_le, B | lia].
Qed.

(* ------------------------------------------------------------------ *)
(* counters = number of admitted nodes                                 *)
(* ------------------------------------------------------------------ *)
Definition Agree (s : enf) (adm : list analysis) : Prop :=
  forall l k, cnt (getm s l) k = count_adm adm l k.

Lemma count_adm_cons : forall an adm l k, count_adm (an :: adm) l k = count_adm adm l k + hk l k an.
Proof. intros. unfold count_adm, hk. cbn [filter]. destruct (has_key l k an); cbn [length]; lia. Qed.

Lemma opt_eqb_eq : forall a b, opt_eqb a b = true -> a = b.
Proof. intros [a|] [b|] H; cbn in H; try discriminate; [apply N.eqb_eq in H; now subst | reflexivity]. Qed.
Lemma an_eqb_eq : forall a b, an_eqb a b = true -> a = b.
Proof.
  intros a b H. unfold an_eqb, attrs_eqb in H.
  repeat match goal with E : _ && _ = true |- _ => apply andb_true_iff in E; destruct E end.
  destruct a as [v1 a1 a2 a3 [s1 c1 h1 p1]], b as [v2 b1 b2 b3 [s2 c2 h2 p2]].
  cbn [an_v4 an_k1 an_k2 an_k3 an_at a_asn a_country a_hosting a_vpn] in *.
  repeat match goal with E : (_ =? _) = true |- _ => apply N.eqb_eq in E end.
  repeat match goal with E : Bool.eqb _ _ = true |- _ => apply Bool.eqb_prop in E end.
  repeat match goal with E : opt_eqb _ _ = true |- _ => apply opt_eqb_eq in E end.
  now subst.
Qed.
Lemma opt_eqb_refl : forall a, opt_eqb a a = true.
Proof. intros [a|]; cbn [opt_eqb]; [apply N.eqb_refl | reflexivity]. Qed.
Lemma an_eqb_refl : forall a, an_eqb a a = true.
Proof.
  intros a. unfold an_eqb, attrs_eqb. rewrite !N.eqb_refl, !Bool.eqb_reflx, !opt_eqb_refl. reflexivity.
Qed.

Lemma count_adm_remove_one : forall an adm l k, admitted_in an adm = true ->
  count_adm (remove_one an adm) l k = count_adm adm l k - hk l k an.
Proof.
  induction adm as [|x t IH]; intros l k H; [discriminate|].
  cbn [admitted_in existsb remove_one] in *. destruct (an_eqb an x) eqn:E.
  - apply an_eqb_eq in E; subst x. rewrite count_adm_cons. lia.
  - cbn [orb] in H. rewrite !count_adm_cons. unfold admitted_in in IH. rewrite IH by assumption.
    assert (hk l k an <= count_adm t l k).
    { clear IH. induction t as [|y t' IH']; [discriminate|]. cbn [existsb] in H. rewrite count_adm_cons.
      destruct (an_eqb an y) eqn:E2; [apply an_eqb_eq in E2; subst; lia|]. cbn [orb] in H. specialize (IH' H). lia. }
    lia.
Qed.

Lemma agree_init : Agree enf_init [].
Proof. intros l k. destruct l; reflexivity. Qed.

Lemma agree_add : forall c s adm an s', Bounded c s -> Agree s adm -> add c s an = Some s' -> Agree s' (an :: adm).
Proof. intros c s adm an s' B A H l k. rewrite (cnt_add _ _ _ _ _ _ B H), count_adm_cons, A. reflexivity. Qed.

Lemma agree_remove : forall c s adm an, Capped c s -> Agree s adm -> admitted_in an adm = true ->
  Agree (remove c s an) (remove_one an adm).
Proof. intros c s adm an B A H l k. rewrite cnt_remove by assumption. rewrite count_adm_remove_one by assumption. now rewrite A. Qed.

(* can_accept is exactly "every level of the candidate is below its limit" *)
Lemma can_accept_iff : forall c s an,
  can_accept c s an = true <->
  (forall l k lim, In (l, k) (keys_of an) -> limit c (e_size s) (strict an) l = Some lim -> cnt (getm s l) k < lim).
Proof.
  intros. unfold can_accept. rewrite forallb_forall. split.
  - intros H l k lim Hin Hl. specialize (H _ Hin). unfold below in H. cbn [fst snd] in H. rewrite Hl in H. now apply N.ltb_lt.
  - intros H [l k] Hin. unfold below. cbn [fst snd]. destruct (limit c (e_size s) (strict an) l) eqn:Hl; [|reflexivity].
    apply N.ltb_lt. now apply (H l k).
Qed.

Lemma spec_below_can_accept : forall c s adm an, Agree s adm -> spec_below c (e_size s) adm an = can_accept c s an.
Proof.
  intros c s adm an A. unfold spec_below, can_accept.
  induction (keys_of an) as [|[l k] t IH]; cbn [forallb]; [reflexivity|]. rewrite IH. f_equal.
  unfold below. cbn [fst snd]. now rewrite A.
Qed.

(* well-formed histories: room in the tracking tables before every step, and
   Remove is only called for an admitted node *)
Fixpoint hist_ok (c : cfg) (s : enf) (adm : list analysis) (ops : list op) : Prop :=
  match ops with
  | [] => True
  | o :: tl =>
      Bounded c s /\
      (match o with Remove ip at_ => admitted_in (analyze ip at_) adm = true | _ => True end) /\
      hist_ok c (fst (step c s o)) (adm_step c s adm o) tl
  end.

Lemma agree_step : forall c s adm o, Bounded c s -> Agree s adm ->
  (match o with Remove ip at_ => admitted_in (analyze ip at_) adm = true | _ => True end) ->
  Agree (fst (step c s o)) (adm_step c s adm o).
Proof.
  intros c s adm o B A W. destruct o as [ip a|ip a|n|ip a]; cbn [step adm_step].
  - destruct (add c s (analyze ip a)) as [s'|] eqn:H; cbn [fst].
    + pose proof (add_some _ _ _ _ H) as [Hc _]. rewrite Hc. eapply agree_add; eassumption.
    + unfold add in H. destruct (can_accept c s (analyze ip a)); [discriminate | exact A].
  - cbn [fst]. apply agree_remove; auto using bounded_capped.
  - cbn [fst]. intros l k. specialize (A l k). destruct l; exact A.
  - exact A.
Qed.

Lemma agree_run : forall c ops s adm, Agree s adm -> hist_ok c s adm ops ->
  Agree (run c s ops) (adm_run c s adm ops).
Proof.
  induction ops as [|o tl IH]; intros s adm A H; cbn [run adm_run]; [exact A|].
  destruct H as (B & W & H). apply IH; [|exact H]. now apply agree_step.
Qed.

(* ------------------------------------------------------------------ *)
(* limits: monotone in the network size, below the configured ceiling  *)
(* ------------------------------------------------------------------ *)
Lemma per_ip_mono : forall c a b, a <= b -> per_ip c a <= per_ip c b.
Proof.
  intros c a b H. unfold per_ip.
  assert (a * c_fnum c / c_fden c <= b * c_fnum c / c_fden c).
  { destruct (N.eq_dec (c_fden c) 0) as [Z|Z]; [rewrite Z; assert (D0 : forall x, x / 0 = 0) by (intros []; reflexivity); rewrite !D0; lia|].
    apply N.div_le_mono; [exact Z|]. now apply N.mul_le_mono_r. }
  lia.
Qed.
Lemma per_ip_cap : forall c a, per_ip c a <= c_ipcap c.
Proof. intros. unfold per_ip. lia. Qed.

Lemma full_limit_mono : forall c a b l x y, a <= b ->
  full_limit c a l = Some x -> full_limit c b l = Some y -> x <= y.
Proof.
  intros c a b l x y H X Y. pose proof (per_ip_mono c a b H) as P.
  destruct l; cbn [full_limit] in X, Y; inversion X; inversion Y; subst; try lia.
  - assert (per_ip c a * DIV_MULT_24 <= per_ip c b * DIV_MULT_24) by (now apply N.mul_le_mono_r). lia.
  - assert (per_ip c a * DIV_MULT_16 <= per_ip c b * DIV_MULT_16) by (now apply N.mul_le_mono_r). lia.
Qed.
Lemma full_limit_static : forall c a l x y, full_limit c a l = Some x -> static_cap c l = Some y -> x <= y.
Proof.
  intros c a l x y X Y. pose proof (per_ip_cap c a).
  destruct l; cbn [full_limit static_cap] in X, Y; inversion X; inversion Y; subst; lia.
Qed.
Lemma full_limit_some_iff : forall c a b l, full_limit c a l = None <-> full_limit c b l = None.
Proof. intros. destruct l; cbn; split; intro; congruence. Qed.

Lemma halve_le : forall st x, halve st x <= N.max 1 x.
Proof. intros [] x; cbn [halve]; [|lia]. assert (x / 2 <= x) by (apply N.div_le_upper_bound; lia). lia. Qed.
Lemma halve_ge_1 : forall x, 1 <= halve true x.
Proof. intro. cbn [halve]. lia. Qed.
Lemma halve_false : forall x, halve false x = x.
Proof. reflexivity. Qed.

(* ceiling invariant: [hw] is the largest network size in force so far *)
Definition CapInv (c : cfg) (hw : N) (s : enf) : Prop :=
  forall l k lim, full_limit c hw l = Some lim -> cnt (getm s l) k <= N.max 1 lim.

Lemma capinv_init : forall c hw, CapInv c hw enf_init.
Proof. intros c hw l k lim _. destruct l; cbn; lia. Qed.

Lemma capinv_mono : forall c hw hw' s, hw <= hw' -> CapInv c hw s -> CapInv c hw' s.
Proof.
  intros c hw hw' s H I l k lim' L'.
  destruct (full_limit c hw l) as [lim|] eqn:L.
  - specialize (I l k lim L). pose proof (full_limit_mono _ _ _ _ _ _ H L L'). lia.
  - apply (full_limit_some_iff c hw hw' l) in L. congruence.
Qed.

Lemma capinv_add : forall c hw s an s', Bounded c s -> e_size s <= hw -> CapInv c hw s ->
  add c s an = Some s' -> CapInv c hw s'.
Proof.
  intros c hw s an s' B Hs I H l k lim L. rewrite (cnt_add _ _ _ _ _ _ B H).
  unfold hk. destruct (has_key l k an) eqn:HK; [|specialize (I l k lim L); lia].
  apply has_key_key_at in HK. apply key_at_in in HK; [|apply keys_levels_nodup].
  apply add_some in H as [Hc _]. rewrite can_accept_iff in Hc.
  destruct (full_limit c (e_size s) l) as [lim0|] eqn:L0.
  - specialize (Hc l k (halve (strict an) lim0) HK). unfold limit in Hc. rewrite L0 in Hc. specialize (Hc eq_refl).
    pose proof (halve_le (strict an) lim0). pose proof (full_limit_mono _ _ _ _ _ _ Hs L0 L). lia.
  - apply (full_limit_some_iff c (e_size s) hw l) in L0. congruence.
Qed.

Lemma capinv_remove : forall c hw s an, Capped c s -> CapInv c hw s -> CapInv c hw (remove c s an).
Proof. intros c hw s an B I l k lim L. rewrite cnt_remove by assumption. specialize (I l k lim L). lia. Qed.

Lemma capinv_setm_size : forall c hw s n, CapInv c hw s -> CapInv c hw (set_size s n).
Proof. intros c hw s n I l k lim L. specialize (I l k lim L). destruct l; exact I. Qed.

(* Bounded along a run, without reference to the admitted set *)
Fixpoint bounded_run (c : cfg) (s : enf) (ops : list op) : Prop :=
  match ops with
  | [] => True
  | o :: tl => Bounded c s /\ bounded_run c (fst (step c s o)) tl
  end.

Lemma hist_ok_bounded : forall c ops s adm, hist_ok c s adm ops -> bounded_run c s ops.
Proof. induction ops as [|o tl IH]; intros s adm H; cbn in *; [exact I|]. destruct H as (B & _ & H). split; [exact B|]. eapply IH; eassumption. Qed.

Lemma capinv_step : forall c hw s o, Bounded c s -> e_size s <= hw -> CapInv c hw s ->
  let hw' := match o with SetSize n => N.max hw n | _ => hw end in
  CapInv c hw' (fst (step c s o)) /\ e_size (fst (step c s o)) <= hw'.
Proof.
  intros c hw s o B Hs I. destruct o as [ip a|ip a|n|ip a]; cbn [step].
  - destruct (add c s (analyze ip a)) as [s'|] eqn:H; cbn [fst]; [|now split].
    split; [eapply capinv_add; eassumption|]. rewrite (size_add _ _ _ _ H). exact Hs.
  - cbn [fst]. split; [apply capinv_remove; auto using bounded_capped|]. now rewrite size_remove.
  - cbn [fst]. split.
    + apply capinv_setm_size. eapply capinv_mono; [|exact I]. lia.
    + destruct s; cbn. lia.
  - now split.
Qed.

Lemma capinv_run : forall c ops hw s, bounded_run c s ops -> e_size s <= hw -> CapInv c hw s ->
  CapInv c (hw_run hw ops) (run c s ops) /\ e_size (run c s ops) <= hw_run hw ops.
Proof.
  induction ops as [|o tl IH]; intros hw s B Hs I; cbn [run hw_run]; [now split|].
  destruct B as [B Bt]. pose proof (capinv_step c hw s o B Hs I) as [I' Hs'].
  destruct o; cbn [hw_run]; apply IH; assumption.
Qed.

(* sizes never decrease along the history *)
Fixpoint sizes_nondecreasing (cur : N) (ops : list op) : Prop :=
  match ops with
  | [] => True
  | SetSize n :: tl => cur <= n /\ sizes_nondecreasing n tl
  | _ :: tl => sizes_nondecreasing cur tl
  end.
Lemma size_set_size : forall s n, e_size (set_size s n) = n.
Proof. reflexivity. Qed.
Lemma hw_run_nondecreasing_gen : forall c ops s cur, cur = e_size s -> sizes_nondecreasing cur ops ->
  hw_run cur ops = e_size (run c s ops).
Proof.
  induction ops as [|o tl IH]; intros s cur E H; cbn [hw_run run]; [exact E|].
  destruct o as [ip a|ip a|n|ip a]; cbn [sizes_nondecreasing] in H; cbn [step].
  - destruct (add c s (analyze ip a)) as [s'|] eqn:A; cbn [fst]; apply IH; try assumption.
    now rewrite (size_add _ _ _ _ A).
  - cbn [fst]. apply IH; [|assumption]. now rewrite size_remove.
  - cbn [fst]. destruct H as [H1 H2]. replace (N.max cur n) with n by lia. apply IH; [|assumption].
    now rewrite size_set_size.
  - cbn [fst]. now apply IH.
Qed.
Lemma hw_run_nondecreasing : forall ops s c, sizes_nondecreasing (e_size s) ops ->
  hw_run (e_size s) ops = e_size (run c s ops).
Proof. intros. now apply hw_run_nondecreasing_gen. Qed.

(* add then remove gives every slot back *)
Lemma remove_add_cnt : forall c s an s' l k, Bounded c s -> add c s an = Some s' ->
  cnt (getm (remove c s' an) l) k = cnt (getm s l) k.
Proof.
  intros c s an s' l k B H. rewrite cnt_remove by (eapply capped_add; eauto using bounded_capped).
  rewrite (cnt_add _ _ _ _ _ _ B H). lia.
Qed.
Lemma readmit_after_remove : forall c s an s', Bounded c s -> add c s an = Some s' ->
  can_accept c (remove c s' an) an = true.
Proof.
  intros c s an s' B H. pose proof (add_some _ _ _ _ H) as [Hc _].
  rewrite can_accept_iff in *. intros l k lim Hin Hl. rewrite size_remove, (size_add _ _ _ _ H) in Hl.
  rewrite (remove_add_cnt _ _ _ _ _ _ B H). now apply Hc.
Qed.

(* ------------------------------------------------------------------ *)
(* routing-table pipeline                                              *)
(* ------------------------------------------------------------------ *)
Lemma cnt_rincr : forall m r r', cnt (rincr m r) r' = cnt m r' + (if (r =? r') then 1 else 0).
Proof.
  intros. unfold rincr. rewrite cnt_cons, cnt_del.
  destruct (r =? r') eqn:E; [apply N.eqb_eq in E; subst; reflexivity | lia].
Qed.
Lemma cnt_rdecr : forall m r r', cnt (rdecr m r) r' = cnt m r' - (if (r =? r') then 1 else 0).
Proof.
  intros. unfold rdecr. destruct (peek m r) as [c|] eqn:P.
  - rewrite cnt_cons, cnt_del. destruct (r =? r') eqn:E; [|lia].
    apply N.eqb_eq in E; subst. unfold cnt. now rewrite P.
  - destruct (r =? r') eqn:E; [|lia]. apply N.eqb_eq in E; subst. unfold cnt. now rewrite P.
Qed.

Lemma count_adm_app : forall a b l k, count_adm (a ++ b) l k = count_adm a l k + count_adm b l k.
Proof. intros. unfold count_adm. rewrite filter_app, app_length. lia. Qed.

Definition ent_an (e : entry) : list analysis :=
  match gate_ip (en_addr e) with Some ip => [analyze ip no_attrs] | None => [] end.
Definition ent_hk (l : level) (k : N) (e : entry) : N := count_adm (ent_an e) l k.
Definition ent_rk (r : N) (e : entry) : N :=
  match gate_ip (en_addr e) with Some ip => if (region_of ip =? r) then 1 else 0 | None => 0 end.

Lemma adm_of_cons : forall e t, adm_of (e :: t) = ent_an e ++ adm_of t.
Proof. reflexivity. Qed.
Lemma adm_of_app : forall a b, adm_of (a ++ b) = adm_of a ++ adm_of b.
Proof. intros. unfold adm_of. apply flat_map_app. Qed.
Lemma count_adm_of_cons : forall e t l k, count_adm (adm_of (e :: t)) l k = ent_hk l k e + count_adm (adm_of t) l k.
Proof. intros. rewrite adm_of_cons, count_adm_app. reflexivity. Qed.
Lemma reg_count_cons : forall e t r, reg_count (e :: t) r = ent_rk r e + reg_count t r.
Proof.
  intros. unfold reg_count, ent_rk. cbn [filter]. destruct (gate_ip (en_addr e)) as [ip|]; [|lia].
  destruct (region_of ip =? r); cbn [length]; lia.
Qed.
Lemma reg_count_app : forall a b r, reg_count (a ++ b) r = reg_count a r + reg_count b r.
Proof. intros. unfold reg_count. rewrite filter_app, app_length. lia. Qed.

Lemma count_partition : forall (p : entry -> bool) tab l k,
  count_adm (adm_of tab) l k =
  count_adm (adm_of (filter (fun e => negb (p e)) tab)) l k + count_adm (adm_of (filter p tab)) l k.
Proof.
  induction tab as [|e t IH]; intros l k; [reflexivity|].
  cbn [filter]. destruct (p e); cbn [negb]; rewrite !count_adm_of_cons, IH; lia.
Qed.
Lemma reg_partition : forall (p : entry -> bool) tab r,
  reg_count tab r = reg_count (filter (fun e => negb (p e)) tab) r + reg_count (filter p tab) r.
Proof.
  induction tab as [|e t IH]; intros r; [reflexivity|].
  cbn [filter]. destruct (p e); cbn [negb]; rewrite !reg_count_cons, IH; lia.
Qed.

Lemma ent_hk_gate : forall e l k ip, gate_ip (en_addr e) = Some ip -> ent_hk l k e = hk l k (analyze ip no_attrs).
Proof. intros e l k ip H. unfold ent_hk, ent_an. rewrite H. rewrite count_adm_cons. cbn. lia. Qed.
Lemma ent_hk_nogate : forall e l k, gate_ip (en_addr e) = None -> ent_hk l k e = 0.
Proof. intros e l k H. unfold ent_hk, ent_an. now rewrite H. Qed.

(* releasing a list of removed entries *)
Lemma release_fold : forall c gone g (base : level -> N -> N) (rbase : N -> N),
  Capped c (g_enf g) ->
  (forall l k, cnt (getm (g_enf g) l) k = base l k + count_adm (adm_of gone) l k) ->
  (forall r, cnt (g_reg g) r = rbase r + reg_count gone r) ->
  let g' := fold_left (release c) gone g in
  Capped c (g_enf g') /\ (forall l k, cnt (getm (g_enf g') l) k = base l k) /\
  (forall r, cnt (g_reg g') r = rbase r) /\ g_tab g' = g_tab g /\ e_size (g_enf g') = e_size (g_enf g) /\
  (forall l, len (getm (g_enf g') l) <= len (getm (g_enf g) l)).
Proof.
  induction gone as [|e t IH]; intros g base rbase C A R; cbn [fold_left].
  - repeat split; auto.
    + intros l k. rewrite A. cbn. lia.
    + intros r. rewrite R. cbn. lia.
    + intro; lia.
  - set (g1 := release c g e).
    assert (H1 : Capped c (g_enf g1) /\
                 (forall l k, cnt (getm (g_enf g1) l) k = base l k + count_adm (adm_of t) l k) /\
                 (forall r, cnt (g_reg g1) r = rbase r + reg_count t r) /\ g_tab g1 = g_tab g /\
                 e_size (g_enf g1) = e_size (g_enf g) /\ (forall l, len (getm (g_enf g1) l) <= len (getm (g_enf g) l))).
    { unfold g1, release. destruct (gate_ip (en_addr e)) as [ip|] eqn:G; cbn [g_enf g_reg g_tab].
      - repeat split.
        + now apply capped_remove.
        + intros l k. rewrite cnt_remove by assumption. rewrite A, count_adm_of_cons, (ent_hk_gate _ _ _ _ G). lia.
        + intros r. rewrite cnt_rdecr, R, reg_count_cons. unfold ent_rk. rewrite G. destruct (region_of ip =? r); lia.
        + apply size_remove.
        + intro l. now apply len_remove_le.
      - repeat split; auto.
        + intros l k. rewrite A, count_adm_of_cons, (ent_hk_nogate _ _ _ G). lia.
        + intros r. rewrite R, reg_count_cons. unfold ent_rk. rewrite G. lia.
        + intro; lia. }
    destruct H1 as (C1 & A1 & R1 & T1 & S1 & L1).
    specialize (IH g1 base rbase C1 A1 R1). cbn zeta in IH. destruct IH as (C2 & A2 & R2 & T2 & S2 & L2).
    repeat split; auto; try congruence. intro l. specialize (L1 l). specialize (L2 l). lia.
Qed.

Record EInv (c : cfg) (g : eng) : Prop := mkEInv {
  ei_agree : Agree (g_enf g) (adm_of (g_tab g));
  ei_reg : forall r, cnt (g_reg g) r = reg_count (g_tab g) r;
  ei_size : e_size (g_enf g) = 0;
  ei_capped : Capped c (g_enf g);
  ei_cap : CapInv c 0 (g_enf g);
  ei_regcap : forall r, cnt (g_reg g) r <= DIV_REGION_CAP
}.

Lemma einv_init : forall c, EInv c eng_init.
Proof.
  intro c. constructor; cbn [eng_init g_enf g_reg g_tab].
  - apply agree_init.
  - intro r. reflexivity.
  - reflexivity.
  - intro l. destruct l; cbn; lia.
  - apply capinv_init.
  - intro r. cbn. lia.
Qed.

Lemma agree_app : forall s adm an, Agree s (an :: adm) -> Agree s (adm ++ [an]).
Proof. intros s adm an A l k. rewrite A, count_adm_cons, count_adm_app, count_adm_cons. cbn. lia. Qed.

Lemma einv_core_remove : forall c g id, EInv c g -> EInv c (core_remove c g id) /\
  g_tab (core_remove c g id) = filter (fun e => negb (en_id e =? id)) (g_tab g) /\
  (forall l, len (getm (g_enf (core_remove c g id)) l) <= len (getm (g_enf g) l)).
Proof.
  intros c g id [A R S C I RC]. unfold core_remove.
  set (p := fun e => en_id e =? id).
  change (fun e : entry => negb (en_id e =? id)) with (fun e => negb (p e)).
  pose proof (release_fold c (filter p (g_tab g))
                (mkEng (g_enf g) (g_reg g) (filter (fun e => negb (p e)) (g_tab g)))
                (fun l k => count_adm (adm_of (filter (fun e => negb (p e)) (g_tab g))) l k)
                (fun r => reg_count (filter (fun e => negb (p e)) (g_tab g)) r)) as F.
  cbn [g_enf g_reg g_tab] in F. specialize (F C).
  assert (F1 : forall l k, cnt (getm (g_enf g) l) k =
                count_adm (adm_of (filter (fun e => negb (p e)) (g_tab g))) l k + count_adm (adm_of (filter p (g_tab g))) l k)
    by (intros; rewrite A; apply count_partition).
  assert (F2 : forall r, cnt (g_reg g) r = reg_count (filter (fun e => negb (p e)) (g_tab g)) r + reg_count (filter p (g_tab g)) r)
    by (intros; rewrite R; apply reg_partition).
  specialize (F F1 F2). cbn zeta in F. destruct F as (C' & A' & R' & T' & S' & L').
  split; [|split; [exact T' | exact L']].
  constructor.
  - intros l k. rewrite A', T'. reflexivity.
  - intro r. rewrite R', T'. reflexivity.
  - congruence.
  - exact C'.
  - intros l k lim Hl. rewrite A'. specialize (I l k lim Hl). rewrite F1 in I. lia.
  - intro r. rewrite R'. specialize (RC r). rewrite F2 in RC. lia.
Qed.

(* the admission pipeline: invariant preserved; any refusal leaves every count and the table unchanged *)
Definition AddPost (c : cfg) (g : eng) (id : N) (addr : aform) (r : eng * N) : Prop :=
  EInv c (fst r) /\
  (snd r <> 0 -> g_tab (fst r) = g_tab g /\ (forall l k, cnt (getm (g_enf (fst r)) l) k = cnt (getm (g_enf g) l) k) /\
                 (forall x, cnt (g_reg (fst r)) x = cnt (g_reg g) x)) /\
  (snd r = 0 -> g_tab (fst r) = g_tab g ++ [mkEnt id addr]) /\
  (forall l, len (getm (g_enf (fst r)) l) <= len (getm (g_enf g) l) + 1).

Lemma post_refused : forall c g g' id addr code, code <> 0 -> EInv c g' -> g_tab g' = g_tab g ->
  (forall l k, cnt (getm (g_enf g') l) k = cnt (getm (g_enf g) l) k) ->
  (forall x, cnt (g_reg g') x = cnt (g_reg g) x) ->
  (forall l, len (getm (g_enf g') l) <= len (getm (g_enf g) l) + 1) ->
  AddPost c g id addr (g', code).
Proof.
  intros. unfold AddPost. cbn [fst snd]. split; [assumption|]. split; [intros _; auto|]. split; [intro; congruence | assumption].
Qed.
Lemma post_same : forall c g id addr code, code <> 0 -> EInv c g -> AddPost c g id addr (g, code).
Proof. intros. apply post_refused; auto. intro; lia. Qed.
Lemma post_ok : forall c g g' id addr, EInv c g' -> g_tab g' = g_tab g ++ [mkEnt id addr] ->
  (forall l, len (getm (g_enf g') l) <= len (getm (g_enf g) l) + 1) -> AddPost c g id addr (g', 0).
Proof.
  intros. unfold AddPost. cbn [fst snd]. split; [assumption|]. split; [intro; congruence|]. split; [auto | assumption].
Qed.

Lemma adm_of_single_none : forall id addr, gate_ip addr = None -> adm_of [mkEnt id addr] = [].
Proof. intros id addr G. unfold adm_of. cbn [flat_map en_addr]. now rewrite G. Qed.
Lemma adm_of_single_some : forall id addr ip, gate_ip addr = Some ip -> adm_of [mkEnt id addr] = [analyze ip no_attrs].
Proof. intros id addr ip G. unfold adm_of. cbn [flat_map en_addr]. now rewrite G. Qed.
Lemma reg_count_single_none : forall id addr r, gate_ip addr = None -> reg_count [mkEnt id addr] r = 0.
Proof. intros id addr r G. unfold reg_count. cbn [filter en_addr]. now rewrite G. Qed.
Lemma reg_count_single_some : forall id addr ip r, gate_ip addr = Some ip ->
  reg_count [mkEnt id addr] r = if (region_of ip =? r) then 1 else 0.
Proof. intros id addr ip r G. unfold reg_count. cbn [filter en_addr]. rewrite G. now destruct (region_of ip =? r). Qed.

Lemma einv_core_add : forall c self g id addr valid, EInv c g -> Bounded c (g_enf g) ->
  AddPost c g id addr (core_add c self g id addr valid).
Proof.
  intros c self g id addr valid E0 B. pose proof E0 as [A R S C I RC]. unfold core_add.
  destruct valid; cbn [negb]; [|apply post_same; [lia | exact E0]].
  destruct (gate_ip addr) as [ip|] eqn:G.
  2:{ destruct (bucket_len self (g_tab g) (bucket_of self id) <? DIV_BUCKET_K); [|apply post_same; [lia | exact E0]].
      apply post_ok; cbn [g_enf g_reg g_tab]; [|reflexivity | intro; lia].
      constructor; cbn [g_enf g_reg g_tab]; auto.
      - intros l k. rewrite A, adm_of_app, count_adm_app, (adm_of_single_none _ _ G). cbn. lia.
      - intro r. rewrite R, reg_count_app, (reg_count_single_none _ _ _ G). lia. }
  set (an := analyze ip no_attrs).
  destruct (add c (g_enf g) an) as [e1|] eqn:AD; [|apply post_same; [lia | exact E0]].
  pose proof (capped_add _ _ _ _ C AD) as C1.
  assert (Back : forall l k, cnt (getm (remove c e1 an) l) k = cnt (getm (g_enf g) l) k)
    by (intros; eapply remove_add_cnt; eassumption).
  assert (Lback : forall l, len (getm (remove c e1 an) l) <= len (getm (g_enf g) l) + 1).
  { intro l. pose proof (len_remove_le c e1 an l C1). pose proof (len_add_le _ _ _ _ l AD). lia. }
  assert (Erb : forall reg, (forall x, cnt reg x = cnt (g_reg g) x) -> EInv c (mkEng (remove c e1 an) reg (g_tab g))).
  { intros reg Hreg. constructor; cbn [g_enf g_reg g_tab].
    - intros l k. rewrite Back. apply A.
    - intro x. rewrite Hreg. apply R.
    - rewrite size_remove, (size_add _ _ _ _ AD). exact S.
    - now apply capped_remove.
    - intros l k lim Hl. rewrite Back. now apply I.
    - intro x. rewrite Hreg. apply RC. }
  destruct (DIV_REGION_CAP <=? cnt (g_reg g) (region_of ip)) eqn:RG.
  { apply post_refused; [lia | apply Erb; reflexivity | reflexivity | exact Back | reflexivity | exact Lback]. }
  apply N.leb_gt in RG.
  destruct (bucket_len self (g_tab g) (bucket_of self id) <? DIV_BUCKET_K).
  - apply post_ok; cbn [g_enf g_reg g_tab]; [|reflexivity | intro l; eapply len_add_le; eassumption].
    constructor; cbn [g_enf g_reg g_tab].
    + rewrite adm_of_app, (adm_of_single_some _ _ _ G). apply agree_app.
      eapply agree_add; eassumption.
    + intro x. rewrite cnt_rincr, R, reg_count_app, (reg_count_single_some _ _ _ _ G).
      destruct (region_of ip =? x); lia.
    + rewrite (size_add _ _ _ _ AD). exact S.
    + exact C1.
    + eapply capinv_add; try eassumption. rewrite S. lia.
    + intro x. rewrite cnt_rincr. specialize (RC x). destruct (region_of ip =? x) eqn:E; [|lia].
      apply N.eqb_eq in E; subst x. lia.
  - assert (Hreg : forall x, cnt (rdecr (rincr (g_reg g) (region_of ip)) (region_of ip)) x = cnt (g_reg g) x).
    { intro x. rewrite cnt_rdecr, cnt_rincr. destruct (region_of ip =? x); lia. }
    apply post_refused; [lia | apply Erb; exact Hreg | reflexivity | exact Back | exact Hreg | exact Lback].
Qed.

Fixpoint ehist_ok (c : cfg) (self : N) (g : eng) (ops : list eop) : Prop :=
  match ops with
  | [] => True
  | o :: tl => Bounded c (g_enf g) /\ ehist_ok c self (fst (estep c self g o)) tl
  end.

Lemma einv_estep : forall c self g o, EInv c g -> Bounded c (g_enf g) -> EInv c (fst (estep c self g o)).
Proof.
  intros c self g o E B. destruct o as [id addr valid|id|id]; cbn [estep].
  - destruct (listed (g_tab g) id); [cbn [fst]; exact E|].
    apply (einv_core_add c self g id addr valid E B).
  - cbn [fst]. apply einv_core_remove, E.
  - cbn [fst]. apply einv_core_remove, E.
Qed.

Lemma einv_run : forall c self ops g, EInv c g -> ehist_ok c self g ops -> EInv c (erun c self g ops).
Proof.
  induction ops as [|o tl IH]; intros g E H; cbn [erun]; [exact E|].
  destruct H as [B H]. apply IH; [|exact H]. now apply einv_estep.
Qed.

(* histories shorter than the tracking bound never fill a tracking table *)
Lemma len_estep : forall c self g o l, EInv c g -> Bounded c (g_enf g) ->
  len (getm (g_enf (fst (estep c self g o))) l) <= len (getm (g_enf g) l) + 1.
Proof.
  intros c self g o l E B. destruct o as [id addr valid|id|id]; cbn [estep].
  - destruct (listed (g_tab g) id); [cbn [fst]; lia|].
    apply (einv_core_add c self g id addr valid E B).
  - cbn [fst]. pose proof (einv_core_remove c g id E) as (_ & _ & L). specialize (L l). lia.
  - cbn [fst]. pose proof (einv_core_remove c g id E) as (_ & _ & L). specialize (L l). lia.
Qed.

Lemma ehist_ok_short : forall c self ops g n, EInv c g -> (forall l, len (getm (g_enf g) l) <= n) ->
  n + N.of_nat (length ops) <= c_track c -> ehist_ok c self g ops.
Proof.
  induction ops as [|o tl IH]; intros g n E L H; cbn [ehist_ok]; [exact I|].
  cbn [length] in H.
  assert (B : Bounded c (g_enf g)) by (intro l; specialize (L l); lia).
  split; [exact B|]. apply (IH _ (n + 1)).
  - now apply einv_estep.
  - intro l. pose proof (len_estep c self g o l E B). specialize (L l). lia.
  - lia.
Qed.

Lemma ehist_ok_last : forall c self ops g o, ehist_ok c self g (ops ++ [o]) -> Bounded c (g_enf (erun c self g ops)).
Proof.
  induction ops as [|a tl IH]; intros g o H; cbn [app ehist_ok erun] in *; [apply H|].
  destruct H as [_ H]. eapply IH. exact H.
Qed.

Lemma reachable_bounded : forall c self ops, N.of_nat (length ops) < c_track c ->
  EInv c (erun c self eng_init ops) /\ Bounded c (g_enf (erun c self eng_init ops)).
Proof.
  intros c self ops H.
  assert (K : ehist_ok c self eng_init (ops ++ [EEvict 0])).
  { apply (ehist_ok_short c self _ eng_init 0 (einv_init c)).
    - intro l. destruct l; cbn; lia.
    - rewrite app_length. cbn [length]. lia. }
  split; [|eapply ehist_ok_last; exact K].
  apply einv_run; [apply einv_init|].
  clear H. revert K. generalize eng_init. induction ops as [|a tl IH]; intros g K; cbn [app ehist_ok] in *; [exact I|].
  destruct K as [B K]. split; [exact B|]. now apply IH.
Qed.

(* ------------------------------------------------------------------ *)
(* address text                                                        *)
(* ------------------------------------------------------------------ *)
Lemma strip_nospace_app : forall s rest, (forall ch, In ch s -> ch <> 32) ->
  strip_suffix (s ++ 32 :: 40 :: rest) = s.
Proof.
  induction s as [|a t IH]; intros rest H.
  - reflexivity.
  - cbn [app strip_suffix]. assert (a <> 32) by (apply H; now left).
    replace (a =? 32) with false by (symmetry; now apply N.eqb_neq). cbn [andb].
    f_equal. apply IH. intros ch Hc. apply H. now right.
Qed.
Lemma strip_nospace : forall s, (forall ch, In ch s -> ch <> 32) -> strip_suffix s = s.
Proof.
  induction s as [|a t IH]; intros H; [reflexivity|].
  cbn [strip_suffix]. assert (a <> 32) by (apply H; now left).
  replace (a =? 32) with false by (symmetry; now apply N.eqb_neq). cbn [andb].
  f_equal. apply IH. intros ch Hc. apply H. now right.
Qed.

Section AddrTextProofs.
  Variable parse_sock : list N -> option (ipaddr * N).
  Variable parse_ip : list N -> option ipaddr.
  Variable show_sock : ipaddr -> N -> list N.
  Variable show_ip : ipaddr -> list N.
  Variable words : ipaddr -> N -> list N.
  Variable garbage : list N.
  Hypothesis sock_round_trip : forall ip p, parse_sock (show_sock ip p) = Some (ip, p).
  Hypothesis ip_not_sock : forall ip, parse_sock (show_ip ip) = None.
  Hypothesis ip_round_trip : forall ip, parse_ip (show_ip ip) = Some ip.
  Hypothesis sock_no_space : forall ip p ch, In ch (show_sock ip p) -> ch <> 32.
  Hypothesis ip_no_space : forall ip ch, In ch (show_ip ip) -> ch <> 32.

  Lemma gate_text_rendered : forall f, f <> FGarbage ->
    gate_text parse_sock parse_ip (render show_sock show_ip words garbage f) = gate_ip f.
  Proof.
    intros f Hf. unfold gate_text. destruct f as [ip|ip p|ip p w|]; cbn [render gate_ip]; [| | |congruence].
    - rewrite strip_nospace by apply ip_no_space. now rewrite ip_not_sock, ip_round_trip.
    - rewrite strip_nospace by apply sock_no_space. now rewrite sock_round_trip.
    - destruct w.
      + cbn [app]. rewrite strip_nospace_app by apply sock_no_space. now rewrite sock_round_trip.
      + rewrite app_nil_r, strip_nospace by apply sock_no_space. now rewrite sock_round_trip.
  Qed.
End AddrTextProofs.

Lemma complete_iff : forall c s adm an,
  Agree s adm ->
  (add c s an <> None <->
   forall l k lim, In (l, k) (keys_of an) -> limit c (e_size s) (strict an) l = Some lim -> count_adm adm l k < lim).
Proof.
  intros c s adm an A. unfold add. rewrite <- (spec_below_can_accept c s adm an A).
  destruct (spec_below c (e_size s) adm an) eqn:E; split; intro H; try congruence.
  - unfold spec_below in E. rewrite forallb_forall in E. intros l k lim Hin Hl. specialize (E _ Hin). cbn [fst snd] in E.
    rewrite Hl in E. now apply N.ltb_lt.
  - exfalso. assert (spec_below c (e_size s) adm an = true); [|congruence].
    unfold spec_below. apply forallb_forall. intros [l k] Hin. cbn [fst snd].
    destruct (limit c (e_size s) (strict an) l) eqn:Hl; [|reflexivity]. apply N.ltb_lt. now apply (H l k).
Qed.

Lemma cap_invariant_all : forall c ops,
  hist_ok c enf_init [] ops ->
  let adm := adm_run c enf_init [] ops in
  (forall l k cap, static_cap c l = Some cap -> count_adm adm l k <= N.max 1 cap) /\
  (forall l k lim, full_limit c (hw_run 0 ops) l = Some lim -> count_adm adm l k <= N.max 1 lim) /\
  (sizes_nondecreasing 0 ops ->
   forall l k lim, full_limit c (e_size (run c enf_init ops)) l = Some lim -> count_adm adm l k <= N.max 1 lim).
Proof.
  intros c ops H adm.
  pose proof (agree_run c ops enf_init [] agree_init H) as A.
  pose proof (capinv_run c ops 0 enf_init (hist_ok_bounded _ _ _ _ H) (N.le_refl 0) (capinv_init c 0)) as [I _].
  assert (B : forall l k lim, full_limit c (hw_run 0 ops) l = Some lim -> count_adm adm l k <= N.max 1 lim).
  { intros l k lim Hl. unfold adm. rewrite <- A. now apply I. }
  split; [|split].
  - intros l k cap Hc. destruct (full_limit c (hw_run 0 ops) l) as [lim|] eqn:Hl.
    + pose proof (B l k lim Hl). pose proof (full_limit_static _ _ _ _ _ Hl Hc). lia.
    + destruct l; cbn in Hl, Hc; congruence.
  - exact B.
  - intros Hs l k lim Hl. apply B. change 0 with (e_size enf_init) in Hs |- *.
    now rewrite (hw_run_nondecreasing ops enf_init c Hs).
Qed.

Lemma pipeline_invariant : forall self ops,
  N.of_nat (length ops) < DIV_MAX_SUBNET_TRACKING ->
  let g := erun cfg_default self eng_init ops in
  (forall l k, cnt (getm (g_enf g) l) k = count_adm (adm_of (g_tab g)) l k) /\
  (forall r, cnt (g_reg g) r = reg_count (g_tab g) r) /\
  (forall k, count_adm (adm_of (g_tab g)) V32 k <= 1 /\ count_adm (adm_of (g_tab g)) V24 k <= 3 /\
             count_adm (adm_of (g_tab g)) V16 k <= 10 /\ count_adm (adm_of (g_tab g)) L64 k <= 1 /\
             count_adm (adm_of (g_tab g)) L48 k <= 3 /\ count_adm (adm_of (g_tab g)) L32 k <= 10) /\
  (forall r, reg_count (g_tab g) r <= 50).
Proof.
  intros self ops H g. pose proof (reachable_bounded cfg_default self ops H) as [[A R S C I RC] _]. fold g in A, R, I, RC.
  split; [exact A|]. split; [exact R|]. split.
  - intro k. repeat split; rewrite <- A.
    + exact (I V32 k 1 eq_refl). + exact (I V24 k 3 eq_refl). + exact (I V16 k 10 eq_refl).
    + exact (I L64 k 1 eq_refl). + exact (I L48 k 3 eq_refl). + exact (I L32 k 10 eq_refl).
  - intro r. rewrite <- R. exact (RC r).
Qed.

Lemma atomic_pipeline : forall self ops id addr valid,
  N.of_nat (length ops) < DIV_MAX_SUBNET_TRACKING ->
  let g := erun cfg_default self eng_init ops in
  let r := core_add cfg_default self g id addr valid in
  snd r <> 0 ->
  g_tab (fst r) = g_tab g /\
  (forall l k, cnt (getm (g_enf (fst r)) l) k = cnt (getm (g_enf g) l) k) /\
  (forall x, cnt (g_reg (fst r)) x = cnt (g_reg g) x).
Proof.
  intros self ops id addr valid H g r Hr. pose proof (reachable_bounded cfg_default self ops H) as [E B].
  pose proof (einv_core_add cfg_default self g id addr valid E B) as (_ & P & _). exact (P Hr).
Qed.

Lemma evict_returns : forall self ops id,
  N.of_nat (length ops) < DIV_MAX_SUBNET_TRACKING ->
  let g := erun cfg_default self eng_init ops in
  let g' := core_remove cfg_default g id in
  g_tab g' = filter (fun e => negb (en_id e =? id)) (g_tab g) /\
  (forall l k, cnt (getm (g_enf g') l) k = count_adm (adm_of (g_tab g')) l k) /\
  (forall r, cnt (g_reg g') r = reg_count (g_tab g') r).
Proof.
  intros self ops id H g g'. pose proof (reachable_bounded cfg_default self ops H) as [E _].
  pose proof (einv_core_remove cfg_default g id E) as ([A R _ _ _ _] & T & _). fold g' in A, R, T. auto.
Qed.

Lemma address_forms_all :
  forall (parse_sock : list N -> option (ipaddr * N)) (parse_ip : list N -> option ipaddr)
         (show_sock : ipaddr -> N -> list N) (show_ip : ipaddr -> list N)
         (words : ipaddr -> N -> list N) (garbage : list N),
  (forall ip p, parse_sock (show_sock ip p) = Some (ip, p)) ->
  (forall ip, parse_sock (show_ip ip) = None) ->
  (forall ip, parse_ip (show_ip ip) = Some ip) ->
  (forall ip p ch, In ch (show_sock ip p) -> ch <> 32) ->
  (forall ip ch, In ch (show_ip ip) -> ch <> 32) ->
  forall f, f <> FGarbage ->
  gate_text parse_sock parse_ip (render show_sock show_ip words garbage f) = gate_ip f /\ gate_ip f <> None.
Proof.
  intros ps pi ss si w g H1 H2 H3 H4 H5 f Hf. split.
  - exact (gate_text_rendered ps pi ss si w g H1 H2 H3 H4 H5 f Hf).
  - destruct f; cbn; congruence.
Qed.
