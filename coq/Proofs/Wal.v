(* Lemmas for Model/Wal.v (C06, C07). *)
From Coq Require Import Sorting.Sorted.
From SV Require Import Lib.Base Gen.WalConsts Model.Wal.
Local Open Scope N_scope.

(* ================================================================ bytes *)
Lemma bytes_eqb_eq : forall a b, bytes_eqb a b = true <-> a = b.
Proof.
  induction a as [|x a IH]; destruct b as [|y b]; cbn; split; intro H; try congruence; try discriminate.
  - apply andb_true_iff in H as [H1 H2]. apply N.eqb_eq in H1. apply IH in H2. congruence.
  - inv H. apply andb_true_iff. split; [apply N.eqb_refl | apply IH; reflexivity].
Qed.
Lemma bytes_eqb_refl : forall a, bytes_eqb a a = true.
Proof. intro a. apply bytes_eqb_eq. reflexivity. Qed.
Lemma bytes_eqb_neq : forall a b, bytes_eqb a b = false <-> a <> b.
Proof.
  intros a b. split; intro H.
  - intro E. apply bytes_eqb_eq in E. congruence.
  - destruct (bytes_eqb a b) eqn:E; [apply bytes_eqb_eq in E; contradiction | reflexivity].
Qed.

Lemma len_app : forall {A} (a b : list A), len (a ++ b) = len a + len b.
Proof. intros. unfold len. rewrite app_length. lia. Qed.
Lemma len_nil : forall {A}, len (@nil A) = 0.
Proof. reflexivity. Qed.

Lemma le_bytes_length : forall n x, length (le_bytes n x) = n.
Proof. induction n; intro x; cbn; [reflexivity | rewrite IHn; reflexivity]. Qed.

Lemma le_val_le_bytes : forall n x, x < 256 ^ N.of_nat n -> le_val (le_bytes n x) = x.
Proof.
  induction n as [|n IH]; intros x Hx.
  - cbn in *. lia.
  - cbn [le_bytes le_val]. rewrite IH.
    + pose proof (N.div_mod x 256). lia.
    + rewrite Nat2N.inj_succ, N.pow_succ_r' in Hx.
      apply N.div_lt_upper_bound; lia.
Qed.

Lemma firstn_app_exact : forall {A} (a b : list A) n, n = length a -> firstn n (a ++ b) = a.
Proof. intros A a b n ->. rewrite firstn_app, Nat.sub_diag, firstn_all. cbn. apply app_nil_r. Qed.
Lemma skipn_app_exact : forall {A} (a b : list A) n, n = length a -> skipn n (a ++ b) = b.
Proof. intros A a b n ->. rewrite skipn_app, Nat.sub_diag, skipn_all. reflexivity. Qed.

(* ================================================================ frames *)
Definition small (body : bytes) : Prop := len body < 4294967296.
Definition frames (bodies : list bytes) : bytes := concat (map frame bodies).

Lemma frame_head : forall body rest, small body ->
  le_val (firstn 4 (frame body ++ rest)) = len body /\ skipn 4 (frame body ++ rest) = body ++ rest.
Proof.
  intros body rest Hs. unfold frame. rewrite <- app_assoc. split.
  - rewrite firstn_app_exact by (rewrite le_bytes_length; reflexivity).
    apply le_val_le_bytes. exact Hs.
  - rewrite skipn_app_exact by (rewrite le_bytes_length; reflexivity). reflexivity.
Qed.
Lemma frame_len : forall body, len (frame body) = 4 + len body.
Proof. intro. unfold frame. rewrite len_app. unfold len at 1. rewrite le_bytes_length. lia. Qed.

(* a tail on which the framing loop stops and reports an incomplete write *)
Definition torn (t : bytes) : Prop :=
  t <> [] /\ (len t < 4 \/ len t - 4 < le_val (firstn 4 t)).

Lemma parse_frames_app : forall bodies rest fuel,
  Forall small bodies -> (length bodies + length rest < fuel)%nat ->
  parse_frames fuel (len (frames bodies ++ rest)) (frames bodies ++ rest) =
  (bodies ++ fst (parse_frames (fuel - length bodies) (len rest) rest),
   snd (parse_frames (fuel - length bodies) (len rest) rest)).
Proof.
  induction bodies as [|body tl IH]; intros rest fuel Hs Hf.
  - cbn [frames map concat app length]. rewrite Nat.sub_0_r.
    destruct (parse_frames fuel (len rest) rest); reflexivity.
  - inv Hs. cbn [length] in Hf. destruct fuel as [|fuel]; [lia|].
    change (frames (body :: tl)) with (frame body ++ frames tl). rewrite <- app_assoc.
    cbn [parse_frames].
    destruct (frame_head body (frames tl ++ rest) H1) as [Hv Hk].
    assert (Hl : len (frame body ++ frames tl ++ rest) = 4 + len body + len (frames tl ++ rest))
      by (rewrite len_app, frame_len; lia).
    rewrite Hl.
    replace (4 + len body + len (frames tl ++ rest) =? 0) with false by (symmetry; apply N.eqb_neq; lia).
    replace (4 + len body + len (frames tl ++ rest) <? 4) with false by (symmetry; apply N.ltb_ge; lia).
    rewrite Hv, Hk.
    replace (4 + len body + len (frames tl ++ rest) - 4 <? len body) with false by (symmetry; apply N.ltb_ge; lia).
    replace (4 + len body + len (frames tl ++ rest) - 4 - len body) with (len (frames tl ++ rest)) by lia.
    unfold len at 2 3. rewrite Nat2N.id.
    rewrite skipn_app_exact by reflexivity. rewrite firstn_app_exact by reflexivity.
    rewrite IH by (auto; lia).
    cbn [length Nat.sub]. reflexivity.
Qed.

Lemma parse_frames_fuel : forall fuel1 fuel2 b rem,
  rem = len b -> (length b < fuel1)%nat -> (length b < fuel2)%nat ->
  parse_frames fuel1 rem b = parse_frames fuel2 rem b.
Proof.
  induction fuel1 as [|f1 IH]; intros fuel2 b rem Hr H1 H2; [lia|].
  destruct fuel2 as [|f2]; [lia|]. cbn [parse_frames].
  destruct (rem =? 0) eqn:E0; [reflexivity|].
  destruct (rem <? 4) eqn:E4; [reflexivity|].
  destruct (rem - 4 <? le_val (firstn 4 b)) eqn:En; [reflexivity|].
  apply N.eqb_neq in E0. apply N.ltb_ge in E4. apply N.ltb_ge in En.
  set (n := le_val (firstn 4 b)) in *.
  assert (Hlen : length (skipn (N.to_nat n) (skipn 4 b)) = (length b - 4 - N.to_nat n)%nat)
    by (rewrite !skipn_length; reflexivity).
  assert (Hb : (4 <= length b)%nat) by (subst rem; unfold len in E4; lia).
  rewrite (IH f2 (skipn (N.to_nat n) (skipn 4 b)) (rem - 4 - n)); [reflexivity | | lia | lia].
  subst rem. unfold len in *. rewrite Hlen. lia.
Qed.

Lemma parse_torn : forall t, torn t -> parse t = ([], true).
Proof.
  intros t [Hne Ht]. unfold parse. cbn [parse_frames].
  assert (len t <> 0) by (destruct t; [congruence | unfold len; cbn; lia]).
  replace (len t =? 0) with false by (symmetry; apply N.eqb_neq; assumption).
  destruct Ht as [Ht | Ht].
  - replace (len t <? 4) with true by (symmetry; apply N.ltb_lt; assumption). reflexivity.
  - destruct (len t <? 4); [reflexivity|].
    replace (len t - 4 <? le_val (firstn 4 t)) with true by (symmetry; apply N.ltb_lt; assumption). reflexivity.
Qed.
Lemma parse_nil : parse [] = ([], false).
Proof. reflexivity. Qed.

(* parsing complete frames followed by anything = the frames, then whatever the rest parses to *)
Lemma parse_app : forall bodies rest, Forall small bodies ->
  parse (frames bodies ++ rest) = (bodies ++ fst (parse rest), snd (parse rest)).
Proof.
  intros bodies rest Hs. unfold parse.
  assert (Hl : (length bodies <= length (frames bodies))%nat).
  { clear Hs. induction bodies as [|b tl IH]; [cbn; lia|].
    change (frames (b :: tl)) with (frame b ++ frames tl). rewrite app_length. unfold frame at 1.
    rewrite app_length, le_bytes_length. cbn [length]. lia. }
  rewrite parse_frames_app; [| assumption | rewrite app_length; lia].
  rewrite (parse_frames_fuel (S (length (frames bodies ++ rest)) - length bodies) (S (length rest)) rest (len rest));
    [reflexivity | reflexivity | rewrite app_length; lia | lia].
Qed.

Lemma parse_frames_exact : forall bodies, Forall small bodies -> parse (frames bodies) = (bodies, false).
Proof.
  intros. rewrite <- (app_nil_r (frames bodies)). rewrite parse_app by assumption.
  rewrite parse_nil. cbn. rewrite app_nil_r. reflexivity.
Qed.
Lemma parse_frames_torn : forall bodies t, Forall small bodies -> torn t ->
  parse (frames bodies ++ t) = (bodies, true).
Proof.
  intros. rewrite parse_app by assumption. rewrite parse_torn by assumption. cbn. rewrite app_nil_r. reflexivity.
Qed.

(* a non-empty strict prefix of a frame is a torn tail *)
Lemma strict_prefix_torn : forall body n, small body ->
  (0 < n < length (frame body))%nat -> torn (firstn n (frame body)).
Proof.
  intros body n Hs Hn. split.
  - destruct (frame body) eqn:E; [cbn in Hn; lia|]. destruct n; [lia|]. cbn. discriminate.
  - assert (Hl : len (firstn n (frame body)) = N.of_nat n) by (unfold len; rewrite firstn_length; lia).
    destruct (Nat.lt_ge_cases n 4) as [H4 | H4]; [left; lia|]. right.
    rewrite firstn_firstn. replace (Nat.min 4 n) with 4%nat by lia.
    pose proof (frame_head body [] Hs) as [Hv _]. rewrite app_nil_r in Hv. rewrite Hv.
    pose proof (frame_len body) as Hfl. rewrite Hl. unfold len in Hfl |- *. lia.
Qed.

Lemma frames_app : forall a b, frames (a ++ b) = frames a ++ frames b.
Proof. intros. unfold frames. rewrite map_app, concat_app. reflexivity. Qed.

(* ---------------------------------------------------------------- C07_alloc *)
Lemma parse_allocs_bound : forall fuel rem b n r,
  In (n, r) (parse_allocs fuel rem b) -> n <= r /\ r <= rem.
Proof.
  induction fuel as [|fuel IH]; intros rem b n r Hin; [contradiction|].
  cbn [parse_allocs] in Hin.
  destruct (rem =? 0); [contradiction|].
  destruct (rem <? 4) eqn:E4; [contradiction|].
  destruct (rem - 4 <? le_val (firstn 4 b)) eqn:En; [contradiction|].
  apply N.ltb_ge in E4. apply N.ltb_ge in En.
  destruct Hin as [Heq | Hin].
  - assert (n = le_val (firstn 4 b) /\ r = rem - 4) as [-> ->] by (split; congruence). lia.
  - apply IH in Hin. lia.
Qed.
Lemma allocs_bound : forall b n r, In (n, r) (allocs b) -> n <= r /\ r <= len b.
Proof. intros b n r H. exact (parse_allocs_bound _ _ _ _ _ H). Qed.

(* the sizes requested are exactly the sizes of the frames handed to the decoder *)
Lemma parse_allocs_frames : forall fuel rem b, rem = len b ->
  map fst (parse_allocs fuel rem b) = map len (fst (parse_frames fuel rem b)).
Proof.
  induction fuel as [|fuel IH]; intros rem b Hr; [reflexivity|].
  cbn [parse_allocs parse_frames].
  destruct (rem =? 0); [reflexivity|].
  destruct (rem <? 4) eqn:E4; [reflexivity|].
  destruct (rem - 4 <? le_val (firstn 4 b)) eqn:En; [reflexivity|].
  apply N.ltb_ge in E4. apply N.ltb_ge in En.
  set (n := le_val (firstn 4 b)) in *.
  assert (Hrest : len (skipn 4 b) = rem - 4) by (subst rem; unfold len in *; rewrite skipn_length; lia).
  specialize (IH (rem - 4 - n) (skipn (N.to_nat n) (skipn 4 b))).
  destruct (parse_frames fuel (rem - 4 - n) (skipn (N.to_nat n) (skipn 4 b))) as [fs t] eqn:Ep.
  cbn [fst map]. rewrite IH.
  - f_equal. unfold len at 1. rewrite firstn_length. unfold len in Hrest. lia.
  - unfold len in *. rewrite skipn_length. lia.
Qed.

(* ================================================================ states *)
Definition steq (a b : state) : Prop := forall k, get a k = get b k.
Infix "≈" := steq (at level 70).

Lemma steq_refl : forall a, a ≈ a. Proof. intros a k; reflexivity. Qed.
Lemma steq_sym : forall a b, a ≈ b -> b ≈ a. Proof. intros a b H k; symmetry; apply H. Qed.
Lemma steq_trans : forall a b c, a ≈ b -> b ≈ c -> a ≈ c.
Proof. intros a b c H1 H2 k; rewrite H1; apply H2. Qed.

Lemma get_del : forall st k k', get (del k st) k' = if bytes_eqb k k' then None else get st k'.
Proof.
  unfold del. induction st as [|[k0 v0] tl IH]; intros k k'.
  - cbn. destruct (bytes_eqb k k'); reflexivity.
  - cbn [filter fst]. destruct (bytes_eqb k0 k) eqn:E0; cbn [negb get].
    + rewrite IH. apply bytes_eqb_eq in E0; subst k0. destruct (bytes_eqb k k'); reflexivity.
    + rewrite IH. destruct (bytes_eqb k0 k') eqn:E1; [|reflexivity].
      apply bytes_eqb_eq in E1; subst k0. destruct (bytes_eqb k k') eqn:E2; [|reflexivity].
      apply bytes_eqb_eq in E2; subst. rewrite bytes_eqb_refl in E0. discriminate.
Qed.
Lemma get_set : forall st k v k', get (set k v st) k' = if bytes_eqb k k' then Some v else get st k'.
Proof.
  intros. unfold set. cbn. rewrite get_del. destruct (bytes_eqb k k'); reflexivity.
Qed.

Lemma get_apply_change : forall st c k,
  get (apply_change st c) k = if bytes_eqb (fst c) k then snd c else get st k.
Proof.
  intros st [k0 [v|]] k; unfold apply_change; cbn [fst snd]; [apply get_set | apply get_del].
Qed.

(* the last change a list makes to key k *)
Fixpoint last_change (k : key) (cs : list change) : option (option val) :=
  match cs with
  | [] => None
  | c :: tl => match last_change k tl with
               | Some r => Some r
               | None => if bytes_eqb (fst c) k then Some (snd c) else None
               end
  end.

Lemma get_apply_changes : forall cs st k,
  get (apply_changes st cs) k = match last_change k cs with Some r => r | None => get st k end.
Proof.
  induction cs as [|c tl IH]; intros st k; [reflexivity|].
  cbn [apply_changes fold_left last_change]. change (fold_left apply_change tl (apply_change st c)) with (apply_changes (apply_change st c) tl).
  rewrite IH. destruct (last_change k tl); [reflexivity|].
  rewrite get_apply_change. destruct (bytes_eqb (fst c) k); reflexivity.
Qed.

Lemma apply_changes_app : forall a b st, apply_changes st (a ++ b) = apply_changes (apply_changes st a) b.
Proof. intros. unfold apply_changes. apply fold_left_app. Qed.

Lemma apply_changes_steq : forall cs a b, a ≈ b -> apply_changes a cs ≈ apply_changes b cs.
Proof. intros cs a b H k. rewrite !get_apply_changes. destruct (last_change k cs); [reflexivity | apply H]. Qed.

(* replaying a suffix of a history on top of its own result changes nothing *)
Lemma replay_suffix_idem : forall l1 l2 st,
  apply_changes (apply_changes st (l1 ++ l2)) l2 ≈ apply_changes st (l1 ++ l2).
Proof.
  intros l1 l2 st k. rewrite apply_changes_app. rewrite !get_apply_changes.
  destruct (last_change k l2); reflexivity.
Qed.

Lemma last_change_in : forall k cs r, last_change k cs = Some r -> In (k, r) cs.
Proof.
  induction cs as [|c tl IH]; intros r H; [discriminate|]. cbn in H.
  destruct (last_change k tl) eqn:E.
  - inv H. right. apply IH. reflexivity.
  - destruct (bytes_eqb (fst c) k) eqn:Ek; [|discriminate]. inv H.
    apply bytes_eqb_eq in Ek. left. destruct c; cbn in *; congruence.
Qed.

(* a value present after applying changes was put there by one of them, or was there before *)
Lemma get_apply_changes_src : forall cs st k v,
  get (apply_changes st cs) k = Some v -> In (k, Some v) cs \/ get st k = Some v.
Proof.
  intros cs st k v H. rewrite get_apply_changes in H.
  destruct (last_change k cs) eqn:E; [|right; assumption].
  subst. left. apply last_change_in. assumption.
Qed.

(* ================================================================ batch_update's change list *)
Lemma opt_val_eqb_eq : forall a b, opt_val_eqb a b = true <-> a = b.
Proof.
  intros [x|] [y|]; cbn; split; intro H; try discriminate; try reflexivity.
  - apply bytes_eqb_eq in H. congruence.
  - inv H. apply bytes_eqb_refl.
Qed.
Lemma get_in_keys : forall st k v, get st k = Some v -> In k (map fst st).
Proof.
  induction st as [|[k0 v0] tl IH]; intros k v H; [discriminate|]. cbn in *.
  destruct (bytes_eqb k0 k) eqn:E; [left; apply bytes_eqb_eq; exact E | right; eapply IH; exact H].
Qed.
Lemma existsb_bytes_in : forall k l, existsb (bytes_eqb k) l = true <-> In k l.
Proof.
  intros k l. rewrite existsb_exists. split.
  - intros [x [Hx He]]. apply bytes_eqb_eq in He. subst. exact Hx.
  - intro H. exists k. split; [exact H | apply bytes_eqb_refl].
Qed.
Lemma dedup_keys_in : forall l seen k, In k (dedup_keys seen l) <-> In k l /\ ~ In k seen.
Proof.
  induction l as [|x tl IH]; intros seen k; cbn; [tauto|].
  destruct (existsb (bytes_eqb x) seen) eqn:E.
  - apply existsb_bytes_in in E. rewrite IH. split.
    + intros [H1 H2]. auto.
    + intros [[Hx | H] Hn]; [subst; contradiction | auto].
  - assert (~ In x seen) by (intro H; apply existsb_bytes_in in H; congruence).
    cbn. rewrite IH. cbn. split.
    + intros [Hx | [H1 H2]]; [subst; auto | split; [auto|]]. intro Hs. apply H2. right. exact Hs.
    + intros [[Hx | H1] H2]; [left; exact Hx|]. destruct (list_eq_dec N.eq_dec x k) as [Heq | Hne]; [left; exact Heq|].
      right. split; [exact H1|]. intros [Hx | Hs]; [contradiction | contradiction].
Qed.
Lemma dedup_keys_nodup : forall l seen, NoDup (dedup_keys seen l).
Proof.
  induction l as [|x tl IH]; intro seen; cbn; [constructor|].
  destruct (existsb (bytes_eqb x) seen); [apply IH|]. constructor; [|apply IH].
  rewrite dedup_keys_in. cbn. tauto.
Qed.
Lemma ins_change_in : forall c l x, In x (ins_change c l) <-> x = c \/ In x l.
Proof.
  induction l as [|y tl IH]; intro x; cbn; [intuition congruence|].
  destruct (bytes_leb (fst c) (fst y)); cbn; [intuition congruence|]. rewrite IH. intuition congruence.
Qed.
Lemma sort_changes_cons : forall c tl, sort_changes (c :: tl) = ins_change c (sort_changes tl).
Proof. reflexivity. Qed.
Lemma sort_changes_in : forall l x, In x (sort_changes l) <-> In x l.
Proof.
  induction l as [|c tl IH]; intro x; [cbn; tauto|]. rewrite sort_changes_cons, ins_change_in, IH. cbn. intuition congruence.
Qed.
Lemma ins_change_nodup : forall c l, ~ In (fst c) (map fst l) -> NoDup (map fst l) -> NoDup (map fst (ins_change c l)).
Proof.
  induction l as [|y tl IH]; intros Hn Hd; cbn; [constructor; [tauto | constructor]|].
  destruct (bytes_leb (fst c) (fst y)); cbn; [constructor; assumption|].
  inv Hd. cbn in Hn. constructor.
  - intro H. apply in_map_iff in H as [z [Hz Hin]]. apply ins_change_in in Hin as [-> | Hin]; [apply Hn; left; symmetry; exact Hz|].
    apply H1. rewrite <- Hz. apply in_map. exact Hin.
  - apply IH; tauto.
Qed.
Lemma sort_changes_nodup : forall l, NoDup (map fst l) -> NoDup (map fst (sort_changes l)).
Proof.
  induction l as [|c tl IH]; intro H; [cbn; constructor|]. rewrite sort_changes_cons. cbn in H. inv H.
  apply ins_change_nodup; [|apply IH; assumption].
  intro Hin. apply in_map_iff in Hin as [z [Hz Hi]]. rewrite sort_changes_in in Hi. apply H2. rewrite <- Hz. apply in_map. exact Hi.
Qed.
Lemma last_change_none : forall k l, ~ In k (map fst l) -> last_change k l = None.
Proof.
  induction l as [|c tl IH]; intro H; [reflexivity|]. cbn in *. rewrite IH by tauto.
  destruct (bytes_eqb (fst c) k) eqn:E; [|reflexivity]. apply bytes_eqb_eq in E. tauto.
Qed.
Lemma last_change_unique : forall k r l, NoDup (map fst l) -> In (k, r) l -> last_change k l = Some r.
Proof.
  induction l as [|c tl IH]; intros Hd Hi; [contradiction|]. cbn in *. inv Hd. destruct Hi as [-> | Hi].
  - cbn in *. rewrite last_change_none by assumption. rewrite bytes_eqb_refl. reflexivity.
  - rewrite IH by assumption. reflexivity.
Qed.

Definition diff_item (before after : state) (k : key) : list change :=
  if opt_val_eqb (get before k) (get after k) then [] else [(k, get after k)].
Lemma diff_items_in : forall before after ks k r,
  In (k, r) (flat_map (diff_item before after) ks) <->
  In k ks /\ opt_val_eqb (get before k) (get after k) = false /\ r = get after k.
Proof.
  intros before after ks k r. rewrite in_flat_map. unfold diff_item. split.
  - intros [x [Hx Hi]]. destruct (opt_val_eqb (get before x) (get after x)) eqn:E; [contradiction|].
    destruct Hi as [Hi | []]. inv Hi. auto.
  - intros [Hk [He ->]]. exists k. rewrite He. cbn. auto.
Qed.
Lemma diff_items_nodup : forall before after ks, NoDup ks -> NoDup (map fst (flat_map (diff_item before after) ks)).
Proof.
  induction ks as [|x tl IH]; intro H; cbn; [constructor|]. inv H. rewrite map_app.
  unfold diff_item at 1. destruct (opt_val_eqb (get before x) (get after x)); cbn; [apply IH; assumption|].
  constructor; [|apply IH; assumption].
  intro Hin. apply in_map_iff in Hin as [[k r] [Hz Hi]]. cbn in Hz. subst k. apply diff_items_in in Hi. tauto.
Qed.

Lemma batch_diff_last : forall before after k,
  last_change k (batch_diff before after) =
  if opt_val_eqb (get before k) (get after k) then None else Some (get after k).
Proof.
  intros before after k. unfold batch_diff.
  set (ks := dedup_keys [] (map fst after ++ map fst before)).
  change (fun k0 : key => if opt_val_eqb (get before k0) (get after k0) then [] else [(k0, get after k0)]) with (diff_item before after).
  assert (Hnd : NoDup (map fst (sort_changes (flat_map (diff_item before after) ks))))
    by (apply sort_changes_nodup, diff_items_nodup, dedup_keys_nodup).
  destruct (opt_val_eqb (get before k) (get after k)) eqn:E.
  - apply last_change_none. intro Hin. apply in_map_iff in Hin as [[k' r] [Hz Hi]]. cbn in Hz. subst k'.
    apply sort_changes_in, diff_items_in in Hi. destruct Hi as [_ [He _]]. congruence.
  - apply last_change_unique; [exact Hnd|]. apply sort_changes_in, diff_items_in. split; [|auto].
    unfold ks. apply dedup_keys_in. split; [|tauto]. apply in_or_app.
    destruct (get after k) as [v|] eqn:Ea; [left; eapply get_in_keys; exact Ea|].
    destruct (get before k) as [v|] eqn:Eb; [right; eapply get_in_keys; exact Eb|]. discriminate.
Qed.

(* applying the computed difference to (a state equivalent to) the old map gives the new map *)
Lemma batch_diff_apply : forall before after M, before ≈ M -> apply_changes M (batch_diff before after) ≈ after.
Proof.
  intros before after M HM k. rewrite get_apply_changes, batch_diff_last.
  destruct (opt_val_eqb (get before k) (get after k)) eqn:E; [|reflexivity].
  apply opt_val_eqb_eq in E. rewrite <- HM. exact E.
Qed.
Lemma batch_diff_values : forall before after k v, In (k, Some v) (batch_diff before after) -> get after k = Some v.
Proof.
  intros before after k v H. unfold batch_diff in H. rewrite sort_changes_in in H.
  change (fun k0 : key => if opt_val_eqb (get before k0) (get after k0) then [] else [(k0, get after k0)]) with (diff_item before after) in H.
  apply diff_items_in in H. destruct H as [_ [_ H]]. auto.
Qed.

(* ================================================================ sorting *)
Lemma ins_by_in : forall {A} le (x y : N * A) l, In y (ins_by le x l) <-> y = x \/ In y l.
Proof.
  intros A le x y l. induction l as [|z tl IH]; cbn.
  - intuition congruence.
  - destruct (le (fst x) (fst z)); cbn; [intuition congruence|]. rewrite IH. intuition congruence.
Qed.
Lemma isort_by_in : forall {A} le (y : N * A) l, In y (isort_by le l) <-> In y l.
Proof.
  intros A le y l. induction l as [|x tl IH]; cbn; [tauto|].
  rewrite ins_by_in, IH. intuition congruence.
Qed.

(* ================================================================ recovery on an arbitrary disk (C07) *)
Section RecoveryFacts.
  Variable deser : bytes -> option entry.
  Variable mac : bytes -> bytes.
  Variable val_ok : bytes -> bool.
  Variable dec_changes : bytes -> option (list change).
  Variable deser_hdr : bytes -> option snaphdr.
  Variable dec_map : bytes -> option state.

  Notation verify := (verify mac).
  Notation entry_changes := (entry_changes val_ok dec_changes).
  Notation replay_frame := (replay_frame deser mac val_ok dec_changes).
  Notation replay_file := (replay_file deser mac val_ok dec_changes).
  Notation snap_valid := (snap_valid mac deser_hdr dec_map).
  Notation load_snaps := (load_snaps mac deser_hdr dec_map).
  Notation recover := (recover deser mac val_ok dec_changes deser_hdr dec_map).

  (* a record body that recovery applies: decodes, tag verifies, payload decodes *)
  Definition accepted (body : bytes) (e : entry) (cs : list change) : Prop :=
    deser body = Some e /\ verify e = true /\ entry_changes e = Some cs.
  (* a record body that recovery rejects and reports *)
  Definition rejected (body : bytes) : Prop :=
    deser body = None \/ exists e, deser body = Some e /\ verify e = false.

  Lemma rejected_dec : forall body, rejected body \/ exists e, deser body = Some e /\ verify e = true.
  Proof.
    intro body. destruct (deser body) as [e|] eqn:E; [|left; left; exact E].
    destruct (verify e) eqn:V; [right; exists e; auto | left; right; exists e; auto].
  Qed.

  (* ---- the state and counter do not depend on the statistics accumulated so far *)
  Definition sc (r : rstate) : state * N := fst r.
  Lemma replay_frame_sc : forall body st c s1 s2,
    sc (replay_frame (st, c, s1) body) = sc (replay_frame (st, c, s2) body).
  Proof.
    intros. unfold Wal.replay_frame. destruct (deser body) as [e|]; [|reflexivity].
    destruct (verify e); [|reflexivity]. destruct (entry_changes e); reflexivity.
  Qed.
  Lemma fold_replay_sc : forall bodies st c s1 s2,
    sc (fold_left replay_frame bodies (st, c, s1)) = sc (fold_left replay_frame bodies (st, c, s2)).
  Proof.
    induction bodies as [|b tl IH]; intros; [reflexivity|]. cbn [fold_left].
    pose proof (replay_frame_sc b st c s1 s2) as H.
    destruct (replay_frame (st, c, s1) b) as [[st1 c1] t1].
    destruct (replay_frame (st, c, s2) b) as [[st2 c2] t2].
    cbn in H. inv H. apply IH.
  Qed.

  Lemma replay_frame_rejected : forall body r, rejected body ->
    sc (replay_frame r body) = sc r /\
    s_events (snd (replay_frame r body)) = s_events (snd r) ++ [EvSkipped] /\
    s_failed (snd (replay_frame r body)) = s_failed (snd r) + 1.
  Proof.
    intros body [[st c] s] [Hd | [e [Hd Hv]]]; unfold Wal.replay_frame; rewrite Hd; [|rewrite Hv]; cbn; auto.
  Qed.
  Lemma replay_frame_accepted : forall body e cs st c s, accepted body e cs ->
    replay_frame (st, c, s) body = (apply_changes st cs, N.max c (e_txid e), st_rec s (len cs)).
  Proof. intros body e cs st c s [Hd [Hv Hc]]. unfold Wal.replay_frame. rewrite Hd, Hv, Hc. reflexivity. Qed.

  (* ---- C07_no_invention *)
  (* where a recovered value can come from: a verified record of some log file, or
     a snapshot file whose keyed checksum verifies *)
  Definition from_record (files : list bytes) (k : key) (v : val) : Prop :=
    exists b body e cs, In b files /\ In body (fst (parse b)) /\ accepted body e cs /\ In (k, Some v) cs.
  Definition from_snapshot (snaps : list (N * bytes)) (k : key) (v : val) : Prop :=
    exists ts b h st, In (ts, b) snaps /\ snap_valid b = Some (h, st) /\ get st k = Some v.

  Lemma replay_frame_src : forall body r k v,
    get (fst (sc (replay_frame r body))) k = Some v ->
    get (fst (sc r)) k = Some v \/ exists e cs, accepted body e cs /\ In (k, Some v) cs.
  Proof.
    intros body [[st c] s] k v H. unfold Wal.replay_frame in H.
    destruct (deser body) as [e|] eqn:Hd; [|left; exact H].
    destruct (verify e) eqn:Hv; [|left; exact H].
    destruct (entry_changes e) as [cs|] eqn:Hc; [|left; exact H].
    cbn in H. apply get_apply_changes_src in H. destruct H as [H|H]; [right | left; exact H].
    exists e, cs. unfold accepted. auto.
  Qed.
  Lemma fold_replay_src : forall bodies r k v,
    get (fst (sc (fold_left replay_frame bodies r))) k = Some v ->
    get (fst (sc r)) k = Some v \/ exists body e cs, In body bodies /\ accepted body e cs /\ In (k, Some v) cs.
  Proof.
    induction bodies as [|b tl IH]; intros r k v H; [left; exact H|].
    cbn [fold_left] in H. apply IH in H. destruct H as [H | [body [e [cs [Hi [Ha Hc]]]]]].
    - apply replay_frame_src in H. destruct H as [H | [e [cs [Ha Hc]]]]; [left; exact H|].
      right. exists b, e, cs. cbn; auto.
    - right. exists body, e, cs. cbn; auto.
  Qed.
  Lemma replay_file_sc : forall r b,
    sc (replay_file r b) = sc (fold_left replay_frame (fst (parse b)) r).
  Proof.
    intros r b. unfold Wal.replay_file. destruct (parse b) as [fs t]. cbn [fst].
    destruct (fold_left replay_frame fs r) as [[st c] s]. reflexivity.
  Qed.
  Lemma fold_files_src : forall files r k v,
    get (fst (sc (fold_left replay_file files r))) k = Some v ->
    get (fst (sc r)) k = Some v \/ from_record files k v.
  Proof.
    induction files as [|b tl IH]; intros r k v H; [left; exact H|].
    cbn [fold_left] in H. apply IH in H. destruct H as [H | [b' [body [e [cs [Hb [Hi [Ha Hc]]]]]]]].
    - rewrite replay_file_sc in H. apply fold_replay_src in H.
      destruct H as [H | [body [e [cs [Hi [Ha Hc]]]]]]; [left; exact H|].
      right. exists b, body, e, cs. cbn; auto.
    - right. exists b', body, e, cs. cbn; auto.
  Qed.
  Lemma load_snaps_src : forall l s k v,
    get (fst (sc (load_snaps l s))) k = Some v -> from_snapshot l k v.
  Proof.
    induction l as [|[ts b] tl IH]; intros s k v H; [discriminate|].
    cbn [Wal.load_snaps] in H. destruct (snap_valid b) as [[h st]|] eqn:E.
    - exists ts, b, h, st. cbn; auto.
    - apply IH in H. destruct H as [ts' [b' [h [st [Hi Hr]]]]]. exists ts', b', h, st. cbn; auto.
  Qed.

  Lemma recover_no_invention : forall d k v,
    get (r_state (recover d)) k = Some v ->
    from_record (wal_files d) k v \/ from_snapshot (d_snap d) k v.
  Proof.
    intros d k v H. unfold Wal.recover, r_state in H.
    apply fold_files_src in H. destruct H as [H | H]; [right | left; exact H].
    apply load_snaps_src in H. destruct H as [ts [b [h [st [Hi Hr]]]]].
    exists ts, b, h, st. split; [|exact Hr]. unfold sort_desc in Hi. apply isort_by_in in Hi. exact Hi.
  Qed.

  (* with the MAC idealisation "a tag verifies only for records this store wrote" *)
  Lemma from_record_written : forall (Written : entry -> Prop) files k v,
    (forall e, verify e = true -> Written e) -> from_record files k v ->
    exists e cs, Written e /\ entry_changes e = Some cs /\ In (k, Some v) cs.
  Proof.
    intros W files k v HW [b [body [e [cs [_ [_ [[_ [Hv Hc]] Hin]]]]]]]. exists e, cs. auto.
  Qed.

  (* ---- C07_before_damage / after_damage *)
  Lemma replay_file_prefix : forall good rest r, Forall small good ->
    replay_file r (frames good ++ rest) = replay_file (fold_left replay_frame good r) rest.
  Proof.
    intros good rest r Hs. unfold Wal.replay_file. rewrite parse_app by assumption.
    destruct (parse rest) as [fs t]. cbn [fst snd]. rewrite fold_left_app. reflexivity.
  Qed.

  Lemma replay_file_skip : forall pre bad post r, Forall small pre -> small bad -> Forall small post ->
    rejected bad ->
    sc (replay_file r (frames (pre ++ bad :: post))) = sc (replay_file r (frames (pre ++ post))).
  Proof.
    intros pre bad post r Hp Hb Hq Hr.
    rewrite !replay_file_sc. rewrite !parse_frames_exact.
    2:{ apply Forall_app; split; assumption. }
    2:{ apply Forall_app; split; [assumption | constructor; assumption]. }
    cbn [fst]. rewrite !fold_left_app. cbn [fold_left].
    destruct (fold_left replay_frame pre r) as [[st c] s].
    pose proof (replay_frame_rejected bad (st, c, s) Hr) as [Hsc _].
    destruct (replay_frame (st, c, s) bad) as [[st' c'] s']. cbn in Hsc. inv Hsc.
    apply fold_replay_sc.
  Qed.

  (* ---- C07_stats: every rejected record and every torn tail is reported *)
  Definition nev (r : rstate) : nat := length (s_events (snd r)).
  Lemma replay_frame_nev : forall body r, (nev r <= nev (replay_frame r body))%nat.
  Proof.
    intros body [[st c] s]. unfold nev, Wal.replay_frame.
    destruct (deser body) as [e|]; [|cbn; rewrite app_length; lia].
    destruct (verify e); [|cbn; rewrite app_length; lia].
    destruct (entry_changes e); cbn; lia.
  Qed.
  Lemma fold_replay_nev : forall bodies r, (nev r <= nev (fold_left replay_frame bodies r))%nat.
  Proof.
    induction bodies as [|b tl IH]; intro r; [cbn; lia|]. cbn [fold_left].
    etransitivity; [apply (replay_frame_nev b)|apply IH].
  Qed.
  Lemma fold_replay_rejected : forall bodies r body, In body bodies -> rejected body ->
    (nev r < nev (fold_left replay_frame bodies r))%nat.
  Proof.
    induction bodies as [|b tl IH]; intros r body Hi Hr; [contradiction|]. cbn [fold_left].
    destruct Hi as [-> | Hi].
    - pose proof (replay_frame_rejected body r Hr) as [_ [He _]].
      pose proof (fold_replay_nev tl (replay_frame r body)). unfold nev in *. rewrite He, app_length in H. cbn in H. lia.
    - pose proof (replay_frame_nev b r). pose proof (IH (replay_frame r b) body Hi Hr). lia.
  Qed.
  Lemma replay_file_nev : forall r b,
    (nev (fold_left replay_frame (fst (parse b)) r) <= nev (replay_file r b))%nat /\
    (snd (parse b) = true -> (nev (fold_left replay_frame (fst (parse b)) r) < nev (replay_file r b))%nat).
  Proof.
    intros r b. unfold Wal.replay_file. destruct (parse b) as [fs t]. cbn [fst snd].
    destruct (fold_left replay_frame fs r) as [[st c] s]. unfold nev. destruct t; cbn; [rewrite app_length; cbn|]; split; intros; try lia; discriminate.
  Qed.
  Lemma fold_files_nev : forall files r, (nev r <= nev (fold_left replay_file files r))%nat.
  Proof.
    induction files as [|b tl IH]; intro r; [cbn; lia|]. cbn [fold_left].
    pose proof (replay_file_nev r b) as [H _]. pose proof (fold_replay_nev (fst (parse b)) r).
    pose proof (IH (replay_file r b)). lia.
  Qed.
  Lemma fold_files_damage : forall files r b, In b files ->
    (snd (parse b) = true \/ exists body, In body (fst (parse b)) /\ rejected body) ->
    (nev r < nev (fold_left replay_file files r))%nat.
  Proof.
    induction files as [|b0 tl IH]; intros r b Hi Hd; [contradiction|]. cbn [fold_left].
    destruct Hi as [-> | Hi].
    - pose proof (fold_files_nev tl (replay_file r b)). pose proof (replay_file_nev r b) as [H1 H2].
      pose proof (fold_replay_nev (fst (parse b)) r).
      destruct Hd as [Ht | [body [Hb Hr]]].
      + specialize (H2 Ht). lia.
      + pose proof (fold_replay_rejected _ r body Hb Hr). lia.
    - pose proof (replay_file_nev r b0) as [H1 _]. pose proof (fold_replay_nev (fst (parse b0)) r).
      pose proof (IH (replay_file r b0) b Hi Hd). lia.
  Qed.
  Lemma load_snaps_nev : forall l s ts b, In (ts, b) l -> snap_valid b = None ->
    (forall ts' b', In (ts', b') l -> ts < ts' -> snap_valid b' = None) ->
    StronglySorted (fun x y => fst y <= fst x) l -> NoDup (map fst l) ->
    (length (s_events s) < nev (load_snaps l s))%nat.
  Proof.
    unfold nev. induction l as [|[t0 b0] tl IH]; intros s ts b Hi Hv Hnewer Hs Hnd; [contradiction|].
    cbn [Wal.load_snaps]. inv Hs. inv Hnd. destruct Hi as [Heq | Hi].
    - inv Heq. rewrite Hv.
      assert (Hge : forall l' s', (length (s_events s') <= length (s_events (snd (load_snaps l' s'))))%nat).
      { induction l' as [|[t1 b1] tl' IH']; intro s'; [cbn; lia|]. cbn [Wal.load_snaps].
        destruct (snap_valid b1) as [[h st]|]; [cbn; lia|].
        etransitivity; [|apply IH']. cbn. rewrite app_length. lia. }
      pose proof (Hge tl (st_event s EvSnapBad)). cbn in H. rewrite app_length in H. cbn in H. lia.
    - assert (Hlt : ts < t0).
      { rewrite Forall_forall in H2. specialize (H2 _ Hi). cbn in H2.
        assert (ts <> t0) by (intro; subst; apply H3; apply (in_map fst) in Hi; exact Hi). lia. }
      rewrite (Hnewer t0 b0 (or_introl eq_refl) Hlt).
      assert (IHs := IH (st_event s EvSnapBad) ts b Hi Hv
                        (fun ts' b' H' => Hnewer ts' b' (or_intror H')) H1 H4).
      cbn in IHs. rewrite app_length in IHs. cbn in IHs. lia.
  Qed.

  Lemma recover_reports_damage : forall d b, In b (wal_files d) ->
    (snd (parse b) = true \/ exists body, In body (fst (parse b)) /\ rejected body) ->
    s_events (r_stats (recover d)) <> [].
  Proof.
    intros d b Hi Hd. unfold Wal.recover, r_stats.
    pose proof (fold_files_damage (wal_files d) (load_snaps (sort_desc (d_snap d)) stats0) b Hi Hd) as H.
    unfold nev in H. intro E. rewrite E in H. cbn in H. lia.
  Qed.
End RecoveryFacts.

(* ================================================================ the MAC input binds every field *)
Lemma app_eq_len : forall {A} (a a' b b' : list A), length a = length a' -> a ++ b = a' ++ b' -> a = a' /\ b = b'.
Proof.
  induction a as [|x a IH]; destruct a' as [|y a']; intros b b' Hl H; cbn in *; try discriminate; [auto|].
  inv H. destruct (IH a' b b') as [-> ->]; auto.
Qed.
Lemma le_bytes_inj : forall n x y, x < 256 ^ N.of_nat n -> y < 256 ^ N.of_nat n -> le_bytes n x = le_bytes n y -> x = y.
Proof. intros n x y Hx Hy H. rewrite <- (le_val_le_bytes n x Hx), <- (le_val_le_bytes n y Hy), H. reflexivity. Qed.

Definition u64 (x : N) : Prop := x < 18446744073709551616.
Lemma u64_pow : forall x, u64 x -> x < 256 ^ N.of_nat 8.
Proof. intros x H. exact H. Qed.

Lemma ttype_code_inj : forall a b, ttype_code a = ttype_code b -> a = b.
Proof. destruct a, b; cbn; intro H; try reflexivity; discriminate. Qed.

Lemma entry_fields_inj : forall ver txid ts t k v ver' txid' ts' t' k' v',
  u64 txid -> u64 ts -> u64 txid' -> u64 ts' -> u64 (len k) -> u64 (len k') ->
  (forall x, v = Some x -> u64 (len x)) -> (forall x, v' = Some x -> u64 (len x)) ->
  entry_fields ver txid ts t k v = entry_fields ver' txid' ts' t' k' v' ->
  ver = ver' /\ txid = txid' /\ ts = ts' /\ t = t' /\ k = k' /\ v = v'.
Proof.
  intros ver txid ts t k v ver' txid' ts' t' k' v' H1 H2 H3 H4 H5 H6 H7 H8 H.
  unfold entry_fields in H.
  apply app_eq_len in H as [Hver H]; [|reflexivity].
  apply app_eq_len in H as [Ha H]; [|rewrite !le_bytes_length; reflexivity].
  apply app_eq_len in H as [Hb H]; [|rewrite !le_bytes_length; reflexivity].
  apply app_eq_len in H as [Hc H]; [|reflexivity].
  apply app_eq_len in H as [Hd H]; [|rewrite !le_bytes_length; reflexivity].
  apply le_bytes_inj in Ha; try (apply u64_pow; assumption).
  apply le_bytes_inj in Hb; try (apply u64_pow; assumption).
  apply le_bytes_inj in Hd; try (apply u64_pow; assumption).
  assert (Hver' : ver = ver') by congruence.
  assert (Hc' : t = t') by (apply ttype_code_inj; congruence).
  apply app_eq_len in H as [He H]; [|unfold len in Hd; lia].
  repeat (split; [assumption|]).
  destruct v as [x|], v' as [y|]; try discriminate; [|reflexivity].
  apply app_eq_len in H as [_ H]; [|reflexivity].
  apply app_eq_len in H as [Hf H]; [|rewrite !le_bytes_length; reflexivity].
  congruence.
Qed.

(* ================================================================ sorted lists are fixed points of the sort *)
Lemma isort_by_sorted : forall {A} le (l : list (N * A)),
  StronglySorted (fun a b => le (fst a) (fst b) = true) l -> isort_by le l = l.
Proof.
  intros A le l H. induction H as [|x tl Hs IH Hf]; [reflexivity|].
  cbn [isort_by]. rewrite IH. destruct tl as [|y tl']; [reflexivity|].
  cbn [ins_by]. inv Hf. rewrite H1. reflexivity.
Qed.
Lemma sorted_map_fst : forall {A B} (f : A -> B) (R : list (N * A)) (P : N -> N -> Prop),
  StronglySorted (fun a b => P (fst a) (fst b)) R ->
  StronglySorted (fun a b => P (fst a) (fst b)) (map (fun p => (fst p, f (snd p))) R).
Proof.
  intros A B f R P H. induction H as [|x tl Hs IH Hf]; [constructor|].
  cbn [map]. constructor; [exact IH|]. rewrite Forall_forall in *. intros y Hy.
  apply in_map_iff in Hy as [z [<- Hz]]. cbn. apply Hf. exact Hz.
Qed.
Lemma sorted_weaken : forall {A} (P Q : A -> A -> Prop) l, (forall a b, P a b -> Q a b) ->
  StronglySorted P l -> StronglySorted Q l.
Proof.
  intros A P Q l HPQ H. induction H; constructor; [assumption|].
  eapply Forall_impl; [|eassumption]. intros; apply HPQ; assumption.
Qed.

(* ================================================================ well-formed logs (C06) *)
Section WriterFacts.
  Variable deser : bytes -> option entry.
  Variable mac : bytes -> bytes.
  Variable val_ok : bytes -> bool.
  Variable dec_changes : bytes -> option (list change).
  Variable deser_hdr : bytes -> option snaphdr.
  Variable dec_map : bytes -> option state.
  Variable ser : entry -> bytes.
  Variable enc_changes : list change -> bytes.
  Variable ser_hdr : snaphdr -> bytes.
  Variable enc_map : state -> bytes.

  (* the codec assumptions: decoding inverts encoding, encodings fit a u32 length *)
  Hypothesis Hser : forall e, deser (ser e) = Some e.
  Hypothesis Hser_small : forall e, small (ser e).
  Hypothesis Hchg : forall cs, dec_changes (enc_changes cs) = Some cs.
  Hypothesis Hhdr : forall h, deser_hdr (ser_hdr h) = Some h.
  Hypothesis Hhdr_small : forall h, small (ser_hdr h).
  Hypothesis Hmap : forall st, exists st', dec_map (enc_map st) = Some st' /\ st' ≈ st.

  Notation verify := (verify mac).
  Notation entry_changes := (entry_changes val_ok dec_changes).
  Notation replay_frame := (replay_frame deser mac val_ok dec_changes).
  Notation replay_file := (replay_file deser mac val_ok dec_changes).
  Notation snap_valid := (snap_valid mac deser_hdr dec_map).
  Notation load_snaps := (load_snaps mac deser_hdr dec_map).
  Notation recover := (recover deser mac val_ok dec_changes deser_hdr dec_map).

  Definition genuine (e : entry) : Prop := verify e = true /\ exists cs, entry_changes e = Some cs.
  Definition eff (e : entry) : list change := match entry_changes e with Some cs => cs | None => [] end.
  Definition effs (es : list entry) : list change := flat_map eff es.
  Definition fbytes (es : list entry) : bytes := frames (map ser es).
  Definition max_txid (c : N) (es : list entry) : N := fold_left (fun m e => N.max m (e_txid e)) es c.

  Lemma small_sers : forall es, Forall small (map ser es).
  Proof. intro es. apply Forall_forall. intros b Hb. apply in_map_iff in Hb as [e [<- _]]. apply Hser_small. Qed.

  Lemma fold_replay_genuine : forall es st c s, Forall genuine es ->
    sc (fold_left replay_frame (map ser es) (st, c, s)) = (apply_changes st (effs es), max_txid c es).
  Proof.
    induction es as [|e tl IH]; intros st c s Hg; [reflexivity|]. inv Hg.
    destruct H1 as [Hv [cs Hc]]. cbn [map fold_left].
    rewrite (replay_frame_accepted deser mac val_ok dec_changes (ser e) e cs st c s) by (repeat split; auto).
    rewrite IH by assumption. unfold effs. cbn [flat_map]. unfold eff at 2. rewrite Hc.
    rewrite apply_changes_app. reflexivity.
  Qed.

  Lemma replay_file_genuine : forall es t st c s, Forall genuine es -> (t = [] \/ torn t) ->
    sc (replay_file (st, c, s) (fbytes es ++ t)) = (apply_changes st (effs es), max_txid c es).
  Proof.
    intros es t st c s Hg Ht. rewrite replay_file_sc. unfold fbytes.
    destruct Ht as [-> | Ht].
    - rewrite app_nil_r, parse_frames_exact by apply small_sers. cbn [fst]. apply fold_replay_genuine. exact Hg.
    - rewrite parse_frames_torn by (auto using small_sers). cbn [fst]. apply fold_replay_genuine. exact Hg.
  Qed.

  Lemma max_txid_app : forall a b c, max_txid c (a ++ b) = max_txid (max_txid c a) b.
  Proof. intros. unfold max_txid. apply fold_left_app. Qed.
  Lemma effs_app : forall a b, effs (a ++ b) = effs a ++ effs b.
  Proof. intros. unfold effs. apply flat_map_app. Qed.

  Lemma fold_files_genuine : forall (Fs : list (list entry)) st c s, Forall genuine (concat Fs) ->
    sc (fold_left replay_file (map fbytes Fs) (st, c, s)) =
    (apply_changes st (effs (concat Fs)), max_txid c (concat Fs)).
  Proof.
    induction Fs as [|F tl IH]; intros st c s Hg; [reflexivity|].
    cbn [concat] in Hg. apply Forall_app in Hg as [Hg1 Hg2]. cbn [map fold_left].
    pose proof (replay_file_genuine F [] st c s Hg1 (or_introl eq_refl)) as H. rewrite app_nil_r in H.
    destruct (replay_file (st, c, s) (fbytes F)) as [[st1 c1] s1]. cbn in H. inv H.
    rewrite IH by assumption. cbn [concat]. rewrite effs_app, max_txid_app, apply_changes_app. reflexivity.
  Qed.

  (* shape of the log part of a disk the writer can leave behind *)
  Definition rot_bytes (R : list (N * list entry)) : list (N * bytes) := map (fun p => (fst p, fbytes (snd p))) R.
  Definition all_entries (R : list (N * list entry)) (ew : list entry) : list entry := concat (map snd R) ++ ew.
  Definition LogShape (d : disk) (R : list (N * list entry)) (ew : list entry) (t : bytes) : Prop :=
    d_rot d = rot_bytes R /\
    StronglySorted (fun a b => fst a < fst b) R /\
    (d_wal d = Some (fbytes ew ++ t) \/ (d_wal d = None /\ ew = [] /\ t = [])) /\ (t = [] \/ torn t) /\
    Forall genuine (all_entries R ew).

  Lemma rot_bytes_sorted : forall R, StronglySorted (fun a b => fst a < fst b) R -> sort_asc (rot_bytes R) = rot_bytes R.
  Proof.
    intros R H. unfold sort_asc. apply isort_by_sorted. unfold rot_bytes.
    apply (sorted_map_fst fbytes R (fun a b => (a <=? b) = true)).
    eapply sorted_weaken; [|exact H]. cbn. intros a b Hab. apply N.leb_le. lia.
  Qed.

  Lemma replay_logs_shape : forall d R ew t st c s, LogShape d R ew t ->
    sc (fold_left replay_file (wal_files d) (st, c, s)) =
    (apply_changes st (effs (all_entries R ew)), max_txid c (all_entries R ew)).
  Proof.
    intros d R ew t st c s [Hr [Hs [Hw [Ht Hg]]]]. unfold wal_files.
    rewrite Hr, rot_bytes_sorted by assumption. unfold rot_bytes. rewrite map_map. cbn [snd].
    replace (map (fun x : N * list entry => fbytes (snd x)) R) with (map fbytes (map snd R)) by (rewrite map_map; reflexivity).
    unfold all_entries in *. apply Forall_app in Hg as [Hg1 Hg2].
    rewrite fold_left_app.
    pose proof (fold_files_genuine (map snd R) st c s Hg1) as H.
    destruct (fold_left replay_file (map fbytes (map snd R)) (st, c, s)) as [[st1 c1] s1]. cbn in H. inv H.
    rewrite effs_app, max_txid_app, apply_changes_app.
    destruct Hw as [Hw | [Hw [-> ->]]]; rewrite Hw; cbn [fold_left].
    - rewrite replay_file_genuine by assumption. reflexivity.
    - reflexivity.
  Qed.

  (* ---- snapshots *)
  Definition SnapShape (d : disk) (S0 : state) (cs : N) : Prop :=
    StronglySorted (fun a b => fst b < fst a) (d_snap d) /\
    match d_snap d with
    | [] => S0 = [] /\ cs = 0
    | (ts, b) :: _ => exists h, snap_valid b = Some (h, S0) /\ h_txid h = cs
    end.

  Lemma snaps_sorted : forall (l : list (N * bytes)), StronglySorted (fun a b => fst b < fst a) l -> sort_desc l = l.
  Proof.
    intros l H. unfold sort_desc. apply isort_by_sorted.
    eapply sorted_weaken; [|exact H]. cbn. intros a b Hab. apply N.leb_le. lia.
  Qed.

  Lemma load_shape : forall d S0 cs s, SnapShape d S0 cs -> sc (load_snaps (sort_desc (d_snap d)) s) = (S0, cs).
  Proof.
    intros d S0 cs s [Hs Hh]. rewrite snaps_sorted by assumption.
    destruct (d_snap d) as [|[ts b] tl]; [destruct Hh as [-> ->]; reflexivity|].
    destruct Hh as [h [Hv <-]]. cbn [Wal.load_snaps]. rewrite Hv. reflexivity.
  Qed.

  Lemma recover_shape : forall d R ew t S0 cs, LogShape d R ew t -> SnapShape d S0 cs ->
    sc (recover d) = (apply_changes S0 (effs (all_entries R ew)), max_txid cs (all_entries R ew)).
  Proof.
    intros d R ew t S0 cs Hl Hs. unfold Wal.recover.
    pose proof (load_shape d S0 cs stats0 Hs) as H.
    destruct (load_snaps (sort_desc (d_snap d)) stats0) as [[st c] s]. cbn in H. inv H.
    apply (replay_logs_shape d R ew t). exact Hl.
  Qed.

  (* ---- the snapshot covers a prefix of the log *)
  Definition Cover (S0 : state) (cs : N) (E : list entry) (M : state) : Prop :=
    exists X L0 E1 E2, E = E1 ++ E2 /\ S0 ≈ apply_changes X (L0 ++ effs E1) /\
      Forall (fun e => e_txid e <= cs) E1 /\ Forall (fun e => cs < e_txid e) E2 /\
      M ≈ apply_changes X (L0 ++ effs E).

  Lemma cover_recover : forall S0 cs E M, Cover S0 cs E M -> apply_changes S0 (effs E) ≈ M.
  Proof.
    intros S0 cs E M [X [L0 [E1 [E2 [-> [HS [_ [_ HM]]]]]]]].
    rewrite effs_app, apply_changes_app.
    apply steq_trans with (apply_changes (apply_changes X (L0 ++ effs E1)) (effs E2)).
    - apply apply_changes_steq.
      apply steq_trans with (apply_changes (apply_changes X (L0 ++ effs E1)) (effs E1)).
      + apply apply_changes_steq. exact HS.
      + apply replay_suffix_idem.
    - apply steq_sym. rewrite <- apply_changes_app, <- app_assoc, <- effs_app. exact HM.
  Qed.

  (* the disk invariant: M = committed state, C = the transaction counter recovery will return
     (the largest id on disk) *)
  Definition DInvG (d : disk) (M : state) (C : N) (t : bytes) : Prop :=
    exists R ew S0 cs,
      LogShape d R ew t /\ SnapShape d S0 cs /\ Cover S0 cs (all_entries R ew) M /\
      StronglySorted (fun a b => e_txid a < e_txid b) (all_entries R ew) /\
      Forall (fun e => e_txid e <= C) (all_entries R ew) /\ cs <= C /\
      max_txid cs (all_entries R ew) = C.
  Definition DInv (d : disk) (M : state) (C : N) : Prop := exists t, DInvG d M C t.

  Lemma max_txid_bound : forall es c C, c <= C -> Forall (fun e => e_txid e <= C) es -> max_txid c es <= C.
  Proof.
    induction es as [|e tl IH]; intros c C Hc Hf; [exact Hc|]. inv Hf. cbn. apply IH; [lia | assumption].
  Qed.
  Lemma max_txid_ge : forall es c, c <= max_txid c es.
  Proof. induction es as [|e tl IH]; intro c; [cbn; lia|]. cbn. etransitivity; [|apply IH]. lia. Qed.
  Lemma max_txid_in : forall es c e, In e es -> e_txid e <= max_txid c es.
  Proof.
    induction es as [|x tl IH]; intros c e Hi; [contradiction|]. cbn. destruct Hi as [-> | Hi].
    - etransitivity; [|apply max_txid_ge]. lia.
    - apply IH. exact Hi.
  Qed.

  (* what recovery returns on a disk satisfying the invariant *)
  Lemma recover_DInv : forall d M C, DInv d M C -> r_state (recover d) ≈ M /\ r_ctr (recover d) = C.
  Proof.
    intros d M C [t [R [ew [S0 [cs [Hl [Hs [Hc [_ [Hb [Hcs Hmx]]]]]]]]]]].
    pose proof (recover_shape d R ew t S0 cs Hl Hs) as H. unfold r_state, r_ctr.
    destruct (recover d) as [[st c] s]. cbn in H. inv H. cbn. split.
    - apply cover_recover with cs. exact Hc.
    - first [exact Hmx | reflexivity].
  Qed.

  (* ---- steps of the writer *)
  Lemma sorted_snoc : forall {A} (f : A -> N) l x, StronglySorted (fun a b => f a < f b) l ->
    Forall (fun e => f e < f x) l -> StronglySorted (fun a b => f a < f b) (l ++ [x]).
  Proof.
    intros A f l x Hs Hb. induction Hs as [|y tl Hs IH Hf]; cbn; [repeat constructor|].
    inv Hb. constructor; [apply IH; assumption|].
    apply Forall_app. split; [assumption|]. constructor; [assumption|constructor].
  Qed.

  Lemma all_entries_snoc : forall R ew e, all_entries R (ew ++ [e]) = all_entries R ew ++ [e].
  Proof. intros. unfold all_entries. rewrite app_assoc. reflexivity. Qed.
  Lemma fbytes_snoc : forall ew e, fbytes (ew ++ [e]) = fbytes ew ++ frame (ser e).
  Proof. intros. unfold fbytes. rewrite map_app, frames_app. cbn. unfold frames. cbn. rewrite app_nil_r. reflexivity. Qed.

  (* a whole record appended to a clean log: one more operation is committed *)
  Lemma step_append_full : forall d M C e y, DInvG d M C [] -> d_wal d = Some y ->
    genuine e -> C < e_txid e ->
    DInvG (exec1 d (AAppend FWal (frame (ser e)))) (apply_changes M (eff e)) (e_txid e) [].
  Proof.
    intros d M C e y [R [ew [S0 [cs [Hl [Hs [Hc [Hsort [Hb [Hcs Hmx]]]]]]]]]] Hy Hg Hlt.
    destruct Hl as [Hr [HRs [Hw [_ Hgs]]]].
    destruct Hw as [Hw | [Hw _]]; [|congruence]. rewrite app_nil_r in Hw.
    exists R, (ew ++ [e]), S0, cs. cbn [exec1 read write]. rewrite Hw. repeat split.
    - exact Hr.
    - exact HRs.
    - left. cbn. rewrite fbytes_snoc, app_nil_r. reflexivity.
    - left. reflexivity.
    - rewrite all_entries_snoc. apply Forall_app. split; [exact Hgs | constructor; [exact Hg | constructor]].
    - exact (proj1 Hs).
    - exact (proj2 Hs).
    - destruct Hc as [X [L0 [E1 [E2 [HE [HS [H1 [H2 HM]]]]]]]].
      exists X, L0, E1, (E2 ++ [e]). rewrite all_entries_snoc, HE. repeat split.
      + rewrite app_assoc. reflexivity.
      + exact HS.
      + exact H1.
      + apply Forall_app. split; [exact H2 | constructor; [lia | constructor]].
      + rewrite <- HE. rewrite effs_app. unfold effs at 2. cbn [flat_map]. rewrite app_nil_r.
        rewrite app_assoc, apply_changes_app. apply apply_changes_steq. exact HM.
    - rewrite all_entries_snoc. apply sorted_snoc; [assumption|].
      eapply Forall_impl; [|exact Hb]. cbn. intros; lia.
    - rewrite all_entries_snoc. apply Forall_app. split.
      + eapply Forall_impl; [|exact Hb]. cbn. intros; lia.
      + constructor; [lia | constructor].
    - lia.
    - rewrite all_entries_snoc, max_txid_app, Hmx. cbn. lia.
  Qed.

  (* the process dies inside the write: the bytes form a torn tail, nothing is committed *)
  Lemma step_append_cut : forall d M C e y n, DInvG d M C [] -> d_wal d = Some y ->
    (0 < n < length (frame (ser e)))%nat ->
    DInvG (exec1 d (AAppend FWal (firstn n (frame (ser e))))) M C (firstn n (frame (ser e))).
  Proof.
    intros d M C e y n [R [ew [S0 [cs [Hl [Hs [Hc [Hsort [Hb [Hcs Hmx]]]]]]]]]] Hy Hn.
    destruct Hl as [Hr [HRs [Hw [_ Hgs]]]].
    destruct Hw as [Hw | [Hw _]]; [|congruence]. rewrite app_nil_r in Hw.
    exists R, ew, S0, cs. cbn [exec1 read write]. rewrite Hw. repeat split; try assumption.
    - left. reflexivity.
    - right. apply strict_prefix_torn; [apply Hser_small | exact Hn].
    - exact (proj1 Hs).
    - exact (proj2 Hs).
  Qed.

  (* ---- rotation *)
  Lemma fold_max_ge : forall {A} (l : list (N * A)) c, c <= fold_left (fun m p => N.max m (fst p)) l c.
  Proof. induction l as [|x tl IH]; intro c; [cbn; lia|]. cbn. etransitivity; [|apply IH]. lia. Qed.
  Lemma fold_max_in : forall {A} (l : list (N * A)) c p, In p l -> fst p <= fold_left (fun m p => N.max m (fst p)) l c.
  Proof.
    induction l as [|x tl IH]; intros c p Hi; [contradiction|]. cbn. destruct Hi as [-> | Hi].
    - etransitivity; [|apply fold_max_ge]. lia.
    - apply IH. exact Hi.
  Qed.
  Lemma next_seq_gt : forall d p, In p (d_rot d) -> fst p < next_seq d.
  Proof. intros d p Hi. unfold next_seq. pose proof (fold_max_in (d_rot d) 0 p Hi). lia. Qed.

  Lemma aupdate_none : forall {A} n (x : A) l, (forall p, In p l -> fst p <> n) -> aupdate n x l = None.
  Proof.
    induction l as [|[m y] tl IH]; intro H; [reflexivity|]. cbn.
    replace (m =? n) with false by (symmetry; apply N.eqb_neq; apply (H (m, y)); left; reflexivity).
    rewrite IH; [reflexivity|]. intros p Hp. apply H. right. exact Hp.
  Qed.

  Lemma step_rotate_rename : forall d M C y, DInvG d M C [] -> d_wal d = Some y ->
    DInvG (exec1 d (ARename FWal (FRot (next_seq d)))) M C [] /\
    d_wal (exec1 d (ARename FWal (FRot (next_seq d)))) = None.
  Proof.
    intros d M C y [R [ew [S0 [cs [Hl [Hs [Hc [Hsort [Hb [Hcs Hmx]]]]]]]]]] Hy.
    destruct Hl as [Hr [HRs [Hw [_ Hgs]]]].
    destruct Hw as [Hw | [Hw _]]; [|congruence]. rewrite app_nil_r in Hw.
    assert (Hnone : aupdate (next_seq d) (fbytes ew) (d_rot d) = None).
    { apply aupdate_none. intros p Hp. pose proof (next_seq_gt d p Hp). lia. }
    split; [|cbn [exec1 read]; rewrite Hw; reflexivity].
    assert (Hall : all_entries (R ++ [(next_seq d, ew)]) [] = all_entries R ew).
    { unfold all_entries. rewrite map_app, concat_app. cbn. rewrite !app_nil_r. reflexivity. }
    exists (R ++ [(next_seq d, ew)]), [], S0, cs. unfold LogShape, SnapShape.
    cbn [exec1 read]. rewrite Hw. cbn [unlink write d_wal d_rot d_snap d_tmp]. unfold aput_back. rewrite Hnone.
    rewrite Hall. repeat split; try assumption.
    - rewrite Hr. unfold rot_bytes. rewrite map_app. reflexivity.
    - apply sorted_snoc; [exact HRs|]. apply Forall_forall. intros p Hp. cbn.
      assert (In (fst p, fbytes (snd p)) (d_rot d)) by (rewrite Hr; unfold rot_bytes; apply in_map_iff; exists p; auto).
      apply (next_seq_gt d _ H).
    - right. auto.
    - left. reflexivity.
    - exact (proj1 Hs).
    - exact (proj2 Hs).
  Qed.

  Lemma step_create_wal : forall d M C, DInvG d M C [] -> d_wal d = None ->
    DInvG (exec1 d (ACreate FWal)) M C [] /\ d_wal (exec1 d (ACreate FWal)) = Some [].
  Proof.
    intros d M C [R [ew [S0 [cs [Hl [Hs [Hc [Hsort [Hb [Hcs Hmx]]]]]]]]]] Hn.
    destruct Hl as [Hr [HRs [Hw [_ Hgs]]]].
    destruct Hw as [Hw | [Hw [-> _]]]; [congruence|].
    cbn [exec1 read]. rewrite Hn. cbn [write d_wal]. split; [|reflexivity].
    exists R, [], S0, cs. cbn [d_wal d_rot d_snap]. repeat split; try assumption.
    - left. reflexivity.
    - left. reflexivity.
    - exact (proj1 Hs).
    - exact (proj2 Hs).
  Qed.

  (* actions that touch only snapshot.<ts>.tmp leave the invariant alone *)
  Lemma DInvG_same_files : forall d d' M C t, d_wal d' = d_wal d -> d_rot d' = d_rot d -> d_snap d' = d_snap d ->
    DInvG d M C t -> DInvG d' M C t.
  Proof.
    intros d d' M C t Hw Hr Hs [R [ew [S0 [cs [Hl [Hsn H]]]]]].
    exists R, ew, S0, cs. unfold LogShape, SnapShape in *. rewrite Hw, Hr, Hs. auto.
  Qed.

  (* ---- every crash cut of one logged write (record append, then rotation if due) *)
  Lemma DInvG_DInv : forall d M C t, DInvG d M C t -> DInv d M C.
  Proof. intros d M C t H. exists t. exact H. Qed.

  Lemma append_any_cut : forall d M C e y b, DInvG d M C [] -> d_wal d = Some y -> genuine e -> C < e_txid e ->
    let d' := exec d (cut [AAppend FWal (frame (ser e))] 0 b) in
    DInv d' M C \/ d' = exec1 d (AAppend FWal (frame (ser e))).
  Proof.
    intros d M C e y b HI Hy Hg Hlt. cbn [cut firstn nth_error app].
    destruct b as [|b]; [left; cbn; eapply DInvG_DInv; exact HI|].
    destruct (Nat.ltb (S b) (length (frame (ser e)))) eqn:E.
    - apply Nat.ltb_lt in E. left. cbn [exec fold_left]. eapply DInvG_DInv.
      apply (step_append_cut d M C e y (S b) HI Hy). lia.
    - apply Nat.ltb_ge in E. right. cbn [exec fold_left]. rewrite firstn_all2 by exact E. reflexivity.
  Qed.

  Lemma write_cuts : forall d w M C e y rot a b, DInvG d M C [] -> d_wal d = Some y -> genuine e -> C < e_txid e ->
    let d' := exec d (cut (fst (write_actions ser d w e rot)) a b) in
    DInv d' M C \/ DInv d' (apply_changes M (eff e)) (e_txid e).
  Proof.
    intros d w M C e y rot a b HI Hy Hg Hlt. unfold write_actions.
    pose proof (step_append_full d M C e y HI Hy Hg Hlt) as Hfull.
    set (d1 := exec1 d (AAppend FWal (frame (ser e)))) in *.
    assert (Hy1 : exists y1, d_wal d1 = Some y1) by (subst d1; cbn [exec1 read write d_wal]; eexists; reflexivity).
    destruct Hy1 as [y1 Hy1].
    assert (Hns : next_seq d1 = next_seq d) by (subst d1; unfold next_seq; cbn [exec1 read write d_rot]; reflexivity).
    destruct (rot && ((WAL_MAX_SIZE <=? w_size w + len (frame (ser e))) || (WAL_MAX_ENTRIES <=? w_count w + 1))); cbn [fst].
    - destruct a as [|[|[|a]]].
      + destruct (append_any_cut d M C e y b HI Hy Hg Hlt) as [H | H].
        * left. exact H.
        * right. cbn [cut firstn nth_error app] in *. rewrite H. eapply DInvG_DInv. exact Hfull.
      + right. cbn [cut firstn nth_error app exec fold_left]. eapply DInvG_DInv. exact Hfull.
      + right. cbn [cut firstn nth_error app exec fold_left]. fold d1. rewrite <- Hns.
        eapply DInvG_DInv. apply (step_rotate_rename d1 _ _ y1 Hfull Hy1).
      + right. replace (cut _ (S (S (S a))) b) with [AAppend FWal (frame (ser e)); ARename FWal (FRot (next_seq d)); ACreate FWal]
          by (unfold cut; destruct a; reflexivity).
        cbn [exec fold_left]. fold d1. rewrite <- Hns.
        destruct (step_rotate_rename d1 _ _ y1 Hfull Hy1) as [H2 Hn2].
        eapply DInvG_DInv. apply (step_create_wal _ _ _ H2 Hn2).
    - destruct a as [|a].
      + destruct (append_any_cut d M C e y b HI Hy Hg Hlt) as [H | H].
        * left. exact H.
        * right. cbn [cut firstn nth_error app] in *. rewrite H. eapply DInvG_DInv. exact Hfull.
      + right. replace (cut _ (S a) b) with [AAppend FWal (frame (ser e))] by (unfold cut; destruct a; reflexivity).
        cbn [exec fold_left]. eapply DInvG_DInv. exact Hfull.
  Qed.

  (* ---- whole operations (record-writing operations and the rolled-back batch) *)
  Lemma DInvG_steq : forall d M M' C t, M ≈ M' -> DInvG d M C t -> DInvG d M' C t.
  Proof.
    intros d M M' C t HM [R [ew [S0 [cs [Hl [Hs [Hc H]]]]]]].
    exists R, ew, S0, cs. repeat split; try tauto.
    - destruct Hl as [? [? [? [? ?]]]]; assumption.
    - destruct Hl as [? [? [? [? ?]]]]; assumption.
    - destruct Hl as [? [? [? [? ?]]]]; assumption.
    - destruct Hl as [? [? [? [? ?]]]]; assumption.
    - destruct Hl as [? [? [? [? ?]]]]; assumption.
    - exact (proj1 Hs).
    - exact (proj2 Hs).
    - destruct Hc as [X [L0 [E1 [E2 [HE [HS [H1 [H2 HMM]]]]]]]]. exists X, L0, E1, E2. repeat split; try assumption.
      eapply steq_trans; [apply steq_sym; exact HM | exact HMM].
  Qed.

  Lemma write_full : forall d w M C e y rot, DInvG d M C [] -> d_wal d = Some y -> genuine e -> C < e_txid e ->
    let d' := exec d (fst (write_actions ser d w e rot)) in
    DInvG d' (apply_changes M (eff e)) (e_txid e) [] /\ exists y', d_wal d' = Some y'.
  Proof.
    intros d w M C e y rot HI Hy Hg Hlt. unfold write_actions.
    pose proof (step_append_full d M C e y HI Hy Hg Hlt) as Hfull.
    set (d1 := exec1 d (AAppend FWal (frame (ser e)))) in *.
    assert (Hy1 : exists y1, d_wal d1 = Some y1) by (subst d1; cbn [exec1 read write d_wal]; eexists; reflexivity).
    destruct Hy1 as [y1 Hy1].
    assert (Hns : next_seq d1 = next_seq d) by (subst d1; unfold next_seq; cbn [exec1 read write d_rot]; reflexivity).
    destruct (rot && ((WAL_MAX_SIZE <=? w_size w + len (frame (ser e))) || (WAL_MAX_ENTRIES <=? w_count w + 1))); cbn [fst exec fold_left]; fold d1.
    - rewrite <- Hns. destruct (step_rotate_rename d1 _ _ y1 Hfull Hy1) as [H2 Hn2].
      destruct (step_create_wal _ _ _ H2 Hn2) as [H3 Hw3]. split; [exact H3 | eauto].
    - split; [exact Hfull | eauto].
  Qed.

  (* ---- checkpoint *)
  Notation snap_file := (snap_file ser_hdr).

  Lemma snap_file_valid : forall mem ts c,
    let data := enc_map mem in
    let h0 := mkHdr WAL_VERSION ts c (len mem) (len data) [] in
    let h := mkHdr WAL_VERSION ts c (len mem) (len data) (mac (snap_fields h0 data)) in
    exists st', snap_valid (snap_file h data) = Some (h, st') /\ st' ≈ mem /\ h_txid h = c.
  Proof.
    intros mem ts c data h0 h. destruct (Hmap mem) as [st' [Hd He]]. exists st'. split; [|split; [exact He | reflexivity]].
    unfold Wal.snap_valid, Wal.split_snap, Wal.snap_file.
    destruct (frame_head (ser_hdr h) data (Hhdr_small h)) as [Hv Hk].
    assert (Hl : len (frame (ser_hdr h) ++ data) = 4 + len (ser_hdr h) + len data) by (rewrite len_app, frame_len; lia).
    rewrite Hl. replace (4 + len (ser_hdr h) + len data <? 4) with false by (symmetry; apply N.ltb_ge; lia).
    rewrite Hv, Hk. rewrite len_app.
    replace (len (ser_hdr h) + len data <? len (ser_hdr h)) with false by (symmetry; apply N.ltb_ge; lia).
    replace (N.to_nat (len (ser_hdr h))) with (length (ser_hdr h)) by (unfold len; rewrite Nat2N.id; reflexivity).
    rewrite firstn_app_exact, skipn_app_exact by reflexivity.
    rewrite Hhdr. change (dec_map data) with (dec_map (enc_map mem)). rewrite Hd.
    replace (snap_fields h data) with (snap_fields h0 data) by reflexivity.
    cbn [h_tag h]. rewrite bytes_eqb_refl. reflexivity.
  Qed.

  Lemma alookup_aupdate : forall {A} n (x : A) l l', aupdate n x l = Some l' -> alookup n l' = Some x.
  Proof.
    induction l as [|[m y] tl IH]; intros l' H; [discriminate|]. cbn in H.
    destruct (m =? n) eqn:E.
    - inv H. cbn. rewrite E. reflexivity.
    - destruct (aupdate n x tl) as [tl'|]; [|discriminate]. inv H. cbn. rewrite E. apply IH. reflexivity.
  Qed.
  Lemma alookup_aput_front : forall {A} n (x : A) l, alookup n (aput_front n x l) = Some x.
  Proof.
    intros. unfold aput_front. destruct (aupdate n x l) as [l'|] eqn:E.
    - eapply alookup_aupdate. exact E.
    - cbn. rewrite N.eqb_refl. reflexivity.
  Qed.

  (* the snapshot file name must not go backwards: second-granular clock, non-decreasing *)
  Definition ts_ok (d : disk) (ts : N) : Prop :=
    match d_snap d with [] => True | (t0, _) :: _ => t0 <= ts end.

  Lemma sorted_desc_head_bound : forall (l : list (N * bytes)) t0 b0 p,
    StronglySorted (fun a b => fst b < fst a) ((t0, b0) :: l) -> In p l -> fst p < t0.
  Proof. intros l t0 b0 p H Hi. inv H. rewrite Forall_forall in H3. exact (H3 p Hi). Qed.

  (* installing a new newest snapshot *)
  Lemma aput_front_newest : forall (l : list (N * bytes)) ts x, StronglySorted (fun a b => fst b < fst a) l ->
    match l with [] => True | (t0, _) :: _ => t0 <= ts end ->
    exists tl, aput_front ts x l = (ts, x) :: tl /\ StronglySorted (fun a b => fst b < fst a) ((ts, x) :: tl) /\
               (forall p, In p tl -> In p l).
  Proof.
    intros l ts x Hs Hts. destruct l as [|[t0 b0] tl].
    - exists []. cbn. repeat split; [repeat constructor | intros p []].
    - destruct (N.eq_dec t0 ts) as [-> | Hne].
      + exists tl. unfold aput_front. cbn. rewrite N.eqb_refl. repeat split.
        * inv Hs. constructor; assumption.
        * intros p Hp. right. exact Hp.
      + exists ((t0, b0) :: tl). unfold aput_front.
        rewrite aupdate_none.
        * repeat split; [|intros p Hp; exact Hp]. constructor; [exact Hs|].
          constructor; [cbn; lia|]. apply Forall_forall. intros p Hp. cbn.
          pose proof (sorted_desc_head_bound tl t0 b0 p Hs Hp). lia.
        * intros p [<- | Hp]; cbn; [exact Hne|].
          pose proof (sorted_desc_head_bound tl t0 b0 p Hs Hp). lia.
  Qed.

  (* after the new snapshot is installed it holds the whole committed state *)
  Definition DInvFull (d : disk) (M : state) (C : N) (t : bytes) : Prop :=
    exists R ew S0 X L0,
      LogShape d R ew t /\ SnapShape d S0 C /\ S0 ≈ apply_changes X (L0 ++ effs (all_entries R ew)) /\ M ≈ S0 /\
      StronglySorted (fun a b => e_txid a < e_txid b) (all_entries R ew) /\
      Forall (fun e => e_txid e <= C) (all_entries R ew).

  Lemma max_txid_all_le : forall es c, Forall (fun e => e_txid e <= c) es -> max_txid c es = c.
  Proof.
    induction es as [|e tl IH]; intros c H; [reflexivity|]. inv H. cbn.
    replace (N.max c (e_txid e)) with c by lia. apply IH. assumption.
  Qed.

  Lemma DInvFull_DInvG : forall d M C t, DInvFull d M C t -> DInvG d M C t.
  Proof.
    intros d M C t [R [ew [S0 [X [L0 [Hl [Hs [HS [HM [Hsort Hb]]]]]]]]]].
    exists R, ew, S0, C. split; [exact Hl|]. split; [exact Hs|].
    split; [|split; [exact Hsort | split; [exact Hb | split; [lia | apply max_txid_all_le; exact Hb]]]].
    exists X, L0, (all_entries R ew), []. rewrite app_nil_r. repeat split; try assumption; try constructor.
    eapply steq_trans; eassumption.
  Qed.

  Lemma step_install_snapshot_full : forall d M C C2 mem ts file h st' t,
    DInvG d M C t -> C <= C2 -> ts_ok d ts -> read d (FTmp ts) = Some file ->
    snap_valid file = Some (h, st') -> st' ≈ mem -> mem ≈ M -> h_txid h = C2 ->
    DInvFull (exec1 d (ARename (FTmp ts) (FSnap ts))) M C2 t /\
    d_rot (exec1 d (ARename (FTmp ts) (FSnap ts))) = d_rot d /\
    (exists tl, d_snap (exec1 d (ARename (FTmp ts) (FSnap ts))) = (ts, file) :: tl /\ forall p, In p tl -> In p (d_snap d)).
  Proof.
    intros d M C C2 mem ts file h st' t [R [ew [S0 [cs [Hl [Hs [Hc [Hsort [Hb [Hcs Hmx]]]]]]]]]] HC Hts Hrd Hv He Hm Hc'.
    cbn [exec1]. rewrite Hrd. cbn [unlink write d_wal d_rot d_snap d_tmp].
    destruct Hs as [Hss Hsh].
    destruct (aput_front_newest (d_snap d) ts file Hss Hts) as [tl [Heq [Hs' Hin]]].
    split; [|split; [reflexivity | exists tl; split; [exact Heq | exact Hin]]].
    destruct Hc as [X [L0 [E1 [E2 [HE [HS [H1 [H2 HM]]]]]]]].
    exists R, ew, st', X, L0. unfold LogShape, SnapShape in *. cbn [d_wal d_rot d_snap]. rewrite Heq.
    split; [exact Hl|]. split; [split; [exact Hs' | exists h; auto]|].
    split; [eapply steq_trans; [exact He|]; eapply steq_trans; [exact Hm | exact HM]|].
    split; [eapply steq_trans; [apply steq_sym; exact Hm | apply steq_sym; exact He]|].
    split; [assumption|]. eapply Forall_impl; [|exact Hb]. cbn. intros; lia.
  Qed.

  Lemma aremove_head_sorted : forall (R : list (N * list entry)) n F,
    StronglySorted (fun a b => fst a < fst b) ((n, F) :: R) -> aremove n (rot_bytes ((n, F) :: R)) = rot_bytes R.
  Proof.
    intros R n F H. inv H. unfold aremove. cbn [rot_bytes map filter fst]. rewrite N.eqb_refl. cbn [negb].
    fold (rot_bytes R). rewrite Forall_forall in H3.
    assert (Hall : forall p, In p (rot_bytes R) -> negb (fst p =? n) = true).
    { intros p Hp. unfold rot_bytes in Hp. apply in_map_iff in Hp as [q [<- Hq]]. cbn. specialize (H3 q Hq). cbn in H3.
      apply negb_true_iff. apply N.eqb_neq. lia. }
    induction (rot_bytes R) as [|p tl IH]; [reflexivity|]. cbn [filter]. rewrite (Hall p (or_introl eq_refl)).
    f_equal. apply IH. intros q Hq. apply Hall. right. exact Hq.
  Qed.

  Lemma sorted_app_r : forall {A} (P : A -> A -> Prop) a b, StronglySorted P (a ++ b) -> StronglySorted P b.
  Proof. intros A P a b H. induction a as [|x a IH]; [exact H|]. inv H. apply IH. assumption. Qed.

  (* removing the oldest rotated log once the snapshot covers it *)
  Lemma step_unlink_first : forall d M C t n b tl, DInvFull d M C t -> d_rot d = (n, b) :: tl ->
    DInvFull (exec1 d (AUnlink (FRot n))) M C t /\ d_rot (exec1 d (AUnlink (FRot n))) = tl /\
    d_snap (exec1 d (AUnlink (FRot n))) = d_snap d.
  Proof.
    intros d M C t n b tl [R [ew [S0 [X [L0 [Hl [Hs [HS [HM [Hsort Hb]]]]]]]]]] Hrot.
    destruct Hl as [Hr [HRs [Hw [Ht Hg]]]]. rewrite Hr in Hrot.
    destruct R as [|[n' F] R']; [discriminate|]. cbn [rot_bytes map fst snd] in Hrot. inv Hrot.
    pose proof (aremove_head_sorted R' n F HRs) as Hrem.
    cbn [exec1 unlink d_rot d_snap d_wal]. rewrite Hr, Hrem. split; [|split; reflexivity].
    assert (Hall : all_entries ((n, F) :: R') ew = F ++ all_entries R' ew).
    { unfold all_entries. cbn. rewrite app_assoc. reflexivity. }
    rewrite Hall in *.
    exists R', ew, S0, X, (L0 ++ effs F). unfold LogShape, SnapShape in *. cbn [d_wal d_rot d_snap].
    split; [|split; [exact Hs|]].
    - split; [reflexivity|]. split; [inv HRs; assumption|]. split; [exact Hw|]. split; [exact Ht|].
      apply Forall_app in Hg. tauto.
    - split; [rewrite <- app_assoc, <- effs_app; exact HS|]. split; [exact HM|].
      split; [eapply sorted_app_r; exact Hsort | apply Forall_app in Hb; tauto].
  Qed.

  (* removing a snapshot other than the newest *)
  Lemma step_unlink_snap : forall d M C t ts' t0 b0 tl, DInvFull d M C t -> d_snap d = (t0, b0) :: tl -> ts' <> t0 ->
    DInvFull (exec1 d (AUnlink (FSnap ts'))) M C t /\
    d_snap (exec1 d (AUnlink (FSnap ts'))) = (t0, b0) :: aremove ts' tl /\
    d_rot (exec1 d (AUnlink (FSnap ts'))) = d_rot d.
  Proof.
    intros d M C t ts' t0 b0 tl [R [ew [S0 [X [L0 [Hl [Hs [HS H]]]]]]]] Hsn Hne.
    cbn [exec1 unlink d_rot d_snap d_wal]. rewrite Hsn. unfold aremove at 1 2. cbn [filter fst].
    replace (t0 =? ts') with false by (symmetry; apply N.eqb_neq; congruence). cbn [negb].
    split; [|split; reflexivity].
    exists R, ew, S0, X, L0. unfold LogShape, SnapShape in *. cbn [d_wal d_rot d_snap].
    rewrite Hsn in Hs. destruct Hs as [Hss Hh].
    split; [exact Hl|]. split; [|split; [exact HS | exact H]].
    split; [|exact Hh]. inv Hss. constructor.
    - clear - H2. induction H2 as [|x l Hs IH Hf]; [constructor|]. cbn [filter].
      destruct (negb (fst x =? ts')); [|exact IH]. constructor; [exact IH|].
      rewrite Forall_forall in *. intros y Hy. apply filter_In in Hy as [Hy _]. exact (Hf y Hy).
    - rewrite Forall_forall in *. intros y Hy. apply filter_In in Hy as [Hy _]. exact (H3 y Hy).
  Qed.

  (* ---- the whole checkpoint *)
  Lemma fold_deser_sers : forall F m,
    fold_left (fun m f => match deser f with Some e => N.max m (e_txid e) | None => m end) (map ser F) m = max_txid m F.
  Proof. induction F as [|e tl IH]; intro m; [reflexivity|]. cbn [map fold_left]. rewrite Hser. apply IH. Qed.
  Lemma wal_max_txid_fbytes : forall F, wal_max_txid deser (fbytes F) = Some (max_txid 0 F).
  Proof.
    intro F. unfold wal_max_txid, fbytes. rewrite parse_frames_exact by apply small_sers. rewrite fold_deser_sers. reflexivity.
  Qed.

  Definition tmp_only (a : action) : Prop :=
    match a with
    | AAppend (FTmp _) _ | ACreateTrunc (FTmp _) | ACreate (FTmp _) | AUnlink (FTmp _) | ATrunc (FTmp _) _ => True
    | _ => False
    end.
  Lemma exec1_tmp_only : forall d a, tmp_only a ->
    d_wal (exec1 d a) = d_wal d /\ d_rot (exec1 d a) = d_rot d /\ d_snap (exec1 d a) = d_snap d.
  Proof.
    intros d a H. destruct a as [f x | f | f | f n | f g | f]; try destruct f; cbn in H; try contradiction; cbn [exec1 read].
    - destruct (alookup ts (d_tmp d)); cbn; auto.
    - destruct (alookup ts (d_tmp d)); cbn; auto.
    - cbn; auto.
    - destruct (alookup ts (d_tmp d)); cbn; auto.
    - cbn; auto.
  Qed.
  Lemma exec_tmp_only : forall acts d, Forall tmp_only acts ->
    d_wal (exec d acts) = d_wal d /\ d_rot (exec d acts) = d_rot d /\ d_snap (exec d acts) = d_snap d.
  Proof.
    induction acts as [|a tl IH]; intros d H; [auto|]. inv H. cbn [exec fold_left].
    destruct (IH (exec1 d a) H3) as [A [B C0]]. destruct (exec1_tmp_only d a H2) as [A' [B' C']].
    unfold exec in *. rewrite A, B, C0. auto.
  Qed.

  Lemma cut_no_append : forall acts a b, (forall f x, nth_error acts a <> Some (AAppend f x)) -> cut acts a b = firstn a acts.
  Proof.
    intros acts a b H. unfold cut. destruct (nth_error acts a) as [[f x| | | | | ]|] eqn:E; try apply app_nil_r.
    exfalso. exact (H f x eq_refl).
  Qed.

  Lemma exec_app : forall d a b, exec d (a ++ b) = exec (exec d a) b.
  Proof. intros. unfold exec. apply fold_left_app. Qed.

  Lemma unlink_all_rot : forall R d M C t k, DInvFull d M C t -> d_rot d = rot_bytes R ->
    DInvFull (exec d (firstn k (map (fun p : N * bytes => AUnlink (FRot (fst p))) (rot_bytes R)))) M C t /\
    d_snap (exec d (firstn k (map (fun p : N * bytes => AUnlink (FRot (fst p))) (rot_bytes R)))) = d_snap d.
  Proof.
    induction R as [|[n F] R' IH]; intros d M C t k HI Hr; cbn [rot_bytes map].
    - rewrite firstn_nil. cbn. auto.
    - destruct k as [|k]; [cbn; auto|]. cbn [firstn exec fold_left fst].
      destruct (step_unlink_first d M C t n (fbytes F) (rot_bytes R') HI Hr) as [H1 [H2 H3]].
      destruct (IH (exec1 d (AUnlink (FRot n))) M C t k H1 H2) as [H4 H5].
      split; [exact H4 | etransitivity; [exact H5 | exact H3]].
  Qed.

  Lemma unlink_snaps : forall keys d M C t ts file tl k, DInvFull d M C t -> d_snap d = (ts, file) :: tl ->
    Forall (fun x => x <> ts) keys ->
    DInvFull (exec d (firstn k (map (fun x => AUnlink (FSnap x)) keys))) M C t /\
    exists tl', d_snap (exec d (firstn k (map (fun x => AUnlink (FSnap x)) keys))) = (ts, file) :: tl'.
  Proof.
    induction keys as [|x keys IH]; intros d M C t ts file tl k HI Hs Hk; cbn [map].
    - rewrite firstn_nil. split; [exact HI | eauto].
    - destruct k as [|k]; [split; [exact HI | eauto]|]. inv Hk. cbn [firstn exec fold_left].
      destruct (step_unlink_snap d M C t x ts file tl HI Hs H1) as [H3 [H4 _]].
      exact (IH _ M C t ts file _ k H3 H4 H2).
  Qed.

  Lemma filter_all : forall {A} (f : A -> bool) l, (forall x, In x l -> f x = true) -> filter f l = l.
  Proof.
    induction l as [|x tl IH]; intro H; [reflexivity|]. cbn. rewrite (H x (or_introl eq_refl)).
    f_equal. apply IH. intros y Hy. apply H. right. exact Hy.
  Qed.

  Lemma skipn_sorted_tail_keys : forall (l : list (N * bytes)) ts x n p, (0 < n)%nat ->
    StronglySorted (fun a b => fst b < fst a) ((ts, x) :: l) -> In p (skipn n ((ts, x) :: l)) -> fst p <> ts.
  Proof.
    intros l ts x n p Hn Hs Hi. destruct n; [lia|]. cbn in Hi.
    assert (In p l) by (rewrite <- (firstn_skipn n l); apply in_or_app; right; exact Hi).
    pose proof (sorted_desc_head_bound l ts x p Hs H). lia.
  Qed.

  Lemma exec_unlinks_wal : forall us d, Forall (fun u => exists f, u = AUnlink f /\ f <> FWal) us ->
    d_wal (exec d us) = d_wal d.
  Proof.
    induction us as [|u us IH]; intros d H; [reflexivity|]. inv H. destruct H2 as [f [-> Hf]].
    cbn [exec fold_left]. unfold exec in IH. rewrite IH by assumption. destruct f; cbn; congruence.
  Qed.

  (* writer state and disk agree: M is the committed state, C the counter recovery would
     return; the writer's own counter may be ahead (ids consumed without a record) *)
  Definition WInv (d : disk) (w : wstate) (M : state) (C : N) : Prop :=
    DInvG d M C [] /\ C <= w_ctr w /\ (exists y, d_wal d = Some y) /\ w_mem w ≈ M.
  Definition snap_hi (d : disk) : N := match d_snap d with [] => 0 | (t, _) :: _ => t end.

  Notation op_actions := (op_actions deser mac ser enc_changes ser_hdr enc_map).
  Notation run_ops := (run_ops deser mac ser enc_changes ser_hdr enc_map).
  Notation crash_disk := (crash_disk deser mac ser enc_changes ser_hdr enc_map).
  Notation mk_entry := (mk_entry mac).

  (* every crash cut of a checkpoint leaves the committed state alone; the counter can only grow *)
  Lemma checkpoint_cuts : forall d w M C ts a b, WInv d w M C -> snap_hi d <= ts ->
    let acts := fst (op_actions d w (OCheckpoint ts)) in
    (DInv (exec d (cut acts a b)) M C \/ DInv (exec d (cut acts a b)) M (w_ctr w)) /\
    DInvG (exec d acts) M (w_ctr w) [] /\ d_wal (exec d acts) = d_wal d /\ snap_hi (exec d acts) = ts.
  Proof.
    intros d w M C ts a b [HI [HC [[y Hy] Hm]]] Hts0.
    assert (Hts : ts_ok d ts) by (unfold ts_ok, snap_hi in *; destruct (d_snap d) as [|[t0 b0] tl]; auto).
    destruct (snap_file_valid (w_mem w) ts (w_ctr w)) as [st' [Hv [He Htx]]].
    cbn [Wal.op_actions fst].
    set (data := enc_map (w_mem w)) in *.
    set (h0 := mkHdr WAL_VERSION ts (w_ctr w) (len (w_mem w)) (len data) []) in *.
    set (h := mkHdr WAL_VERSION ts (w_ctr w) (len (w_mem w)) (len data) (mac (snap_fields h0 data))) in *.
    set (pre := [ACreateTrunc (FTmp ts); AAppend (FTmp ts) (frame (ser_hdr h)); AAppend (FTmp ts) data]).
    set (rn := ARename (FTmp ts) (FSnap ts)).
    pose proof HI as HI0.
    destruct HI as [R [ew [S0 [cs [Hl [Hs [Hc [Hsort [Hb [Hcs Hmx]]]]]]]]]].
    assert (Hb' : Forall (fun e => e_txid e <= w_ctr w) (all_entries R ew)) by (eapply Forall_impl; [|exact Hb]; cbn; intros; lia).
    assert (Hrot : d_rot d = rot_bytes R) by (destruct Hl; assumption).
    assert (HRs : StronglySorted (fun a b => fst a < fst b) R) by (destruct Hl as [_ [? _]]; assumption).
    (* all rotated logs are covered *)
    assert (Hdead : filter (fun p : N * bytes => match wal_max_txid deser (snd p) with Some m => m <=? w_ctr w | None => false end)
                      (sort_asc (d_rot d)) = rot_bytes R).
    { rewrite Hrot, rot_bytes_sorted by assumption. apply filter_all. intros p Hp.
      unfold rot_bytes in Hp. apply in_map_iff in Hp as [q [<- Hq]]. cbn [snd]. rewrite wal_max_txid_fbytes.
      apply N.leb_le. apply max_txid_bound; [lia|]. unfold all_entries in Hb'. apply Forall_app in Hb' as [Hb1 _].
      apply Forall_forall. intros e Hin. rewrite Forall_forall in Hb1. apply Hb1. apply in_concat.
      exists (snd q). split; [apply in_map; exact Hq | exact Hin]. }
    rewrite Hdead.
    set (U1 := map (fun p : N * bytes => AUnlink (FRot (fst p))) (rot_bytes R)).
    set (keys := map fst (drop_n WAL_SNAPSHOT_RETENTION (sort_desc (aput_front ts [] (d_snap d))))).
    match goal with |- context [U1 ++ ?X] => set (U2raw := X) end.
    assert (HU2 : U2raw = map (fun x => AUnlink (FSnap x)) keys) by (unfold U2raw, keys; rewrite map_map; reflexivity).
    rewrite HU2. clear HU2 U2raw.
    set (U2 := map (fun x => AUnlink (FSnap x)) keys).
    (* the names to prune never include the new snapshot *)
    assert (Hkeys : Forall (fun x => x <> ts) keys).
    { destruct Hs as [Hss _]. destruct (aput_front_newest (d_snap d) ts [] Hss Hts) as [tl0 [Heq [Hs0 _]]].
      unfold keys. unfold bytes in *. rewrite Heq, snaps_sorted by exact Hs0. apply Forall_forall. intros x Hx.
      apply in_map_iff in Hx as [p [<- Hp]]. unfold drop_n in Hp.
      apply (skipn_sorted_tail_keys tl0 ts [] (N.to_nat WAL_SNAPSHOT_RETENTION) p); [vm_compute; lia | exact Hs0 | exact Hp]. }
    (* state after the three writes to the temporary file *)
    assert (Hpre : Forall tmp_only pre) by (repeat constructor).
    assert (Hrd : read (exec d pre) (FTmp ts) = Some (snap_file h data)).
    { unfold pre, Wal.snap_file. cbn [exec fold_left exec1 read write d_tmp].
      repeat (rewrite (@alookup_aput_front bytes ts); cbn [app]). reflexivity. }
    destruct (exec_tmp_only pre d Hpre) as [Hw1 [Hr1 Hs1]].
    assert (HI1 : DInvG (exec d pre) M C []) by (apply (DInvG_same_files d); assumption).
    assert (Hts1 : ts_ok (exec d pre) ts) by (unfold ts_ok; rewrite Hs1; exact Hts).
    destruct (step_install_snapshot_full (exec d pre) M C (w_ctr w) (w_mem w) ts _ h st' [] HI1 HC Hts1 Hrd Hv He Hm Htx)
      as [HF2 [Hr2 [tl2 [Hs2 _]]]].
    set (d2 := exec1 (exec d pre) rn) in *.
    assert (Hrot2 : d_rot d2 = rot_bytes R) by (unfold d2, rn; rewrite Hr2, Hr1; exact Hrot).
    (* any number of the clean-up steps *)
    assert (Hclean : forall k, DInvFull (exec d2 (firstn k (U1 ++ U2))) M (w_ctr w) [] /\
                               exists tl', d_snap (exec d2 (firstn k (U1 ++ U2))) = (ts, snap_file h data) :: tl').
    { intro k. rewrite firstn_app, exec_app.
      destruct (unlink_all_rot R d2 M (w_ctr w) [] k HF2 Hrot2) as [H3 H4]. fold U1 in H3, H4.
      apply (unlink_snaps keys _ M (w_ctr w) [] ts (snap_file h data) tl2); [exact H3 | rewrite H4; exact Hs2 | exact Hkeys]. }
    assert (Hunl : Forall (fun u => exists f, u = AUnlink f /\ f <> FWal) (U1 ++ U2)).
    { apply Forall_forall. intros u Hu. apply in_app_or in Hu as [Hu | Hu]; unfold U1, U2 in Hu;
        apply in_map_iff in Hu as [q [<- _]]; eexists; split; try reflexivity; discriminate. }
    assert (Hwal : forall k, d_wal (exec d2 (firstn k (U1 ++ U2))) = d_wal d).
    { intro k. assert (Hw2 : d_wal d2 = d_wal d) by (unfold d2, rn; cbn [exec1]; rewrite Hrd; cbn; exact Hw1).
      rewrite <- Hw2. apply exec_unlinks_wal. apply Forall_forall. intros u Hu. rewrite Forall_forall in Hunl. apply Hunl.
      rewrite <- (firstn_skipn k (U1 ++ U2)). apply in_or_app. left. exact Hu. }
    assert (Hacts : forall k, exec d (pre ++ rn :: firstn k (U1 ++ U2)) = exec d2 (firstn k (U1 ++ U2))).
    { intro k. rewrite exec_app. reflexivity. }
    split; [|split; [|split]].
    - change (DInv (exec d (cut (pre ++ rn :: U1 ++ U2) a b)) M C \/ DInv (exec d (cut (pre ++ rn :: U1 ++ U2) a b)) M (w_ctr w)).
      destruct a as [|[|[|[|k]]]].
      + left. cbn. eapply DInvG_DInv. exact HI0.
      + left. assert (Ht : Forall tmp_only (cut (pre ++ rn :: U1 ++ U2) 1 b)) by (cbn [cut firstn nth_error app pre]; destruct b; repeat constructor).
        destruct (exec_tmp_only _ d Ht) as [A1 [A2 A3]]. eapply DInvG_DInv. apply (DInvG_same_files d); eassumption.
      + left. assert (Ht : Forall tmp_only (cut (pre ++ rn :: U1 ++ U2) 2 b)) by (cbn [cut firstn nth_error app pre]; destruct b; repeat constructor).
        destruct (exec_tmp_only _ d Ht) as [A1 [A2 A3]]. eapply DInvG_DInv. apply (DInvG_same_files d); eassumption.
      + left. assert (Ht : Forall tmp_only (cut (pre ++ rn :: U1 ++ U2) 3 b)) by (cbn [cut firstn nth_error app pre]; repeat constructor).
        destruct (exec_tmp_only _ d Ht) as [A1 [A2 A3]]. eapply DInvG_DInv. apply (DInvG_same_files d); eassumption.
      + right. rewrite cut_no_append.
        * change (firstn (S (S (S (S k)))) (pre ++ rn :: U1 ++ U2)) with (pre ++ rn :: firstn k (U1 ++ U2)).
          rewrite Hacts. eapply DInvG_DInv. apply DInvFull_DInvG. apply Hclean.
        * intros f x E. change (nth_error (pre ++ rn :: U1 ++ U2) (S (S (S (S k))))) with (nth_error (U1 ++ U2) k) in E.
          apply nth_error_In in E. rewrite Forall_forall in Hunl. destruct (Hunl _ E) as [g [Hg _]]. discriminate.
    - change (DInvG (exec d (pre ++ rn :: U1 ++ U2)) M (w_ctr w) []).
      rewrite <- (firstn_all (U1 ++ U2)), Hacts. apply DInvFull_DInvG. apply Hclean.
    - change (d_wal (exec d (pre ++ rn :: U1 ++ U2)) = d_wal d).
      rewrite <- (firstn_all (U1 ++ U2)), Hacts. apply Hwal.
    - change (snap_hi (exec d (pre ++ rn :: U1 ++ U2)) = ts).
      rewrite <- (firstn_all (U1 ++ U2)), Hacts. destruct (Hclean (length (U1 ++ U2))) as [_ [tl' Htl]].
      unfold snap_hi. rewrite Htl. reflexivity.
  Qed.

  (* ---- whole operations *)
  Lemma mk_entry_verify : forall c ts t k v, verify (mk_entry c ts t k v) = true.
  Proof. intros. unfold Wal.verify, Wal.mk_entry, fields_of. cbn. apply bytes_eqb_refl. Qed.

  Lemma write_actions_snap : forall d w e rot y, d_wal d = Some y ->
    d_snap (exec d (fst (write_actions ser d w e rot))) = d_snap d.
  Proof.
    intros d w e rot y Hy. unfold write_actions.
    destruct (rot && ((WAL_MAX_SIZE <=? w_size w + len (frame (ser e))) || (WAL_MAX_ENTRIES <=? w_count w + 1)));
      cbn [fst exec fold_left exec1 read write unlink d_wal d_rot d_snap d_tmp]; rewrite ?Hy; reflexivity.
  Qed.

  (* every stored value decodes as a value of the stored type *)
  Definition mem_ok (st : state) : Prop := forall k v, get st k = Some v -> val_ok v = true.
  Definition changes_ok (cs : list change) : Prop := forall k v, In (k, Some v) cs -> val_ok v = true.
  Lemma mem_ok_steq : forall a b, a ≈ b -> mem_ok a -> mem_ok b.
  Proof. intros a b H Ha k v Hg. apply (Ha k v). rewrite H. exact Hg. Qed.
  Lemma mem_ok_apply_changes : forall cs st, mem_ok st -> changes_ok cs -> mem_ok (apply_changes st cs).
  Proof.
    intros cs st Hs Hc k v Hg. apply get_apply_changes_src in Hg as [Hg | Hg]; [exact (Hc k v Hg) | exact (Hs k v Hg)].
  Qed.

  Definition op_ok (d : disk) (o : op) : Prop :=
    match o with
    | OUpsert _ _ v => val_ok v = true
    | ODelete _ _ | OBatchFail => True
    | OCheckpoint ts => snap_hi d <= ts
    | OBatch _ cs => changes_ok cs
    end.
  Lemma mem_ok_apply_op : forall d M o, mem_ok M -> op_ok d o -> mem_ok (apply_op M o).
  Proof.
    intros d M o HM Ho. unfold apply_op. apply mem_ok_apply_changes; [exact HM|].
    destruct o; cbn in *; intros k' v' Hin; try contradiction.
    - destruct Hin as [Hin | []]. inv Hin. exact Ho.
    - destruct Hin as [Hin | []]. discriminate.
    - exact (Ho k' v' Hin).
  Qed.

  Lemma DInv_steq : forall d M M' C, M ≈ M' -> DInv d M C -> DInv d M' C.
  Proof. intros d M M' C H [t HI]. exists t. eapply DInvG_steq; eassumption. Qed.

  Lemma write_op_step : forall d w M C e y mem' rot, WInv d w M C -> d_wal d = Some y -> genuine e ->
    e_txid e = w_ctr w + 1 -> mem' ≈ apply_changes M (eff e) ->
    let r := write_actions ser d w e rot in
    WInv (exec d (fst r)) (mkW mem' (w_ctr w + 1) (w_count (snd r)) (w_size (snd r))) (apply_changes M (eff e)) (w_ctr w + 1) /\
    snap_hi (exec d (fst r)) = snap_hi d /\
    forall a b, DInv (exec d (cut (fst r) a b)) M C \/ DInv (exec d (cut (fst r) a b)) (apply_changes M (eff e)) (w_ctr w + 1).
  Proof.
    intros d w M C e y mem' rot [HI [HC [_ Hm]]] Hy Hg Htx Hmem r.
    assert (Hlt : C < e_txid e) by lia.
    pose proof (write_full d w M C e y rot HI Hy Hg Hlt) as [Hf [y' Hy']]. rewrite Htx in Hf.
    split; [|split].
    - split; [exact Hf|]. split; [cbn; lia|]. split; [eauto | exact Hmem].
    - unfold snap_hi, r. rewrite (write_actions_snap d w e rot y Hy). reflexivity.
    - intros a b. pose proof (write_cuts d w M C e y rot a b HI Hy Hg Hlt) as H. rewrite Htx in H. exact H.
  Qed.

  Lemma op_step : forall d w M C o, WInv d w M C -> mem_ok M -> op_ok d o ->
    exists C', C <= C' /\
      WInv (exec d (fst (op_actions d w o))) (snd (op_actions d w o)) (apply_op M o) C' /\
      snap_hi (exec d (fst (op_actions d w o))) = match o with OCheckpoint ts => ts | _ => snap_hi d end /\
      forall a b, DInv (exec d (cut (fst (op_actions d w o)) a b)) M C \/
                  DInv (exec d (cut (fst (op_actions d w o)) a b)) (apply_op M o) C'.
  Proof.
    intros d w M C o HW HMok Hs. pose proof HW as [HI [HC [[y Hy] Hm]]].
    destruct o as [ts k v | ts k | ts cs | | ts]; cbn in Hs.
    - (* upsert *)
      set (e := mk_entry (w_ctr w + 1) ts TUpsert k (Some v)).
      assert (Hg : genuine e).
      { split; [apply mk_entry_verify|]. exists [(k, Some v)]. unfold Wal.entry_changes, e. cbn. rewrite Hs. reflexivity. }
      assert (Heff : eff e = [(k, Some v)]) by (unfold eff, Wal.entry_changes, e; cbn; rewrite Hs; reflexivity).
      assert (Hmem : set k v (w_mem w) ≈ apply_changes M (eff e)).
      { rewrite Heff. cbn [apply_changes fold_left]. intro k'. rewrite get_set, get_apply_change. cbn [fst snd].
        destruct (bytes_eqb k k'); [reflexivity | apply Hm]. }
      destruct (write_op_step d w M C e y _ true HW Hy Hg eq_refl Hmem) as [H1 [H2 H3]].
      exists (w_ctr w + 1). unfold Wal.op_actions. fold e.
      destruct (write_actions ser d w e true) as [acts w'] eqn:Ew. cbn [fst snd] in *.
      unfold apply_op. cbn [op_changes]. rewrite Heff in *.
      split; [lia|]. split; [exact H1|]. split; [exact H2 | exact H3].
    - (* delete *)
      set (e := mk_entry (w_ctr w + 1) ts TDelete k None).
      assert (Hg : genuine e) by (split; [apply mk_entry_verify | exists [(k, None)]; reflexivity]).
      assert (Heff : eff e = [(k, None)]) by reflexivity.
      assert (Hmem : del k (w_mem w) ≈ apply_changes M (eff e)).
      { rewrite Heff. cbn [apply_changes fold_left]. intro k'. rewrite get_del, get_apply_change. cbn [fst snd].
        destruct (bytes_eqb k k'); [reflexivity | apply Hm]. }
      destruct (write_op_step d w M C e y _ true HW Hy Hg eq_refl Hmem) as [H1 [H2 H3]].
      exists (w_ctr w + 1). unfold Wal.op_actions. fold e.
      destruct (write_actions ser d w e true) as [acts w'] eqn:Ew. cbn [fst snd] in *.
      unfold apply_op. cbn [op_changes]. rewrite Heff in *.
      split; [lia|]. split; [exact H1|]. split; [exact H2 | exact H3].
    - (* batch: one record holding the sorted difference between the old and the new map *)
      set (mem' := apply_changes (w_mem w) cs).
      assert (Hmem' : mem' ≈ apply_changes M cs) by (apply apply_changes_steq; exact Hm).
      assert (Hok' : mem_ok mem').
      { apply mem_ok_apply_changes; [|exact Hs]. eapply mem_ok_steq; [apply steq_sym; exact Hm | exact HMok]. }
      pose proof (batch_diff_apply (w_mem w) mem' M Hm) as Hdiff.
      unfold apply_op. cbn [op_changes]. unfold Wal.op_actions. fold mem'.
      destruct (batch_diff (w_mem w) mem') as [|c0 dtl] eqn:Ed.
      + (* nothing changed: no record, the id is consumed *)
        exists C. cbn [fst snd exec fold_left]. cbn [apply_changes fold_left] in Hdiff.
        assert (HMM : M ≈ apply_changes M cs) by (eapply steq_trans; [exact Hdiff | exact Hmem']).
        split; [lia|]. split; [|split; [reflexivity|]].
        * split; [eapply DInvG_steq; [exact HMM | exact HI]|]. split; [cbn; lia|]. split; [eauto | exact Hmem'].
        * intros a b. left. replace (cut [] a b) with (@nil action) by (unfold cut; destruct a; reflexivity).
          cbn. eapply DInvG_DInv. exact HI.
      + set (diff := c0 :: dtl) in *.
        set (e := mk_entry (w_ctr w + 1) ts TBatch [] (Some (enc_changes diff))).
        assert (Hec : Wal.entry_changes val_ok dec_changes e = Some diff).
        { unfold Wal.entry_changes, e. cbn. rewrite Hchg.
          match goal with |- (if ?b then _ else _) = _ => assert (Hfa : b = true); [|rewrite Hfa; reflexivity] end.
          apply forallb_forall. intros [k' [v'|]] Hin; [|reflexivity]. cbn.
          apply (Hok' k' v'). apply (batch_diff_values (w_mem w) mem'). rewrite Ed. exact Hin. }
        assert (Hg : genuine e) by (split; [apply mk_entry_verify | exists diff; exact Hec]).
        assert (Heff : eff e = diff) by (unfold eff; rewrite Hec; reflexivity).
        assert (Hmem2 : mem' ≈ apply_changes M (eff e)) by (rewrite Heff; apply steq_sym; exact Hdiff).
        destruct (write_op_step d w M C e y mem' false HW Hy Hg eq_refl Hmem2) as [H1 [H2 H3]].
        assert (Hst : apply_changes M (eff e) ≈ apply_changes M cs).
        { rewrite Heff. eapply steq_trans; [exact Hdiff | exact Hmem']. }
        exists (w_ctr w + 1). fold e.
        destruct (write_actions ser d w e false) as [acts w'] eqn:Ew. cbn [fst snd] in *.
        split; [lia|]. split; [|split; [exact H2|]].
        * destruct H1 as [A [B [D E0]]]. split; [eapply DInvG_steq; [exact Hst | exact A]|].
          split; [exact B|]. split; [exact D|]. eapply steq_trans; [exact E0 | exact Hst].
        * intros a b. destruct (H3 a b) as [H | H]; [left; exact H | right; eapply DInv_steq; [exact Hst | exact H]].
    - (* rolled-back batch: only the writer's counter moves *)
      exists C. cbn [Wal.op_actions fst snd]. unfold apply_op. cbn [op_changes apply_changes fold_left exec].
      split; [lia|]. split; [|split; [reflexivity|]].
      + split; [exact HI|]. split; [cbn; lia|]. split; [eauto | exact Hm].
      + intros a b. left. replace (cut [] a b) with (@nil action) by (unfold cut; destruct a; reflexivity).
        cbn. eapply DInvG_DInv. exact HI.
    - (* checkpoint *)
      exists (w_ctr w). split; [exact HC|].
      unfold apply_op. cbn [op_changes apply_changes fold_left].
      assert (Hw' : snd (op_actions d w (OCheckpoint ts)) = w) by reflexivity. rewrite Hw'.
      split; [|split].
      + destruct (checkpoint_cuts d w M C ts 0 0 HW Hs) as [_ [H2 [H3 _]]].
        split; [exact H2|]. split; [lia|]. split; [rewrite H3; eauto | exact Hm].
      + destruct (checkpoint_cuts d w M C ts 0 0 HW Hs) as [_ [_ [_ H4]]]. exact H4.
      + intros a b. destruct (checkpoint_cuts d w M C ts a b HW Hs) as [H1 _]. exact H1.
  Qed.

  (* histories: values are well-formed and checkpoint names never go backwards *)
  Fixpoint ops_ok (hi : N) (ops : list op) : Prop :=
    match ops with
    | [] => True
    | o :: tl => match o with
                 | OUpsert _ _ v => val_ok v = true /\ ops_ok hi tl
                 | ODelete _ _ | OBatchFail => ops_ok hi tl
                 | OCheckpoint ts => hi <= ts /\ ops_ok ts tl
                 | OBatch _ cs => changes_ok cs /\ ops_ok hi tl
                 end
    end.

  Lemma ops_ok_head : forall hi o tl d, ops_ok hi (o :: tl) -> snap_hi d <= hi ->
    op_ok d o /\ ops_ok (match o with OCheckpoint ts => ts | _ => hi end) tl.
  Proof.
    intros hi o tl d H Hhi. destruct o; cbn in *; try tauto. destruct H. split; [lia | assumption].
  Qed.

  (* every crash point of every history *)
  Lemma crash_prefix : forall ops d w M C hi i a b, WInv d w M C -> mem_ok M -> snap_hi d <= hi -> ops_ok hi ops ->
    exists j C', (i <= j <= S i)%nat /\ C <= C' /\ DInv (crash_disk d w ops i a b) (apply_ops M (firstn j ops)) C' /\
                 mem_ok (apply_ops M (firstn j ops)).
  Proof.
    induction ops as [|o tl IH]; intros d w M C hi i a b HW HMok Hhi Hok.
    - exists i, C. split; [lia|]. split; [lia|]. split; [|rewrite firstn_nil; exact HMok]. unfold Wal.crash_disk. rewrite firstn_nil. cbn.
      destruct i; cbn; eapply DInvG_DInv; exact (proj1 HW).
    - destruct (ops_ok_head hi o tl d Hok Hhi) as [Ho Htl].
      destruct (op_step d w M C o HW HMok Ho) as [C1 [HC1 [HW1 [Hsn Hcut]]]].
      pose proof (mem_ok_apply_op d M o HMok Ho) as HMok1.
      destruct i as [|i].
      + unfold Wal.crash_disk. cbn [firstn Wal.run_ops nth_error].
        destruct (Hcut a b) as [H | H].
        * exists 0%nat, C. split; [lia|]. split; [lia|]. split; [exact H | exact HMok].
        * exists 1%nat, C1. split; [lia|]. split; [exact HC1|]. split; [exact H | exact HMok1].
      + assert (Hstep : crash_disk d w (o :: tl) (S i) a b =
                        crash_disk (exec d (fst (op_actions d w o))) (snd (op_actions d w o)) tl i a b).
        { unfold Wal.crash_disk. cbn [firstn Wal.run_ops nth_error]. destruct (op_actions d w o) as [acts w']. reflexivity. }
        rewrite Hstep.
        assert (Hhi1 : snap_hi (exec d (fst (op_actions d w o))) <= match o with OCheckpoint ts => ts | _ => hi end)
          by (rewrite Hsn; destruct o; lia).
        destruct (IH _ _ _ C1 _ i a b HW1 HMok1 Hhi1 Htl) as [j [C' [Hj [HC' [HD HMj]]]]].
        exists (S j), C'. split; [lia|]. split; [lia|]. cbn [firstn apply_ops fold_left]. split; [exact HD | exact HMj].
  Qed.

  (* ---- opening the store: create state.wal if missing, recover, cut a torn tail *)
  Lemma fold_good_len : forall bodies a0, fold_left (fun a f => a + 4 + len f) bodies a0 = a0 + len (frames bodies).
  Proof.
    induction bodies as [|b tl IH]; intro a0; [cbn; lia|].
    cbn [fold_left]. rewrite IH. change (frames (b :: tl)) with (frame b ++ frames tl).
    rewrite len_app, frame_len. lia.
  Qed.
  Lemma good_len_torn : forall bodies t, Forall small bodies -> torn t -> good_len (frames bodies ++ t) = len (frames bodies).
  Proof. intros. unfold good_len. rewrite parse_frames_torn by assumption. cbn [fst]. rewrite fold_good_len. lia. Qed.

  Lemma open_WInv : forall d M C, DInv d M C -> WInv (open_disk d) (open_wstate deser mac val_ok dec_changes deser_hdr dec_map d) M C.
  Proof.
    intros d M C [t HI]. pose proof HI as [R [ew [S0 [cs [Hl [Hs [Hc [Hsort [Hb [Hcs Hmx]]]]]]]]]].
    destruct Hl as [Hr [HRs [Hw [Ht Hg]]]].
    unfold open_wstate, open_rstate, open_disk, open_actions.
    destruct Hw as [Hw | [Hw [-> ->]]].
    - (* state.wal present *)
      assert (Hc0 : exec d [ACreate FWal] = d) by (cbn [exec fold_left exec1 read]; rewrite Hw; reflexivity).
      rewrite Hc0. destruct (recover_DInv d M C (ex_intro _ t HI)) as [Hst Hct].
      rewrite Hw. destruct Ht as [-> | Ht].
      + rewrite app_nil_r. unfold fbytes. rewrite parse_frames_exact by apply small_sers. cbn [snd exec fold_left].
        split; [exact HI|]. split; [cbn; lia|]. split; [rewrite Hw; eauto | exact Hst].
      + unfold fbytes. rewrite parse_frames_torn by (auto using small_sers). cbn [snd exec fold_left exec1 read].
        rewrite Hw. rewrite good_len_torn by (auto using small_sers).
        replace (N.to_nat (len (frames (map ser ew)))) with (length (frames (map ser ew))) by (unfold len; rewrite Nat2N.id; reflexivity).
        rewrite firstn_app_exact by reflexivity.
        split; [|split; [cbn; lia | split; [cbn; eauto | exact Hst]]].
        exists R, ew, S0, cs. unfold LogShape, SnapShape in *. cbn [write d_wal d_rot d_snap].
        split; [|split; [exact Hs | split; [exact Hc | split; [exact Hsort | split; [exact Hb | split; [exact Hcs | exact Hmx]]]]]].
        split; [exact Hr|]. split; [exact HRs|]. split; [left; rewrite app_nil_r; reflexivity|]. split; [left; reflexivity | exact Hg].
    - (* state.wal missing: created empty *)
      rewrite Hw. destruct (step_create_wal d M C HI Hw) as [H1 H2].
      change (exec d [ACreate FWal]) with (exec1 d (ACreate FWal)).
      destruct (recover_DInv _ M C (ex_intro _ [] H1)) as [Hst Hct].
      split; [exact H1|]. split; [cbn [w_ctr]; rewrite Hct; lia|]. split; [eauto | exact Hst].
  Qed.

  Lemma open_snap_hi : forall d, snap_hi (open_disk d) = snap_hi d.
  Proof.
    intro d. unfold open_disk, open_actions, snap_hi. destruct (d_wal d) as [b|] eqn:E.
    - destruct (snd (parse b)); cbn [exec fold_left exec1 read]; rewrite ?E; reflexivity.
    - cbn [exec fold_left exec1 read]. rewrite E. reflexivity.
  Qed.

  (* ---- repeated crash / reopen cycles *)
  Definition cyc := (list op * (nat * nat * nat))%type.
  Definition run_cycle (d : disk) (c : cyc) : disk :=
    let '(ops, (i, a, b)) := c in
    crash_disk (open_disk d) (open_wstate deser mac val_ok dec_changes deser_hdr dec_map d) ops i a b.
  Fixpoint run_cycles (d : disk) (cs : list cyc) : disk :=
    match cs with [] => d | c :: tl => run_cycles (run_cycle d c) tl end.
  (* in every cycle: well-formed values, and checkpoint names at or after the newest snapshot present *)
  Fixpoint cycles_ok (d : disk) (cs : list cyc) : Prop :=
    match cs with [] => True | c :: tl => ops_ok (snap_hi d) (fst c) /\ cycles_ok (run_cycle d c) tl end.
  (* the state left by the cycles: in each, a prefix of its operations with acked <= j <= issued *)
  Inductive survives : state -> list cyc -> state -> Prop :=
  | sv_nil : forall M M', M ≈ M' -> survives M [] M'
  | sv_cons : forall M ops i a b j tl M', (i <= j <= S i)%nat ->
      survives (apply_ops M (firstn j ops)) tl M' -> survives M ((ops, (i, a, b)) :: tl) M'.

  Lemma cycles_prefix : forall cs d M C, DInv d M C -> mem_ok M -> cycles_ok d cs ->
    exists M' C', C <= C' /\ DInv (run_cycles d cs) M' C' /\ survives M cs M'.
  Proof.
    induction cs as [|[ops [[i a] b]] tl IH]; intros d M C HD HMok Hok.
    - exists M, C. split; [lia|]. split; [exact HD | constructor; apply steq_refl].
    - destruct Hok as [Hops Htl]. cbn [fst] in Hops.
      pose proof (open_WInv d M C HD) as HW.
      assert (Hhi : snap_hi (open_disk d) <= snap_hi d) by (rewrite open_snap_hi; lia).
      destruct (crash_prefix ops _ _ M C (snap_hi d) i a b HW HMok Hhi Hops) as [j [C1 [Hj [HC1 [HD1 HM1]]]]].
      destruct (IH (run_cycle d (ops, (i, a, b))) _ C1 HD1 HM1 Htl) as [M' [C' [HC' [HD' Hsv]]]].
      exists M', C'. split; [lia|]. split; [exact HD'|]. econstructor; eassumption.
  Qed.

  Lemma crash_prefix_recover : forall ops d w M C hi i a b, WInv d w M C -> mem_ok M -> snap_hi d <= hi -> ops_ok hi ops ->
    exists j, (i <= j <= S i)%nat /\
      r_state (recover (crash_disk d w ops i a b)) ≈ apply_ops M (firstn j ops) /\
      C <= r_ctr (recover (crash_disk d w ops i a b)).
  Proof.
    intros ops d w M C hi i a b HW HMok Hhi Hok.
    destruct (crash_prefix ops d w M C hi i a b HW HMok Hhi Hok) as [j [C' [Hj [HC [HD _]]]]].
    destruct (recover_DInv _ _ _ HD) as [H1 H2]. exists j. rewrite H2. auto.
  Qed.

  Lemma clean_restart : forall ops d w M C hi, WInv d w M C -> mem_ok M -> snap_hi d <= hi -> ops_ok hi ops ->
    r_state (recover (fst (run_ops d w ops))) ≈ apply_ops M ops.
  Proof.
    intros ops d w M C hi HW HMok Hhi Hok.
    destruct (crash_prefix_recover ops d w M C hi (length ops) 0 0 HW HMok Hhi Hok) as [j [Hj [H _]]].
    rewrite firstn_all2 in H by lia.
    unfold Wal.crash_disk in H. rewrite firstn_all in H.
    destruct (run_ops d w ops) as [d1 w1]. 
    replace (nth_error ops (length ops)) with (@None op) in H by (symmetry; apply nth_error_None; lia).
    exact H.
  Qed.

  Lemma cycles_recover : forall cs d M C, DInv d M C -> mem_ok M -> cycles_ok d cs ->
    exists M', survives M cs M' /\ r_state (recover (run_cycles d cs)) ≈ M' /\
               r_ctr (recover d) <= r_ctr (recover (run_cycles d cs)).
  Proof.
    intros cs d M C HD HMok Hok. destruct (cycles_prefix cs d M C HD HMok Hok) as [M' [C' [HC [HD' Hsv]]]].
    destruct (recover_DInv _ _ _ HD) as [_ H0]. destruct (recover_DInv _ _ _ HD') as [H1 H2].
    exists M'. rewrite H0, H2. auto.
  Qed.

  (* the empty directory, once state.wal has been created *)
  Lemma WInv_init : WInv (exec disk0 [ACreate FWal]) (mkW [] 0 0 0) [] 0.
  Proof.
    split; [|split; [cbn; lia | split; [cbn; eauto | apply steq_refl]]].
    exists [], [], [], 0. unfold LogShape, SnapShape, Cover, all_entries. cbn.
    split; [|split; [|split; [|split; [|split; [|split]]]]].
    - split; [reflexivity|]. split; [constructor|]. split; [left; reflexivity|]. split; [left; reflexivity | constructor].
    - split; [constructor | split; reflexivity].
    - exists [], [], [], []. cbn. repeat split; try constructor; apply steq_refl.
    - constructor.
    - constructor.
    - lia.
    - reflexivity.
  Qed.
End WriterFacts.

(* ================================================================ the incremental evaluator used by the case files
   computes exactly the crash disks of [crash_disk] *)
Notation x_crash_disk mac := (crash_disk pc_deser mac pc_ser pc_enc_changes pc_ser_hdr pc_enc_map).

Lemma x_crash_disk_cons : forall mac d w o tl i a b,
  x_crash_disk mac d w (o :: tl) (S i) a b =
  x_crash_disk mac (exec d (fst (x_op_actions mac d w o))) (snd (x_op_actions mac d w o)) tl i a b.
Proof.
  intros. unfold crash_disk, x_op_actions. cbn [firstn run_ops nth_error].
  destruct (op_actions pc_deser mac pc_ser pc_enc_changes pc_ser_hdr pc_enc_map d w o) as [acts w']. reflexivity.
Qed.

Lemma walk_spec : forall ops mac d w idx probes nxt,
  (forall i a b, nxt = (idx + N.of_nat i, a, b) -> (i <= length ops)%nat ->
     snd (walk mac d w ops idx probes nxt) = x_crash_disk mac d w ops i a b) /\
  (fst (walk mac d w ops idx probes nxt) = true ->
     forall i a b o, In (idx + N.of_nat i, a, b, o) probes -> (i <= length ops)%nat ->
       obs_ok mac (x_crash_disk mac d w ops i a b) o = true).
Proof.
  induction ops as [|op tl IH]; intros mac d w idx probes nxt.
  - cbn [walk fst snd length]. split.
    + intros i a b _ Hi. assert (i = 0)%nat by lia. subst. reflexivity.
    + intros Hok i a b o Hin Hi. assert (i = 0)%nat by lia. subst.
      unfold probes_at in Hok. rewrite forallb_forall in Hok. specialize (Hok _ Hin). cbn in Hok.
      replace (idx + 0 =? idx) with true in Hok by (symmetry; apply N.eqb_eq; lia).
      unfold crash_disk. cbn.
      replace (cut [] a b) with (@nil action) in Hok by (unfold cut; destruct a; reflexivity). exact Hok.
  - cbn [walk]. destruct (x_op_actions mac d w op) as [acts w'] eqn:Ea.
    specialize (IH mac (exec d acts) w' (idx + 1) probes nxt).
    destruct (walk mac (exec d acts) w' tl (idx + 1) probes nxt) as [ok_rest dn] eqn:Ew.
    cbn [fst snd] in *. destruct IH as [IH1 IH2]. split.
    + intros i a b -> Hi. destruct i as [|i].
      * replace (idx + N.of_nat 0 =? idx) with true by (symmetry; apply N.eqb_eq; lia).
        unfold crash_disk. cbn [firstn run_ops nth_error]. unfold x_op_actions in Ea. rewrite Ea. reflexivity.
      * replace (idx + N.of_nat (S i) =? idx) with false by (symmetry; apply N.eqb_neq; lia).
        rewrite x_crash_disk_cons, Ea. cbn [fst snd]. apply IH1; [f_equal; f_equal; lia | cbn in Hi; lia].
    + intros Hok i a b o Hin Hi. apply andb_true_iff in Hok as [Hhere Hrest]. destruct i as [|i].
      * unfold probes_at in Hhere. rewrite forallb_forall in Hhere. specialize (Hhere _ Hin). cbn in Hhere.
        replace (idx + 0 =? idx) with true in Hhere by (symmetry; apply N.eqb_eq; lia).
        unfold crash_disk. cbn [firstn run_ops nth_error]. unfold x_op_actions in Ea. rewrite Ea. exact Hhere.
      * rewrite x_crash_disk_cons, Ea. cbn [fst snd]. apply (IH2 Hrest i a b o); [|cbn in Hi; lia].
        replace (idx + 1 + N.of_nat i) with (idx + N.of_nat (S i)) by lia. exact Hin.
Qed.
