(* C17: swap dominance WITH ties.  The stable sort ranks entry q before entry p iff
   key q > key p, or the keys are equal and q comes earlier in the candidate slice.
   [topk_char_stable]: an entry is selected iff fewer than k entries rank before it.
   [swap_dominance_ties]: the dominance theorem needs tie-freeness only for the two
   exchanged candidates in the exchanged run; the original run may contain any ties. *)
From Coq Require Import Reals Lra Permutation Sorted.
From SV Require Import Lib.Base Model.Placement Proofs.Placement Proofs.PlacementR.

Lemma filter_length_perm {A} (f : A -> bool) l l' : Permutation l l' -> length (filter f l) = length (filter f l').
Proof.
  induction 1 as [| a l l' _ IH | a b l | l l' l'' _ IH1 _ IH2]; cbn [filter].
  - reflexivity.
  - destruct (f a); cbn [length]; rewrite IH; reflexivity.
  - destruct (f a), (f b); reflexivity.
  - rewrite IH1. exact IH2.
Qed.

(* ---------------------------------------------------------------- sorted list: position = number of predecessors *)
Section GenChar.
  Context {E : Type} (lt : E -> E -> bool).
  Hypothesis lt_irrefl : forall x, lt x x = false.
  Hypothesis lt_trans : forall x y z, lt x y = true -> lt y z = true -> lt x z = true.

  Lemma lt_asym x y : lt x y = true -> lt y x = false.
  Proof.
    intros H. destruct (lt y x) eqn:E0; [|reflexivity].
    rewrite <- (lt_irrefl x). symmetry. eapply lt_trans; eauto.
  Qed.

  Lemma firstn_char_gen s : StronglySorted (fun p q => lt p q = true) s -> NoDup s ->
    forall k p, In p s -> (In p (firstn k s) <-> (length (filter (fun q => lt q p) s) < k)%nat).
  Proof.
    induction s as [|h t IH]; intros Hs Hnd k p Hp; [contradiction|].
    inversion Hs as [|? ? Hst Hh]; subst. inversion Hnd as [|? ? Hnh Hnt]; subst.
    rewrite Forall_forall in Hh.
    destruct k as [|k]; [cbn [firstn]; split; [intros []|lia]|].
    cbn [firstn filter].
    destruct Hp as [<-|Hp].
    - rewrite lt_irrefl.
      replace (filter (fun q => lt q h) t) with (@nil E); [cbn; split; [lia|left; reflexivity]|].
      symmetry. clear -Hh lt_irrefl lt_trans. induction t as [|q t IHt]; [reflexivity|]. cbn [filter].
      rewrite (lt_asym h q (Hh q (or_introl eq_refl))). apply IHt. intros z Hz. apply Hh. right; exact Hz.
    - assert (Hne : h <> p) by (intros ->; contradiction).
      rewrite (Hh p Hp). cbn [length].
      rewrite <- Nat.succ_lt_mono. rewrite <- (IH Hst Hnt k p Hp).
      split; [intros [E0|H]; [contradiction|exact H]|intros H; right; exact H].
  Qed.
End GenChar.

(* ---------------------------------------------------------------- the stable sort ranks by (key desc, position asc) *)
Section Stable.
  Context {K I : Type} (gt : K -> K -> bool).
  Hypothesis gt_irrefl : forall x, gt x x = false.
  Hypothesis gt_trans : forall x y z, gt x y = true -> gt y z = true -> gt x z = true.
  Hypothesis gt_negtrans : forall x y z, gt x y = false -> gt y z = false -> gt x z = false.

  Definition pe : Type := (nat * (K * I))%type.
  Definition pkey (p : pe) : K := fst (snd p).
  Definition ppos (p : pe) : nat := fst p.
  Definition gtp (p q : pe) : bool := gt (pkey p) (pkey q).
  Definition gtp0 (p q : K * I) : bool := gt (fst p) (fst q).
  (* p ranks before q *)
  Definition bef (p q : pe) : bool :=
    gt (pkey p) (pkey q) || (negb (gt (pkey q) (pkey p)) && (ppos p <? ppos q)%nat).

  Lemma bef_irrefl p : bef p p = false.
  Proof. unfold bef. rewrite gt_irrefl, Nat.ltb_irrefl. reflexivity. Qed.

  Lemma bef_trans p q r : bef p q = true -> bef q r = true -> bef p r = true.
  Proof.
    unfold bef. intros H1 H2.
    apply orb_true_iff in H1. apply orb_true_iff in H2. apply orb_true_iff.
    destruct H1 as [H1|H1], H2 as [H2|H2].
    - left. eapply gt_trans; eauto.
    - apply andb_true_iff in H2 as [H2 _]. apply negb_true_iff in H2.
      left. destruct (gt (pkey p) (pkey r)) eqn:E0; [reflexivity|].
      rewrite (gt_negtrans _ _ _ E0 H2) in H1. discriminate.
    - apply andb_true_iff in H1 as [H1 _]. apply negb_true_iff in H1.
      left. destruct (gt (pkey p) (pkey r)) eqn:E0; [reflexivity|].
      rewrite (gt_negtrans _ _ _ H1 E0) in H2. discriminate.
    - apply andb_true_iff in H1 as [H1 P1]. apply andb_true_iff in H2 as [H2 P2].
      apply negb_true_iff in H1, H2. apply Nat.ltb_lt in P1, P2.
      right. apply andb_true_iff. split.
      + apply negb_true_iff. eapply gt_negtrans; eauto.
      + apply Nat.ltb_lt. lia.
  Qed.

  Lemma insert_sorted_stable x s :
    StronglySorted (fun p q => bef p q = true) s -> (forall y, In y s -> (ppos x < ppos y)%nat) ->
    StronglySorted (fun p q => bef p q = true) (insert_desc gtp x s).
  Proof.
    induction s as [|y t IH]; intros Hs Hpos; cbn [insert_desc].
    - repeat constructor.
    - inversion Hs as [|? ? Hst Hy]; subst.
      destruct (gtp y x) eqn:E0.
      + constructor.
        * apply IH; [exact Hst|]. intros z Hz. apply Hpos. right; exact Hz.
        * rewrite Forall_forall. intros z Hz.
          eapply Permutation_in in Hz; [|apply insert_desc_perm].
          destruct Hz as [<-|Hz].
          -- unfold bef. unfold gtp in E0. rewrite E0. reflexivity.
          -- rewrite Forall_forall in Hy. apply Hy; exact Hz.
      + assert (Hxy : bef x y = true).
        { unfold bef. unfold gtp in E0. rewrite E0. cbn [negb andb].
          apply orb_true_iff. right. apply Nat.ltb_lt. apply Hpos. left; reflexivity. }
        constructor; [exact Hs|]. constructor; [exact Hxy|].
        rewrite Forall_forall in *. intros z Hz. eapply bef_trans; [exact Hxy|apply Hy; exact Hz].
  Qed.

  Lemma sort_sorted_stable (l : list (K * I)) : forall s0,
    StronglySorted (fun p q => bef p q = true) (sort_desc gtp (combine (seq s0 (length l)) l)).
  Proof.
    induction l as [|x l IH]; intros s0; cbn [length seq combine sort_desc fold_right]; [constructor|].
    fold (sort_desc gtp (combine (seq (S s0) (length l)) l)).
    apply insert_sorted_stable; [apply IH|].
    intros y Hy. eapply Permutation_in in Hy; [|apply sort_desc_perm].
    destruct y as [j e]. apply in_combine_l in Hy. apply in_seq in Hy. cbn [ppos fst]. lia.
  Qed.

  Lemma insert_map_snd (x : pe) (s : list pe) :
    map snd (insert_desc gtp x s) = insert_desc gtp0 (snd x) (map snd s).
  Proof.
    induction s as [|y t IH]; cbn [insert_desc map]; [reflexivity|].
    change (gtp y x) with (gtp0 (snd y) (snd x)). destruct (gtp0 (snd y) (snd x)); cbn [map]; [rewrite IH|]; reflexivity.
  Qed.

  Lemma sort_map_snd (l : list pe) : map snd (sort_desc gtp l) = sort_desc gtp0 (map snd l).
  Proof.
    induction l as [|x l IH]; cbn [sort_desc fold_right map]; [reflexivity|].
    fold (sort_desc gtp l). fold (sort_desc gtp0 (map snd l)). rewrite insert_map_snd, IH. reflexivity.
  Qed.

  Lemma indexed_snd {A} (l : list A) : map snd (indexed l) = l.
  Proof. unfold indexed. apply combine_snd_eq. apply seq_length. Qed.

  Lemma indexed_NoDup {A} (l : list A) : NoDup (indexed l).
  Proof.
    unfold indexed. apply (NoDup_map_inv fst).
    replace (map fst (combine (seq 0 (length l)) l)) with (seq 0 (length l)); [apply seq_NoDup|].
    generalize 0%nat. induction l as [|x l IH]; intros s0; [reflexivity|]. cbn. f_equal. apply IH.
  Qed.

  (* selected <-> fewer than k entries rank before it (ties broken by position) *)
  Lemma topk_char_stable keys (ids : list I) k i kx x :
    NoDup ids -> length keys = length ids ->
    nth_error (combine keys ids) i = Some (kx, x) ->
    (In x (topk gt keys ids k) <->
     (length (filter (fun q => bef q (i, (kx, x))) (indexed (combine keys ids))) < k)%nat).
  Proof.
    intros Hi Hl Hn. unfold topk. set (l := combine keys ids) in *.
    change (fun a b : K * I => gt (fst a) (fst b)) with gtp0.
    set (S := sort_desc gtp (indexed l)).
    assert (HS : map snd S = sort_desc gtp0 l) by (unfold S; rewrite sort_map_snd, indexed_snd; reflexivity).
    assert (Hp : Permutation S (indexed l)) by apply sort_desc_perm.
    assert (Hsorted : StronglySorted (fun p q => bef p q = true) S) by (apply sort_sorted_stable).
    assert (HndS : NoDup S) by (eapply Permutation_NoDup; [symmetry; exact Hp|apply indexed_NoDup]).
    assert (Hin : In (i, (kx, x)) S).
    { eapply Permutation_in; [symmetry; exact Hp|]. apply in_indexed. exact Hn. }
    rewrite (filter_length_perm _ _ _ (Permutation_sym Hp)).
    rewrite <- (firstn_char_gen bef bef_irrefl bef_trans S Hsorted HndS k _ Hin).
    rewrite <- HS, firstn_map.
    assert (Hids : map snd l = ids) by (apply combine_snd_eq; exact Hl).
    split.
    - intros H. apply in_map_iff in H as [[ky y] [E0 Hy]]. cbn in E0; subst y.
      apply in_map_iff in Hy as [[j [ky' y']] [E1 Hy]]. cbn in E1. inversion E1; subst ky' y'.
      assert (Hj : nth_error l j = Some (ky, x)).
      { apply in_indexed. eapply Permutation_in; [exact Hp|eapply firstn_incl; exact Hy]. }
      assert (j = i).
      { rewrite <- Hids in Hi. rewrite NoDup_nth_error in Hi.
        apply Hi; [rewrite map_length; apply nth_error_Some; rewrite Hj; discriminate|].
        rewrite !nth_error_map, Hj, Hn. reflexivity. }
      subst j. rewrite Hn in Hj. inversion Hj; subst ky. exact Hy.
    - intros H. apply in_map_iff. exists (kx, x). split; [reflexivity|].
      apply in_map_iff. exists (i, (kx, x)). split; [reflexivity|exact H].
  Qed.
End Stable.

(* ---------------------------------------------------------------- counting by id, generic *)
Section CountSplit.
  Context {A : Type} (idf : A -> N).
  Definition cntG (P : A -> bool) (l : list A) : nat := length (filter P l).
  Definition nid (a : N) (x : A) : bool := negb (idf x =? a)%N.

  Lemma cntG_le P Q l : (forall e, In e l -> P e = true -> Q e = true) -> (cntG P l <= cntG Q l)%nat.
  Proof.
    unfold cntG. induction l as [|e l IH]; intros H; cbn [filter]; [lia|].
    assert (IH' := IH (fun e' He' => H e' (or_intror He'))).
    destruct (P e) eqn:EP.
    - rewrite (H e (or_introl eq_refl) EP). cbn [length]. lia.
    - destruct (Q e); cbn [length]; lia.
  Qed.

  Lemma filter_nid_absent a l : ~ In a (map idf l) -> filter (nid a) l = l.
  Proof.
    induction l as [|e l IH]; intros H; cbn [filter]; [reflexivity|].
    unfold nid at 1. destruct (idf e =? a)%N eqn:E0.
    - apply N.eqb_eq in E0. exfalso. apply H. left; exact E0.
    - cbn [negb]. f_equal. apply IH. intros Hin. apply H. right; exact Hin.
  Qed.

  Lemma cntG_split P l e : NoDup (map idf l) -> In e l ->
    cntG P l = (cntG P (filter (nid (idf e)) l) + (if P e then 1 else 0))%nat.
  Proof.
    induction l as [|x l IH]; intros Hnd Hin; [contradiction|].
    cbn [map] in Hnd. inversion Hnd as [|? ? Hx Hl]; subst.
    destruct Hin as [->|Hin].
    - cbn [filter]. unfold nid at 1. rewrite N.eqb_refl. cbn [negb].
      rewrite filter_nid_absent by exact Hx. unfold cntG. cbn [filter].
      destruct (P e); cbn [length]; lia.
    - assert (Hne : idf x <> idf e) by (intros E0; apply Hx; rewrite E0; apply in_map; exact Hin).
      cbn [filter]. unfold nid at 1. apply N.eqb_neq in Hne. rewrite Hne. cbn [negb].
      unfold cntG in *. cbn [filter]. specialize (IH Hl Hin).
      destruct (P x); cbn [length]; lia.
  Qed.

  Lemma map_idf_filter_NoDup f (l : list A) : NoDup (map idf l) -> NoDup (map idf (filter f l)).
  Proof.
    induction l as [|x l IH]; intros H; cbn [filter map]; [constructor|].
    cbn [map] in H. inversion H as [|? ? Hx Hl]; subst.
    destruct (f x); [|apply IH; exact Hl]. cbn [map]. constructor; [|apply IH; exact Hl].
    intros Hin. apply Hx. apply in_map_iff in Hin as [y [E0 Hy]]. apply filter_In in Hy as [Hy _].
    rewrite <- E0. apply in_map; exact Hy.
  Qed.

  Definition othersG (a b : N) (l : list A) : list A := filter (nid b) (filter (nid a) l).

  Lemma cntG_split2 P l ea eb : NoDup (map idf l) -> In ea l -> In eb l -> idf ea <> idf eb ->
    cntG P l = (cntG P (othersG (idf ea) (idf eb) l) + (if P ea then 1 else 0) + (if P eb then 1 else 0))%nat.
  Proof.
    intros Hnd Ha Hb Hab. rewrite (cntG_split P l ea Hnd Ha).
    rewrite (cntG_split P (filter (nid (idf ea)) l) eb).
    - unfold othersG. lia.
    - apply map_idf_filter_NoDup; exact Hnd.
    - apply filter_In. split; [exact Hb|]. unfold nid. apply negb_true_iff, N.eqb_neq. congruence.
  Qed.

  Lemma othersG_in a b l e : In e (othersG a b l) -> In e l /\ idf e <> a /\ idf e <> b.
  Proof.
    unfold othersG. intros H. apply filter_In in H as [H Hb]. apply filter_In in H as [H Ha].
    unfold nid in *. apply negb_true_iff, N.eqb_neq in Ha, Hb. auto.
  Qed.

  (* a map that keeps ids and touches only a and b leaves the others alone *)
  Lemma othersG_map a b (g : A -> A) l :
    (forall x, idf (g x) = idf x) -> (forall x, idf x <> a -> idf x <> b -> g x = x) ->
    othersG a b (map g l) = othersG a b l.
  Proof.
    intros Hid Hfix. unfold othersG. induction l as [|e l IH]; [reflexivity|]. cbn [map].
    assert (Hone : filter (nid b) (filter (nid a) [g e]) = filter (nid b) (filter (nid a) [e])).
    { cbn [filter]. unfold nid. rewrite Hid.
      destruct (idf e =? a)%N eqn:Ea; cbn [negb filter]; [reflexivity|].
      rewrite Hid. destruct (idf e =? b)%N eqn:Eb; cbn [negb]; [reflexivity|].
      apply N.eqb_neq in Ea, Eb. rewrite (Hfix e Ea Eb). reflexivity. }
    change (g e :: map g l) with ([g e] ++ map g l). change (e :: l) with ([e] ++ l).
    rewrite !filter_app. f_equal; [exact Hone|exact IH].
  Qed.
End CountSplit.

(* ---------------------------------------------------------------- real keys, with ties *)
Local Open Scope R_scope.

Lemma Rgtb_negtrans x y z : Rgtb x y = false -> Rgtb y z = false -> Rgtb x z = false.
Proof. rewrite !Rgtb_false. lra. Qed.

Definition ie : Type := (nat * entry)%type.
Definition ie_id (p : ie) : N := e_id (snd p).
(* q ranks before p in the sampler's stable descending sort *)
Definition befE (q p : ie) : bool :=
  Rgtb (e_key (snd q)) (e_key (snd p))
  || (negb (Rgtb (e_key (snd p)) (e_key (snd q))) && (fst q <? fst p)%nat).

Lemma befE_ge q p : befE q p = true -> e_key (snd p) <= e_key (snd q).
Proof.
  unfold befE. intros H. apply orb_true_iff in H as [H|H].
  - apply Rgtb_true in H. lra.
  - apply andb_true_iff in H as [H _]. apply negb_true_iff, Rgtb_false in H. exact H.
Qed.
Lemma befE_gt q p : e_key (snd p) < e_key (snd q) -> befE q p = true.
Proof. intros H. unfold befE. apply orb_true_iff. left. apply Rgtb_true. exact H. Qed.
Lemma befE_lt_false q p : e_key (snd q) < e_key (snd p) -> befE q p = false.
Proof.
  intros H. unfold befE. apply orb_false_iff. split; [apply Rgtb_false; lra|].
  apply andb_false_iff. left. apply negb_false_iff. apply Rgtb_true. exact H.
Qed.
Lemma befE_irrefl p : befE p p = false.
Proof. unfold befE. rewrite Rgtb_irrefl, Nat.ltb_irrefl. reflexivity. Qed.

Lemma indexed_map {A B} (f : A -> B) (l : list A) :
  indexed (map f l) = map (fun p => (fst p, f (snd p))) (indexed l).
Proof.
  unfold indexed. rewrite map_length. generalize 0%nat.
  induction l as [|x l IH]; intros s0; [reflexivity|]. cbn. f_equal. apply IH.
Qed.

Lemma indexed_ids (es : list entry) : map ie_id (indexed es) = map e_id es.
Proof.
  transitivity (map e_id (map snd (indexed es))); [symmetry; apply map_map|].
  f_equal. unfold indexed. apply combine_snd_eq. apply seq_length.
Qed.

Lemma rsample_char_stable es k i e :
  NoDup (map e_id es) -> nth_error es i = Some e ->
  (In (e_id e) (rsample es k) <-> (cntG (fun q => befE q (i, e)) (indexed es) < k)%nat).
Proof.
  intros Hi He. unfold rsample.
  assert (Hc : combine (map e_key es) (map e_id es) = map (fun x => (e_key x, e_id x)) es).
  { clear. induction es as [|x es IH]; [reflexivity|]. cbn. f_equal. exact IH. }
  rewrite (topk_char_stable Rgtb Rgtb_irrefl Rgtb_trans Rgtb_negtrans (map e_key es) (map e_id es) k i (e_key e) (e_id e) Hi).
  - rewrite Hc, indexed_map. unfold cntG.
    rewrite <- (map_length (fun p : nat * entry => (fst p, (e_key (snd p), e_id (snd p)))) (filter _ (indexed es))).
    match goal with |- (length ?a < k)%nat <-> (length ?b < k)%nat => replace a with b; [reflexivity|] end.
    generalize (indexed es). clear. intros l.
    induction l as [|[j x] l IH]; [reflexivity|]. cbn [map filter fst snd].
    unfold bef at 1, befE at 1, pkey, ppos. cbn [fst snd].
    destruct (Rgtb (e_key x) (e_key e) || negb (Rgtb (e_key e) (e_key x)) && (j <? i)%nat); cbn [map]; rewrite IH; reflexivity.
  - rewrite !map_length. reflexivity.
  - rewrite Hc, nth_error_map, He. reflexivity.
Qed.

Theorem swap_dominance_ties es k a b wa wb ua ub :
  NoDup (map e_id es) ->
  In (a, (wa, ua)) es -> In (b, (wb, ub)) es -> a <> b ->
  0 < wb <= wa -> 0 < ua < 1 -> 0 < ub < 1 ->
  let es' := swap_draws a b ua ub es in
  (forall e, In e es' -> e_id e <> a -> e_key e <> rkey ub wa) ->
  (forall e, In e es' -> e_id e <> b -> e_key e <> rkey ua wb) ->
  In b (rsample es k) -> ~ In a (rsample es k) ->
  In a (rsample es' k) /\ ~ In b (rsample es' k).
Proof.
  intros Hnd Ha Hb Hab Hw Hua Hub es' Ta Tb Hbin Haout.
  set (ea := (a, (wa, ua)) : entry) in *. set (eb := (b, (wb, ub)) : entry) in *.
  set (ea' := (a, (wa, ub)) : entry). set (eb' := (b, (wb, ua)) : entry).
  destruct (In_nth_error _ _ Ha) as [ia Hia]. destruct (In_nth_error _ _ Hb) as [ib Hib].
  set (f := fun e : entry => if (e_id e =? a)%N then (e_id e, (e_w e, ub))
                             else if (e_id e =? b)%N then (e_id e, (e_w e, ua)) else e).
  assert (Hes' : es' = map f es) by reflexivity.
  assert (Hfa : f ea = ea') by (unfold f; cbn [ea e_id fst e_w snd]; rewrite N.eqb_refl; reflexivity).
  assert (Hfb : f eb = eb').
  { unfold f. cbn [eb e_id fst e_w snd]. pose proof (not_eq_sym Hab) as Hba. apply N.eqb_neq in Hba.
    rewrite Hba, N.eqb_refl. reflexivity. }
  assert (Hia' : nth_error es' ia = Some ea') by (rewrite Hes', <- Hfa; apply map_nth_error; exact Hia).
  assert (Hib' : nth_error es' ib = Some eb') by (rewrite Hes', <- Hfb; apply map_nth_error; exact Hib).
  assert (Hnd' : NoDup (map e_id es')) by (unfold es'; rewrite swap_ids; exact Hnd).
  assert (Hfid : forall e, e_id (f e) = e_id e).
  { intros e. unfold f. destruct (e_id e =? a)%N; [reflexivity|]. destruct (e_id e =? b)%N; reflexivity. }
  assert (Hffix : forall e, e_id e <> a -> e_id e <> b -> f e = e).
  { intros e H1 H2. unfold f. apply N.eqb_neq in H1, H2. rewrite H1, H2. reflexivity. }
  (* indexed views *)
  set (L := indexed es). set (L' := indexed es').
  assert (HL' : L' = map (fun p : ie => (fst p, f (snd p))) L) by (unfold L', L; rewrite Hes'; apply indexed_map).
  assert (HndL : NoDup (map ie_id L)) by (unfold L; rewrite indexed_ids; exact Hnd).
  assert (HndL' : NoDup (map ie_id L')) by (unfold L'; rewrite indexed_ids; exact Hnd').
  assert (HaL : In (ia, ea) L) by (apply in_indexed; exact Hia).
  assert (HbL : In (ib, eb) L) by (apply in_indexed; exact Hib).
  assert (HaL' : In (ia, ea') L') by (apply in_indexed; exact Hia').
  assert (HbL' : In (ib, eb') L') by (apply in_indexed; exact Hib').
  assert (Hoth : othersG ie_id a b L' = othersG ie_id a b L).
  { rewrite HL'. apply othersG_map.
    - intros [j e]. unfold ie_id. cbn [snd]. apply Hfid.
    - intros [j e] H1 H2. unfold ie_id in H1, H2. cbn [snd fst] in *. rewrite (Hffix e H1 H2). reflexivity. }
  (* the four keys *)
  set (Ka := e_key ea). set (Kb := e_key eb). set (Ka' := e_key ea'). set (Kb' := e_key eb').
  assert (M1 : Kb <= Ka') by (apply rkey_monotone; [exact Hub|exact Hw]).
  assert (M2 : Kb' <= Ka) by (apply rkey_monotone; [exact Hua|exact Hw]).
  assert (Hb1 : (cntG (fun q => befE q (ib, eb)) L < k)%nat)
    by (apply (proj1 (rsample_char_stable es k ib eb Hnd Hib)); exact Hbin).
  assert (Ha1 : (k <= cntG (fun q => befE q (ia, ea)) L)%nat).
  { apply Nat.nlt_ge. intros Hc. apply Haout. apply (proj2 (rsample_char_stable es k ia ea Hnd Hia)). exact Hc. }
  rewrite (cntG_split2 ie_id _ L (ia, ea) (ib, eb) HndL HaL HbL Hab) in Hb1.
  rewrite (cntG_split2 ie_id _ L (ia, ea) (ib, eb) HndL HaL HbL Hab) in Ha1.
  change (ie_id (ia, ea)) with a in *. change (ie_id (ib, eb)) with b in *.
  rewrite befE_irrefl in Hb1, Ha1.
  set (O := othersG ie_id a b L) in *.
  (* the other entries keep their keys *)
  (* b does not rank after a with a strictly smaller key *)
  assert (Hle : Ka <= Kb).
  { destruct (Rle_or_lt Ka Kb) as [H|H]; [exact H|]. exfalso.
    assert (Hy : befE (ib, eb) (ia, ea) = false) by (apply befE_lt_false; exact H).
    rewrite Hy in Ha1.
    assert (Hc : (cntG (fun q => befE q (ia, ea)) O <= cntG (fun q => befE q (ib, eb)) O)%nat).
    { apply (cntG_le ie_id). intros q _ Hq. apply befE_ge in Hq. apply befE_gt. cbn [snd] in *. unfold Ka, Kb, Ka', Kb' in *. lra. }
    destruct (befE (ia, ea) (ib, eb)); lia. }
  assert (TaL : forall q, In q O -> e_key (snd q) <> Ka').
  { intros q Hq. apply othersG_in in Hq as (HqL & Hqa & Hqb). destruct q as [j e]. cbn [snd].
    unfold ie_id in Hqa, Hqb. cbn [snd] in Hqa, Hqb.
    apply in_indexed in HqL. apply nth_error_In in HqL.
    assert (He' : In e es') by (rewrite Hes'; apply in_map_iff; exists e; split; [apply Hffix; assumption|exact HqL]).
    exact (Ta e He' Hqa). }
  assert (TbL : forall q, In q O -> e_key (snd q) <> Kb').
  { intros q Hq. apply othersG_in in Hq as (HqL & Hqa & Hqb). destruct q as [j e]. cbn [snd].
    unfold ie_id in Hqa, Hqb. cbn [snd] in Hqa, Hqb.
    apply in_indexed in HqL. apply nth_error_In in HqL.
    assert (He' : In e es') by (rewrite Hes'; apply in_map_iff; exists e; split; [apply Hffix; assumption|exact HqL]).
    exact (Tb e He' Hqb). }
  assert (Tab : Kb' <> Ka').
  { apply (Ta eb'); [eapply nth_error_In; exact Hib'|]. cbn. apply not_eq_sym. exact Hab. }
  split.
  - apply (proj2 (rsample_char_stable es' k ia ea' Hnd' Hia')). fold L'.
    rewrite (cntG_split2 ie_id _ L' (ia, ea') (ib, eb') HndL' HaL' HbL' Hab).
    change (ie_id (ia, ea')) with a. change (ie_id (ib, eb')) with b. rewrite Hoth. fold O.
    rewrite befE_irrefl.
    replace (befE (ib, eb') (ia, ea')) with false by (symmetry; apply befE_lt_false; cbn [snd]; unfold Ka, Kb, Ka', Kb' in *; lra).
    assert (Hc : (cntG (fun q => befE q (ia, ea')) O <= cntG (fun q => befE q (ib, eb)) O)%nat).
    { apply (cntG_le ie_id). intros q Hq Hbq. apply befE_ge in Hbq.
      apply befE_gt. specialize (TaL q Hq). cbn [snd] in *. unfold Ka, Kb, Ka', Kb' in *. lra. }
    destruct (befE (ia, ea) (ib, eb)); lia.
  - intros Hc0. apply (proj1 (rsample_char_stable es' k ib eb' Hnd' Hib')) in Hc0. revert Hc0. apply Nat.le_ngt. fold L'.
    rewrite (cntG_split2 ie_id _ L' (ia, ea') (ib, eb') HndL' HaL' HbL' Hab).
    change (ie_id (ia, ea')) with a. change (ie_id (ib, eb')) with b. rewrite Hoth. fold O.
    rewrite befE_irrefl.
    replace (befE (ia, ea') (ib, eb')) with true by (symmetry; apply befE_gt; cbn [snd]; unfold Ka, Kb, Ka', Kb' in *; lra).
    assert (Hc : (cntG (fun q => befE q (ia, ea)) O <= cntG (fun q => befE q (ib, eb')) O)%nat).
    { apply (cntG_le ie_id). intros q Hq Hbq. apply befE_ge in Hbq.
      apply befE_gt. specialize (TbL q Hq). cbn [snd] in *. unfold Ka, Kb, Ka', Kb' in *. lra. }
    destruct (befE (ib, eb) (ia, ea)); lia.
Qed.
