(* Model of src/placement/algorithms.rs (WeightedSampler, DiversityEnforcer,
   WeightedPlacementStrategy::select_nodes) and of PlacementEngine::select_nodes in
   src/placement/mod.rs (C17).  Definitions only.

   Numbers are binary64 ([PrimFloat]): every comparison below is the IEEE comparison the
   Rust code performs (a comparison with NaN is false), so NaN / infinities / zero /
   negative values are ordinary inputs of the model, not excluded cases.

   Oracles (arguments, universally quantified in the theorems):
     draw : nat -> float          the uniform draws fastrand::f64() hands the sampler, in order
     kf   : float -> float -> float   kf u w  = Rust's  u.powf(1.0 / w)   (the sampling key)
     pf   : float -> float -> float   pf x a  = Rust's  x.powf(a)          (score ^ exponent)
     dist : N -> N -> float       haversine distance in km between two nodes (table)
     md   : N -> option (N * N)   node metadata: (region, ASN), None = missing
   Constants come from Gen/PlacementConsts.v (regenerated from the source on every run). *)
From Coq Require Import Floats QArith.
From SV Require Import Lib.Base Gen.PlacementConsts.

Inductive err :=
| EInsufficient | EInvalidWeight | EMetadata
| EDivGeo | EDivRegion | EDivAsn
| EInvalidRF | EBft | EReliability | EOther.

(* [Panic]: the call does not return (Rust: a panic).  The only modelled source is
   slice::sort_by, which since Rust 1.81 may panic when the comparison closure is not a
   total order - here: when some key is NaN (partial_cmp = None is mapped to Equal). *)
Inductive res (A : Type) := Ok (a : A) | Err (e : err) | Panic.
Arguments Ok {A} a. Arguments Err {A} e. Arguments Panic {A}.

Definition err_eqb (a b : err) : bool :=
  match a, b with
  | EInsufficient, EInsufficient | EInvalidWeight, EInvalidWeight | EMetadata, EMetadata
  | EDivGeo, EDivGeo | EDivRegion, EDivRegion | EDivAsn, EDivAsn
  | EInvalidRF, EInvalidRF | EBft, EBft | EReliability, EReliability | EOther, EOther => true
  | _, _ => false
  end.

(* ---------- floats ---------- *)
Definition f_of_pos (p : positive) : float := PrimFloat.of_uint63 (Uint63.of_Z (Zpos p)).
(* decimal literal num/den of the Rust source -> binary64: both integers are exact, the
   division is correctly rounded, hence the result is the correctly rounded decimal = what
   rustc produces for the literal (valid for num, den < 2^53). *)
Definition f_of_Q (q : Q) : float :=
  match Qnum q with
  | Zpos p => PrimFloat.div (f_of_pos p) (f_of_pos (Qden q))
  | Z0 => PrimFloat.zero
  | Zneg p => PrimFloat.opp (PrimFloat.div (f_of_pos p) (f_of_pos (Qden q)))
  end.
Definition f_of_N (n : N) : float := match n with N0 => PrimFloat.zero | Npos p => f_of_pos p end.

Definition fzero : float := PrimFloat.zero.
Definition fone : float := PrimFloat.one.
Definition flt (a b : float) : bool := PrimFloat.ltb a b.
Definition fle (a b : float) : bool := PrimFloat.leb a b.
Definition fgt (a b : float) : bool := PrimFloat.ltb b a.
(* f64::max for non-NaN arguments *)
Definition fmax (a b : float) : float := if flt a b then b else a.
(* bit-for-bit equality (all NaNs identified) *)
Definition feqb (a b : float) : bool :=
  match PrimFloat.classify a, PrimFloat.classify b with
  | NaN, NaN => true
  | PZero, PZero => true
  | NZero, NZero => true
  | NaN, _ | _, NaN | PZero, _ | _, PZero | NZero, _ | _, NZero => false
  | _, _ => PrimFloat.eqb a b
  end.

Definition min_geo : float := f_of_Q PLC_MIN_GEO_DISTANCE.                       (* 100 km: weight penalty *)
Definition thr_geo : float := PrimFloat.div min_geo (f_of_Q PLC_GEO_DIVISOR).    (* 100 / 2 = 50 km: validation *)
Definition penalty : float := f_of_Q PLC_PENALTY.
Definition min_factor : float := f_of_Q PLC_MIN_FACTOR.
Definition mock_trust : float := f_of_Q PLC_MOCK_TRUST.
Definition mock_stab : float := f_of_Q PLC_MOCK_STABILITY.
Definition mock_cap : float := f_of_Q PLC_MOCK_CAPACITY.

(* ---------- stable descending sort (slice::sort_by with a reversed comparator) ---------- *)
Section Sort.
  Context {A : Type} (gt : A -> A -> bool).
  (* [x] comes from an earlier input position than everything in [l]: it is placed after the
     strictly greater elements only, i.e. before its equals - stability *)
  Fixpoint insert_desc (x : A) (l : list A) : list A :=
    match l with
    | [] => [x]
    | y :: t => if gt y x then y :: insert_desc x t else x :: l
    end.
  Definition sort_desc (l : list A) : list A := fold_right insert_desc [] l.
End Sort.

(* the k entries with the greatest keys, greatest first, ties in input order *)
Definition topk {K I : Type} (gt : K -> K -> bool) (keys : list K) (ids : list I) (k : nat) : list I :=
  map snd (firstn k (sort_desc (fun a b => gt (fst a) (fst b)) (combine keys ids))).

(* ---------- WeightedSampler::sample_nodes ---------- *)
(* the positive-weight guard; [weight_bad] is the code after the fix (NaN rejected),
   [weight_bad_old] the guard before it ( *weight <= 0.0 only: NaN passes ) *)
Definition weight_bad (w : float) : bool := PrimFloat.is_nan w || fle w fzero.
Definition weight_bad_old (w : float) : bool := fle w fzero.

Definition sample_keys_gen (bad : float -> bool) (cands : list (N * float)) (keys : list float) (k : nat)
  : res (list N) :=
  match cands with
  | [] => Err EInsufficient
  | _ =>
    if (length cands <? k)%nat then Err EInsufficient
    else if (k =? 0)%nat then Ok []
    else if existsb (fun c => bad (snd c)) cands then Err EInvalidWeight
    else if existsb PrimFloat.is_nan keys then Panic
    else Ok (topk fgt keys (map fst cands) k)
  end.
Definition sample_keys := sample_keys_gen weight_bad.

(* key of the i-th candidate: draw number off+i raised to 1/weight *)
Definition keys_of (kf : float -> float -> float) (draw : nat -> float) (off : nat) (ws : list float) : list float :=
  map (fun iw => kf (draw (off + fst iw)%nat) (snd iw)) (combine (seq 0 (length ws)) ws).

Definition sample_nodes kf draw (off : nat) (cands : list (N * float)) (k : nat) : res (list N) :=
  sample_keys cands (keys_of kf draw off (map snd cands)) k.

(* ---------- DiversityEnforcer ---------- *)
Definition sel_entry := (N * (N * N))%type.        (* node, (region, asn) *)
Definition se_id (s : sel_entry) : N := fst s.
Definition se_region (s : sel_entry) : N := fst (snd s).
Definition se_asn (s : sel_entry) : N := snd (snd s).

Definition count_region (r : N) (sel : list sel_entry) : N :=
  N.of_nat (length (filter (fun s => (se_region s =? r)%N) sel)).
Definition count_asn (a : N) (sel : list sel_entry) : N :=
  N.of_nat (length (filter (fun s => (se_asn s =? a)%N) sel)).

(* calculate_diversity_factor *)
Definition div_factor (dist : N -> N -> float) (c creg casn : N) (selected : list sel_entry) : float :=
  let f1 := fold_left (fun f s => if flt (dist c (se_id s)) min_geo then PrimFloat.mul f penalty else f) selected fone in
  let f2 := if (PLC_MAX_PER_REGION <=? count_region creg selected)%N then PrimFloat.mul f1 penalty else f1 in
  let f3 := if (PLC_MAX_PER_ASN <=? count_asn casn selected)%N then PrimFloat.mul f2 penalty else f2 in
  fmax f3 min_factor.

(* validate_selection: pairs at different positions closer than 100/2 km, then region
   counts, then ASN counts *)
Definition indexed {A} (l : list A) : list (nat * A) := combine (seq 0 (length l)) l.
Definition geo_violation (dist : N -> N -> float) (sel : list sel_entry) : bool :=
  existsb (fun ia => existsb (fun jb => negb (fst ia =? fst jb)%nat
                                         && flt (dist (se_id (snd ia)) (se_id (snd jb))) thr_geo)
                             (indexed sel)) (indexed sel).
Definition region_violation (sel : list sel_entry) : bool :=
  existsb (fun s => (PLC_MAX_PER_REGION <? count_region (se_region s) sel)%N) sel.
Definition asn_violation (sel : list sel_entry) : bool :=
  existsb (fun s => (PLC_MAX_PER_ASN <? count_asn (se_asn s) sel)%N) sel.

Definition validate (dist : N -> N -> float) (sel : list sel_entry) : res unit :=
  if geo_violation dist sel then Err EDivGeo
  else if region_violation sel then Err EDivRegion
  else if asn_violation sel then Err EDivAsn
  else Ok tt.

(* ---------- WeightedSampler::calculate_weight ---------- *)
Definition in_unit (x : float) : bool := fle fzero x && fle x fone.   (* (0.0..=1.0).contains(&x) *)

Definition calc_weight (pf : float -> float -> float)
           (trust stab cap dfac alpha beta gamma : float) : res float :=
  if negb (in_unit trust) then Err EInvalidWeight
  else if negb (in_unit stab) then Err EInvalidWeight
  else if flt cap fzero then Err EInvalidWeight
  else if flt dfac fzero then Err EInvalidWeight
  else
    let tc := if PrimFloat.eqb alpha fzero then fone else pf trust alpha in
    let sc := if PrimFloat.eqb beta fzero then fone else pf stab beta in
    let cc := if PrimFloat.eqb gamma fzero then fone else pf cap gamma in
    let w := PrimFloat.mul (PrimFloat.mul (PrimFloat.mul tc sc) cc) dfac in
    if negb (PrimFloat.is_finite w) || fle w fzero then Err EInvalidWeight else Ok w.

(* ---------- WeightedPlacementStrategy ---------- *)
Record cfg := mkCfg { c_alpha : float; c_beta : float; c_gamma : float }.

Section Strategy.
  Variable kf pf : float -> float -> float.
  Variable dist : N -> N -> float.
  Variable md : N -> option (N * N).
  Variable cf : cfg.
  Variable draw : nat -> float.

  (* calculate_weights, before its final sort: candidates in iteration order; the first
     missing metadata / invalid weight aborts *)
  Fixpoint weights_of (selected : list sel_entry) (rem : list N) : res (list (N * float)) :=
    match rem with
    | [] => Ok []
    | c :: t =>
      match md c with
      | None => Err EMetadata
      | Some ra =>
        match calc_weight pf mock_trust mock_stab mock_cap (div_factor dist c (fst ra) (snd ra) selected)
                          (c_alpha cf) (c_beta cf) (c_gamma cf) with
        | Ok w => match weights_of selected t with
                  | Ok l => Ok ((c, w) :: l)
                  | Err e => Err e
                  | Panic => Panic
                  end
        | Err e => Err e
        | Panic => Panic
        end
      end
    end.

  Definition remove_id (x : N) (l : list N) : list N := filter (fun y => negb (y =? x)%N) l.

  (* the k rounds.  Returns the selection (in order) and, for the statement of
     "without replacement", the candidate list each round started from. *)
  Fixpoint rounds (todo off : nat) (selected : list sel_entry) (hist : list (list N)) (rem : list N)
    : res (list sel_entry * list (list N)) :=
    match todo with
    | O => Ok (selected, hist)
    | S todo' =>
      match rem with
      | [] => Err EInsufficient
      | _ =>
        match weights_of selected rem with
        | Ok ws =>
          let ws' := sort_desc (fun a b => fgt (snd a) (snd b)) ws in
          match sample_nodes kf draw off ws' 1 with
          | Ok (x :: _) =>
            match md x with
            | None => Err EMetadata
            | Some ra => rounds todo' (off + length ws') (selected ++ [(x, ra)]) (hist ++ [rem]) (remove_id x rem)
            end
          | Ok [] => Err EInsufficient
          | Err e => Err e
          | Panic => Panic
          end
        | Err e => Err e
        | Panic => Panic
        end
      end
    end.

  Definition select_trace (cands : list N) (k : nat) : res (list N * list (list N)) :=
    match cands with
    | [] => Err EInsufficient
    | _ =>
      if (length cands <? k)%nat then Err EInsufficient
      else match rounds k 0 [] [] cands with
           | Ok (sel, hist) =>
             match validate dist sel with
             | Ok _ => Ok (map se_id sel, hist)
             | Err e => Err e
             | Panic => Panic
             end
           | Err e => Err e
           | Panic => Panic
           end
    end.

  (* WeightedPlacementStrategy::select_nodes -> PlacementDecision.selected_nodes *)
  Definition select_nodes (cands : list N) (k : nat) : res (list N) :=
    match select_trace cands k with
    | Ok sh => Ok (fst sh)
    | Err e => Err e
    | Panic => Panic
    end.

  (* PlacementEngine::select_nodes: minimum replication factor, then the strategy, then
     validate_decision (minimum, Byzantine requirement, reliability estimate) *)
  Definition engine_select (rf_min bft_required : N) (cands : list N) (k : nat) : res (list N) :=
    match cands with
    | [] => Err EInsufficient
    | _ =>
      if (N.of_nat k <? rf_min)%N then Err EInvalidRF
      else match select_nodes cands k with
           | Ok sel =>
             if (N.of_nat (length sel) <? rf_min)%N then Err EInsufficient
             else if (N.of_nat (length sel) <? bft_required)%N then Err EBft
             else if flt (f_of_Q PLC_RELIABILITY) (f_of_Q PLC_MIN_RELIABILITY) then Err EReliability
             else Ok sel
           | Err e => Err e
           | Panic => Panic
           end
    end.
End Strategy.

(* ReplicationFactor::new / is_valid, ByzantineTolerance *)
Definition rf_new_ok (mn df mx : N) : bool := negb (mn =? 0)%N && (mn <=? df)%N && (df <=? mx)%N.
Definition rf_is_valid (mn mx v : N) : bool := (mn <=? v)%N && (v <=? mx)%N.
Inductive bft := BftNone | BftClassic (f : N) | BftCustom (total faults : N).
Definition bft_required (b : bft) : N :=
  match b with BftNone => 1 | BftClassic f => 3 * f + 1 | BftCustom t _ => t end.
Definition bft_is_valid (b : bft) : bool :=
  match b with
  | BftNone => true
  | BftClassic f => (0 <? f)%N
  | BftCustom t m => (m <? t)%N && (2 * m <? t)%N
  end.

(* ================= executable interface for the correspondence check ================= *)
Fixpoint list_N_eqb (a b : list N) : bool :=
  match a, b with
  | [], [] => true
  | x :: a', y :: b' => (x =? y)%N && list_N_eqb a' b'
  | _, _ => false
  end.
Fixpoint list_f_eqb (a b : list float) : bool :=
  match a, b with
  | [], [] => true
  | x :: a', y :: b' => feqb x y && list_f_eqb a' b'
  | _, _ => false
  end.
Definition res_list_eqb (a b : res (list N)) : bool :=
  match a, b with
  | Ok x, Ok y => list_N_eqb x y
  | Err e, Err e' => err_eqb e e'
  | Panic, Panic => true
  | _, _ => false
  end.
Definition res_unit_eqb (a b : res unit) : bool :=
  match a, b with
  | Ok _, Ok _ => true
  | Err e, Err e' => err_eqb e e'
  | Panic, Panic => true
  | _, _ => false
  end.
Definition res_f_eqb (a b : res float) : bool :=
  match a, b with
  | Ok x, Ok y => feqb x y
  | Err e, Err e' => err_eqb e e'
  | Panic, Panic => true
  | _, _ => false
  end.

Fixpoint nodupb (l : list N) : bool :=
  match l with [] => true | x :: t => negb (existsb (N.eqb x) t) && nodupb t end.
Definition in_unit_open (u : float) : bool := fle fzero u && flt u fone.   (* fastrand::f64() is in [0,1) *)

(* --- sampler cases --- *)
(* (candidates (id, weight), k, draws, Rust's keys u.powf(1/w), observed) *)
Definition scase := (list (N * float) * N * list float * list float * res (list N))%type.

Definition key_of_id (cands : list (N * float)) (keys : list float) (x : N) : float :=
  match find (fun p => (fst (fst p) =? x)%N) (combine cands keys) with
  | Some p => snd p | None => PrimFloat.nan end.

Definition check_scase (c : scase) : bool :=
  let '(cands, k, draws, keys, obs) := c in
  let m := sample_keys cands keys (N.to_nat k) in
  forallb in_unit_open draws &&
  (res_list_eqb m obs
   || (* ties between keys: any order of the tied entries is a correct top-k; accepted when the
         ids are distinct and the observed answer carries the same key sequence *)
      match m, obs with
      | Ok ml, Ok ol => nodupb (map fst cands) && nodupb ol && forallb (fun x => existsb (N.eqb x) (map fst cands)) ol
                        && list_f_eqb (map (key_of_id cands keys) ml) (map (key_of_id cands keys) ol)
      | _, _ => false
      end).

(* C17_sampler_shape evaluated on the implementation's answer: exactly k entries, each a
   candidate with a good weight, no entry used more often than it is listed *)
Definition count_N (x : N) (l : list N) : nat := length (filter (N.eqb x) l).
Definition prop_scase (c : scase) : bool :=
  let '(cands, k, draws, keys, obs) := c in
  match obs with
  | Ok ol => (length ol =? N.to_nat k)%nat
             && forallb (fun x => (count_N x ol <=? count_N x (map fst cands))%nat) ol
             && (negb (0 <? k)%N || negb (existsb (fun cw => weight_bad (snd cw)) cands))
  | Err _ => true
  | Panic => false
  end.

(* --- diversity cases --- *)
(* (selection (position, (region, asn)), distance matrix by position, observed validate_selection,
    candidate (region, asn, distance to each selected), observed diversity factor) *)
Definition dcase := (list sel_entry * list (list float) * res unit * (N * N * list float) * float)%type.
Definition mat (m : list (list float)) (i j : N) : float :=
  nth (N.to_nat j) (nth (N.to_nat i) m []) PrimFloat.nan.

Definition check_dcase (c : dcase) : bool :=
  let '(sel, m, obsv, cand, obsf) := c in
  let '(creg, casn, row) := cand in
  res_unit_eqb (validate (mat m) sel) obsv
  && feqb (div_factor (fun _ j => nth (N.to_nat j) row PrimFloat.nan) 0 creg casn sel) obsf.

(* the numbers of the property text, literally: 2 per region, 3 per ASN, 50 km *)
Definition fifty : float := f_of_pos 50.
Definition diverse (dist : N -> N -> float) (sel : list sel_entry) : bool :=
  forallb (fun s => (count_region (se_region s) sel <=? 2)%N && (count_asn (se_asn s) sel <=? 3)%N) sel
  && forallb (fun ia => forallb (fun jb => (fst ia =? fst jb)%nat
                                           || negb (flt (dist (se_id (snd ia)) (se_id (snd jb))) fifty))
                                (indexed sel)) (indexed sel).
Definition prop_dcase (c : dcase) : bool :=
  let '(sel, m, obsv, cand, obsf) := c in
  match obsv with
  | Ok _ => diverse (mat m) sel
  | Err _ => negb (diverse (mat m) sel)     (* validate_selection alone: Err exactly when a limit is exceeded *)
  | Panic => false
  end
  && fle (f_of_Q (1 # 10)) obsf && fle obsf fone.

(* --- placement cases --- *)
Record pcase := mkP {
  p_cands : list N;                       (* candidate ids, in the iteration order of the HashSet *)
  p_md : list (option (N * N));           (* by id: (region, asn) *)
  p_dist : list (list float);             (* by id x id: real distance_km *)
  p_k : N;
  p_cfg : cfg;
  p_ctab : list (float * float * float);  (* (x, a, Rust's x.powf(a)) *)
  p_wds : list float;                     (* the weights a candidate can have: real calculate_weight for every value of the diversity factor *)
  p_draws : list (float * list float);    (* (u, [Rust's u.powf(1/w) for w in p_wds]) in draw order *)
  p_w0 : res float;                       (* real calculate_weight with diversity factor 1.0 *)
  p_engine : option (N * N);              (* through PlacementEngine: (rf.min, byzantine required) *)
  p_obs : res (list N);
}.

Fixpoint lookup2 (t : list (float * float * float)) (x a : float) : float :=
  match t with
  | [] => PrimFloat.nan
  | (x', a', v) :: t' => if feqb x x' && feqb a a' then v else lookup2 t' x a
  end.
Fixpoint lookup1 (ws : list float) (vs : list float) (w : float) : float :=
  match ws, vs with
  | w' :: ws', v :: vs' => if feqb w w' then v else lookup1 ws' vs' w
  | _, _ => PrimFloat.nan
  end.
Fixpoint lookup_draw (wds : list float) (t : list (float * list float)) (u w : float) : float :=
  match t with
  | [] => PrimFloat.nan
  | (u', alts) :: t' => if feqb u u' then lookup1 wds alts w else lookup_draw wds t' u w
  end.

Definition p_select (p : pcase) : res (list N) :=
  let kf := lookup_draw (p_wds p) (p_draws p) in
  let pf := lookup2 (p_ctab p) in
  let dist := mat (p_dist p) in
  let md := fun i => nth (N.to_nat i) (p_md p) None in
  let draw := fun i => nth i (map fst (p_draws p)) PrimFloat.nan in
  match p_engine p with
  | None => select_nodes kf pf dist md (p_cfg p) draw (p_cands p) (N.to_nat (p_k p))
  | Some mb => engine_select kf pf dist md (p_cfg p) draw (fst mb) (snd mb) (p_cands p) (N.to_nat (p_k p))
  end.

Definition check_pcase (p : pcase) : bool :=
  res_list_eqb (p_select p) (p_obs p)
  && forallb (fun d => in_unit_open (fst d)) (p_draws p)
  && res_f_eqb (calc_weight (lookup2 (p_ctab p)) mock_trust mock_stab mock_cap fone
                            (c_alpha (p_cfg p)) (c_beta (p_cfg p)) (c_gamma (p_cfg p))) (p_w0 p).

(* conclusion of C17_ok_shape on the implementation's answer *)
Definition prop_pcase (p : pcase) : bool :=
  match p_obs p with
  | Ok sel =>
    let md := fun i => nth (N.to_nat i) (p_md p) None in
    (length sel =? N.to_nat (p_k p))%nat && nodupb sel
    && forallb (fun x => existsb (N.eqb x) (p_cands p)) sel
    && forallb (fun x => match md x with Some _ => true | None => false end) sel
    && diverse (mat (p_dist p)) (map (fun x => (x, match md x with Some ra => ra | None => (0, 0)%N end)) sel)
    && match p_engine p with Some mb => (fst mb <=? p_k p)%N && (snd mb <=? p_k p)%N | None => true end
  | Err _ => true
  | Panic => false
  end.
