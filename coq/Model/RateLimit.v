(* Model of src/rate_limit.rs and validation::RateLimiter (C14).  Definitions only.

   Arithmetic.  The Rust bucket keeps [tokens : f64] and computes
       tokens += elapsed_secs * (max_requests / window_secs);  tokens = min(tokens, burst)
       admit iff tokens >= 1.0 && requests_in_window < max_requests.
   The model keeps the SAME quantity exactly, scaled by the window length:
       b_tok = tokens * window           (unit: token-nanoseconds; window, elapsed in ns)
   so that   refill = elapsed * max,   cap = burst * window,   "tokens >= 1" = "window <= b_tok",
   "tokens -= 1" = "b_tok - window".  No division occurs, hence this is the exact
   rational semantics of the algorithm (what the f64 code computes up to rounding).

   Clock.  [Instant::now()] read inside [try_consume] is an INPUT ([now], in ns since an
   arbitrary origin).  [Instant::duration_since] saturates at zero, as [N.sub] does. *)
From SV Require Import Lib.Base Gen.RateLimitConsts.
Local Open Scope N_scope.

(* ------------------------------------------------------------------ bucket *)
Record cfg := mkCfg { c_window : N;   (* EngineConfig.window, ns *)
                      c_max : N;      (* max_requests *)
                      c_burst : N }.  (* burst_size *)

Record bucket := mkB { b_tok : N;     (* tokens * window *)
                       b_last : N;    (* last_update *)
                       b_inwin : N;   (* requests_in_window *)
                       b_wstart : N }. (* window_start *)

Definition tok_cap (c : cfg) : N := c_burst c * c_window c.

(* Bucket::new(burst) at clock value [now] *)
Definition bucket_new (c : cfg) (now : N) : bucket := mkB (tok_cap c) now 0 now.

(* first half of try_consume: what the passage of time does (window expiry, refill, cap) *)
Definition tick (c : cfg) (now : N) (b : bucket) : bucket :=
  let reset := c_window c <? now - b_wstart b in
  mkB (N.min (b_tok b + (now - b_last b) * c_max c) (tok_cap c))
      now
      (if reset then 0 else b_inwin b)
      (if reset then now else b_wstart b).

(* tokens >= 1.0 && requests_in_window < max_requests *)
Definition can_admit (c : cfg) (b : bucket) : bool :=
  (c_window c <=? b_tok b) && (b_inwin b <? c_max c).

Definition consume (c : cfg) (b : bucket) : bucket :=
  mkB (b_tok b - c_window c) (b_last b) (b_inwin b + 1) (b_wstart b).

Definition try_consume (c : cfg) (now : N) (b : bucket) : bucket * bool :=
  let b1 := tick c now b in
  if can_admit c b1 then (consume c b1, true) else (b1, false).

Fixpoint bucket_run (c : cfg) (b : bucket) (ts : list N) : bucket * list bool :=
  match ts with
  | [] => (b, [])
  | t :: r => let '(b1, x) := try_consume c t b in
              let '(b2, xs) := bucket_run c b1 r in (b2, x :: xs)
  end.

(* a key's bucket is created on first use, at the time of that use *)
Definition obucket_try (c : cfg) (now : N) (ob : option bucket) : bucket * bool :=
  try_consume c now (match ob with Some b => b | None => bucket_new c now end).

Fixpoint obucket_run (c : cfg) (ob : option bucket) (ts : list N) : option bucket * list bool :=
  match ts with
  | [] => (ob, [])
  | t :: r => let '(b1, x) := obucket_try c t ob in
              let '(o2, xs) := obucket_run c (Some b1) r in (o2, x :: xs)
  end.

Fixpoint ntrue (l : list bool) : N :=
  match l with [] => 0 | x :: r => (if x then 1 else 0) + ntrue r end.

(* total elapsed time seen by a bucket whose last update was [t0]: sum of the
   (saturating) differences; equals last - t0 for a monotone clock *)
Fixpoint span_from (t0 : N) (ts : list N) : N :=
  match ts with [] => 0 | t :: r => (t - t0) + span_from t r end.
Definition span (ts : list N) : N := match ts with [] => 0 | t :: r => span_from t r end.

(* ------------------------------------------------------------------ keyed engine (LRU) *)
(* most recently used first; [cap] = MAX_RATE_LIMIT_KEYS *)
Definition engine := list (N * bucket).

Fixpoint e_find (k : N) (e : engine) : option bucket :=
  match e with
  | [] => None
  | (k', b) :: r => if k' =? k then Some b else e_find k r
  end.

Fixpoint e_remove (k : N) (e : engine) : engine :=
  match e with
  | [] => []
  | (k', b) :: r => if k' =? k then e_remove k r else (k', b) :: e_remove k r
  end.

(* LruCache::put of a key that is not present: evict the least recently used when full *)
Definition e_put (cap : N) (k : N) (b : bucket) (e : engine) : engine :=
  let e' := (k, b) :: e in
  if cap <? N.of_nat (length e') then removelast e' else e'.

(* Engine::try_consume_key *)
Definition engine_try (c : cfg) (cap : N) (now k : N) (e : engine) : engine * bool :=
  match e_find k e with
  | Some b => let '(b', r) := try_consume c now b in ((k, b') :: e_remove k e, r)
  | None => let '(b', r) := try_consume c now (bucket_new c now) in (e_put cap k b' e, r)
  end.

Fixpoint engine_run (c : cfg) (cap : N) (e : engine) (tr : list (N * N)) : engine * list bool :=
  match tr with
  | [] => (e, [])
  | (now, k) :: r => let '(e1, x) := engine_try c cap now k e in
                     let '(e2, xs) := engine_run c cap e1 r in (e2, x :: xs)
  end.

(* the times at which key [k] is used, and the results of those calls *)
Fixpoint times_of (k : N) (tr : list (N * N)) : list N :=
  match tr with
  | [] => []
  | (now, k') :: r => if k' =? k then now :: times_of k r else times_of k r
  end.

Fixpoint results_of (k : N) (tr : list (N * N)) (rs : list bool) : list bool :=
  match tr, rs with
  | (_, k') :: tr', x :: rs' => if k' =? k then x :: results_of k tr' rs' else results_of k tr' rs'
  | _, _ => []
  end.

(* ------------------------------------------------------------------ validation::RateLimiter::check_ip *)
(* Engine::global (one bucket created with the engine) then the per-IP bucket *)
Inductive ipres := IpOk | IpGlobal | IpKey.
Definition ipres_eqb (a b : ipres) : bool :=
  match a, b with IpOk, IpOk | IpGlobal, IpGlobal | IpKey, IpKey => true | _, _ => false end.

Definition ipstate := (bucket * engine)%type.
Definition ip_init (c : cfg) (t_create : N) : ipstate := (bucket_new c t_create, []).

Definition check_ip (c : cfg) (cap : N) (now k : N) (st : ipstate) : ipstate * ipres :=
  let '(g, e) := st in
  let '(g', okg) := try_consume c now g in
  if okg then
    let '(e', okk) := engine_try c cap now k e in ((g', e'), if okk then IpOk else IpKey)
  else ((g', e), IpGlobal).

Fixpoint ip_run (c : cfg) (cap : N) (st : ipstate) (tr : list (N * N)) : ipstate * list ipres :=
  match tr with
  | [] => (st, [])
  | (now, k) :: r => let '(s1, x) := check_ip c cap now k st in
                     let '(s2, xs) := ip_run c cap s1 r in (s2, x :: xs)
  end.

(* ------------------------------------------------------------------ addresses and prefixes *)
(* an address is its big-endian integer value: 32 bits (V4) or 128 bits (V6) *)
Inductive addr := V4 (a : N) | V6 (a : N).

(* keep the top bits, zero the low [drop] bits: what extract_* do on the octets *)
Definition zero_low (drop : N) (a : N) : N := N.shiftl (N.shiftr a drop) drop.
Definition ext64 (a : N) : N := zero_low 64 a.   (* extract_ipv6_subnet_64 *)
Definition ext48 (a : N) : N := zero_low 80 a.   (* extract_ipv6_subnet_48 *)
Definition ext32 (a : N) : N := zero_low 96 a.   (* extract_ipv6_subnet_32 *)
Definition ext24 (a : N) : N := zero_low 8 a.    (* extract_ipv4_subnet_24 *)
Definition ext16 (a : N) : N := zero_low 16 a.   (* extract_ipv4_subnet_16 *)
Definition ext8  (a : N) : N := zero_low 24 a.   (* extract_ipv4_subnet_8 *)

(* injective key for IpAddr-keyed engines *)
Definition ipkey (a : addr) : N := match a with V4 x => 2 * x | V6 x => 2 * x + 1 end.

(* ::ffff:a.b.c.d *)
Definition v4_mapped (x : N) : N := 65535 * 4294967296 + x.

(* ------------------------------------------------------------------ JoinRateLimiter *)
Record jcfg := mkJ { j_per64 : N; j_per48 : N; j_per24 : N; j_gmax : N; j_gburst : N }.
Definition jcfg_default : jcfg :=
  mkJ JOIN_DEFAULT_PER_64 JOIN_DEFAULT_PER_48 JOIN_DEFAULT_PER_24
      JOIN_DEFAULT_GLOBAL_PER_MIN JOIN_DEFAULT_GLOBAL_BURST.

Definition NS : N := 1000000000.
Definition W64 : N := JOIN_WINDOW_64_SECS * NS.
Definition W48 : N := JOIN_WINDOW_48_SECS * NS.
Definition W24 : N := JOIN_WINDOW_24_SECS * NS.
Definition WG  : N := JOIN_WINDOW_GLOBAL_SECS * NS.

(* JoinRateLimiter::new: burst = max for the subnet engines *)
Definition cfg64 (jc : jcfg) : cfg := mkCfg W64 (j_per64 jc) (j_per64 jc).
Definition cfg48 (jc : jcfg) : cfg := mkCfg W48 (j_per48 jc) (j_per48 jc).
Definition cfg24 (jc : jcfg) : cfg := mkCfg W24 (j_per24 jc) (j_per24 jc).
Definition cfgG  (jc : jcfg) : cfg := mkCfg WG (j_gmax jc) (j_gburst jc).

Record jstate := mkJS { s_g : engine; s_64 : engine; s_48 : engine; s_24 : engine }.
Definition js_init : jstate := mkJS [] [] [] [].

Inductive jres := JOk | JGlobal | J64 | J48 | J24.
Definition jres_eqb (a b : jres) : bool :=
  match a, b with
  | JOk, JOk | JGlobal, JGlobal | J64, J64 | J48, J48 | J24, J24 => true
  | _, _ => false
  end.

(* check_join_allowed: global (key 0), then /64, then /48 -- or /24 for IPv4.
   A level that admits keeps the token it consumed even when a later level denies. *)
Definition join_check (jc : jcfg) (cap : N) (now : N) (ip : addr) (st : jstate) : jstate * jres :=
  let '(g', okg) := engine_try (cfgG jc) cap now 0 (s_g st) in
  if negb okg then (mkJS g' (s_64 st) (s_48 st) (s_24 st), JGlobal) else
  match ip with
  | V6 a =>
      let '(e64, ok64) := engine_try (cfg64 jc) cap now (ext64 a) (s_64 st) in
      if negb ok64 then (mkJS g' e64 (s_48 st) (s_24 st), J64) else
      let '(e48, ok48) := engine_try (cfg48 jc) cap now (ext48 a) (s_48 st) in
      if negb ok48 then (mkJS g' e64 e48 (s_24 st), J48)
      else (mkJS g' e64 e48 (s_24 st), JOk)
  | V4 a =>
      let '(e24, ok24) := engine_try (cfg24 jc) cap now (ext24 a) (s_24 st) in
      if negb ok24 then (mkJS g' (s_64 st) (s_48 st) e24, J24)
      else (mkJS g' (s_64 st) (s_48 st) e24, JOk)
  end.

Fixpoint join_run (jc : jcfg) (cap : N) (st : jstate) (tr : list (N * addr)) : jstate * list jres :=
  match tr with
  | [] => (st, [])
  | (now, ip) :: r => let '(s1, x) := join_check jc cap now ip st in
                      let '(s2, xs) := join_run jc cap s1 r in (s2, x :: xs)
  end.

(* which calls reached which engine, as a trace for that engine, and what that engine answered *)
Definition passed_global (x : jres) : bool := match x with JGlobal => false | _ => true end.
Definition passed_64 (x : jres) : bool := match x with JOk | J48 => true | _ => false end.
Definition is_ok (x : jres) : bool := match x with JOk => true | _ => false end.

Fixpoint traceG (tr : list (N * addr)) : list (N * N) :=
  match tr with [] => [] | (now, _) :: r => (now, 0) :: traceG r end.

Fixpoint trace64 (tr : list (N * addr)) (rs : list jres) : list (N * N) :=
  match tr, rs with
  | (now, V6 a) :: tr', x :: rs' =>
      if passed_global x then (now, ext64 a) :: trace64 tr' rs' else trace64 tr' rs'
  | _ :: tr', _ :: rs' => trace64 tr' rs'
  | _, _ => []
  end.
Fixpoint adm64 (tr : list (N * addr)) (rs : list jres) : list bool :=
  match tr, rs with
  | (now, V6 a) :: tr', x :: rs' =>
      if passed_global x then passed_64 x :: adm64 tr' rs' else adm64 tr' rs'
  | _ :: tr', _ :: rs' => adm64 tr' rs'
  | _, _ => []
  end.

Fixpoint trace48 (tr : list (N * addr)) (rs : list jres) : list (N * N) :=
  match tr, rs with
  | (now, V6 a) :: tr', x :: rs' =>
      if passed_64 x then (now, ext48 a) :: trace48 tr' rs' else trace48 tr' rs'
  | _ :: tr', _ :: rs' => trace48 tr' rs'
  | _, _ => []
  end.
Fixpoint adm48 (tr : list (N * addr)) (rs : list jres) : list bool :=
  match tr, rs with
  | (now, V6 a) :: tr', x :: rs' =>
      if passed_64 x then is_ok x :: adm48 tr' rs' else adm48 tr' rs'
  | _ :: tr', _ :: rs' => adm48 tr' rs'
  | _, _ => []
  end.

Fixpoint trace24 (tr : list (N * addr)) (rs : list jres) : list (N * N) :=
  match tr, rs with
  | (now, V4 a) :: tr', x :: rs' =>
      if passed_global x then (now, ext24 a) :: trace24 tr' rs' else trace24 tr' rs'
  | _ :: tr', _ :: rs' => trace24 tr' rs'
  | _, _ => []
  end.
Fixpoint adm24 (tr : list (N * addr)) (rs : list jres) : list bool :=
  match tr, rs with
  | (now, V4 a) :: tr', x :: rs' =>
      if passed_global x then is_ok x :: adm24 tr' rs' else adm24 tr' rs'
  | _ :: tr', _ :: rs' => adm24 tr' rs'
  | _, _ => []
  end.

(* number of admitted joins whose address satisfies [sel] *)
Fixpoint count_ok (sel : addr -> bool) (tr : list (N * addr)) (rs : list jres) : N :=
  match tr, rs with
  | (_, ip) :: tr', x :: rs' =>
      (if sel ip && is_ok x then 1 else 0) + count_ok sel tr' rs'
  | _, _ => 0
  end.
Definition in64 (p : N) (ip : addr) : bool := match ip with V6 a => ext64 a =? p | V4 _ => false end.
Definition in48 (p : N) (ip : addr) : bool := match ip with V6 a => ext48 a =? p | V4 _ => false end.
Definition in24 (p : N) (ip : addr) : bool := match ip with V4 a => ext24 a =? p | V6 _ => false end.
Definition anyaddr (ip : addr) : bool := true.

(* ------------------------------------------------------------------ token-only bucket *)
(* the bucket without the fixed-window counter, used to state monotonicity in time *)
Definition tb_step (c : cfg) (gap : N) (tok : N) : N * bool :=
  let t1 := N.min (tok + gap * c_max c) (tok_cap c) in
  if c_window c <=? t1 then (t1 - c_window c, true) else (t1, false).
Fixpoint tb_run (c : cfg) (tok : N) (gaps : list N) : N * list bool :=
  match gaps with
  | [] => (tok, [])
  | g :: r => let '(t1, x) := tb_step c g tok in
              let '(t2, xs) := tb_run c t1 r in (t2, x :: xs)
  end.
(* absolute times from gaps *)
Fixpoint times_from (t0 : N) (gaps : list N) : list N :=
  match gaps with [] => [] | g :: r => (t0 + g) :: times_from (t0 + g) r end.
Fixpoint sumN (l : list N) : N := match l with [] => 0 | x :: r => x + sumN r end.

(* ------------------------------------------------------------------ correspondence cases *)
Fixpoint list_eqb {A} (eqb : A -> A -> bool) (a b : list A) : bool :=
  match a, b with
  | [], [] => true
  | x :: a', y :: b' => eqb x y && list_eqb eqb a' b'
  | _, _ => false
  end.

Fixpoint dedupN (l : list N) : list N :=
  match l with
  | [] => []
  | x :: r => x :: filter (fun y => negb (y =? x)) (dedupN r)
  end.

Definition addr_eqb (a b : addr) : bool :=
  match a, b with V4 x, V4 y | V6 x, V6 y => x =? y | _, _ => false end.

Fixpoint count_ip (k : N) (want : ipres) (tr : list (N * N)) (rs : list ipres) : N :=
  match tr, rs with
  | (_, k') :: tr', x :: rs' =>
      (if (k' =? k) && ipres_eqb x want then 1 else 0) + count_ip k want tr' rs'
  | _, _ => 0
  end.

Fixpoint v6s (tr : list (N * addr)) : list N :=
  match tr with [] => [] | (_, V6 a) :: r => a :: v6s r | _ :: r => v6s r end.
Fixpoint v4s (tr : list (N * addr)) : list N :=
  match tr with [] => [] | (_, V4 a) :: r => a :: v4s r | _ :: r => v4s r end.

(* the bound of C14_bucket_bound as a Boolean: n admitted within [elapsed] ns *)
Definition within_bound (c : cfg) (n elapsed : N) : bool :=
  (n * c_window c <=? c_burst c * c_window c + c_max c * elapsed) &&
  ((c_window c <? elapsed) || (n <=? c_max c)).

(* C14_bucket_bound on every contiguous segment of an observed run: the attempts admitted in
   calls i..j are bounded by burst + max * (time from call i-1 to call j) / window.  [ts] must be
   a timeline whose gaps are upper bounds of the true gaps. *)
Fixpoint seg_from (c : cfg) (tprev : N) (ts : list N) (obs : list bool) (acc : N) : bool :=
  match ts, obs with
  | t :: ts', o :: obs' =>
      let acc' := acc + (if o then 1 else 0) in
      (acc' * c_window c <=? c_burst c * c_window c + c_max c * (t - tprev)) && seg_from c tprev ts' obs' acc'
  | _, _ => true
  end.
Fixpoint segs_ok (c : cfg) (tprev : N) (ts : list N) (obs : list bool) : bool :=
  match ts, obs with
  | t :: ts', o :: obs' => seg_from c tprev ts obs 0 && segs_ok c t ts' obs'
  | _, _ => true
  end.

Inductive ccase :=
(* keyed engine, all calls inside a time span too short to earn a token: exact *)
| CEngine (c : cfg) (tr : list (N * N)) (obs : list bool)
(* validation::RateLimiter, same regime; keys are [ipkey] values *)
| CCheckIp (c : cfg) (tr : list (N * N)) (obs : list ipres)
(* JoinRateLimiter, same regime *)
| CJoin (jc : jcfg) (tr : list (N * addr)) (obs : list jres)
(* extract_* on one address: (v6 value, /64, /48, /32) and (v4 value, /24, /16, /8) *)
| CPrefix (a6 o64 o48 o32 a4 o24 o16 o8 : N)
(* concurrent hammering of one engine: measured upper bound on the duration and
   (key, attempts, admitted) per key *)
| CConc (c : cfg) (t_hi : N) (counts : list (N * N * N))
(* concurrent joins: outcomes in arbitrary order *)
| CConcJoin (jc : jcfg) (t_hi : N) (outs : list (addr * jres))
(* one key, phases separated by real sleeps: the call times under the shortest and
   the longest timeline compatible with the measured clock brackets *)
| CRefill (c : cfg) (t_lo t_hi : list N) (obs : list bool).

Definition zero_elapsed_caps_ok (c : cfg) (tr : list (N * N)) (obs : list bool) : bool :=
  forallb (fun k => ntrue (results_of k tr obs) <=? N.min (c_burst c) (c_max c))
          (dedupN (map snd tr)).

Definition join_caps_ok (jc : jcfg) (tr : list (N * addr)) (obs : list jres) : bool :=
  forallb (fun p => count_ok (in64 p) tr obs <=? j_per64 jc) (dedupN (map ext64 (v6s tr))) &&
  forallb (fun p => count_ok (in48 p) tr obs <=? j_per48 jc) (dedupN (map ext48 (v6s tr))) &&
  forallb (fun p => count_ok (in24 p) tr obs <=? j_per24 jc) (dedupN (map ext24 (v4s tr))) &&
  (ntrue (map passed_global obs) <=? N.min (j_gburst jc) (j_gmax jc)).

Definition conc_join_ok (jc : jcfg) (t_hi : N) (outs : list (addr * jres)) : bool :=
  let tr := map (fun o => (0, fst o)) outs in
  let obs := map snd outs in
  forallb (fun p => within_bound (cfg64 jc) (count_ok (in64 p) tr obs) t_hi) (dedupN (map ext64 (v6s tr))) &&
  forallb (fun p => within_bound (cfg48 jc) (count_ok (in48 p) tr obs) t_hi) (dedupN (map ext48 (v6s tr))) &&
  forallb (fun p => within_bound (cfg24 jc) (count_ok (in24 p) tr obs) t_hi) (dedupN (map ext24 (v4s tr))) &&
  within_bound (cfgG jc) (ntrue (map passed_global obs)) t_hi.

Definition check_case (x : ccase) : bool :=
  match x with
  | CEngine c tr obs => list_eqb Bool.eqb (snd (engine_run c RL_MAX_KEYS [] tr)) obs
  | CCheckIp c tr obs => list_eqb ipres_eqb (snd (ip_run c RL_MAX_KEYS (ip_init c 0) tr)) obs
  | CJoin jc tr obs => list_eqb jres_eqb (snd (join_run jc RL_MAX_KEYS js_init tr)) obs
  | CPrefix a6 o64 o48 o32 a4 o24 o16 o8 =>
      (ext64 a6 =? o64) && (ext48 a6 =? o48) && (ext32 a6 =? o32) &&
      (ext24 a4 =? o24) && (ext16 a4 =? o16) && (ext8 a4 =? o8)
  | CConc c t_hi counts =>
      (* when the whole run is too short to earn one token the count per key is exactly
         that of the model with the clock frozen *)
      if c_max c * t_hi <? c_window c then
        forallb (fun '(k, att, adm) =>
                   adm =? ntrue (snd (obucket_run c None (repeat 0 (N.to_nat att))))) counts
      else true
  | CConcJoin jc t_hi outs => conc_join_ok jc t_hi outs
  | CRefill c t_lo t_hi obs =>
      let rl := snd (obucket_run c None t_lo) in
      let rh := snd (obucket_run c None t_hi) in
      if list_eqb Bool.eqb rl rh then list_eqb Bool.eqb rl obs
      else (* ambiguous: only the count bracket *)
        (N.min (ntrue rl) (ntrue rh) <=? ntrue obs) && (ntrue obs <=? N.max (ntrue rl) (ntrue rh))
  end.

(* theorem conclusions evaluated on the implementation's own outputs *)
Definition prop_case (x : ccase) : bool :=
  match x with
  | CEngine c tr obs => zero_elapsed_caps_ok c tr obs
  | CCheckIp c tr obs =>
      forallb (fun k => count_ip k IpOk tr obs <=? N.min (c_burst c) (c_max c)) (dedupN (map snd tr)) &&
      (ntrue (map (fun r => negb (ipres_eqb r IpGlobal)) obs) <=? N.min (c_burst c) (c_max c))
  | CJoin jc tr obs => join_caps_ok jc tr obs
  | CPrefix a6 o64 o48 o32 a4 o24 o16 o8 =>
      (ext64 a6 =? o64) && (ext48 a6 =? o48) && (ext24 a4 =? o24)
  | CConc c t_hi counts => forallb (fun '(k, att, adm) => within_bound c adm t_hi && (adm <=? att)) counts
  | CConcJoin jc t_hi outs => conc_join_ok jc t_hi outs
  | CRefill c t_lo t_hi obs =>
      within_bound c (ntrue obs) (span t_hi) && segs_ok c (hd 0 t_hi) t_hi obs
  end.
