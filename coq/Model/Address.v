(* Model of the textual address round trips of saorsa-core (C19).  Definitions only.

   Strings are lists of Unicode code points (N).  The dictionary, the crate's codec constants and
   the string literals of the library's glue come from Gen/AddressDict.v, Gen/AddressGlue.v and
   Gen/AddressConsts.v, regenerated from the sources on every run.

   What mirrors what:
     print_dec / print_ip / print4      Display of u8/u16, Ipv4Addr, SocketAddrV4 (std)
     read_number / read_ip4 / parse4    std::net::parser (read_number, read_ipv4_addr, read_socket_addr_v4)
     parse_u16                          <u16 as FromStr>::from_str
     pack / to_digits / of_digits / unpack   four_word_networking::FourWordEncoder::{encode_ipv4, decode_ipv4}
     crate_count / crate_parts4 / crate_decode   FourWordAdaptiveEncoder::decode + FourWordEncoder::decode
     words_of / from_four_words / display / from_str   src/address.rs (after the F19a/F19b repairs)
     consumer_strip / multiaddr_from_address / add_node_ip   the consumers of rendered strings
   IPv6 text and the 6/9/12-word codec are not modelled: the functions answer [ROracle]. *)
From SV Require Import Lib.Base Gen.AddressDict Gen.AddressGlue Gen.AddressConsts.
Local Open Scope N_scope.

Definition str := list N.

Record addr4 := mkA { a1 : N; a2 : N; a3 : N; a4 : N; aport : N }.
Definition wf4 (a : addr4) : Prop :=
  a1 a < 256 /\ a2 a < 256 /\ a3 a < 256 /\ a4 a < 256 /\ aport a < 65536.
Definition addr4_eqb (a b : addr4) : bool :=
  (a1 a =? a1 b) && (a2 a =? a2 b) && (a3 a =? a3 b) && (a4 a =? a4 b) && (aport a =? aport b).
Definition is_unspecified (a : addr4) : bool :=
  (a1 a =? 0) && (a2 a =? 0) && (a3 a =? 0) && (a4 a =? 0).

(* result of a parser/consumer: rejected, an IPv4 socket address, or "not modelled" (IPv6 side) *)
Inductive res := RNone | R4 (a : addr4) | ROracle.
Definition res_eqb (x y : res) : bool :=
  match x, y with
  | RNone, RNone | ROracle, ROracle => true
  | R4 a, R4 b => addr4_eqb a b
  | _, _ => false
  end.

Fixpoint str_eqb (a b : str) : bool :=
  match a, b with
  | [], [] => true
  | x :: a', y :: b' => (x =? y) && str_eqb a' b'
  | _, _ => false
  end.
Definition len {A} (l : list A) : N := N.of_nat (length l).
Definition is_nil {A} (l : list A) : bool := match l with [] => true | _ => false end.

(* ------------------------------------------------------------------ decimal text *)
Definition dig (d : N) : N := 48 + d.
(* decimal rendering of n < 100000 without leading zeros *)
Definition print_dec (n : N) : str :=
  if n <? 10 then [dig n]
  else if n <? 100 then [dig (n / 10); dig (n mod 10)]
  else if n <? 1000 then [dig (n / 100); dig (n / 10 mod 10); dig (n mod 10)]
  else if n <? 10000 then [dig (n / 1000); dig (n / 100 mod 10); dig (n / 10 mod 10); dig (n mod 10)]
  else [dig (n / 10000 mod 10); dig (n / 1000 mod 10); dig (n / 100 mod 10); dig (n / 10 mod 10); dig (n mod 10)].

Definition print_ip (a : addr4) : str :=
  print_dec (a1 a) ++ 46 :: print_dec (a2 a) ++ 46 :: print_dec (a3 a) ++ 46 :: print_dec (a4 a).
Definition print4 (a : addr4) : str := print_ip a ++ 58 :: print_dec (aport a).

Definition is_digit (c : N) : bool := (48 <=? c) && (c <=? 57).

(* the digit loop of Parser::read_number: checked arithmetic against [limit], at most [maxd]
   digits when maxd > 0; returns (value, digit count, rest) or None when the number overflows *)
Fixpoint read_num_loop (s : str) (acc cnt limit maxd : N) : option (N * N * str) :=
  match s with
  | c :: r =>
      if is_digit c then
        let acc' := acc * 10 + (c - 48) in
        if limit <? acc' then None
        else if (0 <? maxd) && (maxd <? cnt + 1) then None
        else read_num_loop r acc' (cnt + 1) limit maxd
      else Some (acc, cnt, s)
  | [] => Some (acc, cnt, [])
  end.
Definition lead0 (s : str) : bool := match s with 48 :: _ => true | _ => false end.
Definition read_number (s : str) (limit maxd : N) (allow_zero_prefix : bool) : option (N * str) :=
  match read_num_loop s 0 0 limit maxd with
  | None => None
  | Some (v, cnt, rest) =>
      if cnt =? 0 then None
      else if negb allow_zero_prefix && lead0 s && (1 <? cnt) then None
      else Some (v, rest)
  end.
Definition read_char (c : N) (s : str) : option str :=
  match s with x :: r => if x =? c then Some r else None | [] => None end.

Definition read_octet (s : str) := read_number s 255 3 false.
Definition read_ip4 (s : str) : option (N * N * N * N * str) :=
  match read_octet s with None => None | Some (o1, s1) =>
  match read_char 46 s1 with None => None | Some s1' =>
  match read_octet s1' with None => None | Some (o2, s2) =>
  match read_char 46 s2 with None => None | Some s2' =>
  match read_octet s2' with None => None | Some (o3, s3) =>
  match read_char 46 s3 with None => None | Some s3' =>
  match read_octet s3' with None => None | Some (o4, s4) => Some (o1, o2, o3, o4, s4)
  end end end end end end end.
Definition read_sock4 (s : str) : option (addr4 * str) :=
  match read_ip4 s with None => None | Some (o1, o2, o3, o4, s4) =>
  match read_char 58 s4 with None => None | Some s5 =>
  match read_number s5 65535 0 true with None => None | Some (p, rest) => Some (mkA o1 o2 o3 o4 p, rest)
  end end end.
(* Ipv4Addr::from_str / SocketAddrV4::from_str: the whole input must be consumed *)
Definition parse_ip4 (s : str) : option (N * N * N * N) :=
  match read_ip4 s with Some (o1, o2, o3, o4, []) => Some (o1, o2, o3, o4) | _ => None end.
Definition parse4 (s : str) : option addr4 :=
  match read_sock4 s with Some (a, []) => Some a | _ => None end.
(* u16::from_str: one optional '+', at least one digit, nothing else, no overflow *)
Definition parse_u16 (s : str) : option N :=
  let s' := match s with 43 :: ((_ :: _) as r) => r | _ => s end in
  match s' with
  | [] => None
  | _ => match read_num_loop s' 0 0 65535 0 with Some (v, _, []) => Some v | _ => None end
  end.

(* ------------------------------------------------------------------ the word codec *)
Definition pack (a : addr4) : N :=
  (((a1 a * 256 + a2 a) * 256 + a3 a) * 256 + a4 a) * 65536 + aport a.
Definition unpack (n : N) : addr4 :=
  mkA (n / 1099511627776 mod 256) (n / 4294967296 mod 256) (n / 16777216 mod 256) (n / 65536 mod 256) (n mod 65536).
(* encode_ipv4: index = remaining % BASE; remaining /= BASE  (least significant digit first) *)
Fixpoint to_digits (k : nat) (n : N) : list N :=
  match k with O => [] | S k' => n mod CRATE_BASE :: to_digits k' (n / CRATE_BASE) end.
(* decode_ipv4: n += index * BASE^i *)
Fixpoint of_digits (l : list N) : N :=
  match l with [] => 0 | d :: r => d + CRATE_BASE * of_digits r end.
Definition nwords : nat := N.to_nat CRATE_WORDS.

(* dictionary *)
Definition word (i : N) : str := nth (N.to_nat i) dict [].
Fixpoint index_from (w : str) (d : list str) (i : N) : option N :=
  match d with [] => None | x :: r => if str_eqb x w then Some i else index_from w r (i + 1) end.
(* char::to_lowercase restricted to what can produce an ASCII letter: A-Z, KELVIN SIGN, I WITH DOT ABOVE *)
Definition lower_cp (c : N) : str :=
  if (65 <=? c) && (c <=? 90) then [c + 32]
  else if c =? 8490 then [107]
  else if c =? 304 then [105; 775]
  else [c].
Definition lower (s : str) : str := flat_map lower_cp s.
(* Dictionary4K::get_index is a hash-map lookup of the lower-cased word.  The model looks the word
   up in the sub-list of entries with the same first letter (computed once); Proofs/Address.v
   shows by an exhaustive sweep that every dictionary word is found at its own index. *)
Definition indexed_dict : list (str * N) := combine dict (map N.of_nat (seq 0 (length dict))).
Definition bucket_of (c : N) : list (str * N) :=
  filter (fun e => match fst e with x :: _ => x =? c | [] => false end) indexed_dict.
Definition buckets : list (N * list (str * N)) :=
  Eval vm_compute in map (fun k => let c := 97 + N.of_nat k in (c, bucket_of c)) (seq 0 26).
Fixpoint assoc_str (w : str) (b : list (str * N)) : option N :=
  match b with [] => None | (x, i) :: r => if str_eqb x w then Some i else assoc_str w r end.
Fixpoint find_bucket (c : N) (bs : list (N * list (str * N))) : list (str * N) :=
  match bs with [] => [] | (k, b) :: r => if k =? c then b else find_bucket c r end.
Definition get_index (w : str) : option N :=
  let lw := lower w in
  match lw with [] => None | c :: _ => assoc_str lw (find_bucket c buckets) end.
Fixpoint all_some {A} (l : list (option A)) : option (list A) :=
  match l with
  | [] => Some []
  | Some x :: r => match all_some r with Some t => Some (x :: t) | None => None end
  | None :: _ => None
  end.
Definition indices (ps : list str) : option (list N) := all_some (map get_index ps).

(* ------------------------------------------------------------------ splitting and joining *)
(* str::split(pattern): always at least one piece *)
Fixpoint split_on (p : N -> bool) (s : str) : list str :=
  match s with
  | [] => [[]]
  | c :: r => if p c then [] :: split_on p r
              else match split_on p r with h :: t => (c :: h) :: t | [] => [[c]] end
  end.
Definition split_char (c : N) (s : str) : list str := split_on (N.eqb c) s.
Definition nonempty (l : list str) : list str := filter (fun x => negb (is_nil x)) l.
(* char::is_whitespace *)
Definition is_ws (c : N) : bool :=
  ((9 <=? c) && (c <=? 13)) || (c =? 32) || (c =? 133) || (c =? 160) || (c =? 5760)
  || ((8192 <=? c) && (c <=? 8202)) || (c =? 8232) || (c =? 8233) || (c =? 8239) || (c =? 8287) || (c =? 12288).
Definition split_ws (s : str) : list str := nonempty (split_on is_ws s).
Definition contains (c : N) (s : str) : bool := existsb (N.eqb c) s.
Definition replace_char (a b : N) (s : str) : str := map (fun c => if c =? a then b else c) s.
Fixpoint join (sep : N) (l : list str) : str :=
  match l with [] => [] | [w] => w | w :: r => w ++ sep :: join sep r end.

Fixpoint strip_prefix (p s : str) : option str :=
  match p, s with
  | [], _ => Some s
  | x :: p', y :: s' => if x =? y then strip_prefix p' s' else None
  | _ :: _, [] => None
  end.
Definition is_prefix (p s : str) : bool := match strip_prefix p s with Some _ => true | None => false end.
(* str::split_once(sep): first occurrence *)
Fixpoint split_once (sep s : str) : option (str * str) :=
  match strip_prefix sep s with
  | Some t => Some ([], t)
  | None => match s with
            | [] => None
            | c :: r => match split_once sep r with Some (h, t) => Some (c :: h, t) | None => None end
            end
  end.
(* address.split(sep).next().unwrap_or(address) *)
Definition before_first (sep s : str) : str :=
  match split_once sep s with Some (h, _) => h | None => s end.
Definition ends_with (s suffix : str) : bool := is_prefix (rev suffix) (rev s).

(* ------------------------------------------------------------------ four-word-networking, IPv4 side *)
Definition encode_words (a : addr4) : str := join 32 (map word (to_digits nwords (pack a))).

Definition crate_count (s : str) : N :=
  if contains 32 s then len (nonempty (split_char 32 s))
  else if contains 46 s then len (nonempty (split_char 46 s))
  else if contains 45 s then len (nonempty (split_char 45 s))
  else 1.
(* FourWordEncoder::decode: whitespace-separated if that gives four parts, else dot-separated *)
Definition crate_parts4 (s : str) : option (list str) :=
  let ws := split_ws s in
  if len ws =? 4 then Some ws
  else let ds := split_char 46 s in if len ds =? 4 then Some ds else None.
Inductive dec := DErr | DText (t : str) | DOracle.
Definition crate_decode (s : str) : dec :=
  let n := crate_count s in
  if n =? 4 then
    match crate_parts4 s with
    | None => DErr
    | Some ps => match indices ps with
                 | None => DErr
                 | Some ix => let a := unpack (of_digits ix) in
                              DText (if aport a =? CRATE_OMIT_PORT then print_ip a else print4 a)
                 end
    end
  else if (n =? 6) || (n =? 9) || (n =? 12) then DOracle
  else DErr.

(* ------------------------------------------------------------------ src/address.rs *)
Definition words_of (a : addr4) : str := replace_char ENC_FROM ENC_TO (encode_words a).

(* SocketAddr::from_str: the IPv6 alternative starts with '[' *)
Definition parse_sock (s : str) : res :=
  match s with
  | 91 :: _ => ROracle
  | _ => match parse4 s with Some a => R4 a | None => RNone end
  end.

Definition from_four_words (s : str) : res :=
  match crate_decode (replace_char DEC_FROM DEC_TO s) with
  | DErr => RNone
  | DOracle => ROracle
  | DText t =>
      match parse4 t with
      | Some a => R4 a
      | None => match parse_ip4 t with
                | Some (o1, o2, o3, o4) => R4 (mkA o1 o2 o3 o4 ADDR_BARE_IP_PORT)
                | None => RNone
                end
      end
  end.

Definition display (a : addr4) : str := print4 a ++ display_infix ++ words_of a ++ display_suffix.

Definition s_ip4 : str := [105; 112; 52].
Definition s_ip6 : str := [105; 112; 54].
Definition s_tcp : str := [116; 99; 112].
Definition multiaddr (s : str) : res :=
  if is_prefix (47 :: s_ip4 ++ [47]) s || is_prefix (47 :: s_ip6 ++ [47]) s then
    match nonempty (split_char 47 s) with
    | p0 :: p1 :: p2 :: p3 :: _ =>
        if (str_eqb p0 s_ip4 || str_eqb p0 s_ip6) && str_eqb p2 s_tcp then
          match parse_u16 p3 with
          | Some port => match parse_ip4 p1 with
                         | Some (o1, o2, o3, o4) => R4 (mkA o1 o2 o3 o4 port)
                         | None => if contains 58 p1 then ROracle else RNone
                         end
          | None => RNone
          end
        else RNone
    | _ => RNone
    end
  else RNone.

Definition orelse (r : res) (k : res) : res := match r with RNone => k | _ => r end.

(* impl FromStr for NetworkAddress: socket address, own rendering, multiaddr, words *)
Definition from_str_display (s : str) : res :=
  match split_once fromstr_sep s with
  | Some (h, t) => if ends_with t fromstr_close then parse_sock h else RNone
  | None => RNone
  end.
Definition from_str (s : str) : res :=
  orelse (parse_sock s) (orelse (from_str_display s) (orelse (multiaddr s) (from_four_words s))).

(* ------------------------------------------------------------------ consumers of rendered strings *)
(* DhtNetworkManager::dial_candidate / the first step of multiaddr_from_address *)
Definition consumer_strip (sep s : str) : res := parse_sock (before_first sep s).
(* multiaddr_from_address: strip, parse, refuse the unspecified address, re-render as
   /ip4/<ip>/tcp/<port> (socket_addr_to_multiaddr) and parse that as a NetworkAddress *)
Definition multiaddr_text (a : addr4) : str :=
  47 :: s_ip4 ++ 47 :: print_ip a ++ 47 :: s_tcp ++ 47 :: print_dec (aport a).
Definition multiaddr_from_address (s : str) : res :=
  match consumer_strip dnm_sep_multiaddr s with
  | R4 a => if is_unspecified a then RNone else from_str (multiaddr_text a)
  | r => r
  end.
(* DhtCoreEngine::add_node (repaired, ledger F13c): the IP the admission gates are applied to *)
Definition add_node_ip (s : str) : option (N * N * N * N) :=
  let t := before_first display_infix s in
  match parse4 t with
  | Some a => Some (a1 a, a2 a, a3 a, a4 a)
  | None => parse_ip4 t
  end.
(* identity::WordEncoder::decode on a hyphenated word string *)
Definition id_decode (s : str) : res :=
  let ps := split_char 45 s in
  if len ps =? 4 then match indices ps with Some ix => R4 (unpack (of_digits ix)) | None => RNone end
  else RNone.

(* ------------------------------------------------------------------ correspondence cases *)
Inductive c19case :=
| CDict (start : N) (ws : list str)
| CAddr (a : addr4) (idx : list N) (disp : str) (fw fs strip multi boot idrt : res)
| CStr (s : str) (fs fw sock ip4 u16 strip multi : res).

Fixpoint strs_eqb (a b : list str) : bool :=
  match a, b with
  | [], [] => true
  | x :: a', y :: b' => str_eqb x y && strs_eqb a' b'
  | _, _ => false
  end.
(* the model's answer agrees with the observed one; where the model has no answer it abstains *)
Definition agree (model obs : res) : bool := match model with ROracle => true | _ => res_eqb model obs end.
Definition of_ip (o : option (N * N * N * N)) : res :=
  match o with Some (o1, o2, o3, o4) => R4 (mkA o1 o2 o3 o4 0) | None => RNone end.
Definition of_u16 (o : option N) : res := match o with Some p => R4 (mkA 0 0 0 0 p) | None => RNone end.

Definition check_case (c : c19case) : bool :=
  match c with
  | CDict start ws => strs_eqb ws (firstn (length ws) (skipn (N.to_nat start) dict)) && negb (is_nil ws)
  | CAddr a idx disp fw fs strip multi boot idrt =>
      let back := from_four_words (words_of a) in
      str_eqb (to_digits nwords (pack a)) idx
      && str_eqb (display a) disp
      && agree back fw
      && agree (from_str disp) fs
      && agree (consumer_strip dnm_sep_dial disp) strip
      && agree (multiaddr_from_address disp) multi
      && agree back boot
      && agree (id_decode (words_of a)) idrt
  | CStr s fs fw sock ip4 u16 strip multi =>
      agree (from_str s) fs
      && agree (from_four_words s) fw
      && agree (parse_sock s) sock
      && agree (of_ip (parse_ip4 s)) ip4
      && agree (of_u16 (parse_u16 s)) u16
      && agree (consumer_strip dnm_sep_dial s) strip
      && agree (multiaddr_from_address s) multi
  end.

(* the conclusions of the C19 theorems evaluated on what the IMPLEMENTATION returned *)
Definition prop_case (c : c19case) : bool :=
  match c with
  | CDict _ _ => true
  | CAddr a idx disp fw fs strip multi boot idrt =>
      (* the words decode to the address; the rendering parses back; every consumer reads the same address *)
      addr4_eqb (unpack (of_digits idx)) a
      && res_eqb fw (R4 a) && res_eqb fs (R4 a) && res_eqb strip (R4 a)
      && res_eqb multi (if is_unspecified a then RNone else R4 a)
      && res_eqb boot (R4 a) && res_eqb idrt (R4 a)
  | CStr s fs fw sock ip4 u16 strip multi =>
      (* FromStr accepts what std accepts, with the same value; whatever both FromStr and a
         suffix-stripping consumer accept, they read as the same address *)
      match sock with R4 a => res_eqb fs (R4 a) | _ => true end
      && match strip, fs with R4 a, R4 b => addr4_eqb a b | _, _ => true end
      && match multi, fs with R4 a, R4 b => addr4_eqb a b | _, _ => true end
  end.
