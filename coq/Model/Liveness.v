(* C20: (A) a timed reading of the lookup / get loops of Model/Lookup.v and Model/Store.v,
        (B) a lock model: tasks as sequences of acquire / release on named locks.
   Definitions only. *)
From SV Require Import Lib.Base Gen.LookupConsts Model.Lookup Model.Store.
Local Open Scope N_scope.

(* ---------------- (A) time ---------------- *)
Section Timed.
  Variable keyof : pid -> N.
  Variable reply : pid -> option (list pid).
  Variable self : pid.
  Variable selfs_marked selfs_all : list pid.
  Variable target : N.
  Variable count : nat.
  Variable dur : pid -> N.   (* time until the request to p is over: dial + send + answer or timeout *)

  Definition batch_time (b : list pid) : N := fold_right (fun p m => N.max (dur p) m) 0 b.

  (* the loop of Model/Lookup.v with a clock: the requests of one batch run in parallel (join_all),
     so an iteration costs the slowest request of its batch *)
  Fixpoint loop_t (fuel : nat) (s : st) (t : N) : st * N :=
    match fuel with
    | O => (loop keyof reply selfs_all target count O s, t)
    | S f =>
        match cand s with
        | [] => (s, t)
        | _ =>
            let '(c', q', batch) := pop_batch keyof target count (best s) (queried s) (cand s) (queued s) [] in
            let s0 := mkSt (best s) c' (queried s) q' (sent s) (budget_hit s) in
            match batch with
            | [] => (s0, t)
            | _ => loop_t f (fold_left (process_one keyof reply selfs_all target count) batch s0) (t + batch_time batch)
            end
        end
    end.

  Definition lookup_t (init : list pid) : st * N :=
    loop_t (N.to_nat LK_MAX_ITERATIONS) (init_state self selfs_marked count init) 0.
End Timed.

(* bounds the runner checks observed completion times against (all in units of the per-request bound D):
   a lookup is at most MAX_ITERATIONS batches; a put is a lookup plus one parallel round of PUTs;
   a get is at most MAX_ITERATIONS batches; stop sends one Leave per known peer, one after the other *)
Definition lookup_bound (D : N) : N := LK_MAX_ITERATIONS * D.
Definition put_bound (D : N) : N := LK_MAX_ITERATIONS * D + D.
Definition get_bound (D : N) : N := GET_MAX_ITERATIONS * D.
Definition stop_bound (D peers : N) : N := peers * D + D.

(* observed durations (ms) against the bounds; [slack] covers scheduling noise of the harness *)
(* OpWait: a single wait of an operation (a dial, a send, the wait for one reply) *)
Inductive opkind := OpLookup | OpPut | OpGet | OpStop (peers : N) | OpWait.
Definition within_bound (k : opkind) (D slack observed : N) : bool :=
  observed <=? slack +
    match k with
    | OpLookup => lookup_bound D | OpPut => put_bound D | OpGet => get_bound D
    | OpStop peers => stop_bound D peers
    | OpWait => D
    end.

(* ---------------- (B) locks ---------------- *)
Inductive mode := Rd | Wr.
Inductive act := Acq (l : N) (m : mode) | Rel (l : N).
Definition prog := list act.

Record task := mkTask { held : list (N * mode); rest : prog }.

Definition conflicts (m1 m2 : mode) : bool := match m1, m2 with Rd, Rd => false | _, _ => true end.

Definition holds (t : task) (l : N) : bool := existsb (fun h => fst h =? l) (held t).

(* the ordering discipline: a lock is acquired only when it ranks strictly above every lock already held,
   released only when held, and nothing is held when the task ends.  The lock's number is its rank. *)
Fixpoint ordered (h : list (N * mode)) (p : prog) : bool :=
  match p with
  | [] => match h with [] => true | _ => false end
  | Acq l m :: p' => forallb (fun x => fst x <? l) h && ordered ((l, m) :: h) p'
  | Rel l :: p' => existsb (fun x => fst x =? l) h && ordered (filter (fun x => negb (fst x =? l)) h) p'
  end.

Definition task_ok (t : task) : bool := ordered (held t) (rest t).

(* some task holds l in a mode that conflicts with m.  (A task obeying the discipline never asks
   for a lock it holds itself, so there is no need to exclude the asking task.) *)
Definition held_against (ts : list task) (l : N) (m : mode) : bool :=
  existsb (fun t => existsb (fun h => (fst h =? l) && conflicts (snd h) m) (held t)) ts.

Definition finished (t : task) : bool := match rest t with [] => true | _ => false end.

(* can the task take its next step? *)
Definition enabled (ts : list task) (t : task) : bool :=
  match rest t with
  | [] => false
  | Acq l m :: _ => negb (held_against ts l m)
  | Rel _ :: _ => true
  end.

(* somebody still has work to do and nobody can move *)
Definition deadlocked (ts : list task) : bool :=
  existsb (fun t => negb (finished t)) ts && forallb (fun t => finished t || negb (enabled ts t)) ts.

Definition step_task (t : task) : task :=
  match rest t with
  | [] => t
  | Acq l m :: p' => mkTask ((l, m) :: held t) p'
  | Rel l :: p' => mkTask (filter (fun x => negb (fst x =? l)) (held t)) p'
  end.

(* ---------------- executable interface for the correspondence check ---------------- *)
(* (per-request bound D in ms, slack in ms, measured operations, number of liveness violations the
   harness saw directly: requests after stop() returned, operations or stop() that never completed) *)
Definition tcase := (N * N * list (opkind * N) * N)%type.
Definition check_tcase (c : tcase) : bool :=
  let '(D, slack, obs, bad) := c in
  (bad =? 0) && forallb (fun '(k, ms) => within_bound k D slack ms) obs.
