(* Model of the admission caps (C13): src/security.rs IPDiversityEnforcer, the
   admission pipeline of src/dht/core_engine.rs (add_node / evict_node /
   handle_node_failure) and src/bootstrap/manager.rs add_peer.  Definitions only.
   Constants come from Gen.DiversityConsts.v, regenerated from the Rust source on every run. *)
From Coq Require Import QArith.
From SV Require Import Lib.Base Gen.DiversityConsts.
Local Open Scope N_scope.

(* ------------------------------------------------------------------ *)
(* LruCache<key, usize>: association list, most recently used first.   *)
(* peek = no reordering; get+put / pop+put = entry moved to the front; *)
(* a put of a new key into a full cache drops the last entry.          *)
(* ------------------------------------------------------------------ *)
Definition amap := list (N * N).

Fixpoint peek (m : amap) (k : N) : option N :=
  match m with
  | [] => None
  | (k', v) :: t => if (k' =? k) then Some v else peek t k
  end.
Definition cnt (m : amap) (k : N) : N := match peek m k with Some v => v | None => 0 end.
Definition del (m : amap) (k : N) : amap := filter (fun kv => negb (fst kv =? k)) m.
Definition put (track : N) (m : amap) (k v : N) : amap :=
  let l := (k, v) :: del m k in
  if (track <? N.of_nat (length l)) then removelast l else l.
(* add_*: count = get(k).unwrap_or(0) + 1; put(k, count) *)
Definition incr (track : N) (m : amap) (k : N) : amap := put track m k (cnt m k + 1).
(* remove_*: if let Some(c) = pop(k) { let n = c.saturating_sub(1); if n > 0 { put(k, n) } } *)
Definition decr (track : N) (m : amap) (k : N) : amap :=
  match peek m k with
  | None => m
  | Some c => if (0 <? c - 1) then put track m k (c - 1) else del m k
  end.
Definition mx (m : amap) : N := fold_right (fun kv a => N.max (snd kv) a) 0 m.
Definition len (m : amap) : N := N.of_nat (length m).

(* ------------------------------------------------------------------ *)
(* levels, enforcer state, configuration                               *)
(* ------------------------------------------------------------------ *)
Inductive level := L64 | L48 | L32 | V32 | V24 | V16 | LAsn | LCountry.
Definition level_eqb (a b : level) : bool :=
  match a, b with
  | L64, L64 | L48, L48 | L32, L32 | V32, V32 | V24, V24 | V16, V16 | LAsn, LAsn | LCountry, LCountry => true
  | _, _ => false
  end.
Definition all_levels : list level := [L64; L48; L32; V32; V24; V16; LAsn; LCountry].

Record enf := mkEnf { m64 : amap; m48 : amap; m32 : amap; v32 : amap; v24 : amap; v16 : amap;
                      masn : amap; mcountry : amap; e_size : N }.
Definition enf_init : enf := mkEnf [] [] [] [] [] [] [] [] 0.
Definition getm (s : enf) (l : level) : amap :=
  match l with
  | L64 => m64 s | L48 => m48 s | L32 => m32 s | V32 => v32 s | V24 => v24 s | V16 => v16 s
  | LAsn => masn s | LCountry => mcountry s
  end.
Definition setm (s : enf) (l : level) (m : amap) : enf :=
  match l with
  | L64 => mkEnf m (m48 s) (m32 s) (v32 s) (v24 s) (v16 s) (masn s) (mcountry s) (e_size s)
  | L48 => mkEnf (m64 s) m (m32 s) (v32 s) (v24 s) (v16 s) (masn s) (mcountry s) (e_size s)
  | L32 => mkEnf (m64 s) (m48 s) m (v32 s) (v24 s) (v16 s) (masn s) (mcountry s) (e_size s)
  | V32 => mkEnf (m64 s) (m48 s) (m32 s) m (v24 s) (v16 s) (masn s) (mcountry s) (e_size s)
  | V24 => mkEnf (m64 s) (m48 s) (m32 s) (v32 s) m (v16 s) (masn s) (mcountry s) (e_size s)
  | V16 => mkEnf (m64 s) (m48 s) (m32 s) (v32 s) (v24 s) m (masn s) (mcountry s) (e_size s)
  | LAsn => mkEnf (m64 s) (m48 s) (m32 s) (v32 s) (v24 s) (v16 s) m (mcountry s) (e_size s)
  | LCountry => mkEnf (m64 s) (m48 s) (m32 s) (v32 s) (v24 s) (v16 s) (masn s) m (e_size s)
  end.
Definition set_size (s : enf) (n : N) : enf :=
  mkEnf (m64 s) (m48 s) (m32 s) (v32 s) (v24 s) (v16 s) (masn s) (mcountry s) n.

(* IPDiversityConfig.  max_network_fraction (an f64 in the code) is the exact
   rational c_fnum / c_fden; c_track is MAX_SUBNET_TRACKING (a field so that the
   necessity of the tracking bound can be shown with a small value).
   c4_32 (max_nodes_per_ipv4_32) is carried for fidelity: no admission rule reads it. *)
Record cfg := mkCfg { c64 : N; c48 : N; c32 : N; c4_32 : N; c4_24 : N; c4_16 : N;
                      c_ipcap : N; c_fnum : N; c_fden : N; c_asn : N; c_track : N }.

Definition qnum (q : Q) : N := Z.to_N (Qnum q).
Definition qden (q : Q) : N := Npos (Qden q).
Definition cfg_default : cfg :=
  mkCfg DIV_DEF_64 DIV_DEF_48 DIV_DEF_32 DIV_DEF_V4_32 DIV_DEF_V4_24 DIV_DEF_V4_16 DIV_DEF_IP_CAP
        (qnum DIV_DEF_FRACTION) (qden DIV_DEF_FRACTION) DIV_DEF_ASN DIV_MAX_SUBNET_TRACKING.
Definition cfg_testnet : cfg :=
  mkCfg DIV_TEST_64 DIV_TEST_48 DIV_TEST_32 DIV_TEST_V4_32 DIV_TEST_V4_24 DIV_TEST_V4_16 DIV_TEST_IP_CAP
        (qnum DIV_TEST_FRACTION) (qden DIV_TEST_FRACTION) DIV_TEST_ASN DIV_MAX_SUBNET_TRACKING.
Definition USIZE_MAX : N := 18446744073709551615.
Definition cfg_permissive : cfg :=
  mkCfg USIZE_MAX USIZE_MAX USIZE_MAX USIZE_MAX USIZE_MAX USIZE_MAX USIZE_MAX 1 1 USIZE_MAX DIV_MAX_SUBNET_TRACKING.

(* ------------------------------------------------------------------ *)
(* addresses and their analysis                                        *)
(* ------------------------------------------------------------------ *)
Inductive ipaddr := IP4 (a : N) | IP6 (a : N).          (* 32-bit / 128-bit big-endian value *)
Record attrs := mkAt { a_asn : option N; a_country : option N; a_hosting : bool; a_vpn : bool }.
Definition no_attrs : attrs := mkAt None None false false.
(* IPAnalysis / IPv4Analysis.  A prefix is represented by the address shifted
   right (equal masked addresses <-> equal shifted values). *)
Record analysis := mkAn { an_v4 : bool; an_k1 : N; an_k2 : N; an_k3 : N; an_at : attrs }.

Definition analyze (ip : ipaddr) (at_ : attrs) : analysis :=
  match ip with
  | IP6 a => mkAn false (a / 2 ^ 64) (a / 2 ^ 80) (a / 2 ^ 96) at_      (* /64, /48, /32 *)
  | IP4 a => mkAn true a (a / 2 ^ 8) (a / 2 ^ 16) at_                   (* exact, /24, /16 *)
  end.
Definition strict (an : analysis) : bool := a_hosting (an_at an) || a_vpn (an_at an).

(* the counters an analysis touches, in the order the code updates them *)
Definition keys_of (an : analysis) : list (level * N) :=
  (if an_v4 an then [(V32, an_k1 an); (V24, an_k2 an); (V16, an_k3 an)]
   else [(L64, an_k1 an); (L48, an_k2 an); (L32, an_k3 an)])
  ++ (match a_asn (an_at an) with Some n => [(LAsn, n)] | None => [] end)
  ++ (match a_country (an_at an) with Some c => [(LCountry, c)] | None => [] end).

(* ------------------------------------------------------------------ *)
(* limits                                                              *)
(* ------------------------------------------------------------------ *)
(* get_per_ip_limit: min(cap, max(1, floor(size * fraction))) *)
Definition per_ip (c : cfg) (size : N) : N :=
  N.min (c_ipcap c) (N.max 1 (size * c_fnum c / c_fden c)).
(* limit applied to an ordinary candidate; None = level is counted but not capped *)
Definition full_limit (c : cfg) (size : N) (l : level) : option N :=
  match l with
  | L64 => Some (c64 c) | L48 => Some (c48 c) | L32 => Some (c32 c)
  | V32 => Some (per_ip c size)
  | V24 => Some (N.min (c4_24 c) (per_ip c size * DIV_MULT_24))
  | V16 => Some (N.min (c4_16 c) (per_ip c size * DIV_MULT_16))
  | LAsn => Some (c_asn c)
  | LCountry => None
  end.
(* hosting / VPN candidates: halved, minimum one *)
Definition halve (st : bool) (x : N) : N := if st then N.max 1 (x / 2) else x.
Definition limit (c : cfg) (size : N) (st : bool) (l : level) : option N :=
  option_map (halve st) (full_limit c size l).
(* the configured ceiling of a level, whatever the network size *)
Definition static_cap (c : cfg) (l : level) : option N :=
  match l with
  | L64 => Some (c64 c) | L48 => Some (c48 c) | L32 => Some (c32 c)
  | V32 => Some (c_ipcap c) | V24 => Some (c4_24 c) | V16 => Some (c4_16 c)
  | LAsn => Some (c_asn c) | LCountry => None
  end.

(* ------------------------------------------------------------------ *)
(* can_accept / add / remove                                           *)
(* ------------------------------------------------------------------ *)
Definition below (c : cfg) (s : enf) (st : bool) (lk : level * N) : bool :=
  match limit c (e_size s) st (fst lk) with
  | None => true
  | Some lim => cnt (getm s (fst lk)) (snd lk) <? lim
  end.
Definition can_accept (c : cfg) (s : enf) (an : analysis) : bool :=
  forallb (below c s (strict an)) (keys_of an).
Definition bump (c : cfg) (s : enf) (lk : level * N) : enf :=
  setm s (fst lk) (incr (c_track c) (getm s (fst lk)) (snd lk)).
Definition drop (c : cfg) (s : enf) (lk : level * N) : enf :=
  setm s (fst lk) (decr (c_track c) (getm s (fst lk)) (snd lk)).
Definition add (c : cfg) (s : enf) (an : analysis) : option enf :=
  if can_accept c s an then Some (fold_left (bump c) (keys_of an) s) else None.
Definition remove (c : cfg) (s : enf) (an : analysis) : enf :=
  fold_left (drop c) (keys_of an) s.

(* ------------------------------------------------------------------ *)
(* enforcer histories                                                  *)
(* ------------------------------------------------------------------ *)
Inductive op :=
| Add (ip : ipaddr) (at_ : attrs)       (* analyze + add_unified *)
| Remove (ip : ipaddr) (at_ : attrs)    (* analyze + remove_unified *)
| SetSize (n : N)                       (* set_network_size *)
| Probe (ip : ipaddr) (at_ : attrs).    (* analyze + can_accept_unified *)

(* result: Add 1 = Ok / 0 = Err; Probe 1/0; SetSize: get_per_ip_limit(); Remove: 2 *)
Definition step (c : cfg) (s : enf) (o : op) : enf * N :=
  match o with
  | Add ip at_ => match add c s (analyze ip at_) with Some s' => (s', 1) | None => (s, 0) end
  | Remove ip at_ => (remove c s (analyze ip at_), 2)
  | SetSize n => (set_size s n, per_ip c n)
  | Probe ip at_ => (s, if can_accept c s (analyze ip at_) then 1 else 0)
  end.
Fixpoint run (c : cfg) (s : enf) (ops : list op) : enf :=
  match ops with [] => s | o :: tl => run c (fst (step c s o)) tl end.

(* get_diversity_stats(), in the order the harness prints it *)
Definition stats (s : enf) : list N :=
  [len (m64 s); len (m48 s); len (m32 s); mx (m64 s); mx (m48 s); mx (m32 s);
   len (v32 s); len (v24 s); len (v16 s); mx (v32 s); mx (v24 s); mx (v16 s);
   len (masn s); len (mcountry s)].

(* ------------------------------------------------------------------ *)
(* specification side: the set of admitted nodes                       *)
(* ------------------------------------------------------------------ *)
Definition lk_eqb (a b : level * N) : bool := level_eqb (fst a) (fst b) && (snd a =? snd b).
Definition has_key (l : level) (k : N) (an : analysis) : bool := existsb (lk_eqb (l, k)) (keys_of an).
(* number of admitted nodes sharing key k at level l *)
Definition count_adm (adm : list analysis) (l : level) (k : N) : N :=
  N.of_nat (length (filter (has_key l k) adm)).
(* every level of the candidate is below its limit, counting admitted nodes *)
Definition spec_below (c : cfg) (size : N) (adm : list analysis) (an : analysis) : bool :=
  forallb (fun lk => match limit c size (strict an) (fst lk) with
                     | None => true
                     | Some lim => count_adm adm (fst lk) (snd lk) <? lim end) (keys_of an).

Definition opt_eqb (a b : option N) : bool :=
  match a, b with Some x, Some y => x =? y | None, None => true | _, _ => false end.
Definition attrs_eqb (a b : attrs) : bool :=
  opt_eqb (a_asn a) (a_asn b) && opt_eqb (a_country a) (a_country b) &&
  Bool.eqb (a_hosting a) (a_hosting b) && Bool.eqb (a_vpn a) (a_vpn b).
Definition an_eqb (a b : analysis) : bool :=
  Bool.eqb (an_v4 a) (an_v4 b) && (an_k1 a =? an_k1 b) && (an_k2 a =? an_k2 b) && (an_k3 a =? an_k3 b) &&
  attrs_eqb (an_at a) (an_at b).
Fixpoint remove_one (an : analysis) (adm : list analysis) : list analysis :=
  match adm with
  | [] => []
  | x :: t => if an_eqb an x then t else x :: remove_one an t
  end.
Definition admitted_in (an : analysis) (adm : list analysis) : bool := existsb (an_eqb an) adm.

(* the admitted set after a history, reading the verdicts of the model itself *)
Definition adm_step (c : cfg) (s : enf) (adm : list analysis) (o : op) : list analysis :=
  match o with
  | Add ip at_ => if can_accept c s (analyze ip at_) then analyze ip at_ :: adm else adm
  | Remove ip at_ => remove_one (analyze ip at_) adm
  | _ => adm
  end.
Fixpoint adm_run (c : cfg) (s : enf) (adm : list analysis) (ops : list op) : list analysis :=
  match ops with
  | [] => adm
  | o :: tl => adm_run c (fst (step c s o)) (adm_step c s adm o) tl
  end.
(* largest network size in force so far *)
Fixpoint hw_run (hw : N) (ops : list op) : N :=
  match ops with
  | [] => hw
  | SetSize n :: tl => hw_run (N.max hw n) tl
  | _ :: tl => hw_run hw tl
  end.

(* statistics recomputed from a set of admitted nodes only (no LRU, no limits) *)
Definition tally (adm : list analysis) (l : level) : amap :=
  fold_left (fun m an => fold_left (fun m' lk => if level_eqb (fst lk) l then (snd lk, cnt m' (snd lk) + 1) :: del m' (snd lk) else m')
                                   (keys_of an) m) adm [].
Definition spec_stats (adm : list analysis) : list N :=
  [len (tally adm L64); len (tally adm L48); len (tally adm L32);
   mx (tally adm L64); mx (tally adm L48); mx (tally adm L32);
   len (tally adm V32); len (tally adm V24); len (tally adm V16);
   mx (tally adm V32); mx (tally adm V24); mx (tally adm V16);
   len (tally adm LAsn); len (tally adm LCountry)].

Fixpoint list_N_eqb (a b : list N) : bool :=
  match a, b with
  | [], [] => true
  | x :: a', y :: b' => (x =? y) && list_N_eqb a' b'
  | _, _ => false
  end.

(* ------------------------------------------------------------------ *)
(* routing-table pipeline (DhtCoreEngine)                              *)
(* ------------------------------------------------------------------ *)
(* NodeInfo.address as the library renders it *)
Inductive aform :=
| FBare (ip : ipaddr)                                   (* "ip" *)
| FSock (ip : ipaddr) (port : N)                        (* "ip:port" / "[ip6]:port" *)
| FDisplay (ip : ipaddr) (port : N) (words : bool)      (* NetworkAddress::to_string(): socket text, then " (four-words)" when words *)
| FGarbage.                                             (* text that is no address *)
(* the IP both gates work on (after stripping the " (…)" suffix) *)
Definition gate_ip (f : aform) : option ipaddr :=
  match f with
  | FBare ip | FSock ip _ | FDisplay ip _ _ => Some ip
  | FGarbage => None
  end.

(* GeographicRegion::from_ip; regions numbered in declaration order *)
Definition region_of (ip : ipaddr) : N :=
  match ip with
  | IP6 _ => 6
  | IP4 a =>
      let o := a / 2 ^ 24 in
      if o =? 0 then 6
      else if o <=? 126 then 0
      else if o <=? 159 then 1
      else if o <=? 191 then 2
      else if o <=? 223 then 0
      else if o <=? 239 then 3
      else if o <=? 247 then 4
      else if o <=? 251 then 5
      else 6
  end.
Definition n_regions : N := 7.

(* GeographicDiversityEnforcer: HashMap<region, usize> *)
Definition rincr (m : amap) (r : N) : amap := (r, cnt m r + 1) :: del m r.
Definition rdecr (m : amap) (r : N) : amap :=
  match peek m r with None => m | Some c => (r, c - 1) :: del m r end.

Record entry := mkEnt { en_id : N; en_addr : aform }.
Record eng := mkEng { g_enf : enf; g_reg : amap; g_tab : list entry }.
Definition eng_init : eng := mkEng enf_init [] [].

(* bucket index = position (from the most significant bit) of the first bit in which
   the 256-bit ids differ; 255 when equal *)
Definition bucket_of (self id : N) : N :=
  let d := N.lxor self id in if d =? 0 then 255 else 255 - N.log2 d.
Definition bucket_len (self : N) (tab : list entry) (b : N) : N :=
  N.of_nat (length (filter (fun e => bucket_of self (en_id e) =? b) tab)).

Inductive eop :=
| EAdd (id : N) (addr : aform) (valid : bool)   (* add_node; [valid] = close-group validator's answer *)
| EEvict (id : N)                               (* evict_node *)
| EFail (id : N).                               (* handle_node_failure *)

(* result of add_node: 0 Ok, 1 validator, 2 IP diversity, 3 region cap, 4 bucket full *)
Definition core_add (c : cfg) (self : N) (g : eng) (id : N) (addr : aform) (valid : bool) : eng * N :=
  if negb valid then (g, 1) else
  let b := bucket_of self id in
  match gate_ip addr with
  | None =>
      if bucket_len self (g_tab g) b <? DIV_BUCKET_K
      then (mkEng (g_enf g) (g_reg g) (g_tab g ++ [mkEnt id addr]), 0) else (g, 4)
  | Some ip =>
      let an := analyze ip no_attrs in
      match add c (g_enf g) an with
      | None => (g, 2)
      | Some e1 =>
          let r := region_of ip in
          if DIV_REGION_CAP <=? cnt (g_reg g) r
          then (mkEng (remove c e1 an) (g_reg g) (g_tab g), 3)                 (* roll back the IP slots *)
          else
            let reg1 := rincr (g_reg g) r in
            if bucket_len self (g_tab g) b <? DIV_BUCKET_K
            then (mkEng e1 reg1 (g_tab g ++ [mkEnt id addr]), 0)
            else (mkEng (remove c e1 an) (rdecr reg1 r) (g_tab g), 4)          (* roll back both *)
      end
  end.

(* give back the slots one routing entry holds *)
Definition release (c : cfg) (g : eng) (e : entry) : eng :=
  match gate_ip (en_addr e) with
  | None => g
  | Some ip => mkEng (remove c (g_enf g) (analyze ip no_attrs)) (rdecr (g_reg g) (region_of ip)) (g_tab g)
  end.
(* routing.remove_node(id) (retain != id), then release every removed entry *)
Definition core_remove (c : cfg) (g : eng) (id : N) : eng :=
  let gone := filter (fun e => en_id e =? id) (g_tab g) in
  let keep := filter (fun e => negb (en_id e =? id)) (g_tab g) in
  fold_left (release c) gone (mkEng (g_enf g) (g_reg g) keep).

(* add_node, step 0: a peer that is already listed is only refreshed - it keeps the address it was
   admitted under, passes no admission check again and is charged nothing (whatever address or
   validator verdict the new announcement carries) *)
Definition listed (tab : list entry) (id : N) : bool := existsb (fun e => en_id e =? id) tab.

Definition estep (c : cfg) (self : N) (g : eng) (o : eop) : eng * N :=
  match o with
  | EAdd id addr valid => if listed (g_tab g) id then (g, 0) else core_add c self g id addr valid
  | EEvict id => (core_remove c g id, 0)
  | EFail id => (core_remove c g id, 0)
  end.
Fixpoint erun (c : cfg) (self : N) (g : eng) (ops : list eop) : eng :=
  match ops with [] => g | o :: tl => erun c self (fst (estep c self g o)) tl end.

(* the admitted nodes as the routing table lists them *)
Definition adm_of (tab : list entry) : list analysis :=
  flat_map (fun e => match gate_ip (en_addr e) with Some ip => [analyze ip no_attrs] | None => [] end) tab.
Definition reg_count (tab : list entry) (r : N) : N :=
  N.of_nat (length (filter (fun e => match gate_ip (en_addr e) with Some ip => region_of ip =? r | None => false end) tab)).
Definition regions_of (m : amap) : list N := map (cnt m) [0; 1; 2; 3; 4; 5; 6].
Definition esnap (g : eng) : list N :=
  stats (g_enf g) ++ regions_of (g_reg g) ++ [N.of_nat (length (g_tab g))].
Definition spec_esnap (tab : list entry) : list N :=
  spec_stats (adm_of tab) ++ map (reg_count tab) [0; 1; 2; 3; 4; 5; 6] ++ [N.of_nat (length tab)].

(* ------------------------------------------------------------------ *)
(* bootstrap cache (BootstrapManager::add_peer): gate on the first      *)
(* address, unified analysis, no attributes, no removal                *)
(* ------------------------------------------------------------------ *)
Definition boot_add (c : cfg) (s : enf) (ip : ipaddr) : enf * N :=
  match add c s (analyze ip no_attrs) with Some s' => (s', 1) | None => (s, 0) end.

(* ================================================================== *)
(* executable interface for the correspondence check                   *)
(* ================================================================== *)
Definition obs := (N * list N)%type.       (* result of the op, snapshot after it *)

(* --- enforcer cases --- *)
Fixpoint enf_check (c : cfg) (s : enf) (ops : list op) (os : list obs) : bool :=
  match ops, os with
  | [], [] => true
  | o :: ops', (r, snap) :: os' =>
      let '(s', r') := step c s o in
      (r =? r') && list_N_eqb snap (stats s') && enf_check c s' ops' os'
  | _, _ => false
  end.

(* the property read directly off the implementation's verdicts: the admitted set is
   rebuilt from the observed Ok/Err; every observed admission must have found all of
   its levels below their limits among the admitted nodes, every observed refusal must
   have a level at its limit, probes likewise, and the reported statistics must be
   those of the admitted set (slots returned, failed admissions consume none).
   A Remove of a node that is not admitted leaves the specified domain: checking stops. *)
Fixpoint enf_prop (c : cfg) (size : N) (adm : list analysis) (ops : list op) (os : list obs) : bool :=
  match ops, os with
  | [], _ => true
  | o :: ops', (r, snap) :: os' =>
      match o with
      | Add ip at_ =>
          let an := analyze ip at_ in
          let ok := spec_below c size adm an in
          let adm' := if r =? 1 then an :: adm else adm in
          Bool.eqb ok (r =? 1) && list_N_eqb snap (spec_stats adm') && enf_prop c size adm' ops' os'
      | Probe ip at_ =>
          Bool.eqb (spec_below c size adm (analyze ip at_)) (r =? 1) &&
          list_N_eqb snap (spec_stats adm) && enf_prop c size adm ops' os'
      | SetSize n => (r =? per_ip c n) && list_N_eqb snap (spec_stats adm) && enf_prop c n adm ops' os'
      | Remove ip at_ =>
          let an := analyze ip at_ in
          if admitted_in an adm
          then let adm' := remove_one an adm in
               list_N_eqb snap (spec_stats adm') && enf_prop c size adm' ops' os'
          else true
      end
  | _ :: _, [] => false
  end.

(* --- engine cases --- *)
Fixpoint eng_check (c : cfg) (self : N) (g : eng) (ops : list eop) (os : list obs) : bool :=
  match ops, os with
  | [], [] => true
  | o :: ops', (r, snap) :: os' =>
      let '(g', r') := estep c self g o in
      (r =? r') && list_N_eqb snap (esnap g') && eng_check c self g' ops' os'
  | _, _ => false
  end.

(* property on the observed verdicts: the table is rebuilt from the observed Ok results
   and the evictions; verdicts must agree with the caps counted over that table and the
   snapshot must be the tally of that table after every step. *)
Definition spec_add_verdict (c : cfg) (self : N) (tab : list entry) (id : N) (addr : aform) (valid : bool) : N :=
  if negb valid then 1 else
  let room := bucket_len self tab (bucket_of self id) <? DIV_BUCKET_K in
  match gate_ip addr with
  | None => if room then 0 else 4
  | Some ip =>
      if negb (spec_below c 0 (adm_of tab) (analyze ip no_attrs)) then 2
      else if DIV_REGION_CAP <=? reg_count tab (region_of ip) then 3
      else if room then 0 else 4
  end.
Fixpoint eng_prop (c : cfg) (self : N) (tab : list entry) (ops : list eop) (os : list obs) : bool :=
  match ops, os with
  | [], _ => true
  | o :: ops', (r, snap) :: os' =>
      let tab' := match o with
                  | EAdd id addr valid => if listed tab id then tab else if r =? 0 then tab ++ [mkEnt id addr] else tab
                  | EEvict id | EFail id => filter (fun e => negb (en_id e =? id)) tab
                  end in
      (match o with EAdd id addr valid => r =? (if listed tab id then 0 else spec_add_verdict c self tab id addr valid) | _ => true end) &&
      list_N_eqb snap (spec_esnap tab') && eng_prop c self tab' ops' os'
  | _ :: _, [] => false
  end.

(* --- bootstrap cases: (ip, (result, stats)) --- *)
Fixpoint boot_check (c : cfg) (s : enf) (ops : list (ipaddr * obs)) : bool :=
  match ops with
  | [] => true
  | (ip, (r, snap)) :: tl =>
      let '(s', r') := boot_add c s ip in
      (r =? r') && list_N_eqb snap (stats s') && boot_check c s' tl
  end.
Fixpoint boot_prop (c : cfg) (adm : list analysis) (ops : list (ipaddr * obs)) : bool :=
  match ops with
  | [] => true
  | (ip, (r, snap)) :: tl =>
      let an := analyze ip no_attrs in
      let adm' := if r =? 1 then an :: adm else adm in
      Bool.eqb (spec_below c 0 adm an) (r =? 1) && list_N_eqb snap (spec_stats adm') && boot_prop c adm' tl
  end.

Inductive tcase :=
| CEnf (c : cfg) (ops : list op) (os : list obs)
| CEng (self : N) (ops : list eop) (os : list obs)
| CBoot (c : cfg) (ops : list (ipaddr * obs)).

Definition check_case (t : tcase) : bool :=
  match t with
  | CEnf c ops os => enf_check c enf_init ops os
  | CEng self ops os => eng_check cfg_default self eng_init ops os
  | CBoot c ops => boot_check c enf_init ops
  end.
Definition prop_case (t : tcase) : bool :=
  match t with
  | CEnf c ops os => enf_prop c 0 [] ops os
  | CEng self ops os => eng_prop cfg_default self [] ops os
  | CBoot c ops => boot_prop c [] ops
  end.

(* ================================================================== *)
(* the address text seen by the gate (DhtCoreEngine::add_node)         *)
(* text = list of byte values; std's parsers/printers are parameters   *)
(* ================================================================== *)
(* address.split(" (").next(): the text before the first " (" *)
Fixpoint strip_suffix (s : list N) : list N :=
  match s with
  | [] => []
  | ch :: t =>
      if (ch =? 32) && (match t with d :: _ => d =? 40 | [] => false end) then [] else ch :: strip_suffix t
  end.

Section AddrText.
  Variable parse_sock : list N -> option (ipaddr * N).   (* str::parse::<SocketAddr> *)
  Variable parse_ip : list N -> option ipaddr.            (* str::parse::<IpAddr> *)
  Variable show_sock : ipaddr -> N -> list N.             (* SocketAddr Display *)
  Variable show_ip : ipaddr -> list N.                    (* IpAddr Display *)
  Variable words : ipaddr -> N -> list N.                 (* four-word text *)
  Variable garbage : list N.

  Definition gate_text (s : list N) : option ipaddr :=
    let clean := strip_suffix s in
    match parse_sock clean with
    | Some (ip, _) => Some ip
    | None => parse_ip clean
    end.
  (* the text of each address form *)
  Definition render (f : aform) : list N :=
    match f with
    | FBare ip => show_ip ip
    | FSock ip p => show_sock ip p
    | FDisplay ip p w => show_sock ip p ++ (if w then [32; 40] ++ words ip p ++ [41] else [])
    | FGarbage => garbage
    end.
End AddrText.
