(* Model of DhtNetworkManager::find_closest_nodes_network (C01).  Definitions only.

   Peers are identified by [pid] (an index the harness assigns to each distinct
   peer-id string); [keyof p] is the DHT key the library derives from the id
   (blake3 of the id string); distance to a target t is [N.lxor (keyof p) t]
   compared as an integer (= lexicographic compare of the 32-byte XOR).

   The network is an arbitrary function [reply : pid -> option (list pid)]:
   [None] = the request failed (timeout, send error, peer not reachable),
   [Some l] = the peer answered; [l] are the ids named in a NodesFound reply
   ([] for any other successful result).  The adversary is this function: it may
   name unknown, duplicate, self or requester ids. *)
From SV Require Import Lib.Base Gen.LookupConsts.
Local Open Scope N_scope.

Definition pid := N.

Section Lookup.
  Variable keyof : pid -> N.
  Variable reply : pid -> option (list pid).
  Variable self : pid.              (* the entry standing for the local node in results *)
  Variable selfs_marked : list pid. (* ids pre-marked as queried: app-level id, transport id *)
  Variable selfs_all : list pid.    (* every id under which a reply may name the local node *)
  Variable target : N.
  Variable count : nat.

  Definition dist (p : pid) : N := N.lxor (keyof p) target.

  Definition mem (x : pid) (l : list pid) : bool := existsb (N.eqb x) l.
  Definition remove_pid (x : pid) (l : list pid) : list pid := filter (fun y => negb (y =? x)) l.

  (* insert keeping ascending distance, after every element at equal distance
     (what a stable sort does with an element pushed at the end) *)
  Fixpoint insert (x : pid) (l : list pid) : list pid :=
    match l with
    | [] => [x]
    | y :: l' => if dist x <? dist y then x :: y :: l' else y :: insert x l'
    end.

  Definition sort (l : list pid) : list pid := fold_left (fun acc x => insert x acc) l [].

  Record st := mkSt {
    best : list pid;       (* sorted ascending, length <= count *)
    cand : list pid;       (* FIFO queue *)
    queried : list pid;
    queued : list pid;
    sent : list pid;       (* requests issued, most recent first *)
    budget_hit : bool;     (* a candidate was refused by the queue cap, or the iteration budget ran out *)
  }.

  (* best is full and x is no closer than its farthest member *)
  Definition dominated (b : list pid) (x : pid) : bool :=
    (count <=? length b)%nat &&
    match last (map Some b) None with
    | Some w => negb (dist x <? dist w)
    | None => false
    end.

  (* take from the queue until ALPHA unqueried, non-dominated peers are in the batch *)
  Fixpoint pop_batch (b : list pid) (qd : list pid) (c : list pid) (queuedl : list pid) (batch : list pid)
    : list pid * list pid * list pid :=
    match c with
    | [] => ([], queuedl, batch)
    | x :: c' =>
        if (N.to_nat LK_ALPHA <=? length batch)%nat then (c, queuedl, batch)
        else
          let queuedl' := remove_pid x queuedl in
          if mem x qd || dominated b x then pop_batch b qd c' queuedl' batch
          else pop_batch b qd c' queuedl' (batch ++ [x])
    end.

  Definition consider (s : st) (n : pid) : st :=
    if mem n (queried s) || mem n (queued s) || mem n selfs_all then s
    else if dominated (best s) n then s
    else if (N.to_nat LK_MAX_CANDIDATE_NODES <=? length (cand s))%nat
         then mkSt (best s) (cand s) (queried s) (queued s) (sent s) true
         else mkSt (best s) (cand s ++ [n]) (queried s) (n :: queued s) (sent s) (budget_hit s).

  Definition process_one (s : st) (p : pid) : st :=
    let s1 := mkSt (best s) (cand s) (p :: queried s) (queued s) (p :: sent s) (budget_hit s) in
    match reply p with
    | None => s1
    | Some nodes =>
        let s2 := mkSt (firstn count (insert p (best s1))) (cand s1) (queried s1) (queued s1) (sent s1) (budget_hit s1) in
        fold_left consider nodes s2
    end.

  Fixpoint loop (fuel : nat) (s : st) : st :=
    match fuel with
    | O => mkSt (best s) (cand s) (queried s) (queued s) (sent s)
                (budget_hit s || match cand s with [] => false | _ => true end)
    | S f =>
        match cand s with
        | [] => s
        | _ =>
            let '(c', q', batch) := pop_batch (best s) (queried s) (cand s) (queued s) [] in
            let s0 := mkSt (best s) c' (queried s) q' (sent s) (budget_hit s) in
            match batch with
            | [] => s0
            | _ => loop f (fold_left process_one batch s0)
            end
        end
    end.

  Definition init_state (init : list pid) : st :=
    mkSt (firstn count [self]) init selfs_marked init [] false.

  Definition lookup (init : list pid) : st :=
    loop (N.to_nat LK_MAX_ITERATIONS) (init_state init).

  (* ---------- the specification, as executable predicates over an observed run ---------- *)

  Fixpoint sorted_by_dist (l : list pid) : bool :=
    match l with
    | x :: ((y :: _) as l') => (dist x <=? dist y) && sorted_by_dist l'
    | _ => true
    end.

  Fixpoint nodupb (l : list pid) : bool :=
    match l with [] => true | x :: l' => negb (mem x l') && nodupb l' end.

  Definition answered (p : pid) : bool := match reply p with Some _ => true | None => false end.

  (* everything the lookup learned of: its initial candidates and every id named by a queried peer that answered *)
  Definition learned (init requests : list pid) : list pid :=
    init ++ flat_map (fun p => match reply p with Some l => l | None => [] end) requests.

  Definition spec_ok (init requests result : list pid) (cut : bool) : bool :=
    (* bounded, no self, no duplicates *)
    (length requests <=? N.to_nat (LK_MAX_ITERATIONS * LK_ALPHA))%nat &&
    nodupb requests &&
    forallb (fun p => negb (mem p selfs_all)) requests &&
    (* result shape *)
    (length result <=? count)%nat && nodupb result && sorted_by_dist result &&
    forallb (fun p => (p =? self) || (mem p requests && answered p)) result &&
    (* the result is the [count] closest among self and the answering peers *)
    forallb (fun p => negb (answered p) || mem p result ||
                      ((count <=? length result)%nat &&
                       match last (map Some result) None with Some w => dist w <=? dist p | None => false end)) requests &&
    ((count =? 0)%nat || mem self result ||
     ((count <=? length result)%nat &&
      match last (map Some result) None with Some w => dist w <=? dist self | None => false end)) &&
    (* completeness, unless the run was cut by a budget *)
    (cut ||
     forallb (fun p => mem p requests || mem p selfs_all ||
                       ((count <=? length result)%nat &&
                        match last (map Some result) None with Some w => dist w <=? dist p | None => false end))
             (learned init requests)).
End Lookup.

(* ---------- executable interface for the correspondence check ---------- *)
Fixpoint assoc {A} (d : A) (l : list (N * A)) (k : N) : A :=
  match l with [] => d | (k', v) :: l' => if (k' =? k)%N then v else assoc d l' k end.

Fixpoint list_N_eqb (a b : list N) : bool :=
  match a, b with
  | [], [] => true
  | x :: a', y :: b' => (x =? y)%N && list_N_eqb a' b'
  | _, _ => false
  end.

Definition subset (a b : list N) : bool := forallb (fun x => existsb (N.eqb x) b) a.
Definition set_eqb (a b : list N) : bool := subset a b && subset b a.

Record lcase := mkCase {
  c_keys : list (N * N);
  c_replies : list (N * option (list N));
  c_self : N; c_marked : list N; c_selfs : list N;
  c_target : N; c_count : N;
  c_init : list N;
  c_obs_requests : list N;    (* in the order observed at the transport boundary *)
  c_obs_result : list N;
}.

Definition run_case (c : lcase) : st :=
  lookup (assoc 0 (c_keys c)) (assoc None (c_replies c)) (c_self c) (c_marked c) (c_selfs c)
         (c_target c) (N.to_nat (c_count c)) (c_init c).

(* model = implementation: same result list, same set of requests *)
Definition check_case (c : lcase) : bool :=
  let s := run_case c in
  list_N_eqb (best s) (c_obs_result c) && set_eqb (sent s) (c_obs_requests c).

(* the property itself, evaluated on what the implementation did *)
Definition prop_case (c : lcase) : bool :=
  let s := run_case c in
  spec_ok (assoc 0 (c_keys c)) (assoc None (c_replies c)) (c_self c) (c_selfs c) (c_target c)
          (N.to_nat (c_count c)) (c_init c) (c_obs_requests c) (c_obs_result c) (budget_hit s).
