(* Model of the Kademlia routing table of src/dht/core_engine.rs
   (KBucket, KademliaRoutingTable, the DhtCoreEngine operations that change it,
   find_nodes and the FindNode/FindValue branches of handle_request), plus the
   manager-level reply rule (reply_nodes).  Definitions only; the one Qed below
   is the totality of the order handed to the standard library merge sort.

   Keys and node ids are N < 2^256 (Lib/Xor.v).  A node is an id plus an opaque
   payload (address, capacity, ... - whatever the caller wants to carry).
   Constants come from Gen/RoutingConsts.v, regenerated from the source. *)
From Coq Require Import Sorting.Mergesort Orders Permutation.
From SV Require Import Lib.Base Lib.Xor Gen.RoutingConsts.
Local Open Scope N_scope.

Record node := mkNode { n_id : N; n_pl : N }.
Definition nd := mkNode.

Definition node_eqb (a b : node) : bool := (n_id a =? n_id b) && (n_pl a =? n_pl b).
Fixpoint nodes_eqb (a b : list node) : bool :=
  match a, b with
  | [], [] => true
  | x :: a', y :: b' => node_eqb x y && nodes_eqb a' b'
  | _, _ => false
  end.

(* ---------- sorting by distance to a key (any stable or unstable sort gives the
   same list when ids are distinct: Proofs/Routing.v sorted_unique) ---------- *)
Module DistOrder <: TotalLeBool.
  Definition t := (N * node)%type.
  Definition leb (a b : t) : bool := fst a <=? fst b.
  Theorem leb_total : forall a b, leb a b = true \/ leb b a = true.
  Proof. intros a b. unfold leb. destruct (N.leb_spec (fst a) (fst b)); [left; reflexivity|right; apply N.leb_le; lia]. Qed.
End DistOrder.
Module DistSort := Sort DistOrder.

Definition with_dist (key : N) (x : node) : N * node := (dist key (n_id x), x).
Definition sort_by_dist (key : N) (l : list node) : list node :=
  map snd (DistSort.sort (map (with_dist key) l)).

(* Iterator::take(n) for an N count (no conversion of a huge count to nat) *)
Fixpoint takeN (n : N) (l : list node) : list node :=
  match l with
  | [] => []
  | x :: tl => if n =? 0 then [] else x :: takeN (n - 1) tl
  end.

(* ---------- table ---------- *)
Record table := mkT { t_local : N; t_cap : N; t_buckets : N -> list node }.

Definition empty_table (local cap : N) : table := mkT local cap (fun _ => []).
Definition set_bucket (t : table) (i : N) (b : list node) : table :=
  mkT (t_local t) (t_cap t) (fun j => if j =? i then b else t_buckets t j).

(* [0; 1; ...; 255] *)
Definition bucket_indices : list N := map N.of_nat (seq 0 256).
Definition all_nodes (t : table) : list node := flat_map (t_buckets t) bucket_indices.
Definition ids (l : list node) : list N := map n_id l.
Definition size (t : table) : N := N.of_nat (length (all_nodes t)).

Definition has_id (id : N) (b : list node) : bool := existsb (fun y => n_id y =? id) b.
Definition without_id (id : N) (b : list node) : list node := filter (fun y => negb (n_id y =? id)) b.

(* KBucket::add_node.  An id that is already listed is a liveness refresh: the
   stored entry (with the address it was admitted under) moves to the tail. *)
Definition bucket_add (cap : N) (b : list node) (x : node) : option (list node) :=
  match find (fun y => n_id y =? n_id x) b with
  | Some old => Some (without_id (n_id x) b ++ [old])
  | None => if N.of_nat (length b) <? cap then Some (b ++ [x]) else None
  end.

(* KademliaRoutingTable::add_node: the local id is refused *)
Definition table_add (t : table) (x : node) : table * bool :=
  if n_id x =? t_local t then (t, false)
  else
    let i := bucket_index (t_local t) (n_id x) in
    match bucket_add (t_cap t) (t_buckets t i) x with
    | Some b => (set_bucket t i b, true)
    | None => (t, false)
    end.

(* KademliaRoutingTable::remove_node *)
Definition table_remove (t : table) (id : N) : table :=
  let i := bucket_index (t_local t) id in
  set_bucket t i (without_id id (t_buckets t i)).

Definition table_contains (t : table) (id : N) : bool :=
  has_id id (t_buckets t (bucket_index (t_local t) id)).

(* DhtCoreEngine::join_network: adds in order, stops at the first refusal *)
Fixpoint table_join (t : table) (l : list node) : table * bool :=
  match l with
  | [] => (t, true)
  | x :: tl => let '(t1, ok) := table_add t x in
               if ok then table_join t1 tl else (t1, false)
  end.

(* DhtCoreEngine::add_node.  [gate] = verdict of the admission gates (close-group
   validator, IP and region diversity - property C13), an input here.  The local
   id and ids already listed never reach the gates. *)
Definition engine_add (t : table) (x : node) (gate : bool) : table * bool :=
  if (n_id x =? t_local t) || table_contains t (n_id x) then table_add t x
  else if gate then table_add t x else (t, false).

(* ---------- closest nodes: the bucket walk of find_closest_nodes ---------- *)
(* offsets 0..255 outwards from the target bucket; a bucket index outside 0..255
   is skipped; early exit once need = count * CANDIDATE_EXPANSION_FACTOR
   candidates are collected AND no unvisited bucket can hold a closer node
   (only the target bucket visited, or every bucket above the target visited). *)
Fixpoint walk (t : table) (target need : N) (offs : list N) (acc : list node) : list node :=
  match offs with
  | [] => acc
  | o :: rest =>
      let acc1 := if target + o <? RT_BUCKET_COUNT then acc ++ t_buckets t (target + o) else acc in
      let acc2 := if (0 <? o) && (o <=? target) then acc1 ++ t_buckets t (target - o) else acc1 in
      if (need <=? N.of_nat (length acc2)) && ((o =? 0) || (RT_BUCKET_COUNT - 1 <=? target + o))
      then acc2
      else walk t target need rest acc2
  end.

Definition candidates (t : table) (key count : N) : list node :=
  walk t (bucket_index (t_local t) key) (count * RT_CANDIDATE_EXPANSION_FACTOR) bucket_indices [].

Definition closest (t : table) (key count : N) : list node :=
  takeN count (sort_by_dist key (candidates t key count)).

(* the specification: the count entries of the whole table nearest to key *)
Definition closest_spec (t : table) (key count : N) : list node :=
  firstn (N.to_nat count) (sort_by_dist key (all_nodes t)).

(* handle_request: FindNode caps the count, FindValue (value absent) uses K *)
Definition handle_find_node (t : table) (key count : N) : list node :=
  closest t key (N.min count RT_MAX_FIND_NODE_COUNT).
Definition handle_find_value (t : table) (key : N) : list node :=
  closest t key RT_FIND_VALUE_COUNT.

(* ---------- the faulty walk of the unrepaired source (F02a, F02b), kept only
   for the refutation witnesses in Props/C02.v ---------- *)
Fixpoint walk_old (t : table) (target need : N) (offs : list N) (acc : list node) : list node :=
  match offs with
  | [] => acc
  | o :: rest =>
      let above := N.min (target + o) 255 in
      let acc1 := acc ++ t_buckets t above in
      let below := target - o in
      let acc2 := if (0 <? o) && negb (below =? above) then acc1 ++ t_buckets t below else acc1 in
      if need <=? N.of_nat (length acc2) then acc2 else walk_old t target need rest acc2
  end.
Definition closest_old (t : table) (key count : N) : list node :=
  takeN count (sort_by_dist key
    (walk_old t (bucket_index (t_local t) key) (count * RT_CANDIDATE_EXPANSION_FACTOR) bucket_indices [])).
(* the unrepaired insertion (F02c): push when there is room *)
Definition table_add_old (t : table) (x : node) : table * bool :=
  let i := bucket_index (t_local t) (n_id x) in
  if N.of_nat (length (t_buckets t i)) <? t_cap t then (set_bucket t i (t_buckets t i ++ [x]), true) else (t, false).

(* ---------- operation histories ---------- *)
Inductive op :=
| Join (l : list node)
| Add (x : node) (gate : bool)
| Fail (id : N)            (* handle_node_failure *)
| Evict (id : N)           (* evict_node / evict_node_for_security *)
| Find (key count : N)     (* find_nodes *)
| ReqFindNode (key count : N)
| ReqFindValue (key : N).

Inductive obs := OOk | OErr | ONodes (l : list node).
Definition of_ok (b : bool) : obs := if b then OOk else OErr.

Definition step (t : table) (o : op) : table * obs :=
  match o with
  | Join l => let '(t1, ok) := table_join t l in (t1, of_ok ok)
  | Add x gate => let '(t1, ok) := engine_add t x gate in (t1, of_ok ok)
  | Fail id => (table_remove t id, OOk)
  | Evict id => (table_remove t id, OOk)
  | Find key count => (t, ONodes (closest t key count))
  | ReqFindNode key count => (t, ONodes (handle_find_node t key count))
  | ReqFindValue key => (t, ONodes (handle_find_value t key))
  end.

Fixpoint run (t : table) (ops : list op) : table * list obs :=
  match ops with
  | [] => (t, [])
  | o :: tl => let '(t1, r) := step t o in
               let '(t2, rs) := run t1 tl in (t2, r :: rs)
  end.

Definition start (local : N) : table := empty_table local RT_BUCKET_K.

(* the ids mentioned by an operation are 256-bit values *)
Definition op_okb (o : op) : bool :=
  match o with
  | Join l => forallb (fun x => key_okb (n_id x)) l
  | Add x _ => key_okb (n_id x)
  | Fail id | Evict id => key_okb id
  | Find key _ | ReqFindNode key _ | ReqFindValue key => key_okb key
  end.

(* ---------- manager-level reply rule (DhtNetworkManager::handle_lookup_request) ----------
   Everything the node knows = connected peers ++ routing-table entries, one entry per
   DHT key (the first, i.e. the connected/dialable one, wins), minus the node itself and the
   requester, nearest first, at most [cap].  [n_id] is the DHT key, the identifier under
   which the peer is named travels in the payload. *)
Fixpoint dedupe_ids (l : list node) : list node :=
  match l with
  | [] => []
  | x :: tl => x :: without_id (n_id x) (dedupe_ids tl)
  end.

Definition eligible (is_self : node -> bool) (requester_key : N) (x : node) : bool :=
  negb (is_self x) && negb (n_id x =? requester_key).

(* find_closest_nodes_local (everything known, not the node itself, nearest [cap]) followed by
   filter_response_nodes (the requester is dropped AFTER the cut, as the code does: a requester
   among the nearest [cap] leaves a reply of cap - 1 nodes). *)
Definition known_others (is_self : node -> bool) (connected from_table : list node) : list node :=
  filter (fun x => negb (is_self x)) (dedupe_ids (connected ++ from_table)).
Definition local_closest (is_self : node -> bool) (key cap : N) (connected from_table : list node) : list node :=
  takeN cap (sort_by_dist key (known_others is_self connected from_table)).
Definition reply_nodes (is_self : node -> bool) (requester_key key cap : N)
                       (connected from_table : list node) : list node :=
  filter (fun x => negb (n_id x =? requester_key)) (local_closest is_self key cap connected from_table).

(* ---------- executable interface for the correspondence check ---------- *)
Definition obs_eqb (a b : obs) : bool :=
  match a, b with
  | OOk, OOk | OErr, OErr => true
  | ONodes x, ONodes y => nodes_eqb x y
  | _, _ => false
  end.
Fixpoint obs_list_eqb (a b : list obs) : bool :=
  match a, b with
  | [], [] => true
  | x :: a', y :: b' => obs_eqb x y && obs_list_eqb a' b'
  | _, _ => false
  end.

Definition case3 := (N * list op * list obs)%type.

(* model output = observed output, for every operation of the history *)
Definition check_case (c : case3) : bool :=
  let '(local, ops, observed) := c in
  key_okb local && forallb op_okb ops && obs_list_eqb (snd (run (start local) ops)) observed.

(* strictly ascending distances (hence no id twice) *)
Fixpoint strictly_ascending (key : N) (l : list node) : bool :=
  match l with
  | x :: ((y :: _) as tl) => (dist key (n_id x) <? dist key (n_id y)) && strictly_ascending key tl
  | _ => true
  end.

(* The conclusion of C02_closest_exact / C02_request_capped evaluated on a node list
   the IMPLEMENTATION returned, against the table content the history produces:
   right length, ascending without repeats, local id absent, every entry is a table
   entry, nothing closer was left out. *)
Definition answer_ok (t : table) (key cap : N) (res : list node) : bool :=
  let all := all_nodes t in
  (N.of_nat (length res) =? N.min cap (N.of_nat (length all))) &&
  strictly_ascending key res &&
  forallb (fun x => negb (n_id x =? t_local t)) res &&
  forallb (fun x => existsb (node_eqb x) all) res &&
  match last res (nd 0 0), res with
  | _, [] => true
  | far, _ => forallb (fun y => existsb (node_eqb y) res || (dist key (n_id far) <? dist key (n_id y))) all
  end.

(* the table itself: no id twice, local id absent, right bucket, bucket size <= cap *)
Fixpoint nodup_N (l : list N) : bool :=
  match l with [] => true | x :: tl => negb (existsb (N.eqb x) tl) && nodup_N tl end.
Definition table_ok (t : table) : bool :=
  nodup_N (ids (all_nodes t)) &&
  forallb (fun i => (N.of_nat (length (t_buckets t i)) <=? t_cap t) &&
                    forallb (fun x => negb (n_id x =? t_local t) && (bucket_index (t_local t) (n_id x) =? i)) (t_buckets t i))
          bucket_indices.

Fixpoint prop_run (t : table) (ops : list op) (observed : list obs) : bool :=
  match ops, observed with
  | [], [] => table_ok t
  | o :: ops', r :: obs' =>
      let ok := match o, r with
                | Find key count, ONodes res => answer_ok t key count res
                | ReqFindNode key count, ONodes res =>
                    answer_ok t key (N.min count RT_MAX_FIND_NODE_COUNT) res && (N.of_nat (length res) <=? 20)
                | ReqFindValue key, ONodes res => answer_ok t key RT_FIND_VALUE_COUNT res && (N.of_nat (length res) <=? 8)
                | (Find _ _ | ReqFindNode _ _ | ReqFindValue _), _ => false
                | _, ONodes _ => false
                | _, _ => true
                end in
      ok && prop_run (fst (step t o)) ops' obs'
  | _, _ => false
  end.

Definition prop_case (c : case3) : bool :=
  let '(local, ops, observed) := c in prop_run (start local) ops observed.

(* ---------- manager-level replies of real nodes (harness c02net) ----------
   One case = one NodesFound reply seen on the wire: the DHT keys under which the replying node
   counts as itself, the requester, the target key, the cap, what the replier knew BEFORE the
   lookup started and AFTER it ended (its knowledge can only grow in between: the requester and
   other lookups dial it), and the reply.  The reply must be [reply_nodes] of SOME knowledge K
   with before <= K <= after; if it is, it is also [reply_nodes] of reply ++ before (the requester
   was outside the nearest cap) or of requester :: reply ++ before (it was inside and was
   dropped after the cut), which is what is evaluated. *)
Definition rcase := (list N * node * N * N * list node * list node * list node)%type.
Definition is_self_in (selfks : list N) (x : node) : bool := existsb (N.eqb (n_id x)) selfks.
Definition subset_nodes (a b : list node) : bool := forallb (fun x => existsb (node_eqb x) b) a.
Definition reply_from (selfks : list N) (req : node) (key cap : N) (k reply : list node) : bool :=
  nodes_eqb reply (reply_nodes (is_self_in selfks) (n_id req) key cap k []).
Definition check_rcase (c : rcase) : bool :=
  let '(selfks, req, key, cap, before, after, reply) := c in
  subset_nodes reply after &&
  (reply_from selfks req key cap (reply ++ before) reply ||
   (existsb (node_eqb req) after && reply_from selfks req key cap (req :: reply ++ before) reply)).

(* the conclusion of C02_reply evaluated on the implementation's reply *)
Definition prop_rcase (c : rcase) : bool :=
  let '(selfks, req, key, cap, before, after, reply) := c in
  let n := N.of_nat (length reply) in
  (n <=? cap) && strictly_ascending key reply &&
  forallb (fun x => negb (is_self_in selfks x) && negb (n_id x =? n_id req) && existsb (node_eqb x) after) reply &&
  forallb (fun u => is_self_in selfks u || (n_id u =? n_id req) || existsb (node_eqb u) reply ||
                    (forallb (fun x => dist key (n_id x) <? dist key (n_id u)) reply &&
                     ((cap <=? n) || ((cap <=? n + 1) && existsb (node_eqb req) after &&
                                      (dist key (n_id req) <? dist key (n_id u)))))) before.
