(* Model of src/adaptive/trust.rs (EigenTrustEngine) for C10 and C11.  Definitions only.
   ONE generic definition over a [GField]; instantiated over R (Proofs/Trust.v: theorems),
   Q (exact evaluation of witnesses) and PrimFloat binary64 (correspondence with the Rust code).
   Constants come from Gen/TrustConsts.v, regenerated from the source on every run.

   The model is the code as it stands after the two repairs (fix commits in the repository):
   F10a  nodes without statistics get the multiplier of default statistics (not 1);
   F11a  the mass of nodes without outgoing statements follows the teleport distribution
         (it is not dropped and re-spread proportionally);
   F11b  the convergence exit is taken only after MIN_ITERATIONS (4) rounds. *)
From SV Require Import Lib.Base Lib.GenericField Gen.TrustConsts.
From Coq Require Import QArith.
Local Open Scope N_scope.

(* ---------- per-node statistics (u64 counters; N here, no overflow below 2^64) ---------- *)
Record nstat := mkS { s_up : N; s_ok : N; s_fail : N; s_sto : N; s_bw : N; s_cpu : N }.
Definition s0 : nstat := mkS 0 0 0 0 0 0.

Inductive supd :=
| UUptime (x : N) | UCorrect | UFailed | UUnavailable | UCorrupted | UProtocol
| UStorage (x : N) | UBandwidth (x : N) | UCompute (x : N).

(* EigenTrustEngine::update_node_stats *)
Definition apply_upd (s : nstat) (u : supd) : nstat :=
  match u with
  | UUptime x    => mkS (s_up s + x) (s_ok s) (s_fail s) (s_sto s) (s_bw s) (s_cpu s)
  | UCorrect     => mkS (s_up s) (s_ok s + TRUST_W_CORRECT) (s_fail s) (s_sto s) (s_bw s) (s_cpu s)
  | UFailed      => mkS (s_up s) (s_ok s) (s_fail s + TRUST_W_FAILED) (s_sto s) (s_bw s) (s_cpu s)
  | UUnavailable => mkS (s_up s) (s_ok s) (s_fail s + TRUST_W_UNAVAILABLE) (s_sto s) (s_bw s) (s_cpu s)
  | UCorrupted   => mkS (s_up s) (s_ok s) (s_fail s + TRUST_W_CORRUPTED) (s_sto s) (s_bw s) (s_cpu s)
  | UProtocol    => mkS (s_up s) (s_ok s) (s_fail s + TRUST_W_PROTOCOL) (s_sto s) (s_bw s) (s_cpu s)
  | UStorage x   => mkS (s_up s) (s_ok s) (s_fail s) (s_sto s + x) (s_bw s) (s_cpu s)
  | UBandwidth x => mkS (s_up s) (s_ok s) (s_fail s) (s_sto s) (s_bw s + x) (s_cpu s)
  | UCompute x   => mkS (s_up s) (s_ok s) (s_fail s) (s_sto s) (s_bw s) (s_cpu s + x)
  end.

Definition memN (x : N) (l : list N) : bool := existsb (N.eqb x) l.

(* first-occurrence dedupe (HashSet semantics; the order is irrelevant to every result) *)
Fixpoint dedupN (l : list N) : list N :=
  match l with
  | [] => []
  | x :: r => x :: filter (fun y => negb (y =? x)) (dedupN r)
  end.

(* association lists keyed by N *)
Fixpoint aget {A} (l : list (N * A)) (k : N) : option A :=
  match l with
  | [] => None
  | (k', a) :: r => if k' =? k then Some a else aget r k
  end.
Fixpoint aset {A} (l : list (N * A)) (k : N) (a : A) : list (N * A) :=
  match l with
  | [] => [(k, a)]
  | (k', a') :: r => if k' =? k then (k, a) :: r else (k', a') :: aset r k a
  end.
Definition adel {A} (l : list (N * A)) (k : N) : list (N * A) :=
  filter (fun p => negb (fst p =? k)) l.

Section Generic.
Context {F : GField}.
Notation T := (T F).
(* ln1p x  =  (1.0 + x as f64).ln()   -- an oracle: libm is not modelled *)
Variable ln1p : N -> T.

Definition fsum (l : list T) : T := fold_left add l zero.
Definition fmin (a b : T) : T := if ltb b a then b else a.

Definition alpha : T := of_Q TRUST_ALPHA.
Definition conv_thr : T := of_Q TRUST_CONV_THRESHOLD.

(* ---------- state ---------- *)
Record edge := mkEdge { e_from : N; e_to : N; e_val : T }.
Definition vec := list (N * T).

Record state := mkSt {
  st_local : list edge;            (* local_trust: one entry per (from,to) *)
  st_stats : list (N * nstat);     (* node_stats *)
  st_pre   : list N;               (* pre_trusted_nodes (duplicate free) *)
  st_cache : vec;                  (* trust_cache: last published scores *)
}.

Definition vget (v : vec) (i : N) : T := match aget v i with Some x => x | None => zero end.

(* EigenTrustEngine::new *)
Definition init (pre : list N) : state :=
  let p := dedupN pre in
  mkSt [] [] p (map (fun i => (i, of_Q TRUST_ANCHOR_INITIAL)) p).

(* update_local_trust / TrustProvider::update_trust: first report sets the value, later ones EMA *)
Fixpoint upd_local (l : list edge) (f t : N) (nv : T) : list edge :=
  match l with
  | [] => [mkEdge f t nv]
  | e :: r =>
      if (e_from e =? f) && (e_to e =? t)
      then mkEdge f t (add (mul (of_Q TRUST_EMA_KEEP) (e_val e)) (mul (of_Q TRUST_EMA_NEW) nv)) :: r
      else e :: upd_local r f t nv
  end.

Definition stats_of (st : state) (i : N) : nstat :=
  match aget (st_stats st) i with Some s => s | None => s0 end.

(* ---------- compute_multi_factor_adjustment ---------- *)
Definition response_rate (s : nstat) : T :=
  if 0 <? s_ok s + s_fail s then div (of_N (s_ok s)) (of_N (s_ok s + s_fail s))
  else of_Q TRUST_MF_DEFAULT_RATE.

Definition factor (s : nstat) : T :=
  let storage_factor := div (ln1p (s_sto s)) (of_Q TRUST_MF_LOG_DIV_STORAGE) in
  let bandwidth_factor := div (ln1p (s_bw s)) (of_Q TRUST_MF_LOG_DIV_BANDWIDTH) in
  let compute_factor := div (ln1p (s_cpu s)) (of_Q TRUST_MF_LOG_DIV_COMPUTE) in
  let uptime_factor := fmin (div (of_N (s_up s)) (of_Q TRUST_MF_UPTIME_DAY)) (of_Q TRUST_MF_UPTIME_CAP) in
  add (add (add (add (mul (of_Q TRUST_MF_W_RATE) (response_rate s))
                     (mul (of_Q TRUST_MF_W_UPTIME) uptime_factor))
                (mul (of_Q TRUST_MF_W_STORAGE) storage_factor))
           (mul (of_Q TRUST_MF_W_BANDWIDTH) bandwidth_factor))
      (mul (of_Q TRUST_MF_W_COMPUTE) compute_factor).

(* ---------- the graph ---------- *)
Definition node_set (st : state) : list N :=
  dedupN (flat_map (fun e => [e_from e; e_to e]) (st_local st) ++ map fst (st_stats st)).

(* anchors that are in no report: they enter the vector through the teleport step only *)
Definition extra_anchors (st : state) : list N :=
  filter (fun a => negb (memN a (node_set st))) (st_pre st).

Definition keys (st : state) : list N := node_set st ++ extra_anchors st.

Definition pos_edges (l : list edge) : list edge := filter (fun e => ltb zero (e_val e)) l.

Definition outsum (es : list edge) (j : N) : T :=
  fsum (map e_val (filter (fun e => e_from e =? j) es)).

Definition has_out (es : list edge) (j : N) : bool := existsb (fun e => e_from e =? j) es.

(* row-normalised positive edges *)
Definition wedges (es : list edge) : list edge :=
  map (fun e => mkEdge (e_from e) (e_to e) (div (e_val e) (outsum es (e_from e)))) es.

(* ---------- one power-iteration round ---------- *)
Section Round.
Variable nodes ks pre : list N.   (* node_set, keys, anchors *)
Variable es wes : list edge.      (* positive edges, row-normalised edges *)

Definition nF : T := of_N (N.of_nat (length nodes)).
Definition pre_val : T := div one (of_N (N.of_nat (length pre))).

Definition incoming (v : vec) (i : N) : T :=
  fsum (map (fun e => mul (e_val e) (vget v (e_from e))) (filter (fun e => e_to e =? i) wes)).

(* mass held by nodes that make no outgoing statement *)
Definition dangling (v : vec) : T :=
  fsum (map (fun k => vget v k) (filter (fun k => negb (has_out es k)) ks)).

Definition teleport_mass (v : vec) : T := add alpha (mul (sub one alpha) (dangling v)).

Definition raw_round (v : vec) : vec :=
  let tm := teleport_mass v in
  match pre with
  | [] => map (fun i => (i, add (mul (sub one alpha) (incoming v i)) (div tm nF))) ks
  | _ => map (fun i => (i, if memN i pre
                           then add (mul (sub one alpha) (incoming v i)) (mul tm pre_val)
                           else mul (sub one alpha) (incoming v i))) ks
  end.

Definition normalise (v : vec) : vec :=
  let s := fsum (map snd v) in
  if ltb zero s then map (fun p => (fst p, div (snd p) s)) v else v.

Definition l1diff (v nv : vec) : T :=
  fsum (map (fun i => absf (sub (vget v i) (vget nv i))) nodes).

Definition round (v : vec) : vec * T :=
  let nv := normalise (raw_round v) in (nv, l1diff v nv).

(* the loop `for iteration in 0..MAX_ITERATIONS` with its three exits (the convergence exit only once
   MIN_ITERATIONS rounds have run); returns the vector and the number of rounds that ran *)
Fixpoint iterate (fuel : nat) (iter : N) (v : vec) : vec * N :=
  match fuel with
  | O => (v, iter)
  | S k =>
      let '(nv, diff) := round v in
      if ltb diff conv_thr && (TRUST_MIN_ITERATIONS <=? iter + TRUST_MIN_ITER_OFFSET) then (nv, iter + 1)
      else if (TRUST_CUT1_N <? N.of_nat (length nodes)) && (TRUST_CUT1_ITER <? iter) then (nv, iter + 1)
      else if (TRUST_CUT2_N <? N.of_nat (length nodes)) && (TRUST_CUT2_ITER <? iter) then (nv, iter + 1)
      else iterate k (iter + 1) nv
  end.

Definition init_vec : vec :=
  map (fun i => (i, div one nF)) nodes.

End Round.

Definition power (st : state) : vec * N :=
  let nodes := node_set st in
  let es := pos_edges (st_local st) in
  iterate nodes (keys st) (st_pre st) es (wedges es)
          (N.to_nat TRUST_MAX_ITERATIONS) 0 (init_vec nodes).

(* multi-factor multiplier, decay [d] = decay_rate^(elapsed hours), final normalisation *)
Definition finalise (st : state) (d : T) (v : vec) : vec :=
  let scaled := map (fun p => (fst p, mul (mul (snd p) (factor (stats_of st (fst p)))) d)) v in
  normalise scaled.

(* compute_global_trust_internal: the returned map *)
Definition global_trust (st : state) (d : T) : vec :=
  match node_set st with
  | [] => []
  | _ => finalise st d (fst (power st))
  end.

Definition rounds_run (st : state) : N := snd (power st).

Definition publish (c : vec) (m : vec) : vec :=
  fold_left (fun c p => aset c (fst p) (snd p)) m c.

(* ---------- operations ---------- *)
Inductive op :=
| UpdLocal (from to : N) (ok : bool)
| UpdStats (i : N) (u : supd)
| AddPre (i : N)
| RemPre (i : N)
| RemoveNode (i : N)
| Compute (d : T)        (* d: the decay factor the clock produced for this call *)
| Query (i : N).         (* TrustProvider::get_trust *)

Inductive out := ONone | OMap (m : vec) | OVal (x : T).

Definition step (st : state) (o : op) : state * out :=
  match o with
  | UpdLocal f t ok =>
      (mkSt (upd_local (st_local st) f t (if ok then one else zero)) (st_stats st) (st_pre st) (st_cache st), ONone)
  | UpdStats i u =>
      (mkSt (st_local st) (aset (st_stats st) i (apply_upd (stats_of st i) u)) (st_pre st) (st_cache st), ONone)
  | AddPre i =>
      (mkSt (st_local st) (st_stats st) (if memN i (st_pre st) then st_pre st else st_pre st ++ [i])
            (aset (st_cache st) i (of_Q TRUST_ANCHOR_INITIAL_ADD)), ONone)
  | RemPre i =>
      (mkSt (st_local st) (st_stats st) (filter (fun a => negb (a =? i)) (st_pre st)) (st_cache st), ONone)
  | RemoveNode i =>
      (mkSt (filter (fun e => negb (e_from e =? i) && negb (e_to e =? i)) (st_local st))
            (st_stats st) (st_pre st) (adel (st_cache st) i), ONone)
  | Compute d =>
      let m := global_trust st d in
      (mkSt (st_local st) (st_stats st) (st_pre st) (publish (st_cache st) m), OMap m)
  | Query i =>
      (st, OVal (match aget (st_cache st) i with Some x => x | None => of_Q TRUST_UNKNOWN_SCORE end))
  end.

Fixpoint run (st : state) (ops : list op) : state * list out :=
  match ops with
  | [] => (st, [])
  | o :: tl => let '(st1, r) := step st o in
               let '(st2, rs) := run st1 tl in (st2, r :: rs)
  end.

Definition vsum (v : vec) : T := fsum (map snd v).
Definition mass (v : vec) (Sy : list N) : T := fsum (map (vget v) Sy).

End Generic.

Arguments edge : clear implicits.
Arguments state : clear implicits.
Arguments op : clear implicits.
Arguments out : clear implicits.
Arguments vec : clear implicits.

(* ======================= executable interface for the correspondence check ======================= *)
From Coq Require Import PrimFloat.

(* the ln oracle: table of (x, (1.0 + x as f64).ln()) recorded from the implementation's libm *)
Definition ln_table (tbl : list (N * float)) (x : N) : T FloatF :=
  match aget tbl x with Some y => y | None => PrimFloat.nan end.

Definition tol : float := 0x1.12e0be826d695p-30%float.   (* 1e-9 *)

Definition fclose (a b : float) : bool := PrimFloat.leb (PrimFloat.abs (PrimFloat.sub a b)) tol.

Definition vec_close (model obs : vec FloatF) : bool :=
  Nat.eqb (length model) (length obs) &&
  forallb (fun p => match aget model (fst p) with Some y => fclose (snd p) y | None => false end) obs.

Definition out_close (m o : out FloatF) : bool :=
  match m, o with
  | ONone, ONone => true
  | OMap a, OMap b => vec_close a b
  | OVal x, OVal y => fclose x y
  | _, _ => false
  end.

Fixpoint outs_close (ms os : list (out FloatF)) : bool :=
  match ms, os with
  | [], [] => true
  | m :: ms', o :: os' => out_close m o && outs_close ms' os'
  | _, _ => false
  end.

(* float-typed constructors for case files (the implicit field cannot be inferred from a literal) *)
Definition fCompute (d : float) : op FloatF := @Compute FloatF d.
Definition fMap (m : list (N * float)) : out FloatF := @OMap FloatF m.
Definition fVal (x : float) : out FloatF := @OVal FloatF x.
Definition fNone : out FloatF := @ONone FloatF.

(* a case: ln table, initial anchors, operations, observed outputs (one per operation) *)
Definition tcase := (list (N * float) * list N * list (op FloatF) * list (out FloatF))%type.

Definition check_case (c : tcase) : bool :=
  let '(tbl, pre, ops, obs) := c in
  outs_close (snd (run (ln_table tbl) (init pre) ops)) obs.

(* ---- conclusions of the C10 theorems evaluated on the IMPLEMENTATION's outputs ---- *)
Definition fle (a b : float) : bool := PrimFloat.leb a (PrimFloat.add b tol).

(* C10_distribution on one returned map: every score finite and in [0,1]; sum = 1 or all = 0 *)
Definition dist_ok (m : vec FloatF) : bool :=
  forallb (fun p => PrimFloat.leb 0 (snd p) && PrimFloat.leb (snd p) 1) m &&
  (match m with
   | [] => true
   | _ => let s := @fsum FloatF (map snd m) in
          fclose s 1 || forallb (fun p => PrimFloat.eqb (snd p) 0) m
   end).

(* C10_query on the implementation's own outputs: every Query answer equals the score of the last
   OBSERVED map that contained the id (the property: "returns the last computed score"), 0.9 for
   an anchor no computation has scored yet, 0 for unknown or removed ids.  [pub] = ids whose
   published score comes from a computation.  add_pre_trusted(i) for such an id is expected to keep
   the computed score -- the code overwrites it with 0.9: known finding c10-addpre-overwrite
   (Props/C10.v: C10_query_refuted); those cases fail this predicate and are tagged by the harness. *)
Fixpoint obs_cache_ok (c : vec FloatF) (pub : list N) (ops : list (op FloatF)) (obs : list (out FloatF)) : bool :=
  match ops, obs with
  | o :: ops', r :: obs' =>
      match o, r with
      | Compute _, OMap m => dist_ok m && obs_cache_ok (publish c m) (map fst m ++ pub) ops' obs'
      | Query i, OVal x =>
          PrimFloat.eqb x (match aget c i with Some y => y | None => 0%float end) && obs_cache_ok c pub ops' obs'
      | AddPre i, _ =>
          obs_cache_ok (if memN i pub then c else aset c i (@of_Q FloatF TRUST_ANCHOR_INITIAL_ADD)) pub ops' obs'
      | RemoveNode i, _ => obs_cache_ok (adel c i) (filter (fun j => negb (j =? i)) pub) ops' obs'
      | _, _ => obs_cache_ok c pub ops' obs'
      end
  | [], [] => true
  | _, _ => false
  end.

Definition prop_case (c : tcase) : bool :=
  let '(tbl, pre, ops, obs) := c in
  obs_cache_ok (map (fun i => (i, @of_Q FloatF TRUST_ANCHOR_INITIAL)) (dedupN pre)) [] ops obs.

(* ---- C11 cases: a graph-building history WITHOUT computes, then one compute; [Sy] is the set of
   identities nobody outside vouches for.  The premises of the C11 theorems are decided here, on
   the model state, so a generator mistake shows up as a failing case rather than a vacuous pass. *)
Definition c11case := (list (N * float) * list N * list (op FloatF) * float * list N * vec FloatF)%type.

Definition check_c11 (c : c11case) : bool :=
  let '(tbl, pre, ops, d, Sy, obs) := c in
  let st := fst (run (ln_table tbl) (init pre) ops) in
  vec_close (global_trust (ln_table tbl) st d) obs.

Definition closed_set (st : state FloatF) (Sy : list N) : bool :=
  let ns := node_set st in
  forallb (fun e => negb (memN (e_to e) Sy) || memN (e_from e) Sy) (pos_edges (st_local st)) &&
  forallb (fun i => memN i ns && negb (memN i (st_pre st))) Sy &&
  Nat.eqb (length (dedupN Sy)) (length Sy).

Definition equal_factors (tbl : list (N * float)) (st : state FloatF) : bool :=
  match keys st with
  | [] => true
  | k :: r => forallb (fun i => PrimFloat.eqb (factor (ln_table tbl) (stats_of st i))
                                              (factor (ln_table tbl) (stats_of st k))) r
  end.

Definition prop_c11 (c : c11case) : bool :=
  let '(tbl, pre, ops, d, Sy, obs) := c in
  let st := fst (run (ln_table tbl) (init pre) ops) in
  let n := N.of_nat (length (node_set st)) in
  let k := N.of_nat (length Sy) in
  let a := N.of_nat (length (st_pre st)) in
  let total := @fsum FloatF (map snd obs) in
  let mS := @mass FloatF obs Sy in
  dist_ok obs && equal_factors tbl st && negb (a =? 0) && closed_set st Sy &&
  (* C11_sybil_seventh: unconditional *)
  fle mS (PrimFloat.div (@of_N FloatF k) (PrimFloat.mul 7 (@of_N FloatF n))) &&
  (* C11_small_net *)
  (negb (n <=? 100) || PrimFloat.ltb mS 0x1.0624dd2f1a9fcp-10%float) &&
  (* C11_anchor_floor *)
  forallb (fun x => fle (PrimFloat.mul (PrimFloat.div (@alpha FloatF) (@of_N FloatF a)) total) (vget obs x)) (st_pre st).
