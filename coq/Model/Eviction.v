(* Model of the eviction policy (C16): src/dht/routing_maintenance/eviction.rs (EvictionManager),
   liveness.rs (NodeLivenessState), config.rs (MaintenanceConfig).  Definitions only.

   The manager keeps three maps keyed by node id: liveness states (consecutive failures),
   cached trust scores and explicit marks.  The model keeps, per id, the three optional
   entries plus the list of ids ever touched (to enumerate the candidates).  Trust values are
   of an arbitrary type T with the strict comparison [ltb] the code uses (`score < threshold`):
   the theorems hold for every such type, the correspondence check instantiates T with
   binary64 (PrimFloat), where a NaN score is below nothing. *)
From Coq Require Import Floats.
From SV Require Import Lib.Base Lib.F64 Gen.EvictionConsts.
Local Open Scope N_scope.

(* EvictionReason.  LowTrust carries the score as text ("{:.4}") in the code: text of a float
   is never compared, the model keeps only the variant. *)
Inductive reason := RFailures (n : N) | RLowTrust | RRejected | RStale.

Definition reason_eqb (a b : reason) : bool :=
  match a, b with
  | RFailures x, RFailures y => x =? y
  | RLowTrust, RLowTrust | RRejected, RRejected | RStale, RStale => true
  | _, _ => false
  end.

Section Ev.
  Context {T : Type}.
  Variable ltb : T -> T -> bool.

  Record cfg := mkCfg { max_fail : N; min_trust : T }.

  (* one id: liveness entry (Some n = tracked with n consecutive failures), cached trust, mark *)
  Record pstate := mkP { p_fails : option N; p_trust : option T; p_mark : option reason }.
  Definition p0 : pstate := mkP None None None.

  Record st := mkS { s_of : N -> pstate; s_seen : list N }.
  Definition st0 : st := mkS (fun _ => p0) [].
  Definition upd (s : st) (p : N) (x : pstate) : st :=
    mkS (fun q => if q =? p then x else s_of s q) (p :: s_seen s).

  Inductive ev :=
  | Success (p : N)              (* record_success *)
  | Failure (p : N)              (* record_failure *)
  | Trust (p : N) (t : T)        (* update_trust_score *)
  | Mark (p : N) (r : reason)    (* record_eviction *)
  | Forget (p : N).              (* remove_node *)

  Definition step (s : st) (e : ev) : st :=
    match e with
    | Success p => let x := s_of s p in upd s p (mkP (Some 0) (p_trust x) (p_mark x))
    | Failure p => let x := s_of s p in
                   upd s p (mkP (Some (match p_fails x with Some n => n + 1 | None => 1 end)) (p_trust x) (p_mark x))
    | Trust p t => let x := s_of s p in upd s p (mkP (p_fails x) (Some t) (p_mark x))
    | Mark p r => let x := s_of s p in upd s p (mkP (p_fails x) (p_trust x) (Some r))
    | Forget p => upd s p p0
    end.
  Definition run_from (s : st) (h : list ev) : st := fold_left step h s.
  Definition run (h : list ev) : st := run_from st0 h.

  (* NodeLivenessState::should_evict through EvictionManager::should_evict *)
  Definition fails_evict (c : cfg) (x : pstate) : bool :=
    match p_fails x with Some n => max_fail c <=? n | None => false end.
  (* EvictionManager::should_evict_for_trust *)
  Definition trust_evict (c : cfg) (x : pstate) : bool :=
    match p_trust x with Some t => ltb t (min_trust c) | None => false end.
  Definition fails_of (x : pstate) : N := match p_fails x with Some n => n | None => 0 end.

  (* EvictionManager::get_eviction_reason: marked, then failures, then trust *)
  Definition reason_of (c : cfg) (x : pstate) : option reason :=
    match p_mark x with
    | Some r => Some r
    | None => if fails_evict c x then Some (RFailures (fails_of x))
              else if trust_evict c x then Some RLowTrust else None
    end.
  Definition is_candidate (c : cfg) (x : pstate) : bool :=
    match reason_of c x with Some _ => true | None => false end.

  Fixpoint dedupN (l : list N) : list N :=
    match l with [] => [] | x :: tl => x :: filter (fun y => negb (y =? x)) (dedupN tl) end.

  (* EvictionManager::get_eviction_candidates (as a set: the code walks three hash maps) *)
  Definition candidates (c : cfg) (s : st) : list (N * reason) :=
    flat_map (fun p => match reason_of c (s_of s p) with Some r => [(p, r)] | None => [] end)
             (dedupN (s_seen s)).

  (* ---------- the policy, read off the history (most recent event first) ---------- *)
  (* consecutive failures of p since its last success (or since it was forgotten) *)
  Fixpoint fails_since (p : N) (rh : list ev) : N :=
    match rh with
    | [] => 0
    | Failure q :: tl => if q =? p then 1 + fails_since p tl else fails_since p tl
    | Success q :: tl | Forget q :: tl => if q =? p then 0 else fails_since p tl
    | _ :: tl => fails_since p tl
    end.
  (* p has a liveness entry: a success or failure was recorded since it was last forgotten *)
  Fixpoint tracked (p : N) (rh : list ev) : bool :=
    match rh with
    | [] => false
    | Failure q :: tl | Success q :: tl => if q =? p then true else tracked p tl
    | Forget q :: tl => if q =? p then false else tracked p tl
    | _ :: tl => tracked p tl
    end.
  (* the latest trust update of p since it was last forgotten *)
  Fixpoint last_trust (p : N) (rh : list ev) : option T :=
    match rh with
    | [] => None
    | Trust q t :: tl => if q =? p then Some t else last_trust p tl
    | Forget q :: tl => if q =? p then None else last_trust p tl
    | _ :: tl => last_trust p tl
    end.
  (* the latest explicit mark of p since it was last forgotten *)
  Fixpoint last_mark (p : N) (rh : list ev) : option reason :=
    match rh with
    | [] => None
    | Mark q r :: tl => if q =? p then Some r else last_mark p tl
    | Forget q :: tl => if q =? p then None else last_mark p tl
    | _ :: tl => last_mark p tl
    end.

  (* ---------- histories with observations, for the correspondence check ---------- *)
  Inductive op :=
  | Ev (e : ev)
  | QCands                 (* get_eviction_candidates *)
  | QReason (p : N)        (* get_eviction_reason *)
  | QShouldEvict (p : N)   (* should_evict *)
  | QShouldTrust (p : N)   (* should_evict_for_trust *)
  | QFails (p : N).        (* get_consecutive_failures *)
  Inductive obs := ONone | OCands (l : list (N * reason)) | OReason (r : option reason) | OBool (b : bool) | ONum (n : N).

  Definition observe (c : cfg) (s : st) (o : op) : obs :=
    match o with
    | Ev _ => ONone
    | QCands => OCands (candidates c s)
    | QReason p => OReason (reason_of c (s_of s p))
    | QShouldEvict p => OBool (fails_evict c (s_of s p))
    | QShouldTrust p => OBool (trust_evict c (s_of s p))
    | QFails p => ONum (fails_of (s_of s p))
    end.

  Definition oreason_eqb (a b : option reason) : bool :=
    match a, b with Some x, Some y => reason_eqb x y | None, None => true | _, _ => false end.
  Definition has_cand (l : list (N * reason)) (x : N * reason) : bool :=
    existsb (fun y => (fst y =? fst x) && reason_eqb (snd y) (snd x)) l.
  Fixpoint nodupb (l : list N) : bool :=
    match l with [] => true | x :: tl => negb (existsb (N.eqb x) tl) && nodupb tl end.
  (* same set of (id, reason), no id twice *)
  Definition cands_eqb (a b : list (N * reason)) : bool :=
    nodupb (map fst a) && nodupb (map fst b) && forallb (has_cand b) a && forallb (has_cand a) b.

  Definition obs_eqb (a b : obs) : bool :=
    match a, b with
    | ONone, ONone => true
    | OCands x, OCands y => cands_eqb x y
    | OReason x, OReason y => oreason_eqb x y
    | OBool x, OBool y => Bool.eqb x y
    | ONum x, ONum y => x =? y
    | _, _ => false
    end.

  (* model vs observed, operation by operation *)
  Fixpoint check_run (c : cfg) (s : st) (ops : list op) (observed : list obs) : bool :=
    match ops, observed with
    | [], [] => true
    | o :: ops', r :: obs' =>
        obs_eqb (observe c s o) r &&
        check_run c (match o with Ev e => step s e | _ => s end) ops' obs'
    | _, _ => false
    end.

  (* The conclusion of C16_candidate_iff / C16_reason_precedence evaluated on what the
     IMPLEMENTATION answered, against the policy read directly off the history (not through
     the incremental state): [rh] = the events so far, most recent first. *)
  Definition policy_reason (c : cfg) (p : N) (rh : list ev) : option reason :=
    match last_mark p rh with
    | Some r => Some r
    | None =>
        if tracked p rh && (max_fail c <=? fails_since p rh) then Some (RFailures (fails_since p rh))
        else match last_trust p rh with
             | Some t => if ltb t (min_trust c) then Some RLowTrust else None
             | None => None
             end
    end.
  Definition ev_peer (e : ev) : N :=
    match e with Success p | Failure p | Trust p _ | Mark p _ | Forget p => p end.
  Definition policy_obs_ok (c : cfg) (rh : list ev) (o : op) (r : obs) : bool :=
    match o, r with
    | Ev _, ONone => true
    | QCands, OCands l =>
        nodupb (map fst l) &&
        forallb (fun x => oreason_eqb (policy_reason c (fst x) rh) (Some (snd x))) l &&
        forallb (fun p => match policy_reason c p rh with
                          | Some r => has_cand l (p, r) | None => true end) (map ev_peer rh)
    | QReason p, OReason x => oreason_eqb (policy_reason c p rh) x
    | QShouldEvict p, OBool b => Bool.eqb b (tracked p rh && (max_fail c <=? fails_since p rh))
    | QShouldTrust p, OBool b =>
        Bool.eqb b (match last_trust p rh with Some t => ltb t (min_trust c) | None => false end)
    | QFails p, ONum n => n =? fails_since p rh
    | _, _ => false
    end.
  Fixpoint prop_run (c : cfg) (rh : list ev) (ops : list op) (observed : list obs) : bool :=
    match ops, observed with
    | [], [] => true
    | o :: ops', r :: obs' =>
        policy_obs_ok c rh o r && prop_run c (match o with Ev e => e :: rh | _ => rh end) ops' obs'
    | _, _ => false
    end.
End Ev.

(* ---------- binary64 instance used by the case files ---------- *)
Definition fcase := (N * float * list (@op float) * list obs)%type.   (* max failures, threshold, ops, observed *)
Definition check_case (c : fcase) : bool :=
  let '(mx, thr, ops, observed) := c in check_run PrimFloat.ltb (mkCfg mx thr) st0 ops observed.
Definition prop_case (c : fcase) : bool :=
  let '(mx, thr, ops, observed) := c in prop_run PrimFloat.ltb (mkCfg mx thr) [] ops observed.
Definition fb := f64_of_bits.
