(* Model of src/encrypted_key_storage.rs (C18).  Definitions only.

   Three layers:
   1. the manager as a state machine over a two-file disk (store file + ".tmp"),
      the in-memory seed cache and its password verifier: initialize /
      store_master_seed / retrieve_master_seed / change_password / clear_cache /
      a fresh manager on the same path / a crash at any point of a file update
      (encrypt_and_store = write tmp, then rename);
   2. the store file as bytes: postcard layout of EncryptedKeyStorage (varints with
      postcard's exact acceptance rule, fixed arrays, length-prefixed ciphertext,
      trailing bytes ignored), parser and encoder;
   3. the crypto-free, cache-free reference machine ("spec") the theorems relate
      layer 1 to.

   Argon2id (kdf), ChaCha20-Poly1305 (enc/dec), the keyed hash of the cache's
   password verifier (vf) and the password policy (pw_ok) are parameters.
   Passwords, seed ids and seeds are equality tokens (N).  Constants come from
   Gen.KeyStoreConsts.v (regenerated from the source on every run). *)
From SV Require Import Lib.Base Gen.KeyStoreConsts.
Local Open Scope N_scope.

Definition bytes := list N.

Fixpoint bytes_eqb (a b : bytes) : bool :=
  match a, b with
  | [], [] => true
  | x :: a', y :: b' => (x =? y) && bytes_eqb a' b'
  | _, _ => false
  end.

Definition len {A} (l : list A) : N := N.of_nat (length l).

Definition optN_eqb (a b : option N) : bool :=
  match a, b with
  | Some x, Some y => x =? y
  | None, None => true
  | _, _ => false
  end.

(* ------------------------------------------------------------ payload *)
(* KeyStorageData.master_seeds : HashMap<seed id, seed>.  (derived_keys and
   key_metadata travel with it inside the same ciphertext; nothing reads them.) *)
Definition payload := list (N * N).

Fixpoint pl_get (id : N) (pl : payload) : option N :=
  match pl with
  | [] => None
  | (i, s) :: t => if i =? id then Some s else pl_get id t
  end.

Definition pl_set (id sd : N) (pl : payload) : payload :=
  (id, sd) :: filter (fun e => negb (fst e =? id)) pl.

(* ------------------------------------------------------------ the store file *)
(* EncryptedKeyStorage { header: StorageHeader {version, argon2_config{4}, salt,
   nonce, created_at, updated_at, encrypted_size, auth_tag}, encrypted_data } *)
Record file := mkFile {
  f_version : N;
  f_cfg : list N;       (* memory_cost, time_cost, parallelism, hash_length *)
  f_salt : bytes;
  f_nonce : bytes;
  f_created : N;
  f_updated : N;
  f_size : N;
  f_tag : bytes;        (* header.auth_tag: written as zeros, never read *)
  f_ct : bytes          (* ciphertext || Poly1305 tag *)
}.

(* SecurityLevel -> Argon2Config (0 = Fast, anything else = Standard's numbers;
   the header copy is informational: load_and_decrypt derives the key with the
   MANAGER's configuration, not the file's) *)
Definition cfg_of (lvl : N) : list N :=
  if lvl =? 0 then [KS_FAST_MEMORY_KIB; KS_FAST_TIME; KS_FAST_LANES; KS_FAST_HASH_LEN]
  else [KS_DEFAULT_MEMORY_KIB; KS_DEFAULT_TIME; KS_DEFAULT_LANES; KS_DEFAULT_HASH_LEN].

Inductive tmpc := TmpTorn | TmpWhole (f : file).

Record state := mkSt {
  d_main : option file;      (* the store file *)
  d_tmp : option tmpc;       (* storage_path.with_extension("tmp") *)
  m_level : N;               (* the manager's SecurityLevel *)
  m_cache : payload;         (* key_cache *)
  m_ver : option N           (* verifier of the password the cache was filled under *)
}.
Definition st_init (lvl : N) : state := mkSt None None lvl [] None.

(* where a file update is cut: before anything, tmp half written, tmp complete,
   renamed (= complete) *)
Inductive cpoint := CBefore | CTorn | CTmp | CDone.

Inductive op :=
| Init (p : N) (salt nonce : bytes) (ts : N)
| Store (id sd p : N) (nonce : bytes) (ts : N)
| Retrieve (id p : N)
| Change (old new : N) (salt nonce : bytes) (ts : N)
| Clear
| Reopen (lvl : N)
| Crash (pt : cpoint) (o : op).    (* the process dies inside [o] at [pt] and is restarted *)

Inductive res := ROk | RSeed (sd : N) | RErr.

Definition res_eqb (a b : res) : bool :=
  match a, b with
  | ROk, ROk | RErr, RErr => true
  | RSeed x, RSeed y => x =? y
  | _, _ => false
  end.
Fixpoint res_list_eqb (a b : list res) : bool :=
  match a, b with
  | [], [] => true
  | x :: a', y :: b' => res_eqb x y && res_list_eqb a' b'
  | _, _ => false
  end.

Definition wipe (s : state) : state := mkSt (d_main s) (d_tmp s) (m_level s) [] None.

Definition disk_write (pt : cpoint) (s : state) (f : file) : state :=
  match pt with
  | CBefore => s
  | CTorn => mkSt (d_main s) (Some TmpTorn) (m_level s) (m_cache s) (m_ver s)
  | CTmp => mkSt (d_main s) (Some (TmpWhole f)) (m_level s) (m_cache s) (m_ver s)
  | CDone => mkSt (Some f) None (m_level s) (m_cache s) (m_ver s)
  end.

Section Machine.
  Variable key : Type.
  Variable kdf : N -> N -> bytes -> key.             (* level, password, salt *)
  Variable enc : key -> bytes -> payload -> bytes.   (* key, nonce, plaintext *)
  Variable dec : key -> bytes -> bytes -> option payload.
  Variable vf : N -> N.                              (* cache password verifier *)
  Variable pw_ok : N -> bool.                        (* validate_password(..).valid *)
  (* [fixed = false] is the code before the repairs F18a/F18b: cache served without
     looking at the password, initialize leaves the cache alone *)
  Variable fixed : bool.

  (* load_and_decrypt on a parsed file *)
  Definition load_file (lvl : N) (f : file) (p : N) : option payload :=
    if f_version f =? KS_FORMAT_VERSION
    then dec (kdf lvl p (f_salt f)) (f_nonce f) (f_ct f)
    else None.

  Definition load (s : state) (p : N) : option payload :=
    match d_main s with
    | None => None
    | Some f => load_file (m_level s) f p
    end.

  (* the file encrypt_and_store builds *)
  Definition seal (lvl p : N) (salt nonce : bytes) (ts : N) (pl : payload) : file :=
    let ct := enc (kdf lvl p salt) nonce pl in
    mkFile KS_FORMAT_VERSION (cfg_of lvl) salt nonce ts ts (len ct)
           (repeat 0 (N.to_nat KS_TAG_FIELD_SIZE)) ct.

  (* cache insert after the password opened the file *)
  Definition remember (s : state) (p id sd : N) : state :=
    if fixed then
      let v := Some (vf p) in
      let base := if optN_eqb (m_ver s) v then m_cache s else [] in
      mkSt (d_main s) (d_tmp s) (m_level s) (pl_set id sd base) v
    else mkSt (d_main s) (d_tmp s) (m_level s) (pl_set id sd (m_cache s)) (m_ver s).

  Definition from_file (s : state) (id p : N) : state * res :=
    match load s p with
    | None => (s, RErr)
    | Some pl => match pl_get id pl with
                 | None => (s, RErr)
                 | Some sd => (remember s p id sd, RSeed sd)
                 end
    end.

  (* one call, its file update (if it gets that far) cut at [pt]; [CDone] is the
     whole call *)
  Fixpoint step_at (pt : cpoint) (s : state) (o : op) {struct o} : state * res :=
    match o with
    | Init p salt nonce ts =>
        if pw_ok p then
          let s1 := disk_write pt s (seal (m_level s) p salt nonce ts []) in
          (if fixed then wipe s1 else s1, ROk)
        else (s, RErr)
    | Store id sd p nonce ts =>
        match load s p, d_main s with
        | Some pl, Some f =>
            let s1 := disk_write pt s (seal (m_level s) p (f_salt f) nonce ts (pl_set id sd pl)) in
            (remember s1 p id sd, ROk)
        | _, _ => (s, RErr)
        end
    | Retrieve id p =>
        match pl_get id (m_cache s) with
        | Some sd =>
            if fixed then
              if optN_eqb (m_ver s) (Some (vf p)) then (s, RSeed sd) else from_file s id p
            else (s, RSeed sd)
        | None => from_file s id p
        end
    | Change old new salt nonce ts =>
        if pw_ok new then
          match load s old with
          | Some pl => (wipe (disk_write pt s (seal (m_level s) new salt nonce ts pl)), ROk)
          | None => (s, RErr)
          end
        else (s, RErr)
    | Clear => (wipe s, ROk)
    | Reopen lvl => (mkSt (d_main s) (d_tmp s) lvl [] None, ROk)
    | Crash pt' o' => (wipe (fst (step_at pt' s o')), ROk)
    end.

  Definition step (s : state) (o : op) : state * res := step_at CDone s o.

  Fixpoint run (s : state) (ops : list op) : state * list res :=
    match ops with
    | [] => (s, [])
    | o :: tl => let '(s1, r) := step s o in
                 let '(s2, rs) := run s1 tl in (s2, r :: rs)
    end.
End Machine.

(* ------------------------------------------------------------ reference machine *)
(* What the property says, with no cache, no cryptography and no disk: the store
   is (current password, level it was written at, contents) or nothing.
   [strict = true]: only a manager of the level the file was written at opens it
   (the code as it is, recorded finding reopen-other-level); [strict = false]: the
   property as stated. *)
Record astate := mkA { a_file : option (N * N * payload); a_level : N }.
Definition a_init (lvl : N) : astate := mkA None lvl.

Definition cp_done (pt : cpoint) : bool := match pt with CDone => true | _ => false end.

Section Spec.
  Variable pw_ok : N -> bool.
  Variable strict : bool.

  Definition opens (a : astate) (p : N) : option payload :=
    match a_file a with
    | Some (P, L, pl) => if (p =? P) && (negb strict || (a_level a =? L)) then Some pl else None
    | None => None
    end.

  Fixpoint astep_at (done : bool) (a : astate) (o : op) {struct o} : astate * res :=
    match o with
    | Init p _ _ _ =>
        if pw_ok p then ((if done then mkA (Some (p, a_level a, [])) (a_level a) else a), ROk)
        else (a, RErr)
    | Store id sd p _ _ =>
        match opens a p with
        | Some pl => ((if done then mkA (Some (p, a_level a, pl_set id sd pl)) (a_level a) else a), ROk)
        | None => (a, RErr)
        end
    | Retrieve id p =>
        match opens a p with
        | Some pl => match pl_get id pl with Some sd => (a, RSeed sd) | None => (a, RErr) end
        | None => (a, RErr)
        end
    | Change old new _ _ _ =>
        if pw_ok new then
          match opens a old with
          | Some pl => ((if done then mkA (Some (new, a_level a, pl)) (a_level a) else a), ROk)
          | None => (a, RErr)
          end
        else (a, RErr)
    | Clear => (a, ROk)
    | Reopen lvl => (mkA (a_file a) lvl, ROk)
    | Crash pt' o' => (fst (astep_at (cp_done pt') a o'), ROk)
    end.

  Definition astep (a : astate) (o : op) : astate * res := astep_at true a o.

  Fixpoint arun (a : astate) (ops : list op) : astate * list res :=
    match ops with
    | [] => (a, [])
    | o :: tl => let '(a1, r) := astep a o in
                 let '(a2, rs) := arun a1 tl in (a2, r :: rs)
    end.
End Spec.

(* every manager of the history has the level the store was created with *)
Fixpoint op_level_ok (lvl : N) (o : op) : Prop :=
  match o with
  | Reopen l => l = lvl
  | Crash _ o' => op_level_ok lvl o'
  | _ => True
  end.
Definition same_level (lvl : N) (ops : list op) : Prop := Forall (op_level_ok lvl) ops.

(* ------------------------------------------------------------ ideal primitives *)
(* Argon2id: distinct (parameters, password, salt) give distinct keys *)
Definition ideal_kdf {key} (kdf : N -> N -> bytes -> key) : Prop :=
  forall l p s l' p' s', kdf l p s = kdf l' p' s' -> l = l' /\ p = p' /\ s = s'.

(* ChaCha20-Poly1305 as an ideal AEAD (no associated data):
   correctness; ciphertext integrity (only genuine encryptions open, and only to
   what was sealed); distinct (key, nonce, plaintext) give distinct ciphertexts,
   so that a genuine ciphertext opens under its own key and nonce only *)
Definition ideal_aead {key} (enc : key -> bytes -> payload -> bytes)
                            (dec : key -> bytes -> bytes -> option payload) : Prop :=
  (forall k n m, dec k n (enc k n m) = Some m) /\
  (forall k n c m, dec k n c = Some m -> c = enc k n m) /\
  (forall k n m k' n' m', enc k n m = enc k' n' m' -> k = k' /\ n = n' /\ m = m').

(* the cache verifier (a keyed hash of the password) has no collision *)
Definition ideal_vf (vf : N -> N) : Prop := forall p q, vf p = vf q -> p = q.

(* ------------------------------------------------------------ the file as bytes *)
(* postcard varint: 7 bits per byte, low group first, bit 7 = more follows *)
Fixpoint varint (fuel : nat) (n : N) : bytes :=
  match fuel with
  | O => []
  | S f => if n <? 128 then [n] else (128 + n mod 128) :: varint f (n / 128)
  end.

(* postcard's try_take_varint_uNN: at most [fuel] bytes; a terminating byte in
   the last position must not exceed [lastmax] (15 for u32, 1 for u64); a
   non-minimal encoding is accepted *)
Fixpoint take_var (fuel : nat) (lastmax : N) (bs : bytes) : option (N * bytes) :=
  match fuel with
  | O => None
  | S f =>
      match bs with
      | [] => None
      | b :: t =>
          if b <? 128 then
            match f with
            | O => if lastmax <? b then None else Some (b, t)
            | S _ => Some (b, t)
            end
          else match take_var f lastmax t with
               | Some (v, r) => Some (b - 128 + 128 * v, r)
               | None => None
               end
      end
  end.
Definition take_u32 := take_var 5 15.
Definition take_u64 := take_var 10 1.
Definition put_u32 := varint 5.
Definition put_u64 := varint 10.

(* the comparison is made in N: a damaged length prefix can be 2^64 - 1 *)
Definition take_n (n : N) (bs : bytes) : option (bytes * bytes) :=
  if n <=? len bs then Some (firstn (N.to_nat n) bs, skipn (N.to_nat n) bs) else None.

Definition bind {A B} (x : option A) (f : A -> option B) : option B :=
  match x with Some a => f a | None => None end.
Notation "'do' p <- x ; y" := (bind x (fun p => y))
  (at level 200, p pattern, x at level 100, y at level 200, right associativity).

Definition encode_file (f : file) : bytes :=
  put_u32 (f_version f) ++ concat (map put_u32 (f_cfg f)) ++ f_salt f ++ f_nonce f
  ++ put_u64 (f_created f) ++ put_u64 (f_updated f) ++ put_u64 (f_size f) ++ f_tag f
  ++ put_u64 (len (f_ct f)) ++ f_ct f.

(* postcard::from_bytes::<EncryptedKeyStorage>: unused trailing bytes are dropped *)
Definition parse_file (bs : bytes) : option file :=
  do (v, r0) <- take_u32 bs;
  do (c1, r1) <- take_u32 r0;
  do (c2, r2) <- take_u32 r1;
  do (c3, r3) <- take_u32 r2;
  do (c4, r4) <- take_u32 r3;
  do (salt, r5) <- take_n KS_SALT_SIZE r4;
  do (nonce, r6) <- take_n KS_NONCE_SIZE r5;
  do (cr, r7) <- take_u64 r6;
  do (up, r8) <- take_u64 r7;
  do (sz, r9) <- take_u64 r8;
  do (tag, r10) <- take_n KS_TAG_FIELD_SIZE r9;
  do (n, r11) <- take_u64 r10;
  do (ct, _) <- take_n n r11;
  Some (mkFile v [c1; c2; c3; c4] salt nonce cr up sz tag ct).

(* what the Rust in-memory value guarantees (integer and array widths) *)
Definition shape (f : file) : Prop :=
  f_version f < 2 ^ 32 /\
  (exists c1 c2 c3 c4, f_cfg f = [c1; c2; c3; c4] /\ c1 < 2 ^ 32 /\ c2 < 2 ^ 32 /\ c3 < 2 ^ 32 /\ c4 < 2 ^ 32) /\
  len (f_salt f) = KS_SALT_SIZE /\ len (f_nonce f) = KS_NONCE_SIZE /\
  f_created f < 2 ^ 64 /\ f_updated f < 2 ^ 64 /\ f_size f < 2 ^ 64 /\
  len (f_tag f) = KS_TAG_FIELD_SIZE /\ len (f_ct f) < 2 ^ 64.

Section Bytes.
  Variable key : Type.
  Variable kdf : N -> N -> bytes -> key.
  Variable dec : key -> bytes -> bytes -> option payload.

  (* load_and_decrypt on the bytes read from disk *)
  Definition load_bytes (lvl : N) (bs : bytes) (p : N) : option payload :=
    match parse_file bs with
    | Some f => load_file key kdf dec lvl f p
    | None => None
    end.
End Bytes.

(* ------------------------------------------------------------ toy primitives
   (to run the model, and to show that the ideal hypotheses are satisfiable) *)
Definition toy_kdf (l p : N) (s : bytes) : bytes := l :: p :: s.

Fixpoint flat (pl : payload) : bytes :=
  match pl with [] => [] | (a, b) :: t => a :: b :: flat t end.
Fixpoint unflat (fuel : nat) (bs : bytes) : option payload :=
  match fuel with
  | O => None
  | S f => match bs with
           | [] => Some []
           | [_] => None
           | a :: b :: t => match unflat f t with Some pl => Some ((a, b) :: pl) | None => None end
           end
  end.

Definition toy_pre (k n : bytes) : bytes := len k :: k ++ len n :: n.
Definition toy_enc (k n : bytes) (m : payload) : bytes := toy_pre k n ++ flat m.
Definition toy_dec (k n c : bytes) : option payload :=
  let pre := toy_pre k n in
  if bytes_eqb (firstn (length pre) c) pre
  then unflat (S (length c)) (skipn (length pre) c)
  else None.
Definition toy_vf (p : N) : N := p.

(* an AEAD that knows exactly one genuine ciphertext: the one in the real file *)
Definition odec (k0 n0 c0 : bytes) (pl0 : payload) (k n c : bytes) : option payload :=
  if bytes_eqb k k0 && bytes_eqb n n0 && bytes_eqb c c0 then Some pl0 else None.

(* ------------------------------------------------------------ executable interface *)
Definition policy (weak : list N) (p : N) : bool := negb (existsb (fun w => w =? p) weak).

(* (level of the first manager, password tokens the policy refuses, history, verdicts) *)
Definition hcase := (N * list N * list op * list res)%type.

Definition check_hist (c : hcase) : bool :=
  let '(lvl0, weak, ops, obs) := c in
  res_list_eqb (snd (run bytes toy_kdf toy_enc toy_dec toy_vf (policy weak) true (st_init lvl0) ops)) obs.

(* the property as stated (level-insensitive reference machine) on the verdicts
   the IMPLEMENTATION returned *)
Definition prop_hist (c : hcase) : bool :=
  let '(lvl0, weak, ops, obs) := c in
  res_list_eqb (snd (arun (policy weak) false (a_init lvl0) ops)) obs.

Inductive tamper := TSet (i b : N) | TTrunc (n : N) | TAppend (b : N).

Fixpoint set_nth (i : nat) (b : N) (bs : bytes) : bytes :=
  match bs, i with
  | [], _ => []
  | _ :: t, O => b :: t
  | x :: t, S j => x :: set_nth j b t
  end.
Definition apply_tamper (t : tamper) (bs : bytes) : bytes :=
  match t with
  | TSet i b => set_nth (N.to_nat i) b bs
  | TTrunc n => firstn (N.to_nat n) bs
  | TAppend b => bs ++ [b]
  end.

Definition listN_eqb (a b : list N) : bool := bytes_eqb a b.
Definition file_eqb (a b : file) : bool :=
  (f_version a =? f_version b) && listN_eqb (f_cfg a) (f_cfg b) && bytes_eqb (f_salt a) (f_salt b)
  && bytes_eqb (f_nonce a) (f_nonce b) && (f_created a =? f_created b) && (f_updated a =? f_updated b)
  && (f_size a =? f_size b) && bytes_eqb (f_tag a) (f_tag b) && bytes_eqb (f_ct a) (f_ct b).
Definition opt_file_eqb (a b : option file) : bool :=
  match a, b with
  | Some x, Some y => file_eqb x y
  | None, None => true
  | _, _ => false
  end.

(* (level, right password, presented password, seed id, stored seeds, the real
   file, the damage, postcard's parse of the damaged bytes, real verdict) *)
Definition tcase := (N * N * N * N * payload * bytes * tamper * option file * res)%type.

Definition tamper_verdict (lvl P p id : N) (pl : payload) (f0 : file) (bs : bytes) : res :=
  match load_bytes bytes toy_kdf (odec (toy_kdf lvl P (f_salt f0)) (f_nonce f0) (f_ct f0) pl) lvl bs p with
  | Some pl' => match pl_get id pl' with Some sd => RSeed sd | None => RErr end
  | None => RErr
  end.

Definition check_tamper (c : tcase) : bool :=
  let '(lvl, P, p, id, pl, orig, t, oparse, ores) := c in
  match parse_file orig with
  | None => false
  | Some f0 =>
      let bs := apply_tamper t orig in
      opt_file_eqb (parse_file bs) oparse && res_eqb (tamper_verdict lvl P p id pl f0 bs) ores
  end.

(* conclusion of C18_tamper on the implementation's verdict: refusal, or exactly
   the stored seed and only for the right password *)
Definition prop_tamper (c : tcase) : bool :=
  let '(lvl, P, p, id, pl, orig, t, oparse, ores) := c in
  match ores with
  | RErr => true
  | RSeed sd => (p =? P) && optN_eqb (pl_get id pl) (Some sd)
  | ROk => false
  end.
