(* Model for C08: where the library makes and checks ML-DSA-65 signatures.
   Definitions only (executable, total).  Mirrors, after the repair commits:
     src/identity/node_identity.rs   NodeIdentity::{generate, export, import, from_seed}
     src/key_derivation.rs           HierarchicalKeyDerivation::derive_key_internal / derive_child_key
     src/security.rs                 GenericIpNodeID::{compute_node_id, build_message, verify}
     src/upgrade/verifier.rs         SignatureVerifier::{verify_checksum, verify_signature, verify_file}
     src/upgrade/config.rs           PinnedKey::is_valid
     src/auth/mod.rs                 Single/Delegated/Threshold/CompositeWriteAuth::verify
   The primitives (ML-DSA key generation / sign / verify, HKDF-SHA3-256, SHA-256,
   base64) are parameters of the definitions; Proofs/Sig.v states their assumed
   behaviour as Section hypotheses.  Sizes come from Gen/SigConsts.v (regenerated
   from the Rust source on every run). *)
From SV Require Import Lib.Base Gen.SigConsts.
From Coq Require Import String Ascii.
Local Open Scope N_scope.

Definition bytes := list N.

Fixpoint bytes_eqb (a b : bytes) : bool :=
  match a, b with
  | [], [] => true
  | x :: a', y :: b' => (x =? y) && bytes_eqb a' b'
  | _, _ => false
  end.

Definition len {A} (l : list A) : N := N.of_nat (List.length l).

(* n.to_le_bytes() of a w-byte integer *)
Fixpoint le (w : nat) (n : N) : bytes :=
  match w with O => [] | S k => n mod 256 :: le k (n / 256) end.
Definition be (w : nat) (n : N) : bytes := rev (le w n).

Fixpoint str (s : string) : bytes :=
  match s with EmptyString => [] | String a r => N_of_ascii a :: str r end.

(* Result<bool>: Ok(true), Ok(false), Err(_) *)
Inductive verdict := VTrue | VFalse | VErr.
Definition verdict_eqb (a b : verdict) : bool :=
  match a, b with VTrue, VTrue | VFalse, VFalse | VErr, VErr => true | _, _ => false end.
Definition is_true (v : verdict) : bool := match v with VTrue => true | _ => false end.

(* ML-DSA-65 sizes; MlDsaPublicKey / MlDsaSecretKey / MlDsaSignature::from_bytes accept exactly these *)
Definition PUB_LEN : N := SIG_KD_PUB_LEN.
Definition SEC_LEN : N := SIG_KD_SEC_LEN.
Definition SIG_LEN : N := SIG_IP_SIG_LEN.
Definition pk_ok (pk : bytes) : bool := len pk =? PUB_LEN.
Definition sk_ok (sk : bytes) : bool := len sk =? SEC_LEN.
Definition sig_ok (s : bytes) : bool := len s =? SIG_LEN.

(* ================================================================ identities *)
(* keygen xi = ML-DSA.KeyGen_internal(xi): the deterministic key generation of FIPS 204
   (fips204::ml_dsa_65::KG::keygen_from_seed); OS randomness is just another xi.
   kdf ikm salt info n = HKDF-SHA3-256 expanded to n bytes. *)
Definition ident := (bytes * bytes)%type.     (* (public key, secret key) *)

Section Identity.
  Variable keygen : bytes -> ident.
  Variable kdf : bytes -> option bytes -> bytes -> nat -> bytes.

  Definition id_generate (xi : bytes) : ident := keygen xi.

  (* IdentityData { secret_key, public_key } *)
  Definition id_export (i : ident) : bytes * bytes := (snd i, fst i).
  Definition id_import (d : bytes * bytes) : option ident :=
    if sk_ok (fst d) && pk_ok (snd d) then Some (snd d, fst d) else None.

  Definition INFO_SEED : bytes := str "saorsa-node-identity-seed".
  Definition XI_LEN : nat := 32.

  (* NodeIdentity::from_seed after the repair: HKDF to a 32-byte xi, then the real key generation *)
  Definition id_from_seed (seed : bytes) : ident := keygen (kdf seed None INFO_SEED XI_LEN).

  (* ... and before it (F08a): 1952 + 4032 bytes of HKDF output cut into "public" and "secret" bytes *)
  Definition split_at (n : N) (d : bytes) : ident := (firstn (N.to_nat n) d, skipn (N.to_nat n) d).
  Definition id_from_seed_old (seed : bytes) : ident :=
    split_at PUB_LEN (kdf seed None INFO_SEED (N.to_nat (PUB_LEN + SEC_LEN))).

  (* HierarchicalKeyDerivation::derive_child_key *)
  Definition child (key cc : bytes) (idx : N) : bytes * bytes :=
    let data := key ++ cc ++ be 4 idx in
    (kdf data (Some cc) (str "key") (Nat.max (List.length key) 32),
     kdf data (Some cc) (str "chaincode") 32%nat).
  Fixpoint walk (key cc : bytes) (path : list N) : bytes * bytes :=
    match path with
    | [] => (key, cc)
    | i :: r => let kc := child key cc i in walk (fst kc) (snd kc) r
    end.
  Definition chain (master : bytes) (path : list N) : bytes * bytes :=
    let k0 := kdf master None (str "ml-dsa seed") 32%nat in
    let c0 := kdf k0 None (str "chaincode") 32%nat in
    walk k0 c0 path.
  Definition INFO_PAIR : bytes := str "ml-dsa keypair".
  (* derive_key_internal after the repair / before it *)
  Definition id_derive_path (master : bytes) (path : list N) : ident :=
    let kc := chain master path in keygen (kdf (fst kc) (Some (snd kc)) INFO_PAIR XI_LEN).
  Definition id_derive_path_old (master : bytes) (path : list N) : ident :=
    let kc := chain master path in
    split_at PUB_LEN (kdf (fst kc) (Some (snd kc)) INFO_PAIR (N.to_nat (PUB_LEN + SEC_LEN))).
End Identity.

(* ================================================================ glue *)
Record ipnode := mkNode {
  n_id : bytes; n_ip : bytes; n_pk : bytes; n_sig : bytes; n_ts : N; n_salt : bytes }.

Record pinned := mkPinned { k_id : bytes; k_pub : bytes (* base64 text *); k_from : N; k_until : N }.

Inductive sresult := SOk (b : bool) | SNoValidKey | SSigVer.          (* verify_signature *)
Inductive uresult := UAccept | UChecksum | UNoValidKey | USigVer.     (* verify_file *)
Definition sresult_eqb (a b : sresult) : bool :=
  match a, b with
  | SOk x, SOk y => Bool.eqb x y | SNoValidKey, SNoValidKey | SSigVer, SSigVer => true | _, _ => false
  end.
Definition uresult_eqb (a b : uresult) : bool :=
  match a, b with
  | UAccept, UAccept | UChecksum, UChecksum | UNoValidKey, UNoValidKey | USigVer, USigVer => true
  | _, _ => false
  end.

Inductive wauth :=
| WSingle (pk : bytes)
| WDelegated (ks : list bytes)
| WThreshold (t total : N) (ks : list bytes)
| WComposite (all : bool) (l : list wauth).

(* ThresholdWriteAuth::new *)
Definition mk_threshold (t total : N) (ks : list bytes) : option wauth :=
  if total <? t then None else if t =? 0 then None else if negb (len ks =? total) then None
  else Some (WThreshold t total ks).

Definition all_v {A} (f : A -> verdict) : list A -> verdict :=
  fix go (l : list A) : verdict :=
  match l with
  | [] => VTrue
  | x :: r => match f x with VTrue => go r | VFalse => VFalse | VErr => VErr end
  end.
Definition any_v {A} (f : A -> verdict) : list A -> verdict :=
  fix go (l : list A) : verdict :=
  match l with
  | [] => VFalse
  | x :: r => match f x with VTrue => VTrue | VFalse => go r | VErr => VErr end
  end.

Fixpoint dedup (l : list bytes) : list bytes :=
  match l with
  | [] => []
  | x :: r => if existsb (bytes_eqb x) r then dedup r else x :: dedup r
  end.

Definition hex_digit (n : N) : N := if n <? 10 then 48 + n else 87 + n.
Definition hex (bs : bytes) : bytes := flat_map (fun b => [hex_digit (b / 16); hex_digit (b mod 16)]) bs.
Definition ascii_lower (c : N) : N := if (65 <=? c) && (c <=? 90) then c + 32 else c.

Section Glue.
  Variable H : bytes -> bytes.                              (* SHA-256 *)
  Variable vs3 : bytes -> bytes -> bytes -> verdict.        (* ML_DSA.verify(pk, message, signature) on well-sized inputs *)
  Variable b64 : bytes -> option bytes.                     (* base64 STANDARD decode *)

  (* ---- src/security.rs: GenericIpNodeID *)
  Definition ip_message (ip pk salt : bytes) (ts : N) : bytes := ip ++ pk ++ salt ++ le 8 ts.
  Definition node_message (n : ipnode) : bytes := ip_message (n_ip n) (n_pk n) (n_salt n) (n_ts n).
  Definition ipnode_verify (n : ipnode) : verdict :=
    if negb (bytes_eqb (H (node_message n)) (n_id n)) then VFalse
    else if negb (pk_ok (n_pk n)) then VErr
    else if negb (len (n_sig n) =? SIG_IP_SIG_LEN) then VFalse
    else vs3 (n_pk n) (node_message n) (n_sig n).

  (* ---- src/upgrade: PinnedKey::is_valid, SignatureVerifier *)
  Definition key_valid (k : pinned) (now : N) : bool :=
    (k_from k <=? now) && ((k_until k =? SIG_NO_EXPIRY) || (now <? k_until k)).
  (* the keys live in a HashMap filled in list order: a later entry with the same id replaces an earlier one *)
  Definition find_key (keys : list pinned) (id : bytes) : option pinned :=
    find (fun k => bytes_eqb (k_id k) id) (rev keys).
  Definition verify_signature (keys : list pinned) (now : N) (key_id msg sig : bytes) : sresult :=
    match find_key keys key_id with
    | None => SNoValidKey
    | Some k =>
      if negb (key_valid k now) then SNoValidKey else
      match b64 (k_pub k) with
      | None => SSigVer
      | Some pkb =>
        match b64 sig with
        | None => SSigVer
        | Some sb =>
          if negb (pk_ok pkb) then SSigVer else if negb (sig_ok sb) then SSigVer else
          match vs3 pkb msg sb with VTrue => SOk true | VFalse => SOk false | VErr => SSigVer end
        end
      end
    end.
  Definition verify_checksum (data expected : bytes) : bool :=
    bytes_eqb (hex (H data)) (map ascii_lower expected).
  Definition verify_file (keys : list pinned) (now : N) (contents expected key_id sig : bytes) : uresult :=
    if negb (verify_checksum contents expected) then UChecksum else
    match verify_signature keys now key_id contents sig with
    | SOk true => UAccept
    | SOk false => USigVer
    | SNoValidKey => UNoValidKey
    | SSigVer => USigVer
    end.

  (* ---- src/auth/mod.rs *)
  Section Auth.
    Variable record : bytes.
    Variable sigs : list bytes.

    Definition single_verify (pk : bytes) : verdict :=
      match sigs with
      | [] => VFalse
      | s :: _ => if negb (pk_ok pk) then VErr
                  else if negb (len s =? SIG_AUTH_SINGLE_SIG_LEN) then VFalse
                  else vs3 pk record s
      end.
    Definition delegated_verify (ks : list bytes) : verdict :=
      match sigs with
      | [] => VFalse
      | s :: _ => match ks with
                  | [] => VFalse
                  | _ => if negb (len s =? SIG_AUTH_DELEG_SIG_LEN) then VFalse
                         else if existsb (fun ak => pk_ok ak && is_true (vs3 ak record s)) ks then VTrue else VFalse
                  end
      end.
    (* the code that exists: a count-only placeholder (F08b) *)
    Definition thr_code (t total : N) (ks : list bytes) : verdict :=
      if len sigs <? t then VFalse else if total <? len sigs then VFalse
      else if (t <=? len sigs) && (len ks =? total) then VTrue else VFalse.
    (* what the property asks for: at least t DISTINCT listed keys each with a valid signature among sigs *)
    Definition has_valid_sig (k : bytes) : bool :=
      pk_ok k && existsb (fun s => sig_ok s && is_true (vs3 k record s)) sigs.
    Definition valid_signers (ks : list bytes) : list bytes := filter has_valid_sig (dedup ks).
    Definition thr_spec (t total : N) (ks : list bytes) : verdict :=
      if (1 <=? t) && (t <=? len (valid_signers ks)) then VTrue else VFalse.

    Variable thr : N -> N -> list bytes -> verdict.
    Fixpoint wverify (a : wauth) : verdict :=
      match a with
      | WSingle pk => single_verify pk
      | WDelegated ks => delegated_verify ks
      | WThreshold t total ks => thr t total ks
      | WComposite true l => all_v wverify l
      | WComposite false l => any_v wverify l
      end.
  End Auth.
  Definition wverify_code (record : bytes) (sigs : list bytes) : wauth -> verdict :=
    wverify record sigs (thr_code sigs).
  Definition wverify_spec (record : bytes) (sigs : list bytes) : wauth -> verdict :=
    wverify record sigs (thr_spec record sigs).
End Glue.

Fixpoint has_threshold (a : wauth) : bool :=
  match a with
  | WThreshold _ _ _ => true
  | WComposite _ l => existsb has_threshold l
  | _ => false
  end.

(* ================================================================ specification vocabulary (Props) *)
Section Spec.
  Variable keygen : bytes -> ident.
  Variable kdf : bytes -> option bytes -> bytes -> nat -> bytes.
  Variable sign : bytes -> bytes -> bytes -> bytes.        (* secret key, message, signing randomness *)
  Variable vs3 : bytes -> bytes -> bytes -> verdict.
  (* issued pk m s: the holder of the secret key of pk produced s when asked to sign m *)
  Variable issued : bytes -> bytes -> bytes -> Prop.

  Definition pair (i : ident) : Prop := exists xi, keygen xi = i.
  (* correctness of ML-DSA: what a generated secret key signs verifies under its public key *)
  Definition sig_correct : Prop :=
    forall xi m r, vs3 (fst (keygen xi)) m (sign (snd (keygen xi)) m r) = VTrue.
  Definition keygen_sized : Prop :=
    forall xi, pk_ok (fst (keygen xi)) = true /\ sk_ok (snd (keygen xi)) = true.
  (* the idealisation of unforgeability: only what the key holder issued verifies *)
  Definition ideal_sig : Prop := forall pk m s, vs3 pk m s = VTrue -> issued pk m s.

  (* the ways the library builds an identity *)
  Inductive constructed : ident -> Prop :=
  | C_generate xi : constructed (id_generate keygen xi)
  | C_import i : constructed i -> forall j, id_import (id_export i) = Some j -> constructed j
  | C_from_seed seed : constructed (id_from_seed keygen kdf seed)
  | C_derive master path : constructed (id_derive_path keygen kdf master path).

  (* write authorisation as the property states it *)
  Section Authorised.
    Variable record : bytes.
    Variable sigs : list bytes.
    Definition signs (k : bytes) : Prop := exists s, In s sigs /\ vs3 k record s = VTrue.
    Fixpoint authorised (a : wauth) : Prop :=
      match a with
      | WSingle pk => signs pk
      | WDelegated ks => exists k, In k ks /\ signs k
      | WThreshold t total ks =>
          exists signers, NoDup signers /\ 1 <= t /\ t <= len signers /\
                          forall k, In k signers -> In k ks /\ signs k
      | WComposite true l => (fix all (l : list wauth) : Prop :=
                                match l with [] => True | x :: r => authorised x /\ all r end) l
      | WComposite false l => (fix any (l : list wauth) : Prop :=
                                 match l with [] => False | x :: r => authorised x \/ any r end) l
      end.
  End Authorised.
End Spec.

(* ================================================================ toy primitives (non-vacuity, witnesses) *)
(* keys: pk = [7; x], sk = [9; x] for xi = x :: _ ; signature = 1 :: x :: message *)
Definition toy_keygen (xi : bytes) : ident := let x := hd 0 xi in ([7; x], [9; x]).
Definition toy_sign (sk m r : bytes) : bytes := 1 :: nth 1 sk 0 :: m.
Definition toy_vs3 (pk m s : bytes) : verdict :=
  let x := nth 1 pk 0 in
  if bytes_eqb pk [7; x] then (if bytes_eqb s (1 :: x :: m) then VTrue else VFalse) else VErr.
Definition toy_kdf (ikm : bytes) (salt : option bytes) (info : bytes) (n : nat) : bytes :=
  repeat (fold_right N.add 0 ikm mod 251 + len info) n.
Definition toy_H (m : bytes) : bytes := m.
Definition toy_b64 (t : bytes) : option bytes := match t with 61 :: r => Some r | _ => None end.

(* ================================================================ correspondence cases *)
Definition Htab := list (bytes * bytes).
Definition Vtab := list (bytes * bytes * bytes * verdict).
Definition Btab := list (bytes * option bytes).
Definition tab_H (t : Htab) (m : bytes) : bytes :=
  match find (fun e => bytes_eqb (fst e) m) t with Some e => snd e | None => [] end.
Definition tab_V (t : Vtab) (pk m s : bytes) : verdict :=
  match find (fun e => match e with (p, mm, ss, _) => bytes_eqb p pk && bytes_eqb mm m && bytes_eqb ss s end) t with
  | Some (_, _, _, v) => v
  | None => VErr
  end.
Definition tab_B (t : Btab) (x : bytes) : option bytes :=
  match find (fun e => bytes_eqb (fst e) x) t with Some e => snd e | None => None end.

Inductive c08case :=
(* from_bytes of a key / signature type at length n: what 0 = public key, 1 = secret key, 2 = signature *)
| CLen (what n : N) (accepted : bool)
(* an identity of kind 0 generate, 1 export->import, 2 from_seed, 3 derive path: key and signature sizes,
   did signing succeed, verdict of verifying its own signature, are two constructions from the same
   input the same identity / from different inputs different ones (seeded kinds) *)
| CIdent (kind pklen sklen siglen : N) (sign_ok : bool) (own : verdict) (stable : bool)
(* the primitive on the shipped build: kind 0 exact, 1 message altered, 2 signature altered, 3 key altered,
   4 another identity's key, 5 another identity's signature on the same message *)
| CPrim (kind : N) (obs : verdict)
(* bit sweep: kind as above, number of single-bit flips tried, number rejected *)
| CSweep (kind nbits rejected : N)
| CIp (genuine : bool) (n : ipnode) (ht : Htab) (vt : Vtab) (obs : verdict)
| CUpdSig (genuine : bool) (keys : list pinned) (now : N) (key_id msg sig : bytes) (bt : Btab) (vt : Vtab) (obs : sresult)
| CUpdFile (genuine : bool) (keys : list pinned) (now : N) (contents expected key_id sig : bytes)
           (bt : Btab) (ht : Htab) (vt : Vtab) (obs : uresult)
| CAuth (a : wauth) (record : bytes) (sigs : list bytes) (vt : Vtab) (obs : verdict)
| CThrNew (t total : N) (ks : list bytes) (ok : bool).

Definition size_of (what : N) : N := match what with 0 => PUB_LEN | 1 => SEC_LEN | _ => SIG_LEN end.
Definition nob := fun _ : bytes => @None bytes.
Definition noH := fun _ : bytes => @nil N.

(* model output = observed output *)
Definition check_case (c : c08case) : bool :=
  match c with
  | CLen what n acc => Bool.eqb acc (n =? size_of what)
  | CIdent _ pkl skl sgl sok own stable =>
      (pkl =? PUB_LEN) && (skl =? SEC_LEN) && (sgl =? SIG_LEN) && sok && verdict_eqb own VTrue && stable
  | CPrim kind obs => if kind =? 0 then verdict_eqb obs VTrue else negb (is_true obs)
  | CSweep _ nbits rej => rej =? nbits
  | CIp genuine n ht vt obs =>
      (* a genuine node id comes from `generate`: its freshness salt has the generated width *)
      verdict_eqb (ipnode_verify (tab_H ht) (tab_V vt) n) obs &&
      (if genuine then len (n_salt n) =? SIG_IP_SALT_LEN else true)
  | CUpdSig _ keys now kid msg sg bt vt obs =>
      sresult_eqb (verify_signature (tab_V vt) (tab_B bt) keys now kid msg sg) obs
  | CUpdFile _ keys now cont exp kid sg bt ht vt obs =>
      uresult_eqb (verify_file (tab_H ht) (tab_V vt) (tab_B bt) keys now cont exp kid sg) obs
  | CAuth a rec sigs vt obs => verdict_eqb (wverify_code (tab_V vt) rec sigs a) obs
  | CThrNew t total ks ok =>
      Bool.eqb ok (match mk_threshold t total ks with Some _ => true | None => false end)
  end.

(* the theorem's conclusion on the implementation's own outputs: exactly the genuine inputs are
   accepted; for write authorisation, accepted iff authorised in the sense of the property
   (threshold = t distinct valid signers) *)
Definition prop_case (c : c08case) : bool :=
  match c with
  | CIp genuine _ _ _ obs => Bool.eqb genuine (is_true obs)
  | CUpdSig genuine _ _ _ _ _ _ _ obs => Bool.eqb genuine (sresult_eqb obs (SOk true))
  | CUpdFile genuine _ _ _ _ _ _ _ _ _ obs => Bool.eqb genuine (uresult_eqb obs UAccept)
  | CAuth a rec sigs vt obs => Bool.eqb (is_true (wverify_spec (tab_V vt) rec sigs a)) (is_true obs)
  | _ => check_case c
  end.

(* byte-string helpers for case files: [unpack w n] = the w-byte big-endian representation of n
   (case files write long byte strings as one hexadecimal number literal) *)
Fixpoint unpack_acc (w : nat) (n : N) (acc : bytes) : bytes :=
  match w with O => acc | S k => unpack_acc k (N.shiftr n 8) (N.land n 255 :: acc) end.
Definition unpack (w : nat) (n : N) : bytes := unpack_acc w n [].
Fixpoint set_nth (i : nat) (v : N) (l : bytes) : bytes :=
  match l, i with
  | [], _ => []
  | _ :: t, O => v :: t
  | h :: t, S k => h :: set_nth k v t
  end.
