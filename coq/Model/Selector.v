(* Model of trust-aware peer selection (C16): src/dht/trust_peer_selector.rs
   (TrustAwarePeerSelector::select_peers_with_config, compute_score, xor_distance) and the two
   selections of DhtCoreEngine (select_query_peers / select_storage_peers) on top of the routing
   table of Model/Routing.v.  Definitions only.

   The score arithmetic is written ONCE over a record of operations [num F]; it is instantiated
   (i) at Q  - exact arithmetic, where the order laws the ranking theorems need are proved, and
   (ii) at binary64 (Coq's primitive floats, bit-exact under vm_compute) - the arithmetic the
   Rust code runs, used by the correspondence check.  Constants come from Gen/SelectorConsts.v. *)
From Coq Require Import Floats QArith.
From SV Require Import Lib.Base Lib.Xor Lib.F64 Lib.Isort Gen.RoutingConsts Gen.SelectorConsts Model.Routing.
Local Open Scope N_scope.

Record num (F : Type) := mkNum {
  zero : F; one : F; scale : F;
  add : F -> F -> F; sub : F -> F -> F; mul : F -> F -> F; div : F -> F -> F;
  leb : F -> F -> bool;      (* <= *)
  ltb : F -> F -> bool;      (* <  *)
  ofN : N -> F               (* u128 as f64 *)
}.
Arguments zero {F}. Arguments one {F}. Arguments scale {F}. Arguments add {F}. Arguments sub {F}.
Arguments mul {F}. Arguments div {F}. Arguments leb {F}. Arguments ltb {F}. Arguments ofN {F}.

(* Iterator::take(n) for an N count *)
Fixpoint take {A} (n : N) (l : list A) : list A :=
  match l with
  | [] => []
  | x :: tl => if n =? 0 then [] else x :: take (n - 1) tl
  end.

(* number of low-order bits xor_distance ignores: it reads the first SEL_DIST_BYTES of 32 bytes *)
Definition LOW_BITS : N := 8 * (32 - SEL_DIST_BYTES).
(* xor_distance(key, id): the top bytes of the 256-bit XOR distance, as a u128 *)
Definition d16 (key id : N) : N := dist key id / 2 ^ LOW_BITS.

Section Sel.
  Context {F : Type}.
  Variable S : num F.

  (* TrustSelectionConfig *)
  Record scfg := mkSC { c_weight : F; c_min : F; c_excl : bool }.

  (* unit_interval: a trust score or weight as the score reads it - NaN and everything not
     above 0 count as 0, everything from 1 up as 1 *)
  Definition unit (x : F) : F :=
    if ltb S (zero S) x then (if leb S (one S) x then one S else x) else zero S.

  (* a NaN answer of the trust provider is read as 0 (`if trust.is_nan() { 0.0 }`) *)
  Definition nan0 (x : F) : F := if leb S x x then x else zero S.

  (* compute_score *)
  Definition dscore (d : N) : F := div S (one S) (add S (one S) (div S (ofN S d) (scale S))).
  Definition tfactor (w t : F) : F := add S w (mul S (sub S (one S) w) t).
  Definition score (c : scfg) (key id : N) (t : F) : F :=
    mul S (dscore (d16 key id)) (tfactor (unit (c_weight c)) t).

  (* a scored candidate: node, full 256-bit XOR distance, the provider's answer (NaN read as
     0) that the exclusion filter sees, the trust in [0,1] that the score uses, the score *)
  Record ent := mkEnt { e_node : node; e_dist : N; e_raw : F; e_trust : F; e_score : F }.
  Definition entry (c : scfg) (key : N) (trust_of : N -> F) (x : node) : ent :=
    let t := unit (trust_of (n_id x)) in
    mkEnt x (dist key (n_id x)) (nan0 (trust_of (n_id x))) t (score c key (n_id x) t).

  (* kept: not excluded as untrusted, and the score is a number (`score.is_nan()` drops) *)
  Definition eligible (c : scfg) (e : ent) : bool :=
    negb (c_excl c && ltb S (e_raw e) (c_min c)) && leb S (e_score e) (e_score e).

  (* the comparator handed to sort_by: score descending, then full distance ascending, then
     trust descending.  [lex r s] = r, ties of r broken by s. *)
  Definition sle (a b : ent) : bool := leb S (e_score b) (e_score a).
  Definition dle (a b : ent) : bool := e_dist a <=? e_dist b.
  Definition tle (a b : ent) : bool := leb S (e_trust b) (e_trust a).
  Definition lex (r s : ent -> ent -> bool) (a b : ent) : bool := r a b && (negb (r b a) || s a b).
  Definition before_eq : ent -> ent -> bool := lex sle (lex dle tle).

  Definition rank (c : scfg) (key : N) (trust_of : N -> F) (cands : list node) : list ent :=
    isort before_eq (filter (eligible c) (map (entry c key trust_of) cands)).

  (* select_peers_with_config *)
  Definition select (c : scfg) (key : N) (trust_of : N -> F) (cands : list node) (count : N) : list node :=
    map e_node (take count (rank c key trust_of cands)).

  (* the selection of the unrepaired source (F16a, F16b), kept only for the refutation
     witnesses: raw trust and weight, ties of the score keep the input order *)
  Definition select_old (c : scfg) (key : N) (trust_of : N -> F) (cands : list node) (count : N) : list node :=
    let ent_old x := let t := trust_of (n_id x) in
                     mkEnt x (dist key (n_id x)) t t
                           (mul S (dscore (d16 key (n_id x))) (tfactor (c_weight c) t)) in
    map e_node (take count (isort sle (filter (eligible c) (map ent_old cands)))).

  (* ---------- DhtCoreEngine::select_query_peers / select_storage_peers ---------- *)
  (* [sel] = None: trust selection disabled; Some (query config, storage config) otherwise *)
  Definition engine_select (sel : option (scfg * scfg)) (trust_of : N -> F) (storage : bool)
                           (t : table) (key count : N) : list node :=
    let cands := closest t key (count * (if storage then SEL_STORAGE_WIDEN else SEL_QUERY_WIDEN)) in
    match sel with
    | Some (qc, sc) => select (if storage then sc else qc) key trust_of cands count
    | None => take count cands
    end.

  (* TrustSelectionConfig::for_storage / for_queries, from the literals of the source *)
  Variable ofQ : Q -> F.
  Definition for_storage : scfg := mkSC (ofQ SEL_STORAGE_WEIGHT) (ofQ SEL_STORAGE_MIN) true.
  Definition for_queries : scfg := mkSC (ofQ SEL_QUERY_WEIGHT) (ofQ SEL_QUERY_MIN) false.

  (* ---------- predicates evaluated on the IMPLEMENTATION's answers ---------- *)
  Definition feq (a b : F) : bool := leb S a b && leb S b a.
  (* x must not be ranked ahead of y: y is closer with equal trust, or equally far and more trusted *)
  Definition misranked (x y : ent) : bool :=
    (feq (e_trust x) (e_trust y) && (e_dist y <? e_dist x)) ||
    ((e_dist x =? e_dist y) && ltb S (e_trust x) (e_trust y)).
  Fixpoint ranked_ok (l : list ent) : bool :=
    match l with
    | [] => true
    | x :: tl => forallb (fun y => negb (misranked x y)) tl && ranked_ok tl
    end.
  (* remove one occurrence *)
  Fixpoint remove1 (x : node) (l : list node) : option (list node) :=
    match l with
    | [] => None
    | y :: tl => if node_eqb x y then Some tl
                 else match remove1 x tl with Some r => Some (y :: r) | None => None end
    end.
  (* res is a sub-multiset of cands; returns what is left *)
  Fixpoint submulti (res cands : list node) : option (list node) :=
    match res with
    | [] => Some cands
    | x :: tl => match remove1 x cands with Some c' => submulti tl c' | None => None end
    end.
  (* conclusions of C16_selection_wf, C16_storage_floor, C16_rank_distance, C16_rank_trust on
     an answer [res] of the implementation *)
  Definition selection_ok (c : scfg) (key : N) (trust_of : N -> F) (cands : list node) (count : N)
                          (res : list node) : bool :=
    let ents := map (entry c key trust_of) res in
    (N.of_nat (length res) <=? count) &&
    match submulti res cands with
    | None => false
    | Some lft =>
        (* left out: only excluded peers, unless the answer is full; nobody left out should
           have been ranked ahead of somebody selected *)
        let left_ents := filter (eligible c) (map (entry c key trust_of) lft) in
        ((N.of_nat (length res) =? count) || match left_ents with [] => true | _ => false end) &&
        forallb (fun x => forallb (fun y => negb (misranked x y)) left_ents) ents
    end &&
    forallb (fun e => negb (c_excl c && ltb S (e_raw e) (c_min c))) ents &&
    ranked_ok ents.
End Sel.

Arguments e_node {F}. Arguments e_dist {F}. Arguments e_raw {F}. Arguments e_trust {F}. Arguments e_score {F}.

(* ---------- the two instances ---------- *)
Definition fnum : num float :=
  mkNum float PrimFloat.zero PrimFloat.one (f64_of_Q SEL_SCALE)
        PrimFloat.add PrimFloat.sub PrimFloat.mul PrimFloat.div PrimFloat.leb PrimFloat.ltb f64_of_N.
Definition qnum : num Q :=
  mkNum Q 0%Q 1%Q SEL_SCALE Qplus Qminus Qmult Qdiv Qle_bool (fun a b => negb (Qle_bool b a))
        (fun n => inject_Z (Z.of_N n)).

(* ---------- executable interface for the correspondence check (binary64) ---------- *)
Definition fb := f64_of_bits.
Fixpoint lookup (l : list (N * float)) (dflt : float) (id : N) : float :=
  match l with [] => dflt | (k, v) :: tl => if k =? id then v else lookup tl dflt id end.

(* selector case: weight, min, exclude, key, candidates, trust table, count, observed answer *)
Definition scase := (float * float * bool * N * list node * list (N * float) * N * list node)%type.
Definition check_sel (c : scase) : bool :=
  let '(w, mn, ex, key, cands, tr, count, res) := c in
  nodes_eqb (select fnum (mkSC w mn ex) key (lookup tr PrimFloat.zero) cands count) res.
Definition prop_sel (c : scase) : bool :=
  let '(w, mn, ex, key, cands, tr, count, res) := c in
  selection_ok fnum (mkSC w mn ex) key (lookup tr PrimFloat.zero) cands count res.

(* engine case: routing operations (Model/Routing.v) interleaved with the engine's selections *)
Inductive eop :=
| R (o : op)
| SetSel (s : option (float * float * bool * (float * float * bool))) (tr : list (N * float))
                                   (* enable_trust_selection* / disable_trust_selection *)
| SelQuery (key count : N)         (* select_query_peers *)
| SelStorage (key count : N).      (* select_storage_peers *)

Record estate := mkES { es_t : table; es_sel : option (@scfg float * @scfg float); es_tr : list (N * float) }.
Definition cfg3 (x : float * float * bool) : @scfg float := let '(w, m, e) := x in mkSC w m e.
Definition estep (s : estate) (o : eop) : estate * obs :=
  match o with
  | R ro => let '(t1, r) := step (es_t s) ro in (mkES t1 (es_sel s) (es_tr s), r)
  | SetSel None tr => (mkES (es_t s) None tr, OOk)
  | SetSel (Some (q, st)) tr => (mkES (es_t s) (Some (cfg3 q, cfg3 st)) tr, OOk)
  | SelQuery key count =>
      (s, ONodes (engine_select fnum (es_sel s) (lookup (es_tr s) PrimFloat.zero) false (es_t s) key count))
  | SelStorage key count =>
      (s, ONodes (engine_select fnum (es_sel s) (lookup (es_tr s) PrimFloat.zero) true (es_t s) key count))
  end.
Fixpoint erun (s : estate) (ops : list eop) : estate * list obs :=
  match ops with
  | [] => (s, [])
  | o :: tl => let '(s1, r) := estep s o in let '(s2, rs) := erun s1 tl in (s2, r :: rs)
  end.
Definition estart (local : N) : estate := mkES (start local) None [].

Definition ecase := (N * list eop * list obs)%type.
Definition eop_okb (o : eop) : bool :=
  match o with R ro => op_okb ro | SetSel _ _ => true | SelQuery k _ | SelStorage k _ => key_okb k end.
Definition check_eng (c : ecase) : bool :=
  let '(local, ops, observed) := c in
  key_okb local && forallb eop_okb ops && obs_list_eqb (snd (erun (estart local) ops)) observed.

(* Conclusions of C16_evicted_absent, C16_engine_storage_floor, C16_selection_wf and
   C16_disabled_is_distance_order on the answers of the implementation.  [gone] = ids removed
   by handle_node_failure / evict_node and not offered again since (computed from the
   operations alone, not from the model table). *)
Definition drop_id (id : N) (l : list N) : list N := filter (fun y => negb (y =? id)) l.
Definition gone_after (gone : list N) (o : eop) : list N :=
  match o with
  | R (Fail id) | R (Evict id) => id :: gone
  | R (Add x _) => drop_id (n_id x) gone
  | R (Join l) => fold_left (fun g x => drop_id (n_id x) g) l gone
  | _ => gone
  end.
Definition absent_ok (gone : list N) (res : list node) : bool :=
  forallb (fun x => negb (existsb (N.eqb (n_id x)) gone)) res.
Definition eobs_ok (s : estate) (gone : list N) (o : eop) (r : obs) : bool :=
  let t := es_t s in
  let tr := lookup (es_tr s) PrimFloat.zero in
  let sel_ok (storage : bool) key count res :=
    absent_ok gone res &&
    nodup_N (ids res) && (N.of_nat (length res) <=? count) &&
    forallb (fun x => existsb (node_eqb x) (all_nodes t)) res &&
    match es_sel s with
    | None => answer_ok t key count res      (* exactly the closest, in distance order *)
    | Some (qc, sc) =>
        let c := if storage then sc else qc in
        let ents := map (entry fnum c key tr) res in
        forallb (fun e => negb (c_excl c && PrimFloat.ltb (e_raw e) (c_min c))) ents && ranked_ok fnum ents
    end in
  match o, r with
  | R (Find _ _), ONodes res | R (ReqFindNode _ _), ONodes res | R (ReqFindValue _), ONodes res => absent_ok gone res
  | R _, ONodes _ => false
  | R _, _ => true
  | SetSel _ _, OOk => true
  | SelQuery key count, ONodes res => sel_ok false key count res
  | SelStorage key count, ONodes res => sel_ok true key count res
  | _, _ => false
  end.
Fixpoint eprop_run (s : estate) (gone : list N) (ops : list eop) (observed : list obs) : bool :=
  match ops, observed with
  | [], [] => true
  | o :: ops', r :: obs' => eobs_ok s gone o r && eprop_run (fst (estep s o)) (gone_after gone o) ops' obs'
  | _, _ => false
  end.
Definition prop_eng (c : ecase) : bool :=
  let '(local, ops, observed) := c in eprop_run (estart local) [] ops observed.
