(* Model of DhtNetworkManager::put / get and the remote PUT / FIND_VALUE handlers (C03).
   Definitions only.  Builds on Model/Lookup.v for the closest-node lookup of put.

   Nodes are [pid]s; every node has a store  key -> option value.  A value is
   abstracted to (vid, len): an identifier for its byte string (the harness
   gives distinct byte strings distinct ids) and its length in bytes. *)
From SV Require Import Lib.Base Gen.LookupConsts Model.Lookup.
Local Open Scope N_scope.

Definition value := (N * N)%type.          (* (vid, length in bytes) *)
Definition vlen (v : value) : N := snd v.
Definition store := list (N * value).      (* key -> value, first binding wins *)
Definition stores := list (pid * store).

Fixpoint sget (s : store) (k : N) : option value :=
  match s with [] => None | (k', v) :: s' => if k' =? k then Some v else sget s' k end.
Definition sput (s : store) (k : N) (v : value) : store := (k, v) :: s.

Fixpoint node_store (ss : stores) (p : pid) : store :=
  match ss with [] => [] | (q, s) :: ss' => if q =? p then s else node_store ss' p end.
Definition set_store (ss : stores) (p : pid) (s : store) : stores := (p, s) :: ss.
Definition held (ss : stores) (p : pid) (k : N) : option value := sget (node_store ss p) k.

(* DhtCoreEngine::store as used by store_local_in_core: size check, then keep the bytes *)
Definition core_store (ss : stores) (p : pid) (k : N) (v : value) : stores * bool :=
  if CORE_MAX_DHT_VALUE_SIZE <? vlen v then (ss, false)
  else (set_store ss p (sput (node_store ss p) k v), true).

(* handle_dht_request, Put arm: validate_put_value_size, then store_local_in_core *)
Definition handle_put (ss : stores) (p : pid) (k : N) (v : value) : stores * bool :=
  if MGR_MAX_VALUE_SIZE <? vlen v then (ss, false) else core_store ss p k v.

(* ---------------- put ---------------- *)
Section Put.
  Variable keyof : pid -> N.
  Variable reply : pid -> option (list pid).   (* FIND_NODE replies, as in Model/Lookup.v *)
  Variable responsive : pid -> bool.           (* does the peer process and answer a PUT request *)
  Variable self : pid.
  Variable selfs_marked selfs_all : list pid.
  Variable repl : nat.                         (* replication factor *)

  Inductive put_result :=
  | PutRefused                                  (* value too large: nothing happens anywhere *)
  | PutDone (replicated_to : N) (outcomes : list (pid * bool)).

  (* the PUT RPCs, in target order; each responsive target runs handle_put *)
  Fixpoint replicate (ss : stores) (targets : list pid) (k : N) (v : value) : stores * list (pid * bool) :=
    match targets with
    | [] => (ss, [])
    | p :: ts =>
        let '(ss1, ok) := if responsive p then handle_put ss p k v else (ss, false) in
        let '(ss2, outs) := replicate ss1 ts k v in
        (ss2, (p, ok) :: outs)
    end.

  Definition put (ss : stores) (k : N) (v : value) (init : list pid) : stores * put_result * list pid (* FIND_NODE requests *) :=
    if MGR_MAX_VALUE_SIZE <? vlen v then (ss, PutRefused, [])
    else
      let s := lookup keyof reply self selfs_marked selfs_all k repl init in
      let targets := filter (fun p => negb (mem p selfs_all)) (best s) in
      let '(ss1, okl) := core_store ss self k v in
      if negb okl then (ss, PutRefused, rev (sent s))
      else
        let '(ss2, outs) := replicate ss1 targets k v in
        (ss2, PutDone (1 + N.of_nat (length (filter (fun o => snd o) outs))) outs, rev (sent s)).
End Put.

(* ---------------- get ---------------- *)
Inductive fv_reply :=
| FVFail                      (* timeout / send error / unexpected result *)
| FVNodes (l : list pid)      (* NodesFound *)
| FVNotFound.                 (* GetNotFound: the peer knows nobody closer *)

Inductive get_result :=
| GetFound (v : value) (source : pid)
| GetNotFoundR (peers_queried peers_failed : N).

Section Get.
  Variable nodes_reply : pid -> fv_reply.      (* what a peer that does NOT hold the key answers *)
  Variable self : pid.
  Variable selfs_marked selfs_all : list pid.
  Variable key : N.

  Record gst := mkG {
    g_cand : list pid; g_queried : list pid; g_queued : list pid; g_sent : list pid;
    g_failed : N; g_cut : bool;
  }.

  (* what peer p answers to FIND_VALUE(key): its own stored bytes for that key if it has any *)
  Definition fv_answer (ss : stores) (p : pid) : option value + fv_reply :=
    match nodes_reply p with
    | FVFail => inr FVFail
    | r => match held ss p key with Some v => inl (Some v) | None => inr r end
    end.

  Fixpoint gpop (qd : list pid) (c queuedl batch : list pid) : list pid * list pid * list pid :=
    match c with
    | [] => ([], queuedl, batch)
    | x :: c' =>
        if (N.to_nat GET_ALPHA <=? length batch)%nat then (c, queuedl, batch)
        else
          let queuedl' := filter (fun y => negb (y =? x)) queuedl in
          if existsb (N.eqb x) qd then gpop qd c' queuedl' batch else gpop qd c' queuedl' (batch ++ [x])
    end.

  Definition gconsider (s : gst) (n : pid) : gst :=
    if existsb (N.eqb n) (g_queried s) || existsb (N.eqb n) (g_queued s) || existsb (N.eqb n) selfs_all then s
    else if (N.to_nat LK_MAX_CANDIDATE_NODES <=? length (g_cand s))%nat
         then mkG (g_cand s) (g_queried s) (g_queued s) (g_sent s) (g_failed s) true
         else mkG (g_cand s ++ [n]) (g_queried s) (n :: g_queued s) (g_sent s) (g_failed s) (g_cut s).

  (* process the batch results in order; stop at the first value *)
  Fixpoint gprocess (ss : stores) (s : gst) (batch : list pid) : gst * option (value * pid) :=
    match batch with
    | [] => (s, None)
    | p :: rest =>
        let s1 := mkG (g_cand s) (p :: g_queried s) (g_queued s) (g_sent s) (g_failed s) (g_cut s) in
        match fv_answer ss p with
        | inl (Some v) => (s1, Some (v, p))
        | inl None => gprocess ss s1 rest
        | inr FVFail => gprocess ss (mkG (g_cand s1) (g_queried s1) (g_queued s1) (g_sent s1) (g_failed s1 + 1) (g_cut s1)) rest
        | inr FVNotFound => gprocess ss s1 rest
        | inr (FVNodes l) => gprocess ss (fold_left gconsider l s1) rest
        end
    end.

  Fixpoint gloop (fuel : nat) (ss : stores) (s : gst) : gst * option (value * pid) :=
    match fuel with
    | O => (mkG (g_cand s) (g_queried s) (g_queued s) (g_sent s) (g_failed s)
                (g_cut s || match g_cand s with [] => false | _ => true end), None)
    | S f =>
        match g_cand s with
        | [] => (s, None)
        | _ =>
            let '(c', q', batch) := gpop (g_queried s) (g_cand s) (g_queued s) [] in
            (* every member of the batch is sent a request before any result is looked at *)
            let s0 := mkG c' (g_queried s) q' (rev batch ++ g_sent s) (g_failed s) (g_cut s) in
            match batch with
            | [] => (s0, None)
            | _ => match gprocess ss s0 batch with
                   | (s1, Some r) => (s1, Some r)
                   | (s1, None) => gloop f ss s1
                   end
            end
        end
    end.

  (* result: stores after, outcome, FIND_VALUE requests in order, "cut by a budget" flag *)
  Definition get (ss : stores) (init : list pid) : stores * get_result * list pid * bool :=
    match held ss self key with
    | Some v => (ss, GetFound v self, [], false)
    | None =>
        let '(s, r) := gloop (N.to_nat GET_MAX_ITERATIONS) ss (mkG init selfs_marked init [] 0 false) in
        match r with
        | Some (v, p) => (fst (core_store ss self key v), GetFound v p, rev (g_sent s), g_cut s)
        | None => (ss, GetNotFoundR (N.of_nat (length (g_queried s))) (g_failed s), rev (g_sent s), g_cut s)
        end
    end.
End Get.

(* ---------------- executable interface for the correspondence check ---------------- *)
Definition value_eqb (a b : value) : bool := (fst a =? fst b) && (snd a =? snd b).
Definition ovalue_eqb (a b : option value) : bool :=
  match a, b with Some x, Some y => value_eqb x y | None, None => true | _, _ => false end.

(* stores compared on a finite grid of (node, key) *)
Definition stores_agree (ss : stores) (grid : list (pid * N * option value)) : bool :=
  forallb (fun '(p, k, ov) => ovalue_eqb (held ss p k) ov) grid.
Definition stores_of_grid (grid : list (pid * N * option value)) : stores :=
  fold_right (fun '(p, k, ov) ss => match ov with Some v => set_store ss p (sput (node_store ss p) k v) | None => ss end) [] grid.

Record pcase := mkPut {
  p_keys : list (N * N); p_replies : list (N * option (list N)); p_silent : list N;
  p_self : N; p_marked : list N; p_selfs : list N; p_repl : N;
  p_key : N; p_value : value; p_init : list N;
  p_pre : list (pid * N * option value);
  p_obs_refused : bool; p_obs_replicated : N; p_obs_outcomes : list (N * bool);
  p_obs_requests : list N;            (* FIND_NODE destinations *)
  p_obs_put_targets : list N;         (* PUT destinations, in order *)
  p_post : list (pid * N * option value);
}.

Fixpoint outcomes_eqb (a b : list (N * bool)) : bool :=
  match a, b with
  | [], [] => true
  | (p, x) :: a', (q, y) :: b' => (p =? q) && Bool.eqb x y && outcomes_eqb a' b'
  | _, _ => false
  end.

Definition run_put (c : pcase) :=
  put (assoc 0 (p_keys c)) (assoc None (p_replies c)) (fun p => negb (existsb (N.eqb p) (p_silent c)))
      (p_self c) (p_marked c) (p_selfs c) (N.to_nat (p_repl c))
      (stores_of_grid (p_pre c)) (p_key c) (p_value c) (p_init c).

Definition check_pcase (c : pcase) : bool :=
  let '(ss, r, reqs) := run_put c in
  stores_agree ss (p_post c) &&
  match r with
  | PutRefused => p_obs_refused c
  | PutDone n outs =>
      negb (p_obs_refused c) && (n =? p_obs_replicated c) && outcomes_eqb outs (p_obs_outcomes c)
      && list_N_eqb (map fst outs) (p_obs_put_targets c) && set_eqb reqs (p_obs_requests c)
  end.

(* the property on the implementation's own observations *)
Definition prop_pcase (c : pcase) : bool :=
  let big := MGR_MAX_VALUE_SIZE <? vlen (p_value c) in
  (* oversized values are refused and change no store anywhere *)
  (if big then p_obs_refused c && stores_agree (stores_of_grid (p_pre c)) (p_post c) else negb (p_obs_refused c)) &&
  (* never addressed to self; every reported success holds exactly the value; the origin holds it *)
  forallb (fun p => negb (existsb (N.eqb p) (p_selfs c))) (p_obs_put_targets c) &&
  (big ||
   (forallb (fun '(p, ok) => negb ok || ovalue_eqb (held (stores_of_grid (p_post c)) p (p_key c)) (Some (p_value c))) (p_obs_outcomes c)
    && ovalue_eqb (held (stores_of_grid (p_post c)) (p_self c) (p_key c)) (Some (p_value c)))) &&
  (* no stored value anywhere exceeds the limit *)
  forallb (fun '(_, _, ov) => match ov with Some v => vlen v <=? MGR_MAX_VALUE_SIZE | None => true end) (p_post c).

Record gcase := mkGet {
  g_replies : list (N * fv_reply);
  g_self : N; g_marked : list N; g_selfs : list N;
  g_key : N; g_init : list N;
  g_pre : list (pid * N * option value);
  g_obs_found : option (value * N);        (* value and the node it came from *)
  g_obs_queried : N; g_obs_failed : N;
  g_obs_requests : list N;
  g_post : list (pid * N * option value);
}.

Definition run_get (c : gcase) :=
  get (assoc FVFail (g_replies c)) (g_self c) (g_marked c) (g_selfs c) (g_key c) (stores_of_grid (g_pre c)) (g_init c).

Definition check_gcase (c : gcase) : bool :=
  let '(ss, r, reqs, _) := run_get c in
  stores_agree ss (g_post c) && set_eqb reqs (g_obs_requests c) &&
  match r, g_obs_found c with
  | GetFound v p, Some (v', p') => value_eqb v v' && (p =? p')
  | GetNotFoundR q f, None => (q =? g_obs_queried c) && (f =? g_obs_failed c)
  | _, _ => false
  end.

Definition g_learned (c : gcase) : list N :=
  g_init c ++ flat_map (fun p => match assoc FVFail (g_replies c) p with FVNodes l => l | _ => [] end) (g_obs_requests c).

Definition prop_gcase (c : gcase) : bool :=
  let '(_, _, _, cut) := run_get c in
  match g_obs_found c with
  | Some (v, p) =>
      (* the bytes returned are bytes node p held under this very key before the get *)
      ovalue_eqb (held (stores_of_grid (g_pre c)) p (g_key c)) (Some v)
      && ((p =? g_self c) || existsb (N.eqb p) (g_obs_requests c))
  | None =>
      (* nobody that was reached held the key *)
      forallb (fun p => match assoc FVFail (g_replies c) p with
                        | FVFail => true
                        | _ => match held (stores_of_grid (g_pre c)) p (g_key c) with None => true | Some _ => false end
                        end) (g_obs_requests c)
      && match held (stores_of_grid (g_pre c)) (g_self c) (g_key c) with None => true | Some _ => false end
      (* not-found only after every learned peer was queried (or failed), unless the budget ran out *)
      && (cut || forallb (fun p => existsb (N.eqb p) (g_obs_requests c) || existsb (N.eqb p) (g_selfs c)) (g_learned c))
  end.
