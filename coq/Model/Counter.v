(* Model of src/monotonic_counter.rs (C12).  Definitions only.
   Constants come from Gen.CounterConsts.v, regenerated from the Rust source on every run. *)
From SV Require Import Lib.Base Gen.CounterConsts.

Record entry := mkE { e_seq : N; e_ts : N; e_hash : N }.
Record pc := mkPC { pc_last : N; pc_hist : list entry }.
Definition pc_new : pc := mkPC 0 [].

Inductive vres := Valid | Replay | TooOld | Gap (expected received : N) | FromFuture.

Definition vres_eqb (a b : vres) : bool :=
  match a, b with
  | Valid, Valid | Replay, Replay | TooOld, TooOld | FromFuture, FromFuture => true
  | Gap e r, Gap e' r' => (e =? e')%N && (r =? r')%N
  | _, _ => false
  end.

Definition has_seen (c : pc) (seq h : N) : bool :=
  existsb (fun e => (e_seq e =? seq)%N && (e_hash e =? h)%N) (pc_hist c).

(* validate_sequence_internal: decision order future, too-old, seen, gap, <= last.
   [N.sub] truncates at 0 exactly like u64::saturating_sub. *)
Definition validate (now : N) (c : pc) (seq h ts : N) : vres :=
  if (now + CTR_FUTURE_SKEW_SECS <? ts)%N then FromFuture
  else if (ts <? now - CTR_MAX_SEQUENCE_AGE_SECS)%N then TooOld
  else if has_seen c seq h then Replay
  else if (pc_last c + 1 <? seq)%N then Gap (pc_last c + 1) seq
  else if (seq <=? pc_last c)%N then Replay
  else Valid.

(* PeerCounter::apply_sequence_update, with the history bound *)
Definition apply_update (c : pc) (seq h ts : N) : pc :=
  let hist := pc_hist c ++ [mkE seq ts h] in
  mkPC seq (if (CTR_MAX_SEQUENCE_HISTORY <? N.of_nat (length hist))%N then tl hist else hist).

Definition cleanup (cutoff : N) (c : pc) : pc :=
  mkPC (pc_last c) (filter (fun e => (cutoff <=? e_ts e)%N) (pc_hist c)).

Definition store := N -> pc.
Definition st_init : store := fun _ => pc_new.
Definition upd (st : store) (p : N) (c : pc) : store :=
  fun q => if (q =? p)%N then c else st q.

(* One submission = the body executed under the single write lock in
   validate_sequence / one loop iteration of batch_update.  [now] is the wall
   clock read inside the call, [ts] the submitted timestamp (= now for
   validate_sequence, caller supplied for batch_update). *)
Inductive op :=
| Submit (now p seq h ts : N)
| Cleanup (cutoff : N).

Definition step (st : store) (o : op) : store * option vres :=
  match o with
  | Submit now p seq h ts =>
      let r := validate now (st p) seq h ts in
      (match r with Valid => upd st p (apply_update (st p) seq h ts) | _ => st end, Some r)
  | Cleanup cutoff => (fun q => cleanup cutoff (st q), None)
  end.

Fixpoint run (st : store) (ops : list op) : store * list (option vres) :=
  match ops with
  | [] => (st, [])
  | o :: tl => let '(st1, r) := step st o in
               let '(st2, rs) := run st1 tl in (st2, r :: rs)
  end.

(* the submissions of peer [p] that were accepted, in order *)
Fixpoint accepted (p : N) (ops : list op) (rs : list (option vres)) : list N :=
  match ops, rs with
  | Submit _ q seq _ _ :: ops', Some Valid :: rs' =>
      if (q =? p)%N then seq :: accepted p ops' rs' else accepted p ops' rs'
  | _ :: ops', _ :: rs' => accepted p ops' rs'
  | _, _ => []
  end.

Definition for_peer (p : N) (o : op) : bool :=
  match o with Submit _ q _ _ _ => (q =? p)%N | Cleanup _ => true end.

(* results restricted to one peer's submissions *)
Fixpoint results_of (p : N) (ops : list op) (rs : list (option vres)) : list (option vres) :=
  match ops, rs with
  | o :: ops', r :: rs' => if for_peer p o then r :: results_of p ops' rs' else results_of p ops' rs'
  | _, _ => []
  end.

(* [start; start+1; ...] of length len *)
Fixpoint Nseq (start : N) (len : nat) : list N :=
  match len with O => [] | S k => start :: Nseq (start + 1) k end.

Fixpoint list_N_eqb (a b : list N) : bool :=
  match a, b with
  | [], [] => true
  | x :: a', y :: b' => (x =? y)%N && list_N_eqb a' b'
  | _, _ => false
  end.

(* ---- executable interface for the correspondence check ---- *)
(* A case: a list of ops with the verdict the implementation returned for each
   Submit, and the final last_valid_sequence the implementation reports for a
   list of peers.  Reload points are modelled by [Reload]: the implementation
   was dropped and re-created from the file persisted at that point; on the
   model side the state is simply kept (the persisted snapshot is the state). *)
Definition case_ok (ops : list op) (observed : list (option vres)) (finals : list (N * N)) : bool :=
  let '(st, rs) := run st_init ops in
  (Nat.eqb (length rs) (length observed)) &&
  forallb (fun '(a, b) => match a, b with
                          | Some x, Some y => vres_eqb x y
                          | None, None => true
                          | _, _ => false end) (combine rs observed) &&
  forallb (fun '(p, l) => (pc_last (st p) =? l)%N) finals.

(* The conclusion of C12_accepted_is_1_2_3 evaluated on the verdicts the
   IMPLEMENTATION returned (not the model's): per listed peer, the accepted
   numbers are exactly 1..final counter. *)
Definition obs_prop_ok (ops : list op) (observed : list (option vres)) (finals : list (N * N)) : bool :=
  forallb (fun '(p, l) => list_N_eqb (accepted p ops observed) (Nseq 1 (N.to_nat l))) finals.

Definition case3 := (list op * list (option vres) * list (N * N))%type.
Definition check_case (c : case3) : bool := let '(ops, obs, fin) := c in case_ok ops obs fin.
Definition prop_case (c : case3) : bool := let '(ops, obs, fin) := c in obs_prop_ok ops obs fin.
