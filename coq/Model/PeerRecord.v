(* Model of src/peer_record.rs (C09): the canonical signable encoding, byte for
   byte (including postcard's encoding of the endpoint list), verification,
   the signature cache and the constructor's bounds.  Definitions only.
   Constants come from Gen.PeerRecordConsts.v (regenerated from the source). *)
From SV Require Import Lib.Base Gen.PeerRecordConsts.
Local Open Scope N_scope.

Definition bytes := list N.

Fixpoint bytes_eqb (a b : bytes) : bool :=
  match a, b with
  | [], [] => true
  | x :: a', y :: b' => (x =? y) && bytes_eqb a' b'
  | _, _ => false
  end.

Definition len {A} (l : list A) : N := N.of_nat (length l).

(* ---------------------------------------------------------------- integers *)
(* little-endian digits, base 256; [be w n] = n.to_be_bytes() for a w-byte
   integer.  Only the low w bytes are produced, exactly like `x as u32`. *)
Fixpoint le (w : nat) (n : N) : bytes :=
  match w with O => [] | S k => n mod 256 :: le k (n / 256) end.
Definition be (w : nat) (n : N) : bytes := rev (le w n).

Fixpoint of_le (bs : bytes) : N :=
  match bs with [] => 0 | b :: t => b + 256 * of_le t end.
Definition of_be (bs : bytes) : N := of_le (rev bs).

(* postcard varint (LEB128): 7 bits per byte, least significant group first,
   bit 7 = "more follows".  10 bytes hold every u64. *)
Fixpoint varint (fuel : nat) (n : N) : bytes :=
  match fuel with
  | O => []
  | S f => if n <? 128 then [n] else (128 + n mod 128) :: varint f (n / 128)
  end.
Fixpoint unvarint (fuel : nat) (bs : bytes) : option (N * bytes) :=
  match fuel with
  | O => None
  | S f => match bs with
           | [] => None
           | b :: t => if b <? 128 then Some (b, t)
                       else match unvarint f t with
                            | Some (v, r) => Some (b - 128 + 128 * v, r)
                            | None => None
                            end
           end
  end.
Definition VFUEL : nat := 10.
Definition vint (n : N) : bytes := varint VFUEL n.
Definition unvint (bs : bytes) : option (N * bytes) := unvarint VFUEL bs.

(* ---------------------------------------------------------------- records *)
(* std::net::SocketAddr.  serde's impl for SocketAddrV6 writes (ip, port) only:
   flowinfo and scope_id are part of the Rust value (and of its PartialEq) but
   not of the encoding. *)
Inductive saddr :=
| V4 (ip : bytes) (port : N)
| V6 (ip : bytes) (port flow scope : N).

(* PeerEndpoint, fields in declaration order; strings are their UTF-8 bytes *)
Record endpoint := mkEp {
  ep_id : bytes;              (* EndpointId.uuid, 16 bytes *)
  ep_addr : saddr;            (* external_address.socket_addr *)
  ep_words : option bytes;    (* external_address.four_words *)
  ep_nat : N;                 (* NatType variant index 0..5 *)
  ep_coord : list bytes;      (* coordinator_nodes *)
  ep_dev : option bytes;      (* device_info *)
  ep_upd : N                  (* last_updated *)
}.

Record prec := mkRec {
  r_ver : N;
  r_uid : bytes;              (* 32 bytes *)
  r_pk : bytes;               (* fixed width *)
  r_seq : N;
  r_name : option bytes;
  r_eps : list endpoint;
  r_ttl : N;
  r_ts : N;
  r_sig : bytes               (* fixed width *)
}.

(* ---------------------------------------------------------------- encoders *)
Definition enc_bytes (b : bytes) : bytes := vint (len b) ++ b.
Definition enc_opt (o : option bytes) : bytes :=
  match o with None => [0] | Some b => 1 :: enc_bytes b end.
Definition enc_strs (l : list bytes) : bytes := vint (len l) ++ concat (map enc_bytes l).
Definition enc_addr (a : saddr) : bytes :=
  match a with
  | V4 ip p => 0 :: ip ++ vint p
  | V6 ip p _ _ => 1 :: ip ++ vint p
  end.
Definition enc_ep (e : endpoint) : bytes :=
  enc_bytes (ep_id e) ++ enc_addr (ep_addr e) ++ enc_opt (ep_words e) ++ vint (ep_nat e)
  ++ enc_strs (ep_coord e) ++ enc_opt (ep_dev e) ++ vint (ep_upd e).
(* postcard::to_stdvec(&self.endpoints) *)
Definition enc_eps (l : list endpoint) : bytes := vint (len l) ++ concat (map enc_ep l).

Definition enc_name (o : option bytes) : bytes :=
  match o with Some nm => be 4 (len nm) ++ nm | None => be 4 0 end.

(* PeerDHTRecord::create_signable_message, the byte string *)
Definition signable (r : prec) : bytes :=
  r_ver r :: r_uid r ++ r_pk r ++ be 8 (r_seq r) ++ enc_name (r_name r)
  ++ be 4 (len (enc_eps (r_eps r))) ++ enc_eps (r_eps r) ++ be 8 (r_ts r) ++ be 4 (r_ttl r).

(* A present but empty name would be encoded exactly like an absent one; the
   encoder refuses it (create_signable_message returns Err). *)
Definition name_empty (r : prec) : bool :=
  match r_name r with Some [] => true | _ => false end.
Definition signable_opt (r : prec) : option bytes :=
  if name_empty r then None else Some (signable r).

(* ---------------------------------------------------------------- parser
   (not in the Rust code: the proof device for injectivity) *)
Definition take_n (w : nat) (bs : bytes) : option (bytes * bytes) :=
  if (w <=? length bs)%nat then Some (firstn w bs, skipn w bs) else None.

Definition bind {A B} (x : option A) (f : A -> option B) : option B :=
  match x with Some a => f a | None => None end.
Notation "'do' p <- x ; y" := (bind x (fun p => y))
  (at level 200, p pattern, x at level 100, y at level 200, right associativity).

Definition dec_be (w : nat) (bs : bytes) : option (N * bytes) :=
  do (a, r) <- take_n w bs; Some (of_be a, r).
Definition dec_bytes (bs : bytes) : option (bytes * bytes) :=
  do (n, r) <- unvint bs; take_n (N.to_nat n) r.
Definition dec_opt (bs : bytes) : option (option bytes * bytes) :=
  match bs with
  | 0 :: t => Some (None, t)
  | 1 :: t => do (b, r) <- dec_bytes t; Some (Some b, r)
  | _ => None
  end.
Fixpoint dec_many {A} (d : bytes -> option (A * bytes)) (n : nat) (bs : bytes) : option (list A * bytes) :=
  match n with
  | O => Some ([], bs)
  | S k => do (a, r) <- d bs; do (l, r') <- dec_many d k r; Some (a :: l, r')
  end.
Definition dec_strs (bs : bytes) : option (list bytes * bytes) :=
  do (n, r) <- unvint bs; dec_many dec_bytes (N.to_nat n) r.
Definition dec_addr (bs : bytes) : option (saddr * bytes) :=
  match bs with
  | 0 :: t => do (ip, r) <- take_n 4 t; do (p, r') <- unvint r; Some (V4 ip p, r')
  | 1 :: t => do (ip, r) <- take_n 16 t; do (p, r') <- unvint r; Some (V6 ip p 0 0, r')
  | _ => None
  end.
Definition dec_ep (bs : bytes) : option (endpoint * bytes) :=
  do (id, r1) <- dec_bytes bs;
  do (a, r2) <- dec_addr r1;
  do (w, r3) <- dec_opt r2;
  do (nt, r4) <- unvint r3;
  do (co, r5) <- dec_strs r4;
  do (dv, r6) <- dec_opt r5;
  do (up, r7) <- unvint r6;
  Some (mkEp id a w nt co dv up, r7).
Definition dec_eps (bs : bytes) : option (list endpoint * bytes) :=
  do (n, r) <- unvint bs; dec_many dec_ep (N.to_nat n) r.

(* what the signature covers *)
Record fields := mkF {
  f_ver : N; f_uid : bytes; f_pk : bytes; f_seq : N; f_name : option bytes;
  f_eps : list endpoint; f_ts : N; f_ttl : N
}.
Definition fields_of (r : prec) : fields :=
  mkF (r_ver r) (r_uid r) (r_pk r) (r_seq r) (r_name r) (r_eps r) (r_ts r) (r_ttl r).

Definition parse_signable (pkw : nat) (bs : bytes) : option (fields * bytes) :=
  match bs with
  | [] => None
  | v :: t =>
    do (uid, r1) <- take_n 32 t;
    do (pk, r2) <- take_n pkw r1;
    do (seq, r3) <- dec_be 8 r2;
    do (nl, r4) <- dec_be 4 r3;
    do (nm, r5) <- take_n (N.to_nat nl) r4;
    do (el, r6) <- dec_be 4 r5;
    do (ed, r7) <- take_n (N.to_nat el) r6;
    do (eps, rest) <- dec_eps ed;
    match rest with
    | [] =>
      do (ts, r8) <- dec_be 8 r7;
      do (ttl, r9) <- dec_be 4 r8;
      Some (mkF v uid pk seq (if (nl =? 0) then None else Some nm) eps ts ttl, r9)
    | _ => None
    end
  end.

(* ---------------------------------------------------------------- well-formedness *)
(* facts that hold of every in-memory Rust value (integer widths, array widths,
   allocation sizes) *)
Definition U16 : N := 2 ^ 16.
Definition U32 : N := 2 ^ 32.
Definition U64 : N := 2 ^ 64.

Definition shape_bytes (b : bytes) : Prop := len b < U64.
Definition shape_opt (o : option bytes) : Prop := match o with Some b => shape_bytes b | None => True end.
Definition shape_addr (a : saddr) : Prop :=
  match a with
  | V4 ip p => length ip = 4%nat /\ p < U16
  | V6 ip p _ _ => length ip = 16%nat /\ p < U16
  end.
Definition shape_ep (e : endpoint) : Prop :=
  shape_bytes (ep_id e) /\ shape_addr (ep_addr e) /\ shape_opt (ep_words e) /\ ep_nat e < U64 /\
  len (ep_coord e) < U64 /\ Forall shape_bytes (ep_coord e) /\ shape_opt (ep_dev e) /\ ep_upd e < U64.
Definition shape_rec (pkw : nat) (r : prec) : Prop :=
  length (r_uid r) = 32%nat /\ length (r_pk r) = pkw /\ r_seq r < U64 /\
  match r_name r with Some nm => len nm < U32 | None => True end /\
  len (r_eps r) < U64 /\ Forall shape_ep (r_eps r) /\ len (enc_eps (r_eps r)) < U32 /\
  r_ts r < U64 /\ r_ttl r < U32.

(* the class recorded as a finding (v6-scope-flowinfo): IPv6 endpoint
   addresses whose flowinfo / scope_id are not zero *)
Definition canon_addr (a : saddr) : Prop :=
  match a with V4 _ _ => True | V6 _ _ fl sc => fl = 0 /\ sc = 0 end.
Definition canon_rec (r : prec) : Prop := Forall (fun e => canon_addr (ep_addr e)) (r_eps r).

(* Boolean forms, used by the case files *)
Definition canon_addrb (a : saddr) : bool :=
  match a with V4 _ _ => true | V6 _ _ fl sc => (fl =? 0) && (sc =? 0) end.
Definition canon_recb (r : prec) : bool := forallb (fun e => canon_addrb (ep_addr e)) (r_eps r).

(* ---------------------------------------------------------------- verification *)
(* H = BLAKE3, vs = ml_dsa_verify : key -> message -> signature -> bool.
   PeerDHTRecord::verify_signature: build the signable message (fails for an
   empty name), the user id must be the hash of the embedded key, the signature
   must verify over the message under the embedded key. *)
Definition verify (H : bytes -> bytes) (vs : bytes -> bytes -> bytes -> bool) (r : prec) : bool :=
  match signable_opt r with
  | None => false
  | Some m => bytes_eqb (r_uid r) (H (r_pk r)) && vs (r_pk r) m (r_sig r)
  end.

(* what content_hash feeds to the hash: every signed byte, then the signature
   (nothing but the signature when the message cannot be built) *)
Definition key_bytes (r : prec) : bytes :=
  match signable_opt r with Some m => m | None => [] end ++ r_sig r.

(* the cache key before the repair (F09a): user id, sequence number, timestamp *)
Definition old_key_bytes (r : prec) : bytes := r_uid r ++ be 8 (r_seq r) ++ be 8 (r_ts r).

(* widths of the fixed-size arrays (hold of every Rust value) *)
Definition widths (pkw sigw : nat) (r : prec) : Prop :=
  length (r_uid r) = 32%nat /\ length (r_pk r) = pkw /\ length (r_sig r) = sigw.

(* assumed behaviour of the primitives, used as explicit hypotheses:
   - ideal signature scheme: a signature that verifies under pk was produced by
     pk's owner on exactly that message ([signed pk m]);
   - the hash has no collision among the cache-key byte strings in play. *)
Definition ideal_sig (vs : bytes -> bytes -> bytes -> bool) (signed : bytes -> bytes -> Prop) : Prop :=
  forall pk m s, vs pk m s = true -> signed pk m.
Definition collision_free (H : bytes -> bytes) (rs : list prec) : Prop :=
  forall r1 r2, In r1 rs -> In r2 rs ->
    H (key_bytes r1) = H (key_bytes r2) -> key_bytes r1 = key_bytes r2.

(* ---------------------------------------------------------------- cache *)
(* SignatureCache: HashMap<Hash,bool> as an association list.  Generic in the
   item type so that the case files can run it on (record, observed verdict). *)
Section Cache.
  Context {A : Type} (keyf : A -> bytes) (ver : A -> bool).
  Definition cache := list (bytes * bool).

  Fixpoint lookup (k : bytes) (c : cache) : option bool :=
    match c with
    | [] => None
    | (k', b) :: t => if bytes_eqb k k' then Some b else lookup k t
    end.
  Fixpoint remove_nth (n : nat) (c : cache) : cache :=
    match c, n with
    | [], _ => []
    | _ :: t, O => t
    | x :: t, S k => x :: remove_nth k t
    end.
  (* `if len >= max_size { remove keys().next() }`: which key comes first is up
     to the hash map; [victim] is that choice *)
  Definition evict (cap victim : nat) (c : cache) : cache :=
    if (cap <=? length c)%nat then remove_nth (victim mod length c) c else c.

  Definition step (cap victim : nat) (c : cache) (a : A) : cache * bool :=
    let k := keyf a in
    match lookup k c with
    | Some b => (c, b)
    | None => let b := ver a in ((k, b) :: evict cap victim c, b)
    end.

  (* [ev i c]: the victim the map would pick at step i in state c *)
  Fixpoint run (cap : nat) (ev : nat -> cache -> nat) (i : nat) (c : cache) (l : list A) : list bool :=
    match l with
    | [] => []
    | a :: t => let '(c', b) := step cap (ev i c) c a in b :: run cap ev (S i) c' t
    end.
  Fixpoint final (cap : nat) (ev : nat -> cache -> nat) (i : nat) (c : cache) (l : list A) : cache :=
    match l with
    | [] => c
    | a :: t => final cap ev (S i) (fst (step cap (ev i c) c a)) t
    end.
End Cache.

(* ---------------------------------------------------------------- bounds *)
(* PeerDHTRecord::validate_inputs on (name byte length, endpoint count, ttl) *)
Definition validate_len (name : option N) (neps ttl : N) : bool :=
  match name with
  | Some l => negb (PR_MAX_NAME_BYTES <? l) && negb (l =? 0)
  | None => true
  end
  && negb (neps =? 0) && negb (PR_MAX_ENDPOINTS <? neps)
  && negb (ttl =? 0) && negb (PR_MAX_TTL_SECONDS <? ttl).
Definition validate (name : option bytes) (eps : list endpoint) (ttl : N) : bool :=
  validate_len (option_map (@len N) name) (len eps) ttl.

(* ---------------------------------------------------------------- a toy instance
   (identity "hash", sign pk m = pk ++ m): witnesses and non-vacuity examples *)
Definition toy_H (b : bytes) : bytes := b.
Definition toy_sign (pk m : bytes) : bytes := pk ++ m.
Definition toy_vs (pk m s : bytes) : bool := bytes_eqb s (toy_sign pk m).
Definition toy_ep : endpoint := mkEp [7] (V4 [10; 0; 0; 1] 9000) None 1 [[99]] None 300.
Definition toy_pk : bytes := repeat 7 32.
Definition with_sig (r : prec) (s : bytes) : prec :=
  mkRec (r_ver r) (r_uid r) (r_pk r) (r_seq r) (r_name r) (r_eps r) (r_ttl r) (r_ts r) s.
Definition toy_unsigned (name : option bytes) : prec :=
  mkRec 1 (toy_H toy_pk) toy_pk 1 name [toy_ep] 300 1000 [].
Definition toy_genuine : prec :=
  with_sig (toy_unsigned (Some [97])) (toy_sign toy_pk (signable (toy_unsigned (Some [97])))).
(* another name, the genuine record's signature, same (id, seq, timestamp) *)
Definition toy_forged : prec := with_sig (toy_unsigned (Some [109])) (r_sig toy_genuine).

(* ---------------------------------------------------------------- case files *)
(* [B32 cs] : each number as 32 big-endian bytes (compact transport of keys and
   signatures in the generated case files) *)
Definition B32 (cs : list N) : bytes := concat (map (be 32) cs).
(* the harness's public keys are produced by this formula (harness: key_byte) *)
Definition key_byte (i j : N) : N := ((i + 1) * 73 + j * 151 + (j / 256) * 29 + (j * j) mod 251) mod 256.
Definition mk_key (i : N) (w : nat) : bytes := map (fun j => key_byte i (N.of_nat j)) (seq 0 w).
Fixpoint set_nth (n : nat) (v : N) (b : bytes) : bytes :=
  match b, n with
  | [], _ => []
  | _ :: t, O => v :: t
  | x :: t, S k => x :: set_nth k v t
  end.

(* one record presented to the real code, with what the real code said *)
Record presented := mkP {
  p_rec : prec;           (* r_sig is a one-element token: equal tokens <=> equal signature bytes *)
  p_msg : option bytes;   (* create_signable_message(): Ok(bytes) / Err *)
  p_hpk : bytes;          (* BLAKE3(public key), computed by the harness *)
  p_sv : bool;            (* ml_dsa_verify(key, real message, signature), called by the harness
                             (false when there is no message) *)
  p_hash : N;             (* content_hash(), as a token: equal tokens <=> equal hashes (within the history) *)
  p_direct : bool;        (* verify_signature().is_ok() *)
  p_cached : bool         (* verify_cached().is_ok() at this point of the history *)
}.

(* [signed]: every record the harness signed with the secret key that belongs to
   the record's embedded public key, as it was when signed *)
Inductive c09case :=
| Hist (cap : nat) (signed : list prec) (ps : list presented)
| Construct (name : option N) (neps ttl : N) (ok : bool).

Definition opt_bytes_eqb (a b : option bytes) : bool :=
  match a, b with
  | Some x, Some y => bytes_eqb x y
  | None, None => true
  | _, _ => false
  end.
Fixpoint list_eqb {A} (f : A -> A -> bool) (a b : list A) : bool :=
  match a, b with
  | [], [] => true
  | x :: a', y :: b' => f x y && list_eqb f a' b'
  | _, _ => false
  end.
Definition saddr_eqb (a b : saddr) : bool :=
  match a, b with
  | V4 i p, V4 i' p' => bytes_eqb i i' && (p =? p')
  | V6 i p f s, V6 i' p' f' s' => bytes_eqb i i' && (p =? p') && (f =? f') && (s =? s')
  | _, _ => false
  end.
Definition ep_eqb (a b : endpoint) : bool :=
  bytes_eqb (ep_id a) (ep_id b) && saddr_eqb (ep_addr a) (ep_addr b) &&
  opt_bytes_eqb (ep_words a) (ep_words b) && (ep_nat a =? ep_nat b) &&
  list_eqb bytes_eqb (ep_coord a) (ep_coord b) && opt_bytes_eqb (ep_dev a) (ep_dev b) &&
  (ep_upd a =? ep_upd b).
(* every field the signature is meant to cover *)
Definition fields_eqb (a b : fields) : bool :=
  (f_ver a =? f_ver b) && bytes_eqb (f_uid a) (f_uid b) && bytes_eqb (f_pk a) (f_pk b) &&
  (f_seq a =? f_seq b) && opt_bytes_eqb (f_name a) (f_name b) && list_eqb ep_eqb (f_eps a) (f_eps b) &&
  (f_ts a =? f_ts b) && (f_ttl a =? f_ttl b).

Definition model_verify (p : presented) : bool :=
  verify (fun _ => p_hpk p) (fun _ _ _ => p_sv p) (p_rec p).

Fixpoint all_pairs {A} (f : A -> A -> bool) (l : list A) : bool :=
  match l with
  | [] => true
  | a :: t => forallb (f a) t && all_pairs f t
  end.

(* model = implementation:
   - the encoder's bytes (or refusal) equal create_signable_message's,
   - the model's verdict (from the two primitive answers) equals verify_signature's,
   - two presented records have the same content_hash exactly when the model's
     key bytes are equal,
   - the model's cache (keys = key bytes, i.e. an ideal hash; oracle = first
     entry) produces the verdicts verify_cached produced. *)
Definition check_hist (cap : nat) (ps : list presented) : bool :=
  forallb (fun p => opt_bytes_eqb (signable_opt (p_rec p)) (p_msg p)) ps &&
  forallb (fun p => Bool.eqb (model_verify p) (p_direct p)) ps &&
  all_pairs (fun p q => Bool.eqb (fst p =? fst q) (bytes_eqb (snd p) (snd q)))
            (map (fun p => (p_hash p, key_bytes (p_rec p))) ps) &&
  list_eqb Bool.eqb
    (run (fun p => key_bytes (p_rec p)) model_verify cap (fun _ _ => O) O [] ps)
    (map p_cached ps).

(* the theorems' conclusions on the implementation's own answers:
   - cached verdict = direct verdict, at every step;
   - direct verdict true only if the message could be built, the id is the
     key's hash and the primitive accepted;
   - direct verdict true only for a record that is field-for-field one of the
     records the key's owner signed (the harness knows what it signed). *)
Definition prop_hist (signed : list prec) (ps : list presented) : bool :=
  forallb (fun p => Bool.eqb (p_cached p) (p_direct p)) ps &&
  forallb (fun p => implb (p_direct p)
                      (negb (name_empty (p_rec p)) && bytes_eqb (r_uid (p_rec p)) (p_hpk p) && p_sv p)) ps &&
  forallb (fun p => implb (p_direct p)
                      (existsb (fun g => fields_eqb (fields_of g) (fields_of (p_rec p))) signed)) ps.

Definition check_case (c : c09case) : bool :=
  match c with
  | Hist cap _ ps => check_hist cap ps
  | Construct name neps ttl ok => Bool.eqb (validate_len name neps ttl) ok
  end.
(* the bounds as the property text states them *)
Definition prop_case (c : c09case) : bool :=
  match c with
  | Hist _ signed ps => prop_hist signed ps
  | Construct name neps ttl ok =>
      Bool.eqb ok (match name with Some l => (1 <=? l) && (l <=? 255) | None => true end
                   && (1 <=? neps) && (neps <=? 16) && (1 <=? ttl) && (ttl <=? 86400))
  end.
