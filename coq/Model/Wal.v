(* Model of src/persistent_state.rs (C06, C07): write-ahead log, rotation,
   snapshots, recovery.  Definitions only.  Constants come from Gen/WalConsts.v,
   regenerated from the Rust source on every run.

   Disk  = typed finite map  file name -> bytes  (state.wal, wal.<seq>.wal,
           snapshot.<ts>.snap, snapshot.<ts>.tmp).
   Frame = le32 (length body) ++ body.
   The record codec ([deser]), the snapshot codecs and the keyed MAC ([mac],
   store key folded in) are Section variables; the concrete postcard codec used
   for evaluation is defined at the end of the file. *)
From SV Require Import Lib.Base Gen.WalConsts.
Local Open Scope N_scope.

Definition bytes := list N.
Definition key := bytes.      (* UTF-8 bytes of the key string *)
Definition val := bytes.      (* postcard bytes of the stored value *)

Fixpoint bytes_eqb (a b : bytes) : bool :=
  match a, b with
  | [], [] => true
  | x :: a', y :: b' => (x =? y) && bytes_eqb a' b'
  | _, _ => false
  end.

Definition len {A} (b : list A) : N := N.of_nat (length b).

(* ---------------------------------------------------------------- state *)
Definition state := list (key * val).
Fixpoint get (st : state) (k : key) : option val :=
  match st with
  | [] => None
  | (k', v) :: tl => if bytes_eqb k' k then Some v else get tl k
  end.
Definition del (k : key) (st : state) : state :=
  filter (fun kv => negb (bytes_eqb (fst kv) k)) st.
Definition set (k : key) (v : val) (st : state) : state := (k, v) :: del k st.

Definition change := (key * option val)%type.
Definition apply_change (st : state) (c : change) : state :=
  match snd c with Some v => set (fst c) v st | None => del (fst c) st end.
Definition apply_changes (st : state) (cs : list change) : state := fold_left apply_change cs st.

(* ---------------------------------------------------------------- records *)
Inductive ttype := TUpsert | TDelete | TBatch | TCheckpoint.
Record entry := mkEntry {
  e_ver : N; e_txid : N; e_ts : N; e_type : ttype; e_key : key; e_val : option bytes; e_tag : bytes }.

Definition ttype_code (t : ttype) : N :=
  match t with TUpsert => 0 | TDelete => 1 | TBatch => 2 | TCheckpoint => 3 end.

Fixpoint le_bytes (n : nat) (x : N) : bytes :=
  match n with O => [] | S k => (x mod 256) :: le_bytes k (x / 256) end.
Fixpoint le_val (b : bytes) : N :=
  match b with [] => 0 | x :: tl => x + 256 * le_val tl end.

(* exactly the byte string calculate_entry_hmac feeds to HMAC (after the fix that
   length-prefixes key and value) *)
Definition entry_fields (ver txid ts : N) (t : ttype) (k : key) (v : option bytes) : bytes :=
  [ver] ++ le_bytes 8 txid ++ le_bytes 8 ts ++ [ttype_code t] ++ le_bytes 8 (len k) ++ k ++
  match v with None => [0] | Some x => [1] ++ le_bytes 8 (len x) ++ x end.
Definition fields_of (e : entry) : bytes :=
  entry_fields (e_ver e) (e_txid e) (e_ts e) (e_type e) (e_key e) (e_val e).

(* compact notation used by the generated case files: [len] bytes of a little-endian number *)
Definition B (n : nat) (x : N) : bytes := le_bytes n x.
Definition B8 (l : list N) : bytes := flat_map (le_bytes 8) l.

Definition frame (body : bytes) : bytes := le_bytes 4 (len body) ++ body.

(* ---------------------------------------------------------------- frame parser
   replay_wal_file's framing loop: stop at end of file; fewer than 4 bytes left or
   a length prefix larger than the bytes remaining = torn tail (stop).
   [allocs] records every buffer size requested (C07_alloc). *)
Fixpoint parse_frames (fuel : nat) (rem : N) (b : bytes) : list bytes * bool :=
  match fuel with
  | O => ([], false)
  | S fuel' =>
    if rem =? 0 then ([], false)
    else if rem <? 4 then ([], true)
    else let n := le_val (firstn 4 b) in
         let rest := skipn 4 b in
         if rem - 4 <? n then ([], true)
         else let '(fs, t) := parse_frames fuel' (rem - 4 - n) (skipn (N.to_nat n) rest) in
              (firstn (N.to_nat n) rest :: fs, t)
  end.
(* [rem] is the file length taken from the metadata, as in the code *)
Definition parse (b : bytes) : list bytes * bool := parse_frames (S (length b)) (len b) b.

Fixpoint parse_allocs (fuel : nat) (rem : N) (b : bytes) : list (N * N) :=
  match fuel with
  | O => []
  | S fuel' =>
    if rem =? 0 then []
    else if rem <? 4 then []
    else let n := le_val (firstn 4 b) in
         let rest := skipn 4 b in
         if rem - 4 <? n then []
         else (n, rem - 4) :: parse_allocs fuel' (rem - 4 - n) (skipn (N.to_nat n) rest)
  end.
(* every buffer size requested while replaying the file, with the bytes that remained *)
Definition allocs (b : bytes) : list (N * N) := parse_allocs (S (length b)) (len b) b.

(* number of bytes covered by complete frames (repair at open truncates to this) *)
Definition good_len (b : bytes) : N :=
  fold_left (fun a f => a + 4 + len f) (fst (parse b)) 0.

(* ---------------------------------------------------------------- disk *)
Inductive fname := FWal | FRot (n : N) | FSnap (ts : N) | FTmp (ts : N).
Record disk := mkDisk {
  d_wal : option bytes;            (* state.wal *)
  d_rot : list (N * bytes);        (* wal.<seq>.wal, directory order *)
  d_snap : list (N * bytes);       (* snapshot.<ts>.snap, directory order *)
  d_tmp : list (N * bytes) }.      (* snapshot.<ts>.tmp *)
Definition disk0 : disk := mkDisk None [] [] [].

Fixpoint alookup {A} (n : N) (l : list (N * A)) : option A :=
  match l with [] => None | (m, x) :: tl => if m =? n then Some x else alookup n tl end.
Definition aremove {A} (n : N) (l : list (N * A)) : list (N * A) :=
  filter (fun p => negb (fst p =? n)) l.
(* replace in place, or add at the given end *)
Fixpoint aupdate {A} (n : N) (x : A) (l : list (N * A)) : option (list (N * A)) :=
  match l with
  | [] => None
  | (m, y) :: tl => if m =? n then Some ((m, x) :: tl)
                    else match aupdate n x tl with Some tl' => Some ((m, y) :: tl') | None => None end
  end.
Definition aput_back {A} (n : N) (x : A) (l : list (N * A)) :=
  match aupdate n x l with Some l' => l' | None => l ++ [(n, x)] end.
Definition aput_front {A} (n : N) (x : A) (l : list (N * A)) :=
  match aupdate n x l with Some l' => l' | None => (n, x) :: l end.

Definition read (d : disk) (f : fname) : option bytes :=
  match f with
  | FWal => d_wal d
  | FRot n => alookup n (d_rot d)
  | FSnap t => alookup t (d_snap d)
  | FTmp t => alookup t (d_tmp d)
  end.
Definition write (d : disk) (f : fname) (b : bytes) : disk :=
  match f with
  | FWal => mkDisk (Some b) (d_rot d) (d_snap d) (d_tmp d)
  | FRot n => mkDisk (d_wal d) (aput_back n b (d_rot d)) (d_snap d) (d_tmp d)
  | FSnap t => mkDisk (d_wal d) (d_rot d) (aput_front t b (d_snap d)) (d_tmp d)
  | FTmp t => mkDisk (d_wal d) (d_rot d) (d_snap d) (aput_front t b (d_tmp d))
  end.
Definition unlink (d : disk) (f : fname) : disk :=
  match f with
  | FWal => mkDisk None (d_rot d) (d_snap d) (d_tmp d)
  | FRot n => mkDisk (d_wal d) (aremove n (d_rot d)) (d_snap d) (d_tmp d)
  | FSnap t => mkDisk (d_wal d) (d_rot d) (aremove t (d_snap d)) (d_tmp d)
  | FTmp t => mkDisk (d_wal d) (d_rot d) (d_snap d) (aremove t (d_tmp d))
  end.

Inductive action :=
| AAppend (f : fname) (b : bytes)      (* write_all on a file opened for append / sequential write *)
| ACreate (f : fname)                  (* open(create, append): nothing if present *)
| ACreateTrunc (f : fname)             (* open(create, truncate) *)
| ATrunc (f : fname) (n : N)           (* set_len to a shorter length *)
| ARename (f g : fname)                (* atomic, replaces g *)
| AUnlink (f : fname).

Definition exec1 (d : disk) (a : action) : disk :=
  match a with
  | AAppend f b => write d f (match read d f with Some x => x ++ b | None => b end)
  | ACreate f => match read d f with Some _ => d | None => write d f [] end
  | ACreateTrunc f => write d f []
  | ATrunc f n => match read d f with Some x => write d f (firstn (N.to_nat n) x) | None => d end
  | ARename f g => match read d f with Some x => write (unlink d f) g x | None => d end
  | AUnlink f => unlink d f
  end.
Definition exec (d : disk) (acts : list action) : disk := fold_left exec1 acts d.

(* the process dies after [i] whole actions and [b] bytes of the next append *)
Definition cut (acts : list action) (i b : nat) : list action :=
  firstn i acts ++
  match nth_error acts i with
  | Some (AAppend f x) => match b with O => [] | _ => [AAppend f (firstn b x)] end
  | _ => []
  end.

(* ---------------------------------------------------------------- insertion sort on the N key *)
Fixpoint ins_by {A} (le : N -> N -> bool) (x : N * A) (l : list (N * A)) : list (N * A) :=
  match l with
  | [] => [x]
  | y :: tl => if le (fst x) (fst y) then x :: y :: tl else y :: ins_by le x tl
  end.
Fixpoint isort_by {A} (le : N -> N -> bool) (l : list (N * A)) : list (N * A) :=
  match l with [] => [] | x :: tl => ins_by le x (isort_by le tl) end.
Definition sort_asc {A} (l : list (N * A)) := isort_by N.leb l.
Definition sort_desc {A} (l : list (N * A)) := isort_by (fun a b => b <=? a) l.

(* ---------------------------------------------------------------- statistics *)
Inductive evkind := EvTorn | EvSkipped | EvSnapBad.
Definition evkind_eqb (a b : evkind) : bool :=
  match a, b with EvTorn, EvTorn | EvSkipped, EvSkipped | EvSnapBad, EvSnapBad => true | _, _ => false end.
Record stats := mkStats {
  s_recovered : N; s_failed : N; s_snaps : N; s_wals : N; s_events : list evkind }.
Definition stats0 := mkStats 0 0 0 0 [].
Definition st_fail (s : stats) (e : evkind) :=
  mkStats (s_recovered s) (s_failed s + 1) (s_snaps s) (s_wals s) (s_events s ++ [e]).
Definition st_fail_noevent (s : stats) :=
  mkStats (s_recovered s) (s_failed s + 1) (s_snaps s) (s_wals s) (s_events s).
Definition st_event (s : stats) (e : evkind) :=
  mkStats (s_recovered s) (s_failed s) (s_snaps s) (s_wals s) (s_events s ++ [e]).
Definition st_rec (s : stats) (n : N) :=
  mkStats (s_recovered s + n) (s_failed s) (s_snaps s) (s_wals s) (s_events s).
Definition st_wal (s : stats) :=
  mkStats (s_recovered s) (s_failed s) (s_snaps s) (s_wals s + 1) (s_events s).
Definition st_snap (s : stats) (n : N) :=
  mkStats (s_recovered s + n) (s_failed s) (s_snaps s + 1) (s_wals s) (s_events s).

Record snaphdr := mkHdr { h_ver : N; h_created : N; h_txid : N; h_count : N; h_size : N; h_tag : bytes }.
Definition snap_fields (h : snaphdr) (data : bytes) : bytes :=
  [h_ver h] ++ le_bytes 8 (h_created h) ++ le_bytes 8 (h_txid h) ++ le_bytes 8 (h_count h) ++
  le_bytes 8 (h_size h) ++ data.

(* recovered store: state, transaction counter, statistics *)
Definition rstate := (state * N * stats)%type.

Section Recovery.
  Variable deser : bytes -> option entry.              (* postcard::from_bytes::<WalEntry> *)
  Variable mac : bytes -> bytes.                       (* HMAC-SHA256 under the store key *)
  Variable val_ok : bytes -> bool.                     (* postcard::from_bytes::<T> succeeds *)
  Variable dec_changes : bytes -> option (list change). (* payload of a batch record *)
  Variable deser_hdr : bytes -> option snaphdr.        (* postcard::from_bytes::<SnapshotHeader> *)
  Variable dec_map : bytes -> option state.            (* postcard::from_bytes::<HashMap<String,T>> *)

  Definition verify (e : entry) : bool := bytes_eqb (mac (fields_of e)) (e_tag e).

  (* the changes a verified record applies; None = counted as failed *)
  Definition entry_changes (e : entry) : option (list change) :=
    match e_type e with
    | TUpsert => match e_val e with
                 | Some v => if val_ok v then Some [(e_key e, Some v)] else None
                 | None => Some []
                 end
    | TDelete => Some [(e_key e, None)]
    | TBatch => match e_val e with
                | Some b => match dec_changes b with
                            | Some cs => if forallb (fun c => match snd c with Some v => val_ok v | None => true end) cs
                                         then Some cs else None
                            | None => None
                            end
                | None => None
                end
    | TCheckpoint => Some []
    end.

  (* one loop iteration of replay_wal_file after the frame has been read *)
  Definition replay_frame (r : rstate) (body : bytes) : rstate :=
    let '(st, c, s) := r in
    match deser body with
    | None => (st, c, st_fail s EvSkipped)
    | Some e =>
      if verify e then
        match entry_changes e with
        | Some cs => (apply_changes st cs, N.max c (e_txid e), st_rec s (len cs))
        | None => (st, N.max c (e_txid e), st_fail_noevent s)
        end
      else (st, c, st_fail s EvSkipped)
    end.

  Definition replay_file (r : rstate) (b : bytes) : rstate :=
    let '(fs, torn) := parse b in
    let '(st, c, s) := fold_left replay_frame fs r in
    (st, c, st_wal (if torn then st_fail s EvTorn else s)).

  (* load_snapshot: le32 header length (bounded by the bytes remaining), header, data *)
  Definition split_snap (b : bytes) : option (snaphdr * bytes) :=
    if len b <? 4 then None
    else let n := le_val (firstn 4 b) in
         let rest := skipn 4 b in
         if len rest <? n then None
         else match deser_hdr (firstn (N.to_nat n) rest) with
              | Some h => Some (h, skipn (N.to_nat n) rest)
              | None => None
              end.
  Definition snap_valid (b : bytes) : option (snaphdr * state) :=
    match split_snap b with
    | Some (h, data) =>
        match dec_map data with
        | Some st => if bytes_eqb (mac (snap_fields h data)) (h_tag h) then Some (h, st) else None
        | None => None
        end
    | None => None
    end.

  (* recover_from_snapshot: newest first, first valid one wins, every rejected one is an event *)
  Fixpoint load_snaps (l : list (N * bytes)) (s : stats) : rstate :=
    match l with
    | [] => ([], 0, s)
    | (_, b) :: tl =>
        match snap_valid b with
        | Some (h, st) => (st, h_txid h, st_snap s (h_count h))
        | None => load_snaps tl (st_event s EvSnapBad)
        end
    end.

  (* find_wal_files order: rotated logs by sequence number, then state.wal *)
  Definition wal_files (d : disk) : list bytes :=
    map snd (sort_asc (d_rot d)) ++ match d_wal d with Some b => [b] | None => [] end.

  Definition recover (d : disk) : rstate :=
    fold_left replay_file (wal_files d) (load_snaps (sort_desc (d_snap d)) stats0).

  Definition r_state (r : rstate) : state := fst (fst r).
  Definition r_ctr (r : rstate) : N := snd (fst r).
  Definition r_stats (r : rstate) : stats := snd r.

  (* check_wal_file_transactions: largest transaction id among decodable frames;
     None when the framing is torn (the file is then kept) *)
  Definition wal_max_txid (b : bytes) : option N :=
    let '(fs, torn) := parse b in
    if torn then None
    else Some (fold_left (fun m f => match deser f with Some e => N.max m (e_txid e) | None => m end) fs 0).

  (* ------------------------------------------------------------ writer *)
  Variable ser : entry -> bytes.                       (* postcard::to_stdvec(&WalEntry) *)
  Variable enc_changes : list change -> bytes.
  Variable ser_hdr : snaphdr -> bytes.
  Variable enc_map : state -> bytes.

  Record wstate := mkW { w_mem : state; w_ctr : N; w_count : N; w_size : N }.

  Definition mk_entry (txid ts : N) (t : ttype) (k : key) (v : option bytes) : entry :=
    mkEntry WAL_VERSION txid ts t k v (mac (entry_fields WAL_VERSION txid ts t k v)).

  Definition next_seq (d : disk) : N := 1 + fold_left (fun m p => N.max m (fst p)) (d_rot d) 0.

  (* write_entry followed by the rotation test of upsert/delete *)
  Definition write_actions (d : disk) (w : wstate) (e : entry) (rotate_ok : bool) : list action * wstate :=
    let fr := frame (ser e) in
    let size := w_size w + len fr in
    let count := w_count w + 1 in
    if rotate_ok && ((WAL_MAX_SIZE <=? size) || (WAL_MAX_ENTRIES <=? count))
    then ([AAppend FWal fr; ARename FWal (FRot (next_seq d)); ACreate FWal], mkW (w_mem w) (w_ctr w) 0 0)
    else ([AAppend FWal fr], mkW (w_mem w) (w_ctr w) count size).

  (* batch_update: the keys whose value differs between the map before and after, sorted by key *)
  Fixpoint bytes_leb (a b : bytes) : bool :=
    match a, b with
    | [], _ => true
    | _ :: _, [] => false
    | x :: a', y :: b' => if x <? y then true else if y <? x then false else bytes_leb a' b'
    end.
  Fixpoint ins_change (c : change) (l : list change) : list change :=
    match l with
    | [] => [c]
    | y :: tl => if bytes_leb (fst c) (fst y) then c :: y :: tl else y :: ins_change c tl
    end.
  Definition sort_changes (l : list change) : list change := fold_right ins_change [] l.
  Definition opt_val_eqb (a b : option val) : bool :=
    match a, b with Some x, Some y => bytes_eqb x y | None, None => true | _, _ => false end.
  Fixpoint dedup_keys (seen : list key) (l : list key) : list key :=
    match l with
    | [] => []
    | k :: tl => if existsb (bytes_eqb k) seen then dedup_keys seen tl else k :: dedup_keys (k :: seen) tl
    end.
  Definition batch_diff (before after : state) : list change :=
    let ks := dedup_keys [] (map fst after ++ map fst before) in
    sort_changes
      (flat_map (fun k => if opt_val_eqb (get before k) (get after k) then [] else [(k, get after k)]) ks).

  Inductive op :=
  | OUpsert (ts : N) (k : key) (v : val)
  | ODelete (ts : N) (k : key)
  | OBatch (ts : N) (cs : list change)   (* the closure's updates, applied in order to the map *)
  | OBatchFail                           (* closure returned Err: rolled back, id consumed *)
  | OCheckpoint (ts : N).

  (* the abstract effect of an operation: the specification recovery is compared with *)
  Definition op_changes (o : op) : list change :=
    match o with
    | OUpsert _ k v => [(k, Some v)]
    | ODelete _ k => [(k, None)]
    | OBatch _ cs => cs
    | OBatchFail | OCheckpoint _ => []
    end.
  Definition apply_op (st : state) (o : op) : state := apply_changes st (op_changes o).
  Definition apply_ops (st : state) (ops : list op) : state := fold_left apply_op ops st.

  Definition snap_file (h : snaphdr) (data : bytes) : bytes := frame (ser_hdr h) ++ data.

  Definition take_n {A} (n : N) (l : list A) := firstn (N.to_nat n) l.
  Definition drop_n {A} (n : N) (l : list A) := skipn (N.to_nat n) l.

  (* the file-system actions of one operation, from the disk and writer state at its start *)
  Definition op_actions (d : disk) (w : wstate) (o : op) : list action * wstate :=
    match o with
    | OUpsert ts k v =>
        let c := w_ctr w + 1 in
        let '(acts, w') := write_actions d w (mk_entry c ts TUpsert k (Some v)) true in
        (acts, mkW (set k v (w_mem w)) c (w_count w') (w_size w'))
    | ODelete ts k =>
        let c := w_ctr w + 1 in
        let '(acts, w') := write_actions d w (mk_entry c ts TDelete k None) true in
        (acts, mkW (del k (w_mem w)) c (w_count w') (w_size w'))
    | OBatch ts cs =>
        let c := w_ctr w + 1 in
        let mem' := apply_changes (w_mem w) cs in
        let diff := batch_diff (w_mem w) mem' in
        match diff with
        | [] => ([], mkW mem' c (w_count w) (w_size w))
        | _ => let '(acts, w') := write_actions d w (mk_entry c ts TBatch [] (Some (enc_changes diff))) false in
               (acts, mkW mem' c (w_count w') (w_size w'))
        end
    | OBatchFail => ([], mkW (w_mem w) (w_ctr w + 1) (w_count w) (w_size w))
    | OCheckpoint ts =>
        let data := enc_map (w_mem w) in
        let h0 := mkHdr WAL_VERSION ts (w_ctr w) (len (w_mem w)) (len data) [] in
        let h := mkHdr WAL_VERSION ts (w_ctr w) (len (w_mem w)) (len data) (mac (snap_fields h0 data)) in
        let dead_rot := filter (fun p => match wal_max_txid (snd p) with
                                         | Some m => m <=? w_ctr w | None => false end) (sort_asc (d_rot d)) in
        let snaps' := sort_desc (aput_front ts [] (d_snap d)) in
        let dead_snap := drop_n WAL_SNAPSHOT_RETENTION snaps' in
        ([ACreateTrunc (FTmp ts); AAppend (FTmp ts) (frame (ser_hdr h)); AAppend (FTmp ts) data;
          ARename (FTmp ts) (FSnap ts)]
         ++ map (fun p => AUnlink (FRot (fst p))) dead_rot
         ++ map (fun p => AUnlink (FSnap (fst p))) dead_snap, w)
    end.

  (* PersistentStateManager::new on an existing directory: create state.wal if
     missing, recover, truncate a torn tail of state.wal *)
  Definition open_actions (d : disk) : list action :=
    match d_wal d with
    | None => [ACreate FWal]
    | Some b => if snd (parse b) then [ATrunc FWal (good_len b)] else []
    end.
  Definition open_disk (d : disk) : disk := exec d (open_actions d).
  Definition open_rstate (d : disk) : rstate := recover (exec d [ACreate FWal]).
  Definition open_wstate (d : disk) : wstate :=
    let r := open_rstate d in
    mkW (r_state r) (r_ctr r) 0 (match d_wal (open_disk d) with Some b => len b | None => 0 end).

  (* run whole operations *)
  Fixpoint run_ops (d : disk) (w : wstate) (ops : list op) : disk * wstate :=
    match ops with
    | [] => (d, w)
    | o :: tl => let '(acts, w') := op_actions d w o in run_ops (exec d acts) w' tl
    end.

  (* disk left behind when the process dies inside operation number [i] (0-based),
     after [a] whole actions and [b] bytes of the next append of that operation;
     i = length ops, a = b = 0 is a clean stop after the last operation *)
  Definition crash_disk (d : disk) (w : wstate) (ops : list op) (i a b : nat) : disk :=
    let '(d1, w1) := run_ops d w (firstn i ops) in
    match nth_error ops i with
    | Some o => exec d1 (cut (fst (op_actions d1 w1 o)) a b)
    | None => d1
    end.
End Recovery.

(* ================================================================ concrete postcard codec
   (used to evaluate the model on cases; validated byte for byte against the
   implementation's files on every run) *)
Fixpoint enc_varint_f (fuel : nat) (n : N) : bytes :=
  match fuel with
  | O => [n mod 128]
  | S f => if n <? 128 then [n] else (n mod 128 + 128) :: enc_varint_f f (n / 128)
  end.
Definition enc_varint (n : N) : bytes := enc_varint_f 9 n.

(* LEB128, at most [fuel] bytes; like postcard, non-minimal encodings are accepted *)
Fixpoint dec_varint_f (fuel : nat) (b : bytes) : option (N * bytes) :=
  match fuel with
  | O => None
  | S f =>
    match b with
    | [] => None
    | x :: tl => if x <? 128 then Some (x, tl)
                 else match dec_varint_f f tl with
                      | Some (hi, r) => Some (x - 128 + 128 * hi, r)
                      | None => None
                      end
    end
  end.
Definition dec_u64 (b : bytes) : option (N * bytes) :=
  match dec_varint_f 10 b with
  | Some (n, r) => if n <? 18446744073709551616 then Some (n, r) else None
  | None => None
  end.
Definition dec_u32 (b : bytes) : option (N * bytes) :=
  match dec_varint_f 5 b with
  | Some (n, r) => if n <? 4294967296 then Some (n, r) else None
  | None => None
  end.

Definition enc_blob (b : bytes) : bytes := enc_varint (len b) ++ b.
Definition dec_blob (b : bytes) : option (bytes * bytes) :=
  match dec_u64 b with
  | Some (n, r) => if len r <? n then None else Some (firstn (N.to_nat n) r, skipn (N.to_nat n) r)
  | None => None
  end.
Definition enc_opt_blob (o : option bytes) : bytes :=
  match o with None => [0] | Some b => 1 :: enc_blob b end.
Definition dec_opt_blob (b : bytes) : option (option bytes * bytes) :=
  match b with
  | 0 :: r => Some (None, r)
  | 1 :: r => match dec_blob r with Some (x, r') => Some (Some x, r') | None => None end
  | _ => None
  end.

Definition pc_ser (e : entry) : bytes :=
  [e_ver e] ++ enc_varint (e_txid e) ++ enc_varint (e_ts e) ++ enc_varint (ttype_code (e_type e)) ++
  enc_blob (e_key e) ++ enc_opt_blob (e_val e) ++ e_tag e.

Definition ttype_of (n : N) : option ttype :=
  match n with 0 => Some TUpsert | 1 => Some TDelete | 2 => Some TBatch | 3 => Some TCheckpoint | _ => None end.

Definition pc_deser (b : bytes) : option entry :=
  match b with
  | [] => None
  | ver :: b1 =>
    match dec_u64 b1 with None => None | Some (txid, b2) =>
    match dec_u64 b2 with None => None | Some (ts, b3) =>
    match dec_u32 b3 with None => None | Some (tc, b4) =>
    match ttype_of tc with None => None | Some t =>
    match dec_blob b4 with None => None | Some (k, b5) =>
    match dec_opt_blob b5 with None => None | Some (v, b6) =>
    if len b6 <? 32 then None else Some (mkEntry ver txid ts t k v (firstn 32 b6))
    end end end end end end
  end.

(* the stored value type of the harness is Vec<u8>: varint length + bytes *)
Definition pc_val_ok (v : bytes) : bool := match dec_blob v with Some _ => true | None => false end.

(* batch payload: Vec<(String, Option<Vec<u8>>)> *)
Definition pc_enc_changes (cs : list change) : bytes :=
  enc_varint (len cs) ++ flat_map (fun c => enc_blob (fst c) ++ enc_opt_blob (snd c)) cs.
Fixpoint dec_changes_f (n : nat) (b : bytes) : option (list change) :=
  match n with
  | O => Some []
  | S m => match dec_blob b with None => None | Some (k, b1) =>
           match dec_opt_blob b1 with None => None | Some (v, b2) =>
           match dec_changes_f m b2 with None => None | Some tl => Some ((k, v) :: tl) end end end
  end.
Definition pc_dec_changes (b : bytes) : option (list change) :=
  match dec_u64 b with
  | Some (n, r) => if len r <? n then None else dec_changes_f (N.to_nat n) r
  | None => None
  end.

Definition pc_ser_hdr (h : snaphdr) : bytes :=
  [h_ver h] ++ enc_varint (h_created h) ++ enc_varint (h_txid h) ++ enc_varint (h_count h) ++
  enc_varint (h_size h) ++ h_tag h.
Definition pc_deser_hdr (b : bytes) : option snaphdr :=
  match b with
  | [] => None
  | ver :: b1 =>
    match dec_u64 b1 with None => None | Some (cr, b2) =>
    match dec_u64 b2 with None => None | Some (tx, b3) =>
    match dec_u64 b3 with None => None | Some (cnt, b4) =>
    match dec_u64 b4 with None => None | Some (sz, b5) =>
    if len b5 <? 32 then None else Some (mkHdr ver cr tx cnt sz (firstn 32 b5))
    end end end end
  end.

(* HashMap<String, Vec<u8>>: count, then (key, value) pairs; a later duplicate wins.
   The value is kept as its postcard bytes (varint length + bytes). *)
Definition pc_enc_map (st : state) : bytes :=
  enc_varint (len st) ++ flat_map (fun kv => enc_blob (fst kv) ++ snd kv) st.
Fixpoint dec_map_f (n : nat) (b : bytes) (acc : state) : option state :=
  match n with
  | O => Some acc
  | S m => match dec_blob b with None => None | Some (k, b1) =>
           match dec_blob b1 with None => None | Some (v, b2) =>
           dec_map_f m b2 (set k (enc_blob v) acc) end end
  end.
Definition pc_dec_map (b : bytes) : option state :=
  match dec_u64 b with
  | Some (n, r) => if len r <? n then None else dec_map_f (N.to_nat n) r []
  | None => None
  end.

(* ---------------------------------------------------------------- MAC instances for evaluation *)
(* (a) table of (fields, tag) pairs computed by the harness with the real HMAC and the
       real store key for every decodable record / snapshot present in the case *)
Definition mac_tbl (tbl : list (bytes * bytes)) (fields : bytes) : bytes :=
  match find (fun p => bytes_eqb (fst p) fields) tbl with Some p => snd p | None => [] end.
(* (b) a cheap deterministic 32-byte function, for cases in which every file is produced
       by the model's own writer (crash cases): only "a tag verifies iff it was computed
       over the same fields" matters there *)
Definition mac_cheap (fields : bytes) : bytes :=
  le_bytes 8 (fold_left N.add fields (len fields)) ++ repeat 0 24.

(* ---------------------------------------------------------------- comparison helpers *)
Definition opt_bytes_eqb (a b : option bytes) : bool :=
  match a, b with Some x, Some y => bytes_eqb x y | None, None => true | _, _ => false end.
(* two states agree on every key either mentions *)
Definition state_eqb (a b : state) : bool :=
  forallb (fun kv => opt_bytes_eqb (get a (fst kv)) (get b (fst kv))) (a ++ b).
Fixpoint list_eqb {A} (eqb : A -> A -> bool) (a b : list A) : bool :=
  match a, b with
  | [], [] => true
  | x :: a', y :: b' => eqb x y && list_eqb eqb a' b'
  | _, _ => false
  end.
Definition stats_eqb (a b : stats) : bool :=
  (s_recovered a =? s_recovered b) && (s_failed a =? s_failed b) && (s_snaps a =? s_snaps b) &&
  (s_wals a =? s_wals b) && list_eqb evkind_eqb (s_events a) (s_events b).

Definition fname_code (f : fname) : N * N :=
  match f with FWal => (0, 0) | FRot n => (1, n) | FSnap t => (2, t) | FTmp t => (3, t) end.
(* directory listing (kind, number, size), sorted *)
Definition listing (d : disk) : list (N * N * N) :=
  (match d_wal d with Some b => [(0, 0, len b)] | None => [] end) ++
  map (fun p => (1, fst p, len (snd p))) (sort_asc (d_rot d)) ++
  map (fun p => (2, fst p, len (snd p))) (sort_asc (d_snap d)) ++
  map (fun p => (3, fst p, len (snd p))) (sort_asc (d_tmp d)).
Definition triple_eqb (a b : N * N * N) : bool :=
  let '(a1, a2, a3) := a in let '(b1, b2, b3) := b in (a1 =? b1) && (a2 =? b2) && (a3 =? b3).

(* ---------------------------------------------------------------- executable instances *)
Definition x_recover (mac : bytes -> bytes) : disk -> rstate :=
  recover pc_deser mac pc_val_ok pc_dec_changes pc_deser_hdr pc_dec_map.
Definition x_op_actions (mac : bytes -> bytes) :=
  op_actions pc_deser mac pc_ser pc_enc_changes pc_ser_hdr pc_enc_map.
Definition x_open_wstate (mac : bytes -> bytes) :=
  open_wstate pc_deser mac pc_val_ok pc_dec_changes pc_deser_hdr pc_dec_map.

(* ---- C06 cases: crash / reopen cycles ----
   A cycle: the store is opened on the disk left by the previous cycle (empty at
   first), the operations are issued, and the implementation's directory was
   copied at labelled crash points.  A probe = (i, a, b, listing of the copy,
   (state, next transaction id, stats) seen by a fresh manager opened on the copy).
   [next] = the crash point whose copy the next cycle continued from. *)
Definition obs := (list (N * N * N) * state * N * stats)%type.
Definition probe := (N * nat * nat * obs)%type.
Definition cycle := (list op * list probe * (N * nat * nat))%type.

Definition probe_eqb (i : N) (a b : nat) (p : probe) : bool :=
  let '(i', a', b', _) := p in (i =? i') && Nat.eqb a a' && Nat.eqb b b'.
Definition obs_ok (mac : bytes -> bytes) (dc : disk) (o : obs) : bool :=
  let '(ls, st, nxt, sts) := o in
  let r := open_rstate pc_deser mac pc_val_ok pc_dec_changes pc_deser_hdr pc_dec_map dc in
  list_eqb triple_eqb (listing dc) ls && state_eqb (r_state r) st && (r_ctr r + 1 =? nxt) &&
  stats_eqb (r_stats r) sts.
Definition probes_at (mac : bytes -> bytes) (d : disk) (acts : list action) (idx : N) (probes : list probe) : bool :=
  forallb (fun p : probe => let '(i, a, b, o) := p in
           if i =? idx then obs_ok mac (exec d (cut acts a b)) o else true) probes.

(* one pass over the operations: checks every probe and returns the crash disk the
   next cycle continues from (same disks as [crash_disk], computed incrementally) *)
Fixpoint walk (mac : bytes -> bytes) (d : disk) (w : wstate) (ops : list op) (idx : N)
              (probes : list probe) (nxt : N * nat * nat) : bool * disk :=
  match ops with
  | [] => (probes_at mac d [] idx probes, d)
  | o :: tl =>
      let '(acts, w') := x_op_actions mac d w o in
      let ok_here := probes_at mac d acts idx probes in
      let '(ok_rest, dn) := walk mac (exec d acts) w' tl (idx + 1) probes nxt in
      (ok_here && ok_rest,
       let '(i, a, b) := nxt in if i =? idx then exec d (cut acts a b) else dn)
  end.

Fixpoint cycles_ok (mac : bytes -> bytes) (d : disk) (cs : list cycle) : bool :=
  match cs with
  | [] => true
  | (ops, probes, nxt) :: tl =>
      let d0 := open_disk d in
      let w0 := x_open_wstate mac d in
      let '(ok, dn) := walk mac d0 w0 ops 0 probes nxt in
      ok && cycles_ok mac dn tl
  end.

Definition c06_case := list cycle.
Definition check_c06 (c : c06_case) : bool := cycles_ok mac_cheap disk0 c.

(* Conclusion of C06_prefix / C06_txid_monotone on the IMPLEMENTATION's outputs only
   (no disk model): the state seen after reopening a crash copy taken inside
   operation i is the state at the start of the cycle advanced by the first i or
   i+1 operations, and the next transaction id is above every acknowledged one.
   [start] = what the implementation itself reported for the copy this cycle
   continued from. *)
Definition spec_apply_ops := apply_ops.
(* the id stamped on the last upsert/delete among the given (acknowledged) operations,
   for a writer whose counter starts at [c] (checkpoints consume no id) *)
Definition acked_id (c : N) (ops : list op) : N :=
  snd (fold_left (fun cb o => let '(c, best) := cb in
                  let c' := match o with OCheckpoint _ => c | _ => c + 1 end in
                  (c', match o with OUpsert _ _ _ | ODelete _ _ => c' | _ => best end)) ops (c, c)).
Definition probe_prop (start : state) (start_next : N) (ops : list op) (p : probe) : bool :=
  let '(i, a, b, (ls, st, nxt, sts)) := p in
  (state_eqb st (apply_ops start (firstn (N.to_nat i) ops)) || state_eqb st (apply_ops start (firstn (S (N.to_nat i)) ops))) &&
  (acked_id (start_next - 1) (firstn (N.to_nat i) ops) <? nxt).
Fixpoint cycles_prop (start : state) (start_next : N) (cs : list cycle) : bool :=
  match cs with
  | [] => true
  | (ops, probes, (i, a, b)) :: tl =>
      forallb (probe_prop start start_next ops) probes &&
      match find (probe_eqb i a b) probes with
      | Some (_, _, _, (_, st, nxt, _)) => cycles_prop st nxt tl
      | None => match tl with [] => true | _ => false end
      end
  end.
Definition prop_c06 (c : c06_case) : bool := cycles_prop [] 1 c.

(* ---- C07 cases: damaged files ----
   ops: the genuine history (one cycle from an empty directory); tbl: real HMAC of
   every decodable record/snapshot in the damaged directory and of every genuine
   one; pristine: the implementation's real log files before damage
   (kind, number, bytes); damaged: the directory handed to recovery;
   observed (state, next id, stats); survivors: when the damage class determines
   it, the indices of the operations whose effect must survive. *)
Definition files := list (N * N * bytes).
Definition disk_of_files (fs : files) : disk :=
  fold_left (fun d f => let '(k, n, b) := f in
             match k with
             | 0 => write d FWal b | 1 => write d (FRot n) b | 2 => write d (FSnap n) b | _ => write d (FTmp n) b end)
            fs disk0.
Definition c07_case := (list op * list (bytes * bytes) * files * files * (state * N * stats) * option (list nat))%type.

Definition log_files_eqb (d : disk) (fs : files) : bool :=
  forallb (fun f => let '(k, n, b) := f in
           match k with
           | 0 => opt_bytes_eqb (d_wal d) (Some b)
           | 1 => opt_bytes_eqb (alookup n (d_rot d)) (Some b)
           | _ => true end) fs.

Definition check_c07 (c : c07_case) : bool :=
  let '(ops, tbl, pristine, damaged, (st, nxt, sts), _) := c in
  let mac := mac_tbl tbl in
  let d0 := open_disk disk0 in
  let w0 := x_open_wstate mac disk0 in
  let dw := fst (run_ops pc_deser mac pc_ser pc_enc_changes pc_ser_hdr pc_enc_map d0 w0 ops) in
  let r := open_rstate pc_deser mac pc_val_ok pc_dec_changes pc_deser_hdr pc_dec_map (disk_of_files damaged) in
  log_files_eqb dw pristine && state_eqb (r_state r) st && (r_ctr r + 1 =? nxt) && stats_eqb (r_stats r) sts.

Definition all_changes (ops : list op) : list change := flat_map op_changes ops.
Fixpoint select {A} (idx : list nat) (l : list A) : list A :=
  match idx with [] => [] | i :: tl => match nth_error l i with Some x => x :: select tl l | None => select tl l end end.
(* no invention: every observed (k, v) was written for k by some operation; and,
   when the class of damage says which operations must survive, exactly their effect *)
Definition prop_c07 (c : c07_case) : bool :=
  let '(ops, _, _, _, (st, _, _), surv) := c in
  forallb (fun kv => existsb (fun ch => bytes_eqb (fst ch) (fst kv) && opt_bytes_eqb (snd ch) (Some (snd kv)))
                             (all_changes ops)) st &&
  match surv with
  | Some idx => state_eqb st (apply_ops [] (select idx ops))
  | None => true
  end.
