(* Model of the inbound byte paths of saorsa-core (C05).  Definitions only.
   - network::parse_protocol_message            -> [parse_protocol_message]
   - TransportHandle::parse_request_envelope    -> [parse_request_envelope]
   - the dispatcher of start_message_receiving_system -> [dispatch]
   - DhtNetworkManager::handle_dht_message (size gate, decode, PUT value cap, replies of a
     node that knows no peers)                  -> [dht_handle]
   - DhtCoreEngine::handle_request (value cap, find-node cap) -> [core_handle]
   - placement::dht_records::DhtRecord::{serialize,deserialize} -> [record_serialize/deserialize]
   Schemas (field order, variant numbering, integer widths) come from Gen/Schemas.v and the
   limits from Gen/WireConsts.v, both regenerated from the Rust source on every run.  Fields
   and variants are referred to by the generated NAME constants, never by literal position. *)
From SV Require Import Lib.Base Model.Postcard Gen.Schemas Gen.WireConsts.
Local Open Scope N_scope.

(* ---------- byte strings as written in case files: prefix ++ fill^n ---------- *)
Record blob := mkBlob { b_prefix : list N; b_fill : N; b_fill_len : N }.
Definition blob_bytes (b : blob) : list N := b_prefix b ++ repeat (b_fill b) (N.to_nat (b_fill_len b)).
Definition blob_len (b : blob) : N := N.of_nat (length (b_prefix b)) + b_fill_len b.

Definition fld (i : nat) (v : value) : option value :=
  match v with VTup vs => nth_error vs i | _ => None end.

Fixpoint vbytes (vs : list value) : option (list N) :=
  match vs with
  | [] => Some []
  | VN b :: r => match vbytes r with Some l => Some (b :: l) | None => None end
  | _ => None
  end.
(* a [u8; n] value as a byte string *)
Definition arr_bytes (v : value) : option (list N) :=
  match v with VTup vs => vbytes vs | _ => None end.

Definition blen (l : list N) : N := N.of_nat (length l).

(* ---------- network::parse_protocol_message ---------- *)
Record event := mkEv { ev_topic : list N; ev_source : list N; ev_data : list N }.

(* the three payload fields the function looks at; [from] is decoded but never read *)
Definition wire_fields (m : value) : option (list N * list N * N) :=
  match fld F_WireMessage_protocol m, fld F_WireMessage_data m, fld F_WireMessage_timestamp m with
  | Some (VBytes p), Some (VBytes d), Some (VN ts) => Some (p, d, ts)
  | _, _, _ => None
  end.

(* [N.sub] truncates at 0 exactly like u64::saturating_sub *)
Definition in_window (now ts : N) : bool :=
  negb (ts <? now - W_MAX_MESSAGE_AGE_SECS) && negb (now + W_MAX_FUTURE_SECS <? ts).

Definition parse_protocol_message (now : N) (src bytes : list N) : option event :=
  match decode S_WireMessage bytes with
  | Some (m, _) =>
    match wire_fields m with
    | Some (p, d, ts) =>
      if ts <? now - W_MAX_MESSAGE_AGE_SECS then None
      else if now + W_MAX_FUTURE_SECS <? ts then None
      else Some (mkEv p src d)
    | None => None end
  | None => None
  end.

(* ---------- TransportHandle::parse_request_envelope ---------- *)
Definition parse_request_envelope (bytes : list N) : option (list N * bool * list N) :=
  match decode S_RequestResponseEnvelope bytes with
  | Some (m, _) =>
    match fld F_RequestResponseEnvelope_message_id m, fld F_RequestResponseEnvelope_is_response m,
          fld F_RequestResponseEnvelope_payload m with
    | Some (VBytes id), Some (VB r), Some (VBytes p) => Some (id, r, p)
    | _, _, _ => None end
  | None => None
  end.

(* ---------- the dispatcher loop body (one received frame) ---------- *)
Definition KEEPALIVE : list N := [107; 101; 101; 112; 97; 108; 105; 118; 101].   (* b"keepalive" *)
Definition RR_PREFIX : list N := [47; 114; 114; 47].                             (* "/rr/" *)

Fixpoint starts_with (p l : list N) : bool :=
  match p, l with
  | [], _ => true
  | x :: p', y :: l' => (x =? y) && starts_with p' l'
  | _, [] => false
  end.

(* active_requests: message id -> expected peer *)
Definition pending := list (list N * list N).
Fixpoint p_lookup (id : list N) (t : pending) : option (list N) :=
  match t with
  | [] => None
  | (k, e) :: t' => if bytes_eqb k id then Some e else p_lookup id t'
  end.
Definition p_remove (id : list N) (t : pending) : pending :=
  filter (fun '(k, _) => negb (bytes_eqb k id)) t.

Inductive disp :=
| DKeepalive                             (* nothing surfaced *)
| DDropped                               (* parse failure / outside the window *)
| DSuppressed                            (* /rr/ response without a matching pending request *)
| DDelivered (id payload : list N)       (* completes the pending request [id] *)
| DEvent (e : event).                    (* broadcast to subscribers *)

Definition dispatch (pend : pending) (now : N) (src bytes : list N) : pending * disp :=
  if bytes_eqb bytes KEEPALIVE then (pend, DKeepalive)
  else match parse_protocol_message now src bytes with
       | None => (pend, DDropped)
       | Some ev =>
         if starts_with RR_PREFIX (ev_topic ev) then
           match parse_request_envelope (ev_data ev) with
           | Some (id, true, payload) =>
             match p_lookup id pend with
             | None => (pend, DSuppressed)
             | Some expected =>
               if bytes_eqb expected src then (p_remove id pend, DDelivered id payload)
               else (pend, DSuppressed)
             end
           | _ => (pend, DEvent ev)
           end
         else (pend, DEvent ev)
       end.

(* ---------- key/value store shared by the two DHT layers ---------- *)
Definition store := list (list N * list N).
Fixpoint s_get (k : list N) (s : store) : option (list N) :=
  match s with
  | [] => None
  | (k', v) :: s' => if bytes_eqb k' k then Some v else s_get k s'
  end.
Definition s_put (k v : list N) (s : store) : store :=
  (k, v) :: filter (fun '(k', _) => negb (bytes_eqb k' k)) s.
Definition store_ok (limit : N) (s : store) : bool := forallb (fun '(_, v) => blen v <=? limit) s.

(* ---------- DhtNetworkManager::handle_dht_message, node without known peers ---------- *)
Inductive dres :=
| DRejSize          (* Err(Validation): larger than MAX_MESSAGE_SIZE, refused before decoding *)
| DRejDecode        (* Err(Serialization) *)
| DRejValue         (* Err(Validation): PUT value larger than MAX_VALUE_SIZE *)
| DRejStore         (* Err(Dht(StoreFailed)): the core engine's own cap *)
| DReply (variant : N) (val : option (list N))   (* Ok(Some(response)) : result variant, carried value *)
| DNoReply.         (* Ok(None) *)

Definition op_key (args : value) (i : nat) : option (list N) :=
  match fld i args with Some k => arr_bytes k | None => None end.

(* handle_dht_request on a node whose routing table is empty *)
Definition dht_request (st : store) (op : N) (args : value) : store * dres :=
  if op =? V_DhtNetworkOperation_Put then
    match op_key args F_DhtNetworkOperation_Put_key, fld F_DhtNetworkOperation_Put_value args with
    | Some k, Some (VBytes v) =>
      if W_DHT_MAX_VALUE_SIZE <? blen v then (st, DRejValue)
      else if W_CORE_MAX_DHT_VALUE_SIZE <? blen v then (st, DRejStore)
      else (s_put k v st, DReply V_DhtNetworkResult_PutSuccess None)
    | _, _ => (st, DRejDecode) end
  else if op =? V_DhtNetworkOperation_Get then
    match op_key args F_DhtNetworkOperation_Get_key with
    | Some k => match s_get k st with
                | Some v => (st, DReply V_DhtNetworkResult_GetSuccess (Some v))
                | None => (st, DReply V_DhtNetworkResult_GetNotFound None) end
    | None => (st, DRejDecode) end
  else if op =? V_DhtNetworkOperation_FindValue then
    match op_key args F_DhtNetworkOperation_FindValue_key with
    | Some k => match s_get k st with
                | Some v => (st, DReply V_DhtNetworkResult_ValueFound (Some v))
                | None => (st, DReply V_DhtNetworkResult_GetNotFound None) end
    | None => (st, DRejDecode) end
  else if op =? V_DhtNetworkOperation_FindNode then (st, DReply V_DhtNetworkResult_GetNotFound None)
  else if op =? V_DhtNetworkOperation_Ping then (st, DReply V_DhtNetworkResult_PongReceived None)
  else if op =? V_DhtNetworkOperation_Join then (st, DReply V_DhtNetworkResult_JoinSuccess None)
  else if op =? V_DhtNetworkOperation_Leave then (st, DReply V_DhtNetworkResult_LeaveSuccess None)
  else (st, DRejDecode).

(* [dec] is the decoder handed to the function: the size gate is evaluated before it is
   consulted, which is what C05_size_gate states (the verdict does not depend on [dec]) *)
Definition dht_handle_with (dec : list N -> option (value * list N))
           (st : store) (len : N) (data : list N) : store * dres :=
  if W_DHT_MAX_MESSAGE_SIZE <? len then (st, DRejSize)
  else match dec data with
       | None => (st, DRejDecode)
       | Some (m, _) =>
         match fld F_DhtNetworkMessage_message_type m, fld F_DhtNetworkMessage_payload m with
         | Some (VVar mt _), Some (VVar op args) =>
           if mt =? V_DhtMessageType_Request then dht_request st op args else (st, DNoReply)
         | _, _ => (st, DRejDecode)
         end
       end.

Definition dht_handle (st : store) (data : list N) : store * dres :=
  dht_handle_with (decode S_DhtNetworkMessage) st (blen data) data.

Fixpoint dht_run (st : store) (frames : list (list N)) : store * list dres :=
  match frames with
  | [] => (st, [])
  | f :: fs => let '(st1, r) := dht_handle st f in
               let '(st2, rs) := dht_run st1 fs in (st2, r :: rs)
  end.

(* ---------- DhtCoreEngine::handle_request ---------- *)
Inductive cres :=
| CStoreAck
| CTooLarge                         (* Error{InvalidMessage} for an oversized value *)
| CRetrieve (v : option (list N))
| CFindNode (returned : N)          (* number of nodes in the reply *)
| CFindValue (v : option (list N)) (returned : N)
| CPong
| CUnsupported
| CUndecodable.                     (* the bytes are not a DhtRequestWrapper: nothing to handle *)

(* [avail]: number of distinct peers in the routing table *)
Definition core_request (avail : N) (st : store) (op : N) (args : value) : store * cres :=
  if op =? V_DhtMessage_Store then
    match op_key args F_DhtMessage_Store_key, fld F_DhtMessage_Store_value args with
    | Some k, Some (VBytes v) =>
      if W_CORE_MAX_DHT_VALUE_SIZE <? blen v then (st, CTooLarge) else (s_put k v st, CStoreAck)
    | _, _ => (st, CUndecodable) end
  else if op =? V_DhtMessage_Retrieve then
    match op_key args F_DhtMessage_Retrieve_key with
    | Some k => (st, CRetrieve (s_get k st))
    | None => (st, CUndecodable) end
  else if op =? V_DhtMessage_FindNode then
    match fld F_DhtMessage_FindNode_count args with
    | Some (VN count) => (st, CFindNode (N.min (N.min count W_CORE_MAX_FIND_NODE_COUNT) avail))
    | _ => (st, CUndecodable) end
  else if op =? V_DhtMessage_FindValue then
    match op_key args F_DhtMessage_FindValue_key with
    | Some k => match s_get k st with
                | Some v => (st, CFindValue (Some v) 0)
                | None => (st, CFindValue None (N.min W_CORE_K avail)) end
    | None => (st, CUndecodable) end
  else if op =? V_DhtMessage_Ping then (st, CPong)
  else (st, CUnsupported).

Definition core_handle (avail : N) (st : store) (data : list N) : store * cres :=
  match decode S_DhtRequestWrapper data with
  | Some (m, _) =>
    match fld F_DhtRequestWrapper_message m with
    | Some (VVar op args) => core_request avail st op args
    | _ => (st, CUndecodable) end
  | None => (st, CUndecodable)
  end.

Fixpoint core_run (avail : N) (st : store) (frames : list (list N)) : store * list cres :=
  match frames with
  | [] => (st, [])
  | f :: fs => let '(st1, r) := core_handle avail st f in
               let '(st2, rs) := core_run avail st1 fs in (st2, r :: rs)
  end.

(* ---------- DhtRecord::{serialize, deserialize} ---------- *)
Inductive rres := RTooLarge (len : N) | RDecodeErr | ROk (bytes : list N).

Definition record_deserialize (data : list N) : rres :=
  if W_MAX_RECORD_SIZE <? blen data then RTooLarge (blen data)
  else match decode S_DhtRecord data with
       | Some (v, _) => ROk (encode S_DhtRecord v)
       | None => RDecodeErr end.

Definition record_serialize (v : value) : rres :=
  let bytes := encode S_DhtRecord v in
  if W_MAX_RECORD_SIZE <? blen bytes then RTooLarge (blen bytes) else ROk bytes.

(* ====================================================================================== *)
(* executable interface for the correspondence check                                      *)
(* ====================================================================================== *)
Definition opt_bytes_eqb (a b : option (list N)) : bool :=
  match a, b with
  | None, None => true
  | Some x, Some y => bytes_eqb x y
  | _, _ => false end.

Definition dres_eqb (a b : dres) : bool :=
  match a, b with
  | DRejSize, DRejSize | DRejDecode, DRejDecode | DRejValue, DRejValue | DRejStore, DRejStore
  | DNoReply, DNoReply => true
  | DReply x u, DReply y v => (x =? y) && opt_bytes_eqb u v
  | _, _ => false end.

(* find-node replies: the exact number is compared only when the table holds at least the
   capped number of peers (the contents and the short-table behaviour belong to C02) *)
Definition cres_eqb (avail : N) (model obs : cres) : bool :=
  match model, obs with
  | CStoreAck, CStoreAck | CTooLarge, CTooLarge | CPong, CPong | CUnsupported, CUnsupported
  | CUndecodable, CUndecodable => true
  | CRetrieve u, CRetrieve v => opt_bytes_eqb u v
  | CFindNode m, CFindNode o => (o =? m) || ((m =? avail) && (avail <=? o))
  | CFindValue u m, CFindValue v o => opt_bytes_eqb u v && ((o =? m) || ((m =? avail) && (avail <=? o)))
  | _, _ => false end.

Definition rres_eqb (a b : rres) : bool :=
  match a, b with
  | RTooLarge x, RTooLarge y => x =? y
  | RDecodeErr, RDecodeErr => true
  | ROk x, ROk y => bytes_eqb x y
  | _, _ => false end.

Definition ev_obs := option (list N * list N * list N).   (* topic, source, data *)
Definition env_obs := option (list N * bool * list N).

Inductive wcase :=
| KDec (t : ty) (b : blob) (obs : option (list N * N))          (* postcard::take_from_bytes::<T> *)
| KPpm (now : N) (src : list N) (b : blob) (obs : ev_obs)        (* parse_protocol_message *)
| KEnv (b : blob) (obs : env_obs)                                (* parse_request_envelope *)
| KDht (frames : list (blob * dres))                             (* one manager, frames in order *)
| KCore (avail : N) (frames : list (blob * cres))                (* one engine, requests in order *)
| KRecD (b : blob) (obs : rres)                                  (* DhtRecord::deserialize *)
| KRecS (b : blob) (obs : rres).                                 (* deserialize, then serialize the record *)

Fixpoint all2b {A B} (f : A -> B -> bool) (a : list A) (b : list B) : bool :=
  match a, b with
  | [], [] => true
  | x :: a', y :: b' => f x y && all2b f a' b'
  | _, _ => false end.

Definition check_case (c : wcase) : bool :=
  match c with
  | KDec t b obs => obs_eqb (dec_obs t (blob_bytes b)) obs
  | KPpm now src b obs =>
    match parse_protocol_message now src (blob_bytes b), obs with
    | None, None => true
    | Some e, Some (t, s, d) => bytes_eqb (ev_topic e) t && bytes_eqb (ev_source e) s && bytes_eqb (ev_data e) d
    | _, _ => false end
  | KEnv b obs =>
    match parse_request_envelope (blob_bytes b), obs with
    | None, None => true
    | Some (i, r, p), Some (i', r', p') => bytes_eqb i i' && Bool.eqb r r' && bytes_eqb p p'
    | _, _ => false end
  | KDht frames =>
    all2b dres_eqb (snd (dht_run [] (map (fun f => blob_bytes (fst f)) frames))) (map snd frames)
  | KCore avail frames =>
    all2b (cres_eqb avail) (snd (core_run avail [] (map (fun f => blob_bytes (fst f)) frames))) (map snd frames)
  | KRecD b obs => rres_eqb (record_deserialize (blob_bytes b)) obs
  | KRecS b obs =>
    match decode S_DhtRecord (blob_bytes b) with
    | Some (v, _) => rres_eqb (record_serialize v) obs
    | None => false end
  end.

(* The conclusions of the C05 theorems evaluated on what the IMPLEMENTATION did. *)
Definition ppm_prop (now : N) (src : list N) (bytes : list N) (obs : ev_obs) : bool :=
  match obs with
  | None => true
  | Some (_, s, _) =>
    bytes_eqb s src &&
    match decode S_WireMessage bytes with
    | Some (m, _) => match wire_fields m with
                     | Some (_, _, ts) => (now - 300 <=? ts) && (ts <=? now + 30)
                     | None => false end
    | None => false end
  end.

(* value carried by a PUT frame, if the frame is a well-formed PUT request *)
Definition put_value_len (data : list N) : option N :=
  match decode S_DhtNetworkMessage data with
  | Some (m, _) =>
    match fld F_DhtNetworkMessage_message_type m, fld F_DhtNetworkMessage_payload m with
    | Some (VVar mt _), Some (VVar op args) =>
      if (mt =? V_DhtMessageType_Request) && (op =? V_DhtNetworkOperation_Put) then
        match fld F_DhtNetworkOperation_Put_value args with Some (VBytes v) => Some (blen v) | _ => None end
      else None
    | _, _ => None end
  | None => None end.

Definition dht_frame_prop (f : blob * dres) : bool :=
  let '(b, r) := f in
  (* over 64 KiB: refused, and with the size verdict *)
  (if 65536 <? blob_len b then match r with DRejSize => true | _ => false end else true) &&
  (* a value over 512 bytes is never acknowledged, and none is ever served *)
  match r with
  | DReply var (Some v) => blen v <=? 512
  | DReply var None =>
    if var =? V_DhtNetworkResult_PutSuccess then
      (if 65536 <? blob_len b then false
       else match put_value_len (blob_bytes b) with Some l => l <=? 512 | None => false end)
    else true
  | _ => true end.

Definition core_frame_prop (f : blob * cres) : bool :=
  let '(b, r) := f in
  match r with
  | CFindNode n => n <=? 20
  | CFindValue (Some v) _ => blen v <=? 512
  | CRetrieve (Some v) => blen v <=? 512
  | CStoreAck =>
    match decode S_DhtRequestWrapper (blob_bytes b) with
    | Some (m, _) =>
      match fld F_DhtRequestWrapper_message m with
      | Some (VVar _ args) => match fld F_DhtMessage_Store_value args with
                              | Some (VBytes v) => blen v <=? 512 | _ => false end
      | _ => false end
    | None => false end
  | _ => true end.

Definition prop_case (c : wcase) : bool :=
  match c with
  | KDec _ _ _ => true
  | KPpm now src b obs => ppm_prop now src (blob_bytes b) obs
  | KEnv _ _ => true
  | KDht frames => forallb dht_frame_prop frames
  | KCore _ frames => forallb core_frame_prop frames
  | KRecD b obs => match obs with ROk _ => blob_len b <=? 512 | _ => true end
  | KRecS _ obs => match obs with ROk bytes => blen bytes <=? 512 | _ => true end
  end.
