(* Generic schema-directed model of the postcard 1.1.3 wire format as used through serde
   (C05).  Definitions only.  Bytes are [N] values (0..255); the decoder is total on
   arbitrary [list N].

   Rules mirrored (checked against postcard-1.1.3/src/de/deserializer.rs, de/flavors.rs,
   varint.rs, ser/serializer.rs and serde_core-1.0.229/src/de/impls.rs):
   - u8/i8: one raw byte.  u16/u32/u64/usize(=u64 on the 64-bit target)/u128: LEB128,
     at most ceil(bits/7) bytes; a terminal byte in the LAST position must be
     <= 2^(bits mod 7) - 1; a continuation bit in the last position is an error.
     Overlong encodings (0x80 0x00 = 0) are ACCEPTED, so decode is not injective.
   - signed: zig-zag then the unsigned rule.
   - bool: exactly 0 or 1.  Option: tag byte 0 / 1.  f64: 8 raw bytes (little endian).
   - String / byte buffer / Vec<T>: varint(usize) length, then items.  String content must
     be well-formed UTF-8 ([utf8_valid] mirrors core::str::from_utf8's acceptance set).
   - struct / tuple / array [T; n]: fields in order, no length.  Newtype struct: transparent.
   - enum: varint(u32) variant index < number of variants, then the variant's content.
   - Duration: (u64 secs, u32 nanos); serde rejects secs + nanos/1e9 overflowing u64 and
     normalises (Duration::new).  SystemTime: the same and UNIX_EPOCH.checked_add must
     succeed (seconds <= i64::MAX on Linux).
   - postcard::from_bytes ignores trailing bytes.
   The only deliberate shortcut: a sequence whose claimed length exceeds the number of
   remaining input bytes is rejected at once (the real decoder reads elements until the
   input runs out and then fails; identical verdict whenever every element occupies at
   least one byte, which [ty_ok] demands and which is checked for every generated schema). *)
From SV Require Import Lib.Base.
Local Open Scope N_scope.

Inductive ty :=
| U8
| VarU (bits : N)          (* u16 u32 u64 usize u128 *)
| VarI (bits : N)          (* i16 i32 i64 i128 *)
| Bool
| F64
| Str
| Bytes                    (* serialize_bytes / deserialize_byte_buf; same bytes as Vec<u8> *)
| BytesN (n : N)           (* Vec<u8> decoded, then length must equal n (SerializableHash) *)
| Dur
| SysTime
| Seq (t : ty)
| Opt (t : ty)
| Tup (ts : list ty)       (* struct, tuple, struct/tuple enum variant *)
| Enum (vs : list ty)      (* one [ty] per variant: Tup [] for a unit variant *)
| Arr (n : nat) (t : ty).  (* [T; n] *)

Inductive value :=
| VN (n : N)
| VZ (z : Z)
| VB (b : bool)
| VF (bs : list N)         (* f64 as its 8 little-endian bytes *)
| VBytes (bs : list N)     (* String, bytes *)
| VDur (secs nanos : N)    (* normalised: nanos < 10^9 *)
| VSeq (vs : list value)
| VTup (vs : list value)
| VNone
| VSome (v : value)
| VVar (idx : N) (v : value).

(* ---------- varints ---------- *)
Definition vmax (bits : N) : nat := N.to_nat ((bits + 6) / 7).
Definition vlast (bits : N) : N := 2 ^ (bits mod 7) - 1.

Fixpoint enc_varint (fuel : nat) (n : N) : list N :=
  match fuel with
  | O => []
  | S f => if n <? 128 then [n] else (n mod 128 + 128) :: enc_varint f (n / 128)
  end.

(* try_take_varint_uXX: [maxb] bytes left to read, [lastmax] = max_of_last_byte *)
Fixpoint dec_varint (maxb : nat) (lastmax : N) (inp : list N) : option (N * list N) :=
  match maxb with
  | O => None
  | S m =>
    match inp with
    | [] => None
    | b :: r =>
      if b <? 128 then
        (if Nat.eqb m 0 && (lastmax <? b) then None else Some (b, r))
      else match dec_varint m lastmax r with
           | Some (v, r') => Some (b mod 128 + 128 * v, r')
           | None => None
           end
    end
  end.

Definition enc_u (bits n : N) : list N := enc_varint (vmax bits) n.
Definition dec_u (bits : N) (inp : list N) : option (N * list N) := dec_varint (vmax bits) (vlast bits) inp.

Definition zz (bits : N) (z : Z) : N :=
  if (0 <=? z)%Z then Z.to_N (2 * z) else Z.to_N (- 2 * z - 1).
Definition unzz (n : N) : Z :=
  if N.even n then Z.of_N (n / 2) else (- Z.of_N (n / 2) - 1)%Z.

(* ---------- UTF-8 (Unicode table 3-7, the set core::str::from_utf8 accepts) ---------- *)
Definition inr (lo hi b : N) : bool := (lo <=? b) && (b <=? hi).
Definition cont (b : N) : bool := inr 128 191 b.

Fixpoint utf8_valid (l : list N) : bool :=
  match l with
  | [] => true
  | b0 :: r =>
    if b0 <? 128 then utf8_valid r
    else if inr 194 223 b0 then
      match r with b1 :: r1 => cont b1 && utf8_valid r1 | _ => false end
    else if inr 224 239 b0 then
      match r with
      | b1 :: b2 :: r2 =>
        (if b0 =? 224 then inr 160 191 b1 else if b0 =? 237 then inr 128 159 b1 else cont b1)
        && cont b2 && utf8_valid r2
      | _ => false end
    else if inr 240 244 b0 then
      match r with
      | b1 :: b2 :: b3 :: r3 =>
        (if b0 =? 240 then inr 144 191 b1 else if b0 =? 244 then inr 128 143 b1 else cont b1)
        && cont b2 && cont b3 && utf8_valid r3
      | _ => false end
    else false
  end.

(* UTF-8 encoding of one Unicode scalar value (for the non-vacuity lemma) *)
Definition utf8_enc (c : N) : list N :=
  if c <? 128 then [c]
  else if c <? 2048 then [192 + c / 64; 128 + c mod 64]
  else if c <? 65536 then [224 + c / 4096; 128 + (c / 64) mod 64; 128 + c mod 64]
  else [240 + c / 262144; 128 + (c / 4096) mod 64; 128 + (c / 64) mod 64; 128 + c mod 64].
Definition scalar (c : N) : bool := (c <? 55296) || ((57344 <=? c) && (c <? 1114112)).

(* ---------- helpers ---------- *)
Definition take_n (n : N) (inp : list N) : option (list N * list N) :=
  if N.of_nat (length inp) <? n then None
  else Some (firstn (N.to_nat n) inp, skipn (N.to_nat n) inp).

Definition decoder := list N -> option (value * list N).

(* k elements with the same decoder *)
Fixpoint dec_rep (d : decoder) (k : nat) (inp : list N) : option (list value * list N) :=
  match k with
  | O => Some ([], inp)
  | S k' => match d inp with
            | Some (v, r) => match dec_rep d k' r with
                             | Some (vs, r') => Some (v :: vs, r')
                             | None => None end
            | None => None end
  end.

(* one element per decoder, in order *)
Fixpoint dec_all (ds : list decoder) (inp : list N) : option (list value * list N) :=
  match ds with
  | [] => Some ([], inp)
  | d :: ds' => match d inp with
                | Some (v, r) => match dec_all ds' r with
                                 | Some (vs, r') => Some (v :: vs, r')
                                 | None => None end
                | None => None end
  end.

Fixpoint enc_all (es : list (value -> list N)) (vs : list value) : list N :=
  match es, vs with
  | e :: es', v :: vs' => e v ++ enc_all es' vs'
  | _, _ => []
  end.

Fixpoint all2 (ws : list (value -> bool)) (vs : list value) : bool :=
  match ws, vs with
  | [], [] => true
  | w :: ws', v :: vs' => w v && all2 ws' vs'
  | _, _ => false
  end.

Definition NANOS : N := 1000000000.
Definition U64MAX : N := 18446744073709551615.
Definition I64MAX : N := 9223372036854775807.

Definition dec_dur (limit : N) (inp : list N) : option (value * list N) :=
  match dec_u 64 inp with
  | Some (s, r) =>
    match dec_u 32 r with
    | Some (n, r') =>
      let s' := s + n / NANOS in
      if limit <? s' then None else Some (VDur s' (n mod NANOS), r')
    | None => None end
  | None => None end.

Definition dec_lenbytes (inp : list N) : option (list N * list N) :=
  match dec_u 64 inp with
  | Some (len, r) => take_n len r
  | None => None end.

(* ---------- the codec ---------- *)
Fixpoint decode (t : ty) (inp : list N) {struct t} : option (value * list N) :=
  match t with
  | U8 => match inp with b :: r => Some (VN b, r) | [] => None end
  | VarU bits => match dec_u bits inp with Some (n, r) => Some (VN n, r) | None => None end
  | VarI bits => match dec_u bits inp with Some (n, r) => Some (VZ (unzz n), r) | None => None end
  | Bool => match inp with
            | 0 :: r => Some (VB false, r)
            | 1 :: r => Some (VB true, r)
            | _ => None end
  | F64 => match take_n 8 inp with Some (bs, r) => Some (VF bs, r) | None => None end
  | Str => match dec_lenbytes inp with
           | Some (bs, r) => if utf8_valid bs then Some (VBytes bs, r) else None
           | None => None end
  | Bytes => match dec_lenbytes inp with Some (bs, r) => Some (VBytes bs, r) | None => None end
  | BytesN n => match dec_lenbytes inp with
                | Some (bs, r) => if N.of_nat (length bs) =? n then Some (VBytes bs, r) else None
                | None => None end
  | Dur => dec_dur U64MAX inp
  | SysTime => dec_dur I64MAX inp
  | Seq t' =>
    match dec_u 64 inp with
    | Some (len, r) =>
      if N.of_nat (length r) <? len then None
      else match dec_rep (decode t') (N.to_nat len) r with
           | Some (vs, r') => Some (VSeq vs, r')
           | None => None end
    | None => None end
  | Opt t' =>
    match inp with
    | 0 :: r => Some (VNone, r)
    | 1 :: r => match decode t' r with Some (v, r') => Some (VSome v, r') | None => None end
    | _ => None end
  | Tup ts => match dec_all (map decode ts) inp with
              | Some (vs, r) => Some (VTup vs, r)
              | None => None end
  | Enum vs =>
    match dec_u 32 inp with
    | Some (idx, r) =>
      if idx <? N.of_nat (length vs) then
        match nth_error (map decode vs) (N.to_nat idx) with
        | Some d => match d r with Some (v, r') => Some (VVar idx v, r') | None => None end
        | None => None end
      else None
    | None => None end
  | Arr n t' => match dec_rep (decode t') n inp with
                | Some (vs, r) => Some (VTup vs, r)
                | None => None end
  end.

Fixpoint encode (t : ty) (v : value) {struct t} : list N :=
  match t, v with
  | U8, VN b => [b]
  | VarU bits, VN n => enc_u bits n
  | VarI bits, VZ z => enc_u bits (zz bits z)
  | Bool, VB b => [if b then 1 else 0]
  | F64, VF bs => bs
  | Str, VBytes bs | Bytes, VBytes bs | BytesN _, VBytes bs => enc_u 64 (N.of_nat (length bs)) ++ bs
  | Dur, VDur s n | SysTime, VDur s n => enc_u 64 s ++ enc_u 32 n
  | Seq t', VSeq vs => enc_u 64 (N.of_nat (length vs)) ++ concat (map (encode t') vs)
  | Opt _, VNone => [0]
  | Opt t', VSome v' => 1 :: encode t' v'
  | Tup ts, VTup vs => enc_all (map encode ts) vs
  | Enum ts, VVar idx v' =>
    if idx <? N.of_nat (length ts) then
      match nth_error (map encode ts) (N.to_nat idx) with
      | Some e => enc_u 32 idx ++ e v'
      | None => [] end
    else []
  | Arr _ t', VTup vs => concat (map (encode t') vs)
  | _, _ => []
  end.

(* typing of values (what the Rust type can hold) *)
Fixpoint wfb (t : ty) (v : value) {struct t} : bool :=
  match t, v with
  | U8, VN _ => true
  | VarU bits, VN n => n <? 2 ^ bits
  | VarI bits, VZ z => (- 2 ^ (Z.of_N bits - 1) <=? z)%Z && (z <? 2 ^ (Z.of_N bits - 1))%Z
  | Bool, VB _ => true
  | F64, VF bs => Nat.eqb (length bs) 8
  | Str, VBytes bs => utf8_valid bs && (N.of_nat (length bs) <=? U64MAX)
  | Bytes, VBytes bs => N.of_nat (length bs) <=? U64MAX
  | BytesN n, VBytes bs => (N.of_nat (length bs) =? n) && (n <=? U64MAX)
  | Dur, VDur s n => (s <=? U64MAX) && (n <? NANOS)
  | SysTime, VDur s n => (s <=? I64MAX) && (n <? NANOS)
  | Seq t', VSeq vs => (N.of_nat (length vs) <=? U64MAX) && forallb (wfb t') vs
  | Opt _, VNone => true
  | Opt t', VSome v' => wfb t' v'
  | Tup ts, VTup vs => all2 (map wfb ts) vs
  | Enum ts, VVar idx v' =>
    (idx <? N.of_nat (length ts)) &&
    match nth_error (map wfb ts) (N.to_nat idx) with Some w => w v' | None => false end
  | Arr n t', VTup vs => Nat.eqb (length vs) n && forallb (wfb t') vs
  | _, _ => false
  end.

(* ---------- schema side conditions ---------- *)
(* every value of the type occupies at least one byte on the wire *)
Fixpoint nz (t : ty) : bool :=
  match t with
  | Tup ts => existsb nz ts
  | Arr n t' => negb (Nat.eqb n 0) && nz t'
  | _ => true
  end.

Definition bits_ok (bits : N) : bool := (bits =? 16) || (bits =? 32) || (bits =? 64) || (bits =? 128).

(* integer widths are real ones, no sequence of zero-sized elements, enums fit u32 *)
Fixpoint ty_ok (t : ty) : bool :=
  match t with
  | VarU bits | VarI bits => bits_ok bits
  | Seq t' => nz t' && ty_ok t'
  | Opt t' => ty_ok t'
  | Tup ts => forallb ty_ok ts
  | Enum ts => (N.of_nat (length ts) <=? 4294967296) && forallb ty_ok ts
  | Arr _ t' => ty_ok t'
  | _ => true
  end.

(* number of dynamically sized items a value holds: sequence elements and string/buffer
   bytes, at every depth.  Everything else in a decoded value has a size fixed by the schema. *)
Fixpoint elems (v : value) : nat :=
  match v with
  | VBytes bs => length bs
  | VSeq vs => length vs + fold_right Nat.add 0%nat (map elems vs)
  | VTup vs => fold_right Nat.add 0%nat (map elems vs)
  | VSome v' => elems v'
  | VVar _ v' => elems v'
  | _ => 0%nat
  end.

(* ---------- equality on values / byte strings (for case files) ---------- *)
Fixpoint bytes_eqb (a b : list N) : bool :=
  match a, b with
  | [], [] => true
  | x :: a', y :: b' => (x =? y) && bytes_eqb a' b'
  | _, _ => false
  end.

(* what the harness observes of a decode: accepted?, canonical re-encoding, bytes left over *)
Definition dec_obs (t : ty) (inp : list N) : option (list N * N) :=
  match decode t inp with
  | Some (v, r) => Some (encode t v, N.of_nat (length r))
  | None => None
  end.

Definition obs_eqb (a b : option (list N * N)) : bool :=
  match a, b with
  | None, None => true
  | Some (x, n), Some (y, m) => bytes_eqb x y && (n =? m)
  | _, _ => false
  end.
