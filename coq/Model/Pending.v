(* Model of the two pending-request tables (C04).  Definitions only.

   DHT table  = DhtNetworkManager::active_operations (send_dht_request, handle_dht_response,
                sweep_expired_operations), keyed by the request's uuid.
   /rr/ table = TransportHandle::active_requests (send_request, the /rr/ branch of the
                receive loop), keyed by uuid, capacity MAX_ACTIVE_REQUESTS.

   Every real step runs under one mutex / RwLock write guard, so an arbitrary
   interleaving of tasks is an arbitrary SEQUENCE of the events below; the
   theorems quantify over all event lists.  Ids, peers and payloads are numbers. *)
From SV Require Import Lib.Base Gen.PendingConsts.
Local Open Scope N_scope.

Record entry := mkEntry {
  e_peer : N;        (* the peer the request was sent to (transport id) *)
  e_tx : bool;       (* the oneshot sender is still in the context *)
  e_rx : bool;       (* the waiting future (the oneshot receiver) still exists *)
  e_started : N;     (* ms *)
  e_timeout : N;     (* ms *)
}.
Definition table := list (N * entry).

Fixpoint lookup (t : table) (id : N) : option entry :=
  match t with [] => None | (k, e) :: t' => if k =? id then Some e else lookup t' id end.
Fixpoint remove (t : table) (id : N) : table :=
  match t with [] => [] | (k, e) :: t' => if k =? id then remove t' id else (k, e) :: remove t' id end.
Definition insert (t : table) (id : N) (e : entry) : table := (id, e) :: remove t id.

(* sweep_expired_operations: drop entries older than twice their timeout *)
Definition expired (now : N) (e : entry) : bool := PEND_SWEEP_MULT * e_timeout e <? now - e_started e.
Definition sweep (now : N) (t : table) : table := filter (fun kv => negb (expired now (snd kv))) t.

Inductive ev :=
| Send (id peer now timeout : N)     (* send_dht_request: sweep, then insert *)
| Deliver (id from payload : N)      (* a Response frame carrying [id] arrives on [from]'s authenticated connection *)
| Finish (id : N)                    (* the waiting future returns (reply, timeout or send error) and removes its entry *)
| Cancel (id : N).                   (* the waiting future is dropped: the entry stays (until swept), its receiver is gone *)

(* a completion handed to the waiting request: (request id, payload) *)
Definition step (t : table) (e : ev) : table * option (N * N) :=
  match e with
  | Send id peer now timeout => (insert (sweep now t) id (mkEntry peer true true now timeout), None)
  | Deliver id from payload =>
      match lookup t id with
      | Some en =>
          if (e_peer en =? from) && e_tx en
          then (insert t id (mkEntry (e_peer en) false (e_rx en) (e_started en) (e_timeout en)),
                if e_rx en then Some (id, payload) else None)   (* sending to a dropped receiver reaches nobody *)
          else (t, None)
      | None => (t, None)
      end
  | Finish id => (remove t id, None)
  | Cancel id =>
      match lookup t id with
      | Some en => (insert t id (mkEntry (e_peer en) (e_tx en) false (e_started en) (e_timeout en)), None)
      | None => (t, None)
      end
  end.

Fixpoint run (t : table) (evs : list ev) : table * list (option (N * N)) :=
  match evs with
  | [] => (t, [])
  | e :: evs' => let '(t1, o) := step t e in let '(t2, os) := run t1 evs' in (t2, o :: os)
  end.

Definition completions_of (id : N) (os : list (option (N * N))) : list N :=
  flat_map (fun o => match o with Some (i, p) => if i =? id then [p] else [] | None => [] end) os.

(* ---------------- /rr/ table ---------------- *)
Definition rtable := list (N * N).   (* id -> expected peer *)
Fixpoint rlookup (t : rtable) (id : N) : option N :=
  match t with [] => None | (k, p) :: t' => if k =? id then Some p else rlookup t' id end.
Fixpoint rremove (t : rtable) (id : N) : rtable :=
  match t with [] => [] | (k, p) :: t' => if k =? id then rremove t' id else (k, p) :: rremove t' id end.

Inductive rev_ :=
| RSend (id peer : N)                 (* send_request: refused when the table is full *)
| RDeliver (id from payload : N)      (* /rr/ response envelope [id] arrives from [from] *)
| RFinish (id : N)                    (* send_request returns and removes its entry *)
| RCancel (id : N).                   (* send_request's future is dropped: its guard removes the entry *)

Inductive rout := RNone | RRefused (id : N) | RComplete (id payload : N).

Definition rstep (t : rtable) (e : rev_) : rtable * rout :=
  match e with
  | RSend id peer =>
      if (RR_MAX_ACTIVE_REQUESTS <=? N.of_nat (length t)) then (t, RRefused id)
      else ((id, peer) :: rremove t id, RNone)
  | RDeliver id from payload =>
      match rlookup t id with
      | Some p => if p =? from then (rremove t id, RComplete id payload) else (t, RNone)
      | None => (t, RNone)
      end
  | RFinish id => (rremove t id, RNone)
  | RCancel id => (rremove t id, RNone)
  end.

Fixpoint rrun (t : rtable) (evs : list rev_) : rtable * list rout :=
  match evs with
  | [] => (t, [])
  | e :: evs' => let '(t1, o) := rstep t e in let '(t2, os) := rrun t1 evs' in (t2, o :: os)
  end.

(* ---------------- executable interface for the correspondence check ---------------- *)
Definition opt_pair_eqb (a b : option (N * N)) : bool :=
  match a, b with
  | None, None => true
  | Some (x, y), Some (x', y') => (x =? x') && (y =? y')
  | _, _ => false
  end.

Fixpoint sizes_after (t : table) (evs : list ev) : list N :=
  match evs with
  | [] => []
  | e :: evs' => let t1 := fst (step t e) in N.of_nat (length t1) :: sizes_after t1 evs'
  end.

Fixpoint list_eqb {A} (eqb : A -> A -> bool) (a b : list A) : bool :=
  match a, b with
  | [], [] => true
  | x :: a', y :: b' => eqb x y && list_eqb eqb a' b'
  | _, _ => false
  end.

(* observed: per event, the completion it produced (request id, payload) and the table size afterwards *)
Definition dcase := (list ev * list (option (N * N)) * list N)%type.
(* a size of UNOBSERVED means the harness could not look at the table between two events *)
Definition UNOBSERVED : N := 999999.
Definition size_eqb (m o : N) : bool := (o =? UNOBSERVED) || (m =? o).
Definition check_dcase (c : dcase) : bool :=
  let '(evs, obs, sizes) := c in
  list_eqb opt_pair_eqb (snd (run [] evs)) obs && list_eqb size_eqb (sizes_after [] evs) sizes.

(* the property on the implementation's own outputs: every observed completion carries the id of a
   request sent earlier to exactly the delivering peer, no request completes twice, and the table is
   empty once every request has finished *)
Fixpoint obs_ok (evs : list ev) (obs : list (option (N * N))) (sent : list (N * N)) (done : list N) : bool :=
  match evs, obs with
  | e :: evs', o :: obs' =>
      let sent' := match e with Send id peer _ _ => (id, peer) :: sent | _ => sent end in
      match o with
      | None => obs_ok evs' obs' sent' done
      | Some (i, pl) =>
          match e with
          | Deliver id from payload =>
              (i =? id) && (pl =? payload) && existsb (fun kv => (fst kv =? id) && (snd kv =? from)) sent
              && negb (existsb (N.eqb id) done) && obs_ok evs' obs' sent' (id :: done)
          | _ => false
          end
      end
  | [], [] => true
  | _, _ => false
  end.
Definition prop_dcase (c : dcase) : bool := let '(evs, obs, _) := c in obs_ok evs obs [] [].

Definition rout_eqb (a b : rout) : bool :=
  match a, b with
  | RNone, RNone => true
  | RRefused i, RRefused j => i =? j
  | RComplete i p, RComplete j q => (i =? j) && (p =? q)
  | _, _ => false
  end.
Fixpoint rsizes_after (t : rtable) (evs : list rev_) : list N :=
  match evs with
  | [] => []
  | e :: evs' => let t1 := fst (rstep t e) in N.of_nat (length t1) :: rsizes_after t1 evs'
  end.
Definition rcase := (list rev_ * list rout * list N)%type.
Definition check_rcase (c : rcase) : bool :=
  let '(evs, obs, sizes) := c in
  list_eqb rout_eqb (snd (rrun [] evs)) obs && list_eqb size_eqb (rsizes_after [] evs) sizes.
Fixpoint robs_ok (evs : list rev_) (obs : list rout) (sent : list (N * N)) (done : list N) : bool :=
  match evs, obs with
  | e :: evs', o :: obs' =>
      let sent' := match e, o with RSend id peer, RNone => (id, peer) :: sent | _, _ => sent end in
      match o with
      | RNone => robs_ok evs' obs' sent' done
      | RRefused i => match e with RSend id _ => (i =? id) && robs_ok evs' obs' sent' done | _ => false end
      | RComplete i pl =>
          match e with
          | RDeliver id from payload =>
              (i =? id) && (pl =? payload) && existsb (fun kv => (fst kv =? id) && (snd kv =? from)) sent
              && negb (existsb (N.eqb id) done) && robs_ok evs' obs' sent' (id :: done)
          | _ => false
          end
      end
  | [], [] => true
  | _, _ => false
  end.
Definition prop_rcase (c : rcase) : bool :=
  let '(evs, obs, sizes) := c in
  forallb (fun n => (n =? UNOBSERVED) || (n <=? RR_MAX_ACTIVE_REQUESTS)) sizes && robs_ok evs obs [] [].
