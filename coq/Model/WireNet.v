(* C05, dispatcher level: one frame through the REAL receive loop of a running node
   (start_message_receiving_system) against [Wire.dispatch].  Definitions only. *)
From SV Require Import Lib.Base Model.Postcard Gen.Schemas Gen.WireConsts Model.Wire.
Local Open Scope N_scope.

(* what the harness can see after the dispatcher has drained *)
Inductive nobs :=
| NNothing                                   (* no event surfaced, no pending request completed *)
| NEvent (topic source data : list N)        (* a P2PEvent::Message reached the subscribers *)
| NDelivered (id payload : list N).          (* the pending /rr/ request [id] completed with [payload] *)

Record ncase := mkN {
  n_now : N; n_pending : list (list N * list N);   (* /rr/ message id -> expected transport id *)
  n_src : list N;                                   (* the authenticated connection the bytes arrive on *)
  n_bytes : blob; n_obs : nobs;
}.

Definition check_ncase (c : ncase) : bool :=
  match snd (dispatch (n_pending c) (n_now c) (n_src c) (blob_bytes (n_bytes c))), n_obs c with
  | DKeepalive, NNothing | DDropped, NNothing | DSuppressed, NNothing => true
  | DDelivered i p, NDelivered i' p' => bytes_eqb i i' && bytes_eqb p p'
  | DEvent e, NEvent t s d => bytes_eqb (ev_topic e) t && bytes_eqb (ev_source e) s && bytes_eqb (ev_data e) d
  | _, _ => false
  end.

(* the property on the implementation's own observation: whatever is surfaced carries the
   authenticated source, and a pending request completes only from the peer it was sent to *)
Definition prop_ncase (c : ncase) : bool :=
  match n_obs c with
  | NNothing => true
  | NEvent _ s _ => bytes_eqb s (n_src c)
  | NDelivered i _ => match p_lookup i (n_pending c) with Some e => bytes_eqb e (n_src c) | None => false end
  end.
