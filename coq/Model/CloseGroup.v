(* Model of src/dht/routing_maintenance/close_group_validator.rs (validate_membership and what it
   calls, the enforcement-mode wrappers) and of the witness counters of validator.rs (C15).
   Definitions only.  Constants come from Gen/CloseGroupConsts.v, regenerated from the Rust source
   on every run.

   Numbers: the code computes with f64.  The model computes with exact rationals [Q]; thresholds
   are the exact decimal value of the source literals.  [None] in a ratio field stands for the
   f64 NaN that 0/0 produces (only reachable with min_peers_to_query = 0); every comparison with it
   is false, as in IEEE-754.  The rounding gap is discussed in design/C15.md. *)
From SV Require Import Lib.Base Gen.CloseGroupConsts.
From Coq Require Import QArith.
Local Open Scope Q_scope.

(* ---------- data ---------- *)
(* the CloseGroupFailure variants validate_membership can produce *)
Inductive failure := InsufficientConfirmation | LowTrustScore | InsufficientGeographicDiversity | SuspectedCollusion.

Definition failure_eqb (a b : failure) : bool :=
  match a, b with
  | InsufficientConfirmation, InsufficientConfirmation | LowTrustScore, LowTrustScore
  | InsufficientGeographicDiversity, InsufficientGeographicDiversity | SuspectedCollusion, SuspectedCollusion => true
  | _, _ => false
  end.

(* CloseGroupValidationResult::add_failure: push unless already present *)
Definition add_failure (f : failure) (l : list failure) : list failure :=
  if existsb (failure_eqb f) l then l else l ++ [f].

(* CloseGroupResponse: confirms, peer_trust_score, peer_region (an id per distinct string),
   response_latency in nanoseconds *)
Record resp := mkResp { r_confirms : bool; r_trust : option Q; r_region : option N; r_latency : N }.

(* CloseGroupValidatorConfig, decision-relevant fields *)
Record cfg := mkCfg { c_min_peers : N; c_thr_weighted : Q; c_thr_bft : Q; c_min_trust : Q;
                      c_min_regions : N; c_strict : bool }.

Definition cfg_default : cfg :=
  mkCfg CG_MIN_PEERS CG_THR_WEIGHTED CG_THR_BFT CG_MIN_WITNESS_TRUST CG_MIN_REGIONS true.

Definition QofN (n : N) : Q := inject_Z (Z.of_N n).
Definition lenN {A} (l : list A) : N := N.of_nat (length l).

(* MaintenanceConfig::required_confirmations / minimum_witnesses *)
Definition required_confirmations (f : N) : N := (MC_CONF_MUL * f + MC_CONF_ADD)%N.
Definition minimum_witnesses (f : N) : N := (MC_WIT_MUL * f + MC_WIT_ADD)%N.

(* CloseGroupValidatorConfig::from_maintenance_config *)
Definition cfg_from_maintenance (f : N) : cfg :=
  mkCfg (minimum_witnesses f) CG_THR_WEIGHTED
        (QofN (required_confirmations f) / QofN (minimum_witnesses f))
        CG_MIN_WITNESS_TRUST CG_MIN_REGIONS true.

(* ---------- small numeric helpers ---------- *)
Definition Qltb (a b : Q) : bool := negb (Qle_bool b a).

(* usize as f64 / usize as f64; 0/0 = NaN = None *)
Definition nratio (a n : N) : option Q :=
  if (n =? 0)%N then None else Some (QofN a / QofN n).

(* f64 [ratio >= threshold]; false on NaN *)
Definition ge_thr (r : option Q) (thr : Q) : bool :=
  match r with Some x => Qle_bool thr x | None => false end.

(* ---------- detect_collusion_indicators ---------- *)
Fixpoint insert (x : N) (l : list N) : list N :=
  match l with
  | [] => [x]
  | y :: t => if (x <=? y)%N then x :: l else y :: insert x t
  end.
Definition isort (l : list N) : list N := fold_right insert [] l.

(* number of adjacent pairs of the sorted latencies closer than the window *)
Fixpoint similar_count (window : N) (l : list N) : N :=
  match l with
  | a :: t => (match t with b :: _ => if (b - a <? window)%N then 1 else 0 | [] => 0 end
               + similar_count window t)%N
  | [] => 0%N
  end.

Definition collusion_window_ns : N := (CG_COLLUSION_WINDOW_MS * 1000000)%N.

Definition detect_collusion (lats : list N) : bool :=
  if (lenN lats <? CG_COLLUSION_MIN_RESPONSES)%N then false
  else (lenN lats / CG_COLLUSION_DIV <? similar_count collusion_window_ns (isort lats))%N.

(* ---------- count_confirming_regions ---------- *)
Definition confirming_regions (rs : list resp) : list N :=
  flat_map (fun r => if r_confirms r then match r_region r with Some g => [g] | None => [] end else []) rs.
Definition count_confirming_regions (rs : list resp) : N :=
  lenN (nodup N.eq_dec (confirming_regions rs)).

(* ---------- validate_bft ---------- *)
Definition is_trusted (c : cfg) (r : resp) : bool :=
  Qle_bool (c_min_trust c) (match r_trust r with Some t => t | None => CG_BFT_UNKNOWN_TRUST end).
Definition trusted (c : cfg) (rs : list resp) : list resp := filter (is_trusted c) rs.
Definition confirmations (rs : list resp) : N := lenN (filter r_confirms rs).

(* (is_valid, confirmation_ratio, weighted_confirmation, failure_reasons) *)
Definition inner := (bool * option Q * option Q * list failure)%type.

Definition validate_bft (c : cfg) (rs : list resp) : inner :=
  let t := trusted c rs in
  if (lenN t <? c_min_peers c)%N then (false, Some 0, Some 0, [InsufficientConfirmation])
  else
    let ratio := nratio (confirmations t) (lenN t) in
    let ok := ge_thr ratio (c_thr_bft c) in
    let fails := if ok then [] else [InsufficientConfirmation] in
    if detect_collusion (map r_latency t)
    then (false, ratio, ratio, add_failure SuspectedCollusion fails)
    else (ok, ratio, ratio, fails).

(* ---------- validate_trust_weighted ---------- *)
(* weight of one response: its trust score (unknown = CG_UNKNOWN_WEIGHT) kept within [0, 1]
   (.max(0.0).min(1.0); f64::max also maps NaN to 0) *)
Definition weight_of (r : resp) : Q :=
  let w := match r_trust r with Some t => t | None => CG_UNKNOWN_WEIGHT end in
  if Qle_bool 0 w then (if Qle_bool w 1 then w else 1) else 0.

Definition total_weight (rs : list resp) : Q :=
  fold_left (fun acc r => acc + weight_of r) rs 0.
Definition confirming_weight (rs : list resp) : Q :=
  fold_left (fun acc r => if r_confirms r then acc + weight_of r else acc) rs 0.

Definition validate_weighted (c : cfg) (rs : list resp) : inner :=
  let tw := total_weight rs in
  let cw := confirming_weight rs in
  let ratio := match rs with [] => Some 0 | _ => nratio (confirmations rs) (lenN rs) end in
  let weighted := if Qltb 0 tw then Some (cw / tw) else Some 0 in
  let ok := ge_thr weighted (c_thr_weighted c) in
  (ok, ratio, weighted, if ok then [] else [InsufficientConfirmation]).

(* ---------- validate_membership ---------- *)
Record result := mkRes { v_valid : bool; v_ratio : option Q; v_weighted : option Q; v_regions : N;
                         v_fail : list failure; v_bft : bool }.

Definition candidate_low (c : cfg) (cand : option Q) : bool :=
  match cand with Some t => Qltb t (c_min_trust c) | None => false end.

Definition validate_membership (c : cfg) (attack : bool) (rs : list resp) (cand : option Q) : result :=
  if (lenN rs <? c_min_peers c)%N
  then mkRes false (Some 0) (Some 0) 0 [InsufficientConfirmation] false
  else if candidate_low c cand
  then mkRes false (Some 0) (Some 0) 0 [LowTrustScore] false
  else
    let '(ok, ratio, weighted, fails) := if attack then validate_bft c rs else validate_weighted c rs in
    let regions := count_confirming_regions rs in
    let short := (regions <? c_min_regions c)%N && ok in
    mkRes (if short && attack then false else ok) ratio weighted regions
          (if short then add_failure InsufficientGeographicDiversity fails else fails) attack.

(* ---------- enforcement mode: validate (cached result) and validate_trust_only ---------- *)
(* [cached]: is_valid of the unexpired cache entry of the node, if any *)
Definition validate_cached (c : cfg) (cached : option bool) : bool :=
  match cached with
  | Some v => if negb v && negb (c_strict c) then true else v
  | None => negb (c_strict c)
  end.

Definition validate_trust_only (c : cfg) (attack : bool) (cached : option (bool * option failure))
           (trust : option Q) : bool * option failure :=
  match cached with
  | Some (v, first) => if negb v && negb (c_strict c) then (true, None) else (v, first)
  | None =>
      let thr := if attack then c_min_trust c else c_min_trust c * CG_TRUST_ONLY_FACTOR in
      let reject := if c_strict c then (false, Some LowTrustScore) else (true, None) in
      match trust with
      | Some s => if Qltb s thr then reject else (true, None)
      | None => reject
      end
  end.

(* ---------- specifications (Boolean, executable; Proofs/CloseGroup.v shows they are exact) ---------- *)
Definition gates_ok (c : cfg) (rs : list resp) (cand : option Q) : bool :=
  (c_min_peers c <=? lenN rs)%N && negb (candidate_low c cand).

(* attack mode: enough trusted answers, confirming fraction of the trusted ones >= threshold
   (cross-multiplied: no division), regions, no collusion flag *)
Definition bft_accept_spec (c : cfg) (rs : list resp) (cand : option Q) : bool :=
  let t := trusted c rs in
  gates_ok c rs cand
  && (c_min_peers c <=? lenN t)%N && (0 <? lenN t)%N
  && Qle_bool (c_thr_bft c * QofN (lenN t)) (QofN (confirmations t))
  && (c_min_regions c <=? count_confirming_regions rs)%N
  && negb (detect_collusion (map r_latency t)).

Fixpoint sumQ (l : list Q) : Q := match l with [] => 0 | x :: t => x + sumQ t end.

(* normal mode: confirming share of the (non-negative) witness weight >= threshold *)
Definition weighted_accept_spec (c : cfg) (rs : list resp) (cand : option Q) : bool :=
  let tw := sumQ (map weight_of rs) in
  let cw := sumQ (map weight_of (filter r_confirms rs)) in
  gates_ok c rs cand
  && (if Qltb 0 tw then Qle_bool (c_thr_weighted c * tw) cw else Qle_bool (c_thr_weighted c) 0).

Definition accept_spec (c : cfg) (attack : bool) (rs : list resp) (cand : option Q) : bool :=
  if attack then bft_accept_spec c rs cand else weighted_accept_spec c rs cand.

(* [rs'] is [rs] with some confirmations turned into denials, everything else equal *)
Definition flip_le (r' r : resp) : Prop :=
  r_trust r' = r_trust r /\ r_region r' = r_region r /\ r_latency r' = r_latency r
  /\ (r_confirms r' = true -> r_confirms r = true).
Definition flipped (rs' rs : list resp) : Prop := Forall2 flip_le rs' rs.

Definition deny (r : resp) : resp := mkResp false (r_trust r) (r_region r) (r_latency r).
(* turn the i-th response into a denial *)
Fixpoint flip_at (i : nat) (rs : list resp) : list resp :=
  match rs, i with
  | [], _ => []
  | r :: t, O => deny r :: t
  | r :: t, S k => r :: flip_at k t
  end.

(* response times pairwise at least [w] apart (sufficient for the collusion flag to stay down) *)
Definition apart (w a b : N) : Prop := (w <= a - b \/ w <= b - a)%N.
Definition pairwise_apart (w : N) (l : list N) : Prop := ForallOrdPairs (apart w) l.

(* the weighted decision with RAW weights (no clamp at zero), i.e. validate_trust_weighted as it was
   before the repair recorded in design/C15.md; only used to state why the clamp is needed *)
Definition raw_weight (r : resp) : Q := match r_trust r with Some t => t | None => CG_UNKNOWN_WEIGHT end.
Definition weighted_accept_raw (c : cfg) (rs : list resp) (cand : option Q) : bool :=
  let tw := sumQ (map raw_weight rs) in
  let cw := sumQ (map raw_weight (filter r_confirms rs)) in
  gates_ok c rs cand
  && (if Qltb 0 tw then Qle_bool (c_thr_weighted c * tw) cw else Qle_bool (c_thr_weighted c) 0).

(* ---------- witness counters of validator.rs (NodeValidationResult) ---------- *)
Record nv := mkNV { nv_conf : N; nv_deny : N; nv_total : N }.
Inductive nvop := RecConfirm | RecDeny | RecNoResponse.
Definition nv_new : nv := mkNV 0 0 0.
Definition nv_step (s : nv) (o : nvop) : nv :=
  match o with
  | RecConfirm => mkNV (nv_conf s + 1) (nv_deny s) (nv_total s + 1)
  | RecDeny => mkNV (nv_conf s) (nv_deny s + 1) (nv_total s + 1)
  | RecNoResponse => mkNV (nv_conf s) (nv_deny s) (nv_total s + 1)
  end.
Definition nv_run (ops : list nvop) : nv := fold_left nv_step ops nv_new.

Definition nv_is_valid (s : nv) : bool := (0 <? nv_total s)%N && (nv_total s / NV_MAJORITY_DIV <? nv_conf s)%N.
Definition nv_is_valid_bft (f : N) (s : nv) : bool := (required_confirmations f <=? nv_conf s)%N.
Definition nv_sufficient (f : N) (s : nv) : bool := (minimum_witnesses f <=? nv_total s)%N.

(* ---------- executable interface for the correspondence check ---------- *)
Definition Qabs_le (a b eps : Q) : bool := Qle_bool (a - b) eps && Qle_bool (b - a) eps.
Definition ratio_close (a b : option Q) : bool :=
  match a, b with
  | Some x, Some y => Qabs_le x y (1 # 1000000000)
  | None, None => true
  | _, _ => false
  end.
Fixpoint fails_eqb (a b : list failure) : bool :=
  match a, b with
  | [], [] => true
  | x :: a', y :: b' => failure_eqb x y && fails_eqb a' b'
  | _, _ => false
  end.
Definition ofail_eqb (a b : option failure) : bool :=
  match a, b with Some x, Some y => failure_eqb x y | None, None => true | _, _ => false end.

(* what the harness observes for one input:
   the CloseGroupValidationResult fields, then validator.validate(node) after cache_result(result),
   validate_trust_only(node, cand) after cache_result, and validate_trust_only(node, cand) on a fresh
   validator with the same configuration and mode *)
Record obs := mkObs { o_valid : bool; o_fail : list failure; o_bft : bool; o_regions : N;
                      o_ratio : option Q; o_weighted : option Q;
                      o_enforced : bool; o_to_cached : bool * option failure; o_to_fresh : bool * option failure }.

(* decimal trust value k/1000, as the harness generates them *)
Definition milli (k : Z) : Q := k # 1000.
(* exact value of a finite f64: m * 2^e *)
Definition f64q (m e : Z) : Q :=
  if (0 <=? e)%Z then inject_Z (m * 2 ^ e) else Qmake m (Z.to_pos (2 ^ (- e))).

(* compact constructors for case files (argument scopes follow the argument types) *)
Inductive traw := TNone | TM (k : Z).          (* trust: absent | thousandths *)
Inductive graw := GNone | G (g : N).           (* region: absent | id *)
Inductive fraw := FNaN | FQ (m e : Z).         (* an observed f64: NaN/inf | m * 2^e *)
Definition tq (t : traw) : option Q := match t with TNone => None | TM k => Some (milli k) end.
Definition fq (x : fraw) : option Q := match x with FNaN => None | FQ m e => Some (f64q m e) end.
Definition w (conf : bool) (t : traw) (g : graw) (lat : N) : resp :=
  mkResp conf (tq t) (match g with GNone => None | G g => Some g end) lat.
Definition O (valid : bool) (fails : list failure) (bft : bool) (regions : N) (ratio weighted : fraw)
           (enforced : bool) (toc tof : bool * option failure) : obs :=
  mkObs valid fails bft regions (fq ratio) (fq weighted) enforced toc tof.
Definition cfg_log_only : cfg :=
  mkCfg CG_MIN_PEERS CG_THR_WEIGHTED CG_THR_BFT CG_MIN_WITNESS_TRUST CG_MIN_REGIONS false.
Definition with_strict (c : cfg) (s : bool) : cfg :=
  mkCfg (c_min_peers c) (c_thr_weighted c) (c_thr_bft c) (c_min_trust c) (c_min_regions c) s.

Definition pair_eqb (a b : bool * option failure) : bool :=
  Bool.eqb (fst a) (fst b) && ofail_eqb (snd a) (snd b).

Definition case_t := (cfg * bool * list resp * traw * obs)%type.

(* model output = observed output *)
Definition check_case (x : case_t) : bool :=
  let '(c, attack, rs, cand0, o) := x in
  let cand := tq cand0 in
  let m := validate_membership c attack rs cand in
  Bool.eqb (v_valid m) (o_valid o) && fails_eqb (v_fail m) (o_fail o) && Bool.eqb (v_bft m) (o_bft o)
  && (v_regions m =? o_regions o)%N && ratio_close (v_ratio m) (o_ratio o)
  && ratio_close (v_weighted m) (o_weighted o)
  && Bool.eqb (validate_cached c (Some (v_valid m))) (o_enforced o)
  && pair_eqb (validate_trust_only c attack (Some (v_valid m, hd_error (v_fail m))) cand) (o_to_cached o)
  && pair_eqb (validate_trust_only c attack None cand) (o_to_fresh o).

(* the theorems' conclusions evaluated on the IMPLEMENTATION's verdict: accepted exactly when the
   quorum / weighted-share specification holds; an accepted result carries no hard failure reason;
   the enforcement wrapper lets a rejected node through only in LogOnly mode *)
Definition prop_case (x : case_t) : bool :=
  let '(c, attack, rs, cand0, o) := x in
  let cand := tq cand0 in
  Bool.eqb (o_valid o) (accept_spec c attack rs cand)
  && (if o_valid o
      then forallb (fun f => failure_eqb f InsufficientGeographicDiversity && negb attack) (o_fail o)
      else negb (match o_fail o with [] => true | _ => false end))
  && Bool.eqb (o_enforced o) (if c_strict c then o_valid o else true).

(* counters: ops, f, observed (conf, deny, total, is_valid, is_valid_bft f, has_sufficient_witnesses f) *)
Definition nvcase_t := (list nvop * N * (N * N * N * bool * bool * bool))%type.
Definition nv_check_case (x : nvcase_t) : bool :=
  let '(ops, f, (oc, od, ot, v, vb, sw)) := x in
  let s := nv_run ops in
  (nv_conf s =? oc)%N && (nv_deny s =? od)%N && (nv_total s =? ot)%N
  && Bool.eqb (nv_is_valid s) v && Bool.eqb (nv_is_valid_bft f s) vb && Bool.eqb (nv_sufficient f s) sw.
Definition NV (ops : list nvop) (f : N) (conf den tot : N) (v vb sw : bool) : nvcase_t :=
  (ops, f, (conf, den, tot, v, vb, sw)).
(* strict majority; >= 2f+1; >= 3f+1 on the observed numbers *)
Definition nv_prop_case (x : nvcase_t) : bool :=
  let '(ops, f, (oc, od, ot, v, vb, sw)) := x in
  Bool.eqb v (ot <? 2 * oc)%N && Bool.eqb vb (2 * f + 1 <=? oc)%N && Bool.eqb sw (3 * f + 1 <=? ot)%N
  && (oc + od <=? ot)%N && (ot =? lenN ops)%N.
