import subprocess, sys, os, glob, shutil
RW='/tmp/rw-c19'; VW='/tmp/vw-c19'
env=dict(os.environ, VERIF_REPO=RW, VERIF_TARGET_DIR='/verif/.cache/target')
def rep(path, old, new):
    p=os.path.join(RW,path); s=open(p).read()
    assert s.count(old)==1, (path, old, s.count(old))
    open(p,'w').write(s.replace(old,new))
A='src/address.rs'
MUT={
 'M1_encode_separator_underscore': [lambda: rep(A, "Ok(s) => Some(s.replace(' ', \"-\")),", "Ok(s) => Some(s.replace(' ', \"_\")),")],
 'M2_fromstr_drop_closing_paren_check': [lambda: rep(A, "            && tail.ends_with(')')\n", "")],
 'M3_bare_ip_port_65534': [lambda: rep(A, "SocketAddr::new(decoded.parse::<IpAddr>()?, 65535)", "SocketAddr::new(decoded.parse::<IpAddr>()?, 65534)")],
 'M4_display_brackets': [lambda: rep(A, 'write!(f, "{} ({})", self.socket_addr, words)', 'write!(f, "{} [{}]", self.socket_addr, words)')],
 'M5_multiaddr_parts_off_by_one': [lambda: rep(A, 'if parts.len() >= 4 && (parts[0] == "ip4"', 'if parts.len() > 4 && (parts[0] == "ip4"')],
 'M6_fromstr_cut_at_last_paren': [lambda: rep(A, 's.split_once(" (")', 's.rsplit_once(" (")')],
 'H_harmless_refactor': [
    lambda: rep(A, "let parts: Vec<&str> = s.split('/').filter(|p| !p.is_empty()).collect();", "let parts: Vec<&str> = s.split('/').filter(|p| p.len() > 0).collect();"),
    lambda: rep(A, "if let Ok(port) = parts[3].parse::<u16>() {", "if let Ok(port) = u16::from_str(parts[3]) {"),
    lambda: rep(A, "        if let Ok(addr) = Self::from_four_words(s) {\n            return Ok(addr);\n        }\n\n        Err(anyhow!(\"Invalid address format: {}\", s))", "        Self::from_four_words(s).map_err(|_| anyhow!(\"Invalid address format: {}\", s))"),
 ],
}
which=sys.argv[1:] or list(MUT)
for name in which:
    subprocess.run(['git','-C',RW,'checkout','--','.'],check=True)
    for f in MUT[name]: f()
    diff=subprocess.run(['git','-C',RW,'diff','--stat'],capture_output=True,text=True).stdout
    for f in glob.glob(VW+'/replays/C19-*.json'): os.remove(f)
    p=subprocess.run(['./check','C19','--tier','quick'],cwd=VW,env=env,capture_output=True,text=True)
    out=p.stdout+p.stderr
    open('/tmp/c19-selftest/%s.out'%name,'w').write(diff+'\n'+out)
    for r in glob.glob(VW+'/replays/C19-*.json'): shutil.copy(r,'/tmp/c19-selftest/%s.replay.json'%name)
    print(name,'exit',p.returncode,[l[:160] for l in out.splitlines() if 'VIOLATION' in l or '] OK' in l],flush=True)
    if os.environ.get('C19_TESTS'):
        t=subprocess.run('cargo test --offline --lib address:: 2>&1 | tail -4',shell=True,cwd=RW,env=dict(env,CARGO_TARGET_DIR='/verif/.cache/target'),capture_output=True,text=True)
        print(name,'tests',[l for l in t.stdout.splitlines() if 'test result' in l or 'error' in l],flush=True)
subprocess.run(['git','-C',RW,'checkout','--','.'],check=True)
