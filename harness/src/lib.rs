//! Common support for the correspondence harness: deterministic PRNG, Coq case
//! files, summaries.  Every random choice derives from one seed.
use serde_json::{json, Value};
#[cfg(feature = "hooks")]
pub mod net;
use std::collections::BTreeMap;
use std::fmt::Write as _;
use std::path::{Path, PathBuf};

#[derive(Clone)]
pub struct Rng(pub u64);
impl Rng {
    pub fn new(seed: u64) -> Self {
        let mut r = Rng(seed ^ 0x9E37_79B9_7F4A_7C15);
        r.next();
        r.next();
        r
    }
    /// splitmix64
    pub fn next(&mut self) -> u64 {
        self.0 = self.0.wrapping_add(0x9E37_79B9_7F4A_7C15);
        let mut z = self.0;
        z = (z ^ (z >> 30)).wrapping_mul(0xBF58_476D_1CE4_E5B9);
        z = (z ^ (z >> 27)).wrapping_mul(0x94D0_49BB_1331_11EB);
        z ^ (z >> 31)
    }
    pub fn below(&mut self, n: u64) -> u64 {
        if n == 0 { 0 } else { self.next() % n }
    }
    pub fn range(&mut self, lo: u64, hi_incl: u64) -> u64 {
        lo + self.below(hi_incl - lo + 1)
    }
    pub fn chance(&mut self, num: u64, den: u64) -> bool {
        self.below(den) < num
    }
    pub fn pick<'a, T>(&mut self, xs: &'a [T]) -> &'a T {
        &xs[self.below(xs.len() as u64) as usize]
    }
    pub fn bytes(&mut self, n: usize) -> Vec<u8> {
        (0..n).map(|_| self.next() as u8).collect()
    }
    pub fn fork(&mut self) -> Rng {
        Rng::new(self.next())
    }
    pub fn shuffle<T>(&mut self, xs: &mut [T]) {
        for i in (1..xs.len()).rev() {
            let j = self.below(i as u64 + 1) as usize;
            xs.swap(i, j);
        }
    }
}

pub struct Args {
    pub tier: String,
    pub seed: u64,
    pub out: PathBuf,
    pub replay: Option<PathBuf>,
    pub extra: BTreeMap<String, String>,
}
impl Args {
    pub fn parse() -> Args {
        let mut a = Args { tier: "quick".into(), seed: 1, out: PathBuf::from("."), replay: None, extra: BTreeMap::new() };
        let v: Vec<String> = std::env::args().skip(1).collect();
        let mut i = 0;
        while i < v.len() {
            let k = v[i].clone();
            let val = v.get(i + 1).cloned().unwrap_or_default();
            match k.as_str() {
                "--tier" => a.tier = val,
                "--seed" => a.seed = val.parse().unwrap_or(1),
                "--out" => a.out = PathBuf::from(val),
                "--replay" => a.replay = Some(PathBuf::from(val)),
                _ => { a.extra.insert(k.trim_start_matches("--").to_string(), val); }
            }
            i += 2;
        }
        std::fs::create_dir_all(&a.out).ok();
        a
    }
    pub fn thorough(&self) -> bool { self.tier == "thorough" }
}

/// big-endian bytes as a Coq N literal (decimal)
pub fn n_of_be(bytes: &[u8]) -> String {
    // simple base-256 -> decimal conversion
    let mut digits: Vec<u8> = vec![0];
    for &b in bytes {
        let mut carry = b as u32;
        for d in digits.iter_mut() {
            let v = (*d as u32) * 256 + carry;
            *d = (v % 10) as u8;
            carry = v / 10;
        }
        while carry > 0 {
            digits.push((carry % 10) as u8);
            carry /= 10;
        }
    }
    digits.iter().rev().map(|d| (b'0' + d) as char).collect()
}

pub fn coq_list<I: IntoIterator<Item = String>>(xs: I) -> String {
    let v: Vec<String> = xs.into_iter().collect();
    format!("[{}]", v.join("; "))
}
pub fn coq_bool(b: bool) -> &'static str { if b { "true" } else { "false" } }
pub fn coq_opt(x: Option<String>) -> String {
    match x { Some(s) => format!("(Some {})", s), None => "None".into() }
}
/// Coq list of bytes as N values
pub fn coq_bytes(b: &[u8]) -> String {
    coq_list(b.iter().map(|x| x.to_string()))
}

/// Writes sharded Coq case files.  Each case is a Coq term of the type the
/// header's `check`/`prop` functions expect; the file prints two lists of ids:
/// (model/implementation disagreements, property-predicate failures on the
/// implementation's own outputs).
pub struct CaseWriter {
    out: PathBuf,
    prefix: String,
    header: String,
    case_ty: String,
    check_fn: String,
    prop_fn: String,
    per_shard: usize,
    cur: Vec<(u64, String)>,
    shard: usize,
    pub total: u64,
}
impl CaseWriter {
    /// `header`: Coq imports/definitions.  `case_ty`: Coq type of one case.
    /// `check_fn`, `prop_fn`: Coq functions `case_ty -> bool`.
    pub fn new(out: &Path, prefix: &str, header: &str, case_ty: &str, check_fn: &str, prop_fn: &str, per_shard: usize) -> Self {
        CaseWriter { out: out.to_path_buf(), prefix: prefix.into(), header: header.into(), case_ty: case_ty.into(),
            check_fn: check_fn.into(), prop_fn: prop_fn.into(), per_shard, cur: vec![], shard: 0, total: 0 }
    }
    pub fn push(&mut self, id: u64, term: String) {
        self.cur.push((id, term));
        self.total += 1;
        if self.cur.len() >= self.per_shard { self.flush(); }
    }
    pub fn flush(&mut self) {
        if self.cur.is_empty() { return; }
        let mut s = String::new();
        let _ = writeln!(s, "{}", self.header);
        let _ = writeln!(s, "Definition cases : list (N * ({})) := [", self.case_ty);
        for (i, (id, t)) in self.cur.iter().enumerate() {
            let _ = writeln!(s, " ({}%N, {}){}", id, t, if i + 1 < self.cur.len() { ";" } else { "" });
        }
        let _ = writeln!(s, "].");
        let _ = writeln!(s, "Eval vm_compute in (map fst (filter (fun c => negb ({} (snd c))) cases), map fst (filter (fun c => negb ({} (snd c))) cases)).", self.check_fn, self.prop_fn);
        let path = self.out.join(format!("{}_{:03}.v", self.prefix, self.shard));
        std::fs::write(path, s).expect("write cases");
        self.shard += 1;
        self.cur.clear();
    }
}

/// Summary written next to the case files; the runner folds it into evidence.
#[derive(Default)]
pub struct Summary {
    pub evaluations: u64,
    pub distinct_nontrivial: u64,
    pub rule: String,
    pub distribution: BTreeMap<String, u64>,
    pub samples: Vec<Value>,
    pub direct_violations: Vec<Value>,
    pub discarded_ambiguous: u64,
    pub cases: BTreeMap<String, Value>,
    pub notes: Vec<String>,
}
impl Summary {
    pub fn count(&mut self, k: &str) { *self.distribution.entry(k.to_string()).or_insert(0) += 1; }
    pub fn add(&mut self, k: &str, n: u64) { *self.distribution.entry(k.to_string()).or_insert(0) += n; }
    pub fn case(&mut self, id: u64, v: Value) {
        if self.samples.len() < 3 { self.samples.push(v.clone()); }
        self.cases.insert(id.to_string(), v);
    }
    pub fn violation(&mut self, id: u64, what: &str, tags: &[&str], detail: Value) {
        self.direct_violations.push(json!({"case": id, "what": what, "tags": tags, "detail": detail}));
    }
    pub fn write(&self, out: &Path) {
        let v = json!({
            "evaluations": self.evaluations, "distinct_nontrivial": self.distinct_nontrivial, "rule": self.rule,
            "distribution": self.distribution, "samples": self.samples, "direct_violations": self.direct_violations,
            "discarded_ambiguous": self.discarded_ambiguous, "notes": self.notes,
        });
        std::fs::write(out.join("summary.json"), serde_json::to_string_pretty(&v).unwrap()).expect("write summary");
        std::fs::write(out.join("cases.json"), serde_json::to_string(&self.cases).unwrap()).expect("write cases.json");
    }
}

pub fn now_secs() -> u64 {
    std::time::SystemTime::now().duration_since(std::time::UNIX_EPOCH).map(|d| d.as_secs()).unwrap_or(0)
}

/// Install a TRACE-level subscriber writing to a sink so that log-argument
/// expressions in the library are evaluated (they are part of the glue).
pub fn install_trace_sink() {
    use tracing_subscriber::fmt::MakeWriter;
    // debugging aid: VERIF_TRACE_FILE=<path> writes the library's DEBUG log there instead of discarding it
    if let Ok(p) = std::env::var("VERIF_TRACE_FILE") {
        if let Ok(f) = std::fs::File::create(&p) {
            let _ = tracing_subscriber::fmt().with_max_level(tracing::Level::DEBUG).with_ansi(false).with_writer(std::sync::Mutex::new(f)).try_init();
            return;
        }
    }
    struct Sink;
    impl std::io::Write for Sink {
        fn write(&mut self, b: &[u8]) -> std::io::Result<usize> { Ok(b.len()) }
        fn flush(&mut self) -> std::io::Result<()> { Ok(()) }
    }
    struct Mk;
    impl<'a> MakeWriter<'a> for Mk { type Writer = Sink; fn make_writer(&'a self) -> Sink { Sink } }
    let _ = tracing_subscriber::fmt().with_max_level(tracing::Level::TRACE).with_writer(Mk).try_init();
}
