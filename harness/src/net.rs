//! In-memory network for the network-level properties (C01, C03, C04, C20, and the
//! manager-level part of C02/C05).  Real `DhtNetworkManager`s on real
//! `TransportHandle`s, with the QUIC socket replaced by `SimNet` through the
//! `verif-hooks` router; scripted peers answer from tables.  Every frame that
//! crosses the "wire" is produced and consumed by the unmodified framing,
//! dispatcher and DHT handler code.
use saorsa_core::dht::DHTConfig;
use saorsa_core::dht_network_manager::*;
use saorsa_core::network::NodeConfig;
use saorsa_core::transport_handle::{TransportConfig, TransportHandle};
use saorsa_core::verif_hooks::VerifRouter;
use serde::{Deserialize, Serialize};
use std::collections::HashMap;
use std::net::SocketAddr;
use std::sync::atomic::{AtomicBool, AtomicU64, Ordering};
use std::sync::{Arc, Mutex};
use std::time::{Duration, Instant};

/// Same field order and types as the crate-private `network::WireMessage`.
#[derive(Debug, Clone, Serialize, Deserialize)]
pub struct Wire {
    pub protocol: String,
    pub data: Vec<u8>,
    pub from: String,
    pub timestamp: u64,
}

pub const DHT_PROTO: &str = "/dht/1.0.0";

/// Same field order and types as the crate-private `network::RequestResponseEnvelope`.
#[derive(Debug, Clone, Serialize, Deserialize)]
pub struct RrEnvelope {
    pub message_id: String,
    pub is_response: bool,
    pub payload: Vec<u8>,
}

#[derive(Clone, Debug)]
pub enum Reply {
    /// never answers
    Silent,
    /// the send itself fails
    SendError,
    /// answers with this result
    Result(DhtNetworkResult),
    /// answers after a delay (ms)
    Delayed(u64, DhtNetworkResult),
}

pub type Behaviour = Arc<dyn Fn(&str, &DhtNetworkMessage) -> Reply + Send + Sync>;

pub struct Scripted {
    pub addr: String,
    pub behaviour: Behaviour,
}

pub struct RealNode {
    pub transport: Arc<TransportHandle>,
    pub addr: SocketAddr,
    pub silent: AtomicBool,
}

#[derive(Clone, Debug)]
pub struct TraceEv {
    pub at_ms: u64,
    pub from: String,
    pub to: String,
    pub is_request: bool,
    pub op: String,
    pub msg_id: String,
    pub delivered: bool,
    /// for Response frames: the result variant and, for NodesFound, the ids named
    pub result: Option<String>,
    pub nodes: Vec<String>,
}

pub struct SimNet {
    pub real: Mutex<HashMap<String, Arc<RealNode>>>,
    pub scripted: Mutex<HashMap<String, Arc<Scripted>>>,
    pub by_addr: Mutex<HashMap<String, String>>,
    pub trace: Mutex<Vec<TraceEv>>,
    pub t0: Instant,
    /// seeded delivery delay in microseconds (0 = none): delay = splitmix(counter ^ seed) % max
    pub delay_seed: AtomicU64,
    pub delay_max_us: AtomicU64,
    pub counter: AtomicU64,
    /// refuse every dial (used to make unknown peers unreachable)
    pub refuse_unknown_dials: AtomicBool,
    /// message ids of /rr/ request envelopes that reached the wire, in order
    pub rr_ids: Mutex<Vec<String>>,
    /// destinations whose sends stall for the given number of ms before the router accepts them
    pub stall: Mutex<HashMap<String, u64>>,
    /// a dial to a silent node never completes (a dead address: only the caller's timeout ends it) instead of failing at once
    pub hang_silent_dials: AtomicBool,
}

pub fn op_name(op: &DhtNetworkOperation) -> String {
    match op {
        DhtNetworkOperation::Put { key, value } => format!("Put:{}:{}", hex::encode(&key[..4]), value.len()),
        DhtNetworkOperation::Get { key } => format!("Get:{}", hex::encode(&key[..4])),
        DhtNetworkOperation::FindNode { key } => format!("FindNode:{}", hex::encode(&key[..4])),
        DhtNetworkOperation::FindValue { key } => format!("FindValue:{}", hex::encode(&key[..4])),
        DhtNetworkOperation::Ping => "Ping".into(),
        DhtNetworkOperation::Join => "Join".into(),
        DhtNetworkOperation::Leave => "Leave".into(),
    }
}

fn splitmix(mut z: u64) -> u64 {
    z = z.wrapping_add(0x9E37_79B9_7F4A_7C15);
    z = (z ^ (z >> 30)).wrapping_mul(0xBF58_476D_1CE4_E5B9);
    z = (z ^ (z >> 27)).wrapping_mul(0x94D0_49BB_1331_11EB);
    z ^ (z >> 31)
}

impl SimNet {
    pub fn new() -> Arc<SimNet> {
        Arc::new(SimNet {
            real: Mutex::new(HashMap::new()),
            scripted: Mutex::new(HashMap::new()),
            by_addr: Mutex::new(HashMap::new()),
            trace: Mutex::new(vec![]),
            t0: Instant::now(),
            delay_seed: AtomicU64::new(0),
            delay_max_us: AtomicU64::new(0),
            counter: AtomicU64::new(0),
            refuse_unknown_dials: AtomicBool::new(false),
            rr_ids: Mutex::new(vec![]),
            stall: Mutex::new(HashMap::new()),
            hang_silent_dials: AtomicBool::new(false),
        })
    }
    pub fn add_scripted(&self, id: &str, addr: &str, behaviour: Behaviour) {
        self.scripted.lock().unwrap().insert(id.to_string(), Arc::new(Scripted { addr: addr.to_string(), behaviour }));
        self.by_addr.lock().unwrap().insert(addr.to_string(), id.to_string());
    }
    pub fn set_delays(&self, seed: u64, max_us: u64) {
        self.delay_seed.store(seed, Ordering::SeqCst);
        self.delay_max_us.store(max_us, Ordering::SeqCst);
    }
    fn next_delay(&self) -> Duration {
        let max = self.delay_max_us.load(Ordering::SeqCst);
        if max == 0 { return Duration::ZERO; }
        let c = self.counter.fetch_add(1, Ordering::SeqCst);
        Duration::from_micros(splitmix(c ^ self.delay_seed.load(Ordering::SeqCst)) % max)
    }
    pub fn take_trace(&self) -> Vec<TraceEv> {
        std::mem::take(&mut *self.trace.lock().unwrap())
    }
    pub fn trace_snapshot(&self) -> Vec<TraceEv> {
        self.trace.lock().unwrap().clone()
    }
    pub fn set_silent(&self, tid: &str, silent: bool) {
        if let Some(n) = self.real.lock().unwrap().get(tid) { n.silent.store(silent, Ordering::SeqCst); }
    }
    pub fn now_ms(&self) -> u64 { self.t0.elapsed().as_millis() as u64 }

    /// frame a DHT message the way TransportHandle::create_protocol_message does
    pub fn frame(from: &str, msg: &DhtNetworkMessage) -> Vec<u8> {
        let data = postcard::to_stdvec(msg).unwrap();
        postcard::to_stdvec(&Wire { protocol: DHT_PROTO.into(), data, from: from.into(), timestamp: crate::now_secs() }).unwrap()
    }
    pub fn response_for(req: &DhtNetworkMessage, responder: &str, result: DhtNetworkResult) -> DhtNetworkMessage {
        DhtNetworkMessage {
            message_id: req.message_id.clone(),
            source: responder.to_string(),
            target: Some(req.source.clone()),
            message_type: DhtMessageType::Response,
            payload: req.payload.clone(),
            result: Some(result),
            timestamp: crate::now_secs(),
            ttl: req.ttl.saturating_sub(1),
            hop_count: req.hop_count.saturating_add(1),
        }
    }
}

fn transport_err(msg: String) -> saorsa_core::P2PError {
    saorsa_core::P2PError::Transport(saorsa_core::error::TransportError::StreamError(msg.into()))
}

#[async_trait::async_trait]
impl VerifRouter for SimNet {
    async fn route(&self, from: &str, to: &str, frame: Vec<u8>) -> saorsa_core::Result<()> {
        let wire: Option<Wire> = postcard::from_bytes(&frame).ok();
        let dht: Option<DhtNetworkMessage> = wire.as_ref().filter(|w| w.protocol == DHT_PROTO).and_then(|w| postcard::from_bytes(&w.data).ok());
        let (is_request, op, msg_id) = match &dht {
            Some(m) => (matches!(m.message_type, DhtMessageType::Request), op_name(&m.payload), m.message_id.clone()),
            None => {
                let rr: Option<RrEnvelope> = wire.as_ref().filter(|w| w.protocol.starts_with("/rr/")).and_then(|w| postcard::from_bytes(&w.data).ok());
                match rr {
                    Some(env) => {
                        if !env.is_response { self.rr_ids.lock().unwrap().push(env.message_id.clone()); }
                        (!env.is_response, wire.as_ref().map(|w| w.protocol.clone()).unwrap_or_default(), env.message_id)
                    }
                    None => (false, wire.as_ref().map(|w| w.protocol.clone()).unwrap_or_default(), String::new()),
                }
            }
        };
        let (result, nodes) = match dht.as_ref().and_then(|m| m.result.as_ref()) {
            Some(DhtNetworkResult::NodesFound { nodes, .. }) => (Some("NodesFound".to_string()), nodes.iter().map(|n| n.peer_id.clone()).collect()),
            Some(DhtNetworkResult::ValueFound { .. }) => (Some("ValueFound".to_string()), vec![]),
            Some(DhtNetworkResult::GetSuccess { .. }) => (Some("GetSuccess".to_string()), vec![]),
            Some(DhtNetworkResult::GetNotFound { .. }) => (Some("GetNotFound".to_string()), vec![]),
            Some(DhtNetworkResult::PutSuccess { .. }) => (Some("PutSuccess".to_string()), vec![]),
            Some(_) => (Some("Other".to_string()), vec![]),
            None => (None, vec![]),
        };
        let mut ev = TraceEv { at_ms: self.now_ms(), from: from.into(), to: to.into(), is_request, op, msg_id, delivered: false, result, nodes };
        let stall_ms = self.stall.lock().unwrap().get(to).copied().unwrap_or(0);
        if stall_ms > 0 { tokio::time::sleep(Duration::from_millis(stall_ms)).await; }
        // real destination
        let real = self.real.lock().unwrap().get(to).cloned();
        if let Some(node) = real {
            if node.silent.load(Ordering::SeqCst) {
                self.trace.lock().unwrap().push(ev);
                return Ok(());
            }
            ev.delivered = true;
            self.trace.lock().unwrap().push(ev);
            let delay = self.next_delay();
            let from = from.to_string();
            tokio::spawn(async move {
                if !delay.is_zero() { tokio::time::sleep(delay).await; }
                node.transport.verif_inject_frame(&from, frame).await;
            });
            return Ok(());
        }
        let scripted = self.scripted.lock().unwrap().get(to).cloned();
        if let Some(sp) = scripted {
            let Some(req) = dht else {
                self.trace.lock().unwrap().push(ev);
                return Ok(());
            };
            if !is_request {
                self.trace.lock().unwrap().push(ev);
                return Ok(());
            }
            let reply = (sp.behaviour)(to, &req);
            match reply {
                Reply::SendError => {
                    self.trace.lock().unwrap().push(ev);
                    return Err(transport_err(format!("scripted send error to {to}")));
                }
                Reply::Silent => {
                    self.trace.lock().unwrap().push(ev);
                    return Ok(());
                }
                Reply::Result(_) | Reply::Delayed(..) => {
                    let (extra, r) = match reply {
                        Reply::Delayed(ms, r) => (Duration::from_millis(ms), r),
                        Reply::Result(r) => (Duration::ZERO, r),
                        _ => (Duration::ZERO, DhtNetworkResult::LeaveSuccess),
                    };
                    ev.delivered = true;
                    self.trace.lock().unwrap().push(ev);
                    let delay = self.next_delay() + extra;
                    let back = self.real.lock().unwrap().get(from).cloned();
                    let to = to.to_string();
                    if let Some(node) = back {
                        let resp = SimNet::response_for(&req, &to, r);
                        let bytes = SimNet::frame(&to, &resp);
                        tokio::spawn(async move {
                            if !delay.is_zero() { tokio::time::sleep(delay).await; }
                            node.transport.verif_inject_frame(&to, bytes).await;
                        });
                    }
                    return Ok(());
                }
            }
        }
        self.trace.lock().unwrap().push(ev);
        Err(transport_err(format!("no route to {to}")))
    }

    async fn connect(&self, from: &str, address: &str) -> saorsa_core::Result<String> {
        let id = self.by_addr.lock().unwrap().get(address).cloned();
        let target = id.as_ref().and_then(|i| self.real.lock().unwrap().get(i).cloned());
        let silent = target.as_ref().map(|n| n.silent.load(Ordering::SeqCst)).unwrap_or(false);
        let ok = id.is_some() && !silent;
        self.trace.lock().unwrap().push(TraceEv { at_ms: self.now_ms(), from: from.into(), to: address.into(), is_request: false,
            op: format!("Dial:{}", if ok { "ok" } else { "refused" }), msg_id: String::new(), delivered: ok, result: None, nodes: vec![] });
        let Some(id) = id else {
            return Err(transport_err(format!("connection refused: {address}")));
        };
        if silent {
            if self.hang_silent_dials.load(Ordering::SeqCst) {
                // the guard records how long the caller kept waiting (its timeout drops this future)
                struct DialGuard<'a> { net: &'a SimNet, from: String, to: String, t0: Instant }
                impl<'a> Drop for DialGuard<'a> {
                    fn drop(&mut self) {
                        let ms = self.t0.elapsed().as_millis() as u64;
                        self.net.trace.lock().unwrap().push(TraceEv { at_ms: self.net.now_ms(), from: self.from.clone(), to: self.to.clone(), is_request: false,
                            op: "DialEnd".into(), msg_id: ms.to_string(), delivered: false, result: None, nodes: vec![] });
                    }
                }
                let _g = DialGuard { net: self, from: from.to_string(), to: address.to_string(), t0: Instant::now() };
                tokio::time::sleep(Duration::from_secs(3600)).await;
            }
            return Err(transport_err(format!("connection timed out: {address}")));
        }
        if let Some(node) = target {
            let from_addr = self.real.lock().unwrap().get(from).map(|n| n.addr);
            if let Some(a) = from_addr {
                node.transport.verif_register_incoming(from, a).await;
            }
        }
        Ok(id)
    }
}

pub struct Node {
    pub tid: String,
    pub addr: SocketAddr,
    pub transport: Arc<TransportHandle>,
    pub manager: Arc<DhtNetworkManager>,
}

/// Create and start a real node attached to the simulated network.  `virt_addr` is the
/// address other nodes dial (purely virtual: the router resolves it).
pub async fn spawn_node(net: &Arc<SimNet>, name: &str, virt_addr: SocketAddr, request_timeout: Duration, k: usize)
    -> anyhow::Result<Node> {
    spawn_node_ct(net, name, virt_addr, request_timeout, request_timeout, k).await
}

/// as `spawn_node`, with a transport connection timeout different from the DHT request timeout
pub async fn spawn_node_ct(net: &Arc<SimNet>, name: &str, virt_addr: SocketAddr, request_timeout: Duration, connection_timeout: Duration, k: usize)
    -> anyhow::Result<Node> {
    spawn_node_opts(net, name, virt_addr, request_timeout, connection_timeout, k, false).await
}

/// `aligned`: configure the transport peer id as `DhtNetworkConfig::local_peer_id` (the identifier a node claims in
/// its requests then equals the one its peers name it by)
pub async fn spawn_node_opts(net: &Arc<SimNet>, name: &str, virt_addr: SocketAddr, request_timeout: Duration, connection_timeout: Duration, k: usize, aligned: bool)
    -> anyhow::Result<Node> {
    let node_config = NodeConfig::builder().peer_id(name.to_string()).listen_port(0).ipv6(false).build()?;
    let transport = Arc::new(TransportHandle::new(TransportConfig {
        peer_id: name.to_string(),
        listen_addr: node_config.listen_addr,
        enable_ipv6: false,
        connection_timeout,
        stale_peer_threshold: Duration::from_secs(3600),
        max_connections: node_config.max_connections,
        production_config: None,
        event_channel_capacity: 4096,
    }).await?);
    let router: Arc<dyn VerifRouter> = net.clone();
    transport.verif_set_router(Some(router));
    transport.start_network_listeners().await?;
    let tid = transport.transport_peer_id().unwrap_or_else(|| name.to_string());
    let config = DhtNetworkConfig {
        local_peer_id: if aligned { tid.clone() } else { name.to_string() },
        dht_config: DHTConfig::default(),
        node_config,
        request_timeout,
        max_concurrent_operations: 64,
        replication_factor: k,
        enable_security: false,
    };
    let manager = Arc::new(DhtNetworkManager::new(transport.clone(), None, config).await?);
    manager.start().await?;
    net.real.lock().unwrap().insert(tid.clone(), Arc::new(RealNode { transport: transport.clone(), addr: virt_addr, silent: AtomicBool::new(false) }));
    net.by_addr.lock().unwrap().insert(virt_addr.to_string(), tid.clone());
    Ok(Node { tid, addr: virt_addr, transport, manager })
}

/// blake3(peer id string): the DHT key the library derives for a transport peer id
pub fn dht_key_of(peer_id: &str) -> [u8; 32] {
    *blake3::hash(peer_id.as_bytes()).as_bytes()
}

/// A 64-hex transport id whose DHT key has `prefix_bits` leading bits equal to those of `want`
pub fn craft_id(rng: &mut crate::Rng, want: &[u8; 32], prefix_bits: u32) -> String {
    loop {
        let id = hex::encode(rng.bytes(32));
        if prefix_bits == 0 { return id; }
        let k = dht_key_of(&id);
        let mut ok = true;
        for b in 0..prefix_bits {
            let (i, s) = ((b / 8) as usize, 7 - (b % 8));
            if (k[i] >> s) & 1 != (want[i] >> s) & 1 { ok = false; break; }
        }
        if ok { return id; }
    }
}

pub async fn wait_until<F, Fut>(mut f: F, timeout: Duration) -> bool
where F: FnMut() -> Fut, Fut: std::future::Future<Output = bool> {
    let t0 = Instant::now();
    loop {
        if f().await { return true; }
        if t0.elapsed() > timeout { return false; }
        tokio::time::sleep(Duration::from_millis(2)).await;
    }
}
