//! C14 correspondence: real rate_limit::Engine / JoinRateLimiter / validation::RateLimiter
//! (real clock, no hooks) vs Model/RateLimit.v.
//!
//! Regimes:
//!  * "frozen clock": a whole case is issued back to back and timed with Instant.  If
//!    max * elapsed < window for every bucket in play (less than one token can have been
//!    earned; theorem frozen_clock_exact) every decision must equal the model's with the
//!    clock standing still.  Otherwise the case is discarded and counted.
//!  * "refill": one key, phases separated by real sleeps; the model is run on the shortest and
//!    on the longest timeline compatible with the measured brackets.
//!  * "concurrent": threads hammer one limiter; the admitted counts must respect the proven
//!    bounds with the measured upper bound on the duration.
use saorsa_core::rate_limit::*;
use saorsa_core::validation::{RateLimitConfig, RateLimiter};
use serde_json::{json, Value};
use std::net::{IpAddr, Ipv4Addr, Ipv6Addr};
use std::sync::Arc;
use std::time::{Duration, Instant};
use vh::*;

const HEADER: &str = "From SV Require Import Lib.Base Model.RateLimit.\nLocal Open Scope N_scope.";
const NS: u128 = 1_000_000_000;
// used only to decide which cases are unambiguous; the model takes its windows from the source
const JOIN_MIN_WINDOW_NS: u128 = 60 * NS;

#[derive(Clone, Copy, Debug)]
struct Cfg { window_ns: u128, max: u32, burst: u32 }
impl Cfg {
    fn coq(&self) -> String { format!("(mkCfg {} {} {})", self.window_ns, self.max, self.burst) }
    fn json(&self) -> Value { json!({"window_ns": self.window_ns.to_string(), "max": self.max, "burst": self.burst}) }
    fn engine_cfg(&self) -> EngineConfig {
        EngineConfig { window: Duration::from_nanos(self.window_ns as u64), max_requests: self.max, burst_size: self.burst }
    }
    fn cap(&self) -> u32 { self.max.min(self.burst) }
}

fn pick_cfg(rng: &mut Rng) -> Cfg {
    let window_ns = *rng.pick(&[3600 * NS, 600 * NS, 86_400 * NS]);
    let max = *rng.pick(&[0u32, 1, 1, 2, 3, 3, 5, 8]);
    let burst = match rng.below(8) {
        0 => 0, 1 => max.saturating_sub(1), 2 | 3 => max, 4 => max + 1, 5 => 1, 6 => 2 * max + 1, _ => rng.range(0, 9) as u32,
    };
    Cfg { window_ns, max, burst }
}

/// attempts around a cap: cap-1 / cap / cap+1 (and now and then far above)
fn around(rng: &mut Rng, cap: u32) -> usize {
    match rng.below(6) { 0 => cap.saturating_sub(1) as usize, 1 | 2 => cap as usize, 3 | 4 => cap as usize + 1, _ => cap as usize + 2 + rng.below(4) as usize }
}

#[derive(Clone, Copy, Debug, PartialEq, Eq, Hash, PartialOrd, Ord)]
enum Addr { V4(u32), V6(u128) }
impl Addr {
    fn ip(&self) -> IpAddr {
        match self { Addr::V4(x) => IpAddr::V4(Ipv4Addr::from(*x)), Addr::V6(x) => IpAddr::V6(Ipv6Addr::from(*x)) }
    }
    fn coq(&self) -> String { match self { Addr::V4(x) => format!("(V4 {})", x), Addr::V6(x) => format!("(V6 {})", x) } }
    fn key(&self) -> String { match self { Addr::V4(x) => format!("{}", 2 * (*x as u128)), Addr::V6(x) => {
        // 2*x+1 may exceed u128: print via bytes
        let mut b = [0u8; 17]; b[1..].copy_from_slice(&x.to_be_bytes());
        // multiply by 2 and add 1
        let mut carry = 1u16; for i in (0..17).rev() { let v = (b[i] as u16) * 2 + carry; b[i] = v as u8; carry = v >> 8; }
        n_of_be(&b) } } }
    fn p64(&self) -> Option<u128> { if let Addr::V6(x) = self { Some(x >> 64 << 64) } else { None } }
    fn p48(&self) -> Option<u128> { if let Addr::V6(x) = self { Some(x >> 80 << 80) } else { None } }
    fn p24(&self) -> Option<u32> { if let Addr::V4(x) = self { Some(x >> 8 << 8) } else { None } }
}

struct Pool { p48: Vec<u64>, sub: Vec<u16>, host: Vec<u64>, net24: Vec<u32>, h4: Vec<u8> }
fn pool(rng: &mut Rng) -> Pool {
    let a = rng.next() & 0xFFFF_FFFF_FFFF;
    let s = rng.next() as u16;
    let h = rng.next();
    let n = (rng.next() as u32) & 0xFFFF_FF00;
    let d = rng.next() as u8;
    Pool {
        // bit 80 (lowest bit of the /48) and the top bit differ
        p48: vec![a, a ^ 1, a ^ (1 << 47)],
        // bit 64 (lowest bit of the /64), bit 79 (highest bit below the /48)
        sub: vec![s, s ^ 1, s ^ 0x8000, s.wrapping_add(2), s.wrapping_add(4), s.wrapping_add(6), s.wrapping_add(8)],
        // bit 63 is the highest host bit: same /64
        host: vec![h, h ^ (1 << 63), 0, u64::MAX, 1, h.wrapping_add(1), h.wrapping_add(2), h.wrapping_add(3)],
        // bit 8 is the lowest bit of the /24
        net24: vec![n, n ^ 0x100, n ^ 0x8000_0000],
        // bit 7 is the highest host bit
        h4: vec![d, d ^ 0x80, 0, 255, d.wrapping_add(1), d.wrapping_add(2), d.wrapping_add(3), d.wrapping_add(4)],
    }
}
fn v6(p48: u64, sub: u16, host: u64) -> Addr { Addr::V6(((p48 as u128) << 80) | ((sub as u128) << 64) | host as u128) }
fn v4(net: u32, h: u8) -> Addr { Addr::V4(net | h as u32) }
fn mapped(x: u32) -> Addr { Addr::V6((0xFFFFu128 << 32) | x as u128) }

#[derive(Clone, Copy, Debug)]
struct JCfg { p64: u32, p48: u32, p24: u32, gmax: u32, gburst: u32 }
impl JCfg {
    fn coq(&self) -> String { format!("(mkJ {} {} {} {} {})", self.p64, self.p48, self.p24, self.gmax, self.gburst) }
    fn json(&self) -> Value { json!({"per64": self.p64, "per48": self.p48, "per24": self.p24, "global_per_min": self.gmax, "global_burst": self.gburst}) }
    fn real(&self) -> JoinRateLimiterConfig {
        JoinRateLimiterConfig { max_joins_per_64_per_hour: self.p64, max_joins_per_48_per_hour: self.p48,
            max_joins_per_24_per_hour: self.p24, max_global_joins_per_minute: self.gmax, global_burst_size: self.gburst }
    }
    fn maxmax(&self) -> u32 { self.p64.max(self.p48).max(self.p24).max(self.gmax) }
}
fn default_jcfg() -> JCfg {
    let d = JoinRateLimiterConfig::default();
    JCfg { p64: d.max_joins_per_64_per_hour, p48: d.max_joins_per_48_per_hour, p24: d.max_joins_per_24_per_hour,
        gmax: d.max_global_joins_per_minute, gburst: d.global_burst_size }
}
fn pick_jcfg(rng: &mut Rng) -> JCfg {
    if rng.chance(1, 3) { return default_jcfg(); }
    JCfg { p64: *rng.pick(&[0u32, 1, 1, 2, 3]), p48: *rng.pick(&[0u32, 1, 2, 5, 5, 6]), p24: *rng.pick(&[0u32, 1, 3, 3, 4]),
        gmax: *rng.pick(&[0u32, 1, 5, 100, 100, 600]), gburst: *rng.pick(&[0u32, 1, 2, 10, 10, 50]) }
}

#[derive(Clone, Copy, Debug, PartialEq, Eq)]
enum JR { Ok, Global, S64, S48, S24 }
impl JR {
    fn coq(&self) -> &'static str { match self { JR::Ok => "JOk", JR::Global => "JGlobal", JR::S64 => "J64", JR::S48 => "J48", JR::S24 => "J24" } }
}
fn jconv(r: &Result<(), JoinRateLimitError>) -> JR {
    match r {
        Ok(()) => JR::Ok,
        Err(JoinRateLimitError::GlobalLimitExceeded { .. }) => JR::Global,
        Err(JoinRateLimitError::Subnet64LimitExceeded { .. }) => JR::S64,
        Err(JoinRateLimitError::Subnet48LimitExceeded { .. }) => JR::S48,
        Err(JoinRateLimitError::Subnet24LimitExceeded { .. }) => JR::S24,
    }
}

fn join_scenario(rng: &mut Rng, jc: &JCfg) -> (Vec<Addr>, &'static str) {
    let p = pool(rng);
    let mut v = vec![];
    let kind;
    match rng.below(8) {
        0 | 1 => { // one /64: cap-1 / cap / cap+1 distinct hosts, then the sibling /64s and another /48
            kind = "same64";
            let n = around(rng, jc.p64).min(p.host.len());
            for i in 0..n { v.push(v6(p.p48[0], p.sub[0], p.host[i])); }
            v.push(v6(p.p48[0], p.sub[1], p.host[0]));
            v.push(v6(p.p48[0], p.sub[2], p.host[0]));
            v.push(v6(p.p48[1], p.sub[0], p.host[0]));
        }
        2 | 3 => { // one /48 through distinct /64s
            kind = "same48";
            let n = around(rng, jc.p48).min(p.sub.len());
            for i in 0..n { v.push(v6(p.p48[0], p.sub[i], p.host[rng.below(3) as usize])); }
            v.push(v6(p.p48[1], p.sub[0], p.host[0]));
            v.push(v6(p.p48[2], p.sub[0], p.host[0]));
        }
        4 => { // one /24
            kind = "same24";
            let n = around(rng, jc.p24).min(p.h4.len());
            for i in 0..n { v.push(v4(p.net24[0], p.h4[i])); }
            v.push(v4(p.net24[1], p.h4[0]));
            v.push(v4(p.net24[2], p.h4[0]));
        }
        5 => { // the global burst: every attempt from its own /48 or /24
            kind = "global";
            let n = around(rng, jc.gburst.min(jc.gmax)).min(60);
            for i in 0..n {
                if rng.chance(1, 2) { v.push(v6((rng.next() & 0xFFFF_FFFF_FFFF) ^ i as u64, 0, 1)); }
                else { v.push(v4(((rng.next() as u32) & 0xFFFF_0000) | ((i as u32) << 8), 1)); }
            }
        }
        6 => { // IPv4-mapped IPv6 addresses are IPv6 to the limiter: they all share ::/64
            kind = "v4mapped";
            let n = around(rng, jc.p64.max(jc.p24)).min(p.h4.len());
            for i in 0..n { v.push(mapped(p.net24[0] | p.h4[i] as u32)); }
            v.push(mapped(p.net24[1] | 1));
            v.push(v4(p.net24[0], p.h4[0]));
        }
        _ => { kind = "mix"; }
    }
    // noise from the pool, then (often) a shuffle
    let noise = if kind == "mix" { rng.range(4, 30) } else { rng.below(6) } as usize;
    for _ in 0..noise {
        let a = match rng.below(3) {
            0 => v4(*rng.pick(&p.net24), *rng.pick(&p.h4)),
            _ => v6(*rng.pick(&p.p48), *rng.pick(&p.sub[..3]), *rng.pick(&p.host[..4])),
        };
        v.push(a);
    }
    if rng.chance(1, 2) { rng.shuffle(&mut v); }
    (v, kind)
}

/// direct evaluation of the join caps for a zero-refill burst (same predicate as join_caps_ok in Coq)
fn join_caps_violated(jc: &JCfg, tr: &[Addr], obs: &[JR]) -> Option<String> {
    use std::collections::BTreeMap;
    let (mut c64, mut c48, mut c24) = (BTreeMap::new(), BTreeMap::new(), BTreeMap::new());
    let mut glob = 0u32;
    for (a, r) in tr.iter().zip(obs) {
        if *r != JR::Global { glob += 1; }
        if *r == JR::Ok {
            if let Some(p) = a.p64() { *c64.entry(p).or_insert(0u32) += 1; }
            if let Some(p) = a.p48() { *c48.entry(p).or_insert(0u32) += 1; }
            if let Some(p) = a.p24() { *c24.entry(p).or_insert(0u32) += 1; }
        }
    }
    if let Some((p, n)) = c64.iter().find(|(_, n)| **n > jc.p64) { return Some(format!("{} joins admitted from /64 {} (cap {})", n, Ipv6Addr::from(*p), jc.p64)); }
    if let Some((p, n)) = c48.iter().find(|(_, n)| **n > jc.p48) { return Some(format!("{} joins admitted from /48 {} (cap {})", n, Ipv6Addr::from(*p), jc.p48)); }
    if let Some((p, n)) = c24.iter().find(|(_, n)| **n > jc.p24) { return Some(format!("{} joins admitted from /24 {} (cap {})", n, Ipv4Addr::from(*p), jc.p24)); }
    if glob > jc.gburst.min(jc.gmax) { return Some(format!("{} attempts passed the global bucket (burst {}, max {})", glob, jc.gburst, jc.gmax)); }
    None
}

// ---------------------------------------------------------------- exact integer model (u128), used only to classify
// refill cases as ambiguous for the statistics; verdicts come from Coq
#[derive(Clone, Copy)]
struct MB { tok: u128, last: u128, inwin: u32, ws: u128 }
fn m_try(c: &Cfg, now: u128, b: &mut MB) -> bool {
    if now.saturating_sub(b.ws) > c.window_ns { b.ws = now; b.inwin = 0; }
    b.tok = (b.tok + now.saturating_sub(b.last) * c.max as u128).min(c.burst as u128 * c.window_ns);
    b.last = now;
    if b.tok >= c.window_ns && b.inwin < c.max { b.tok -= c.window_ns; b.inwin += 1; true } else { false }
}
fn m_run(c: &Cfg, ts: &[u128]) -> Vec<bool> {
    if ts.is_empty() { return vec![]; }
    let mut b = MB { tok: c.burst as u128 * c.window_ns, last: ts[0], inwin: 0, ws: ts[0] };
    ts.iter().map(|t| m_try(c, *t, &mut b)).collect()
}

// ---------------------------------------------------------------- refill cases
struct RefillSpec { cfg: Cfg, phases: Vec<(usize, u64)>, kind: &'static str } // (calls, sleep_ms before the phase)
fn refill_specs(rng: &mut Rng, n: usize) -> Vec<RefillSpec> {
    let mut v = vec![];
    for i in 0..n {
        let round = i / 5;
        let s = match i % 5 {
            // tokens only: 5 tokens/s, the window counter cannot bind (at most 12 calls, max 50)
            0 => { let burst = 1 + (round % 3) as u32;
                   let sl = [700u64, 100, 300, 500][round % 4];
                   let sl2 = *rng.pick(&[100u64, 300, 500]);
                   RefillSpec { cfg: Cfg { window_ns: 10 * NS, max: 50, burst }, kind: "refill-tokens",
                       phases: vec![(burst as usize + 1, 0), (4, sl), (4, sl2)] } }
            // window expiry: everything comes back after more than one window
            1 => { let m = 1 + (round % 4) as u32;
                   RefillSpec { cfg: Cfg { window_ns: NS / 5, max: m, burst: m }, kind: "refill-window-reset",
                       phases: vec![(m as usize + 2, 0), (m as usize + 2, 500)] } }
            // window counter binds although tokens remain; then expiry
            2 => RefillSpec { cfg: Cfg { window_ns: 600_000_000, max: 2, burst: 4 }, kind: "refill-window-binds",
                       phases: vec![(5, 0), (3, 150), (4, 800)] },
            // a client hammering while over its limit: one call every 40-60 ms against 5 tokens/s - most calls are
            // DENIED, and no denial may add budget (each denial is followed by little elapsed time)
            4 => { let gap = [50u64, 40, 60][round % 3];
                   let mut phases = vec![(2usize, 0u64)];
                   for _ in 0..16 { phases.push((1, gap)); }
                   RefillSpec { cfg: Cfg { window_ns: 10 * NS, max: 50, burst: 1 }, kind: "refill-hammer", phases } }
            // slow refill, burst 1: one token per 400 ms; 1000 ms would earn 2.5 tokens but the cap is 1
            _ => { let sl = [1000u64, 200, 600][round % 3];
                   RefillSpec { cfg: Cfg { window_ns: 4 * NS, max: 10, burst: 1 }, kind: "refill-slow",
                       phases: vec![(2, 0), (3, sl), (2, 200)] } }
        };
        v.push(s);
    }
    v
}
struct RefillObs { spec: RefillSpec, t_lo: Vec<u128>, t_hi: Vec<u128>, obs: Vec<bool> }
fn run_refill(spec: RefillSpec) -> RefillObs {
    let eng: Engine<u64> = Engine::new(spec.cfg.engine_cfg());
    let (mut t_lo, mut t_hi, mut obs) = (vec![], vec![], vec![]);
    let origin = Instant::now();
    let (mut lo, mut hi) = (0u128, 0u128);
    let mut prev: Option<(u128, u128)> = None; // (a, z) of the previous phase
    for (calls, sleep_ms) in &spec.phases {
        if *sleep_ms > 0 { std::thread::sleep(Duration::from_millis(*sleep_ms)); }
        let a = origin.elapsed().as_nanos();
        let mut rs = vec![];
        for _ in 0..*calls { rs.push(eng.try_consume_key(&7)); }
        let z = origin.elapsed().as_nanos();
        let d = z - a;
        if let Some((pa, pz)) = prev { lo += a - pz; hi += z - pa; }
        for (j, r) in rs.into_iter().enumerate() {
            if j > 0 { hi += d; }
            t_lo.push(lo); t_hi.push(hi); obs.push(r);
        }
        prev = Some((a, z));
    }
    RefillObs { spec, t_lo, t_hi, obs }
}

fn bools(v: &[bool]) -> String { coq_list(v.iter().map(|b| coq_bool(*b).to_string())) }

fn main() {
    let args = Args::parse();
    let mut rng = Rng::new(args.seed);
    let mut sum = Summary::default();
    sum.rule = "bursts issued back to back against the real limiters under the real clock (Engine<u64> keyed, validation::RateLimiter::check_ip, JoinRateLimiter::check_join_allowed) with counts cap-1/cap/cap+1 per key, /64, /48, /24 and globally, prefixes differing exactly at bits 63/64/79/80 (IPv6) and 7/8 (IPv4), IPv4-mapped IPv6; extract_* on boundary addresses; concurrent hammering; phases separated by real sleeps (refill, window expiry). Non-trivial = at least one admitted and one denied attempt; distinct = different (configuration, key/prefix pattern, verdict list)".into();
    let mut w = CaseWriter::new(&args.out, "cases_c14", HEADER, "ccase", "check_case", "prop_case", 100);
    let mult = if args.thorough() { 10 } else { 1 };
    let mut id = 0u64;
    let mut seen = std::collections::HashSet::new();
    let mut nontrivial = |key: String, adm: usize, den: usize, sum: &mut Summary| {
        if adm > 0 && den > 0 && seen.insert(key) { sum.distinct_nontrivial += 1; }
    };

    // ---- refill cases run in background threads while the rest is generated
    let nrefill = if args.thorough() { 100 } else { 10 };
    let specs = refill_specs(&mut rng.fork(), nrefill);
    let refill_handle = std::thread::spawn(move || {
        let mut out = vec![];
        let mut it = specs.into_iter().peekable();
        while it.peek().is_some() {
            let batch: Vec<RefillSpec> = it.by_ref().take(8).collect();
            let hs: Vec<_> = batch.into_iter().map(|s| std::thread::spawn(move || run_refill(s))).collect();
            for h in hs { if let Ok(o) = h.join() { out.push(o); } }
        }
        out
    });

    // ---- keyed engine
    let mut made = 0; let mut attempts = 0;
    while made < 150 * mult && attempts < 600 * mult {
        attempts += 1;
        let c = pick_cfg(&mut rng);
        let nkeys = rng.range(1, 4);
        let mut tr: Vec<u64> = vec![];
        for k in 0..nkeys { let n = around(&mut rng, c.cap()); for _ in 0..n { tr.push(k * 1_000_003 + 5); } }
        if tr.is_empty() { tr.push(5); }
        if rng.chance(2, 3) { rng.shuffle(&mut tr); }
        // keyed buckets are created on first use: the clock bracket starts after construction
        // (LruCache::new pre-allocates 100000 slots, which takes tens of milliseconds)
        let eng: Engine<u64> = Engine::new(c.engine_cfg());
        let t0 = Instant::now();
        let obs: Vec<bool> = tr.iter().map(|k| eng.try_consume_key(k)).collect();
        let t = t0.elapsed().as_nanos();
        if (c.max as u128) * t >= c.window_ns || t > c.window_ns { sum.discarded_ambiguous += 1; continue; }
        // direct property check: per key at most min(burst, max)
        for k in 0..nkeys {
            let key = k * 1_000_003 + 5;
            let n = tr.iter().zip(&obs).filter(|(q, r)| **q == key && **r).count();
            if n > c.cap() as usize {
                sum.violation(id, "a key was admitted more often than min(burst, max) in a burst too short to earn a token", &[], json!({"key": key, "admitted": n, "cfg": c.json()}));
            }
        }
        w.push(id, format!("CEngine {} {} {}", c.coq(), coq_list(tr.iter().map(|k| format!("(0, {})", k))), bools(&obs)));
        let adm = obs.iter().filter(|b| **b).count();
        nontrivial(format!("E{:?}{:?}{:?}", (c.max, c.burst, c.window_ns), tr, obs), adm, obs.len() - adm, &mut sum);
        sum.case(id, json!({"kind": "engine", "cfg": c.json(), "keys": tr, "observed": obs, "elapsed_ns": t.to_string()}));
        sum.count("kind:engine"); sum.add("calls_total", tr.len() as u64); sum.evaluations += 1;
        id += 1; made += 1;
    }

    // ---- validation::RateLimiter::check_ip
    made = 0; attempts = 0;
    while made < 100 * mult && attempts < 400 * mult {
        attempts += 1;
        let c = pick_cfg(&mut rng);
        let p = pool(&mut rng);
        let ips = [v4(p.net24[0], p.h4[0]), v4(p.net24[0], p.h4[1]), v6(p.p48[0], p.sub[0], p.host[0]),
                   v6(p.p48[0], p.sub[0], p.host[1]), mapped(p.net24[0] | p.h4[0] as u32)];
        let nk = rng.range(1, 3) as usize;
        let mut tr: Vec<Addr> = vec![];
        // the global bucket has the same configuration: total attempts around the cap as well
        let total = around(&mut rng, c.cap()) + rng.below(3) as usize;
        for i in 0..total.max(1) { tr.push(ips[(i + rng.below(2) as usize) % nk.max(1) + if rng.chance(1, 5) { 2 } else { 0 }]); }
        let t0 = Instant::now();
        let lim = RateLimiter::new(RateLimitConfig { window: Duration::from_nanos(c.window_ns as u64), max_requests: c.max, burst_size: c.burst, ..Default::default() });
        let obs: Vec<&'static str> = tr.iter().map(|a| match lim.check_ip(&a.ip()) {
            Ok(()) => "IpOk",
            Err(e) => if e.to_string().contains("for global") { "IpGlobal" } else { "IpKey" },
        }).collect();
        let t = t0.elapsed().as_nanos();
        if (c.max as u128) * t >= c.window_ns || t > c.window_ns { sum.discarded_ambiguous += 1; continue; }
        w.push(id, format!("CCheckIp {} {} {}", c.coq(), coq_list(tr.iter().map(|a| format!("(0, {})", a.key()))), coq_list(obs.iter().map(|s| s.to_string()))));
        let adm = obs.iter().filter(|s| **s == "IpOk").count();
        nontrivial(format!("I{:?}{:?}{:?}", (c.max, c.burst), tr.iter().map(|a| ips.iter().position(|x| x == a)).collect::<Vec<_>>(), obs), adm, obs.len() - adm, &mut sum);
        sum.case(id, json!({"kind": "check_ip", "cfg": c.json(), "ips": tr.iter().map(|a| a.ip().to_string()).collect::<Vec<_>>(), "observed": obs, "elapsed_ns": t.to_string()}));
        sum.count("kind:check_ip"); sum.add("calls_total", tr.len() as u64); sum.evaluations += 1;
        id += 1; made += 1;
    }

    // ---- JoinRateLimiter
    made = 0; attempts = 0;
    while made < 250 * mult && attempts < 1000 * mult {
        attempts += 1;
        let is_default = rng.chance(1, 3);
        let jc = if is_default { default_jcfg() } else { pick_jcfg(&mut rng) };
        let (tr, kind) = join_scenario(&mut rng, &jc);
        if tr.is_empty() { continue; }
        let ips: Vec<IpAddr> = tr.iter().map(|a| a.ip()).collect();
        // all four engines are keyed (the global one by the constant 0): buckets are created on first use
        let lim = JoinRateLimiter::new(jc.real());
        let t0 = Instant::now();
        let obs: Vec<JR> = ips.iter().map(|ip| jconv(&lim.check_join_allowed(ip))).collect();
        let t = t0.elapsed().as_nanos();
        if (jc.maxmax() as u128) * t >= JOIN_MIN_WINDOW_NS { sum.discarded_ambiguous += 1; continue; }
        if let Some(what) = join_caps_violated(&jc, &tr, &obs) {
            sum.violation(id, &format!("join caps exceeded in a zero-refill burst: {}", what), &[], json!({"cfg": jc.json()}));
        }
        if is_default {
            // the numbers the property text states for the shipped defaults
            let stated = JCfg { p64: 1, p48: 5, p24: 3, gmax: 100, gburst: 10 };
            if let Some(what) = join_caps_violated(&stated, &tr, &obs) {
                sum.violation(id, &format!("JoinRateLimiterConfig::default() admits more than the stated 1 per /64, 5 per /48, 3 per /24, burst 10: {}", what), &[], json!({"default_cfg": jc.json()}));
            }
        }
        w.push(id, format!("CJoin {} {} {}", jc.coq(), coq_list(tr.iter().map(|a| format!("(0, {})", a.coq()))), coq_list(obs.iter().map(|r| r.coq().to_string()))));
        let adm = obs.iter().filter(|r| **r == JR::Ok).count();
        nontrivial(format!("J{:?}{}{:?}", jc, kind, obs), adm, obs.len() - adm, &mut sum);
        for r in &obs { sum.count(&format!("join_verdict:{}", r.coq())); }
        sum.case(id, json!({"kind": format!("join-{}", kind), "cfg": jc.json(), "ips": ips.iter().map(|a| a.to_string()).collect::<Vec<_>>(),
            "observed": obs.iter().map(|r| r.coq()).collect::<Vec<_>>(), "elapsed_ns": t.to_string()}));
        sum.count(&format!("kind:join-{}", kind)); sum.add("calls_total", tr.len() as u64); sum.evaluations += 1;
        id += 1; made += 1;
    }

    // ---- extract_* helpers
    for i in 0..(60 * mult) {
        let a6: u128 = match i % 6 {
            0 => ((rng.next() as u128) << 64) | rng.next() as u128,
            1 => u128::MAX, 2 => 0, 3 => 1u128 << 64, 4 => (1u128 << 64) - 1,
            _ => (((rng.next() as u128) << 64) | rng.next() as u128) ^ (1u128 << *rng.pick(&[63u32, 64, 79, 80, 95, 96])),
        };
        let a4: u32 = match i % 5 { 0 => rng.next() as u32, 1 => u32::MAX, 2 => 0, 3 => 0x0000_0100, _ => (rng.next() as u32) ^ (1 << *rng.pick(&[7u32, 8, 15, 16, 23, 24])) };
        let i6 = Ipv6Addr::from(a6); let i4 = Ipv4Addr::from(a4);
        let t = format!("CPrefix {} {} {} {} {} {} {} {}", a6,
            u128::from(extract_ipv6_subnet_64(&i6)), u128::from(extract_ipv6_subnet_48(&i6)), u128::from(extract_ipv6_subnet_32(&i6)),
            a4, u32::from(extract_ipv4_subnet_24(&i4)), u32::from(extract_ipv4_subnet_16(&i4)), u32::from(extract_ipv4_subnet_8(&i4)));
        w.push(id, t);
        sum.case(id, json!({"kind": "prefix", "v6": i6.to_string(), "v4": i4.to_string()}));
        sum.count("kind:prefix"); sum.evaluations += 1; id += 1;
    }

    // ---- concurrent: one engine, 8 threads
    for _ in 0..(20 * mult) {
        let c = pick_cfg(&mut rng);
        let nkeys = rng.range(1, 3);
        let per_thread = rng.range(1, 6) as usize + c.cap() as usize / 4;
        let eng: Arc<Engine<u64>> = Arc::new(Engine::new(c.engine_cfg()));
        let t0 = Instant::now();
        let mut results: Vec<(u64, bool)> = vec![];
        std::thread::scope(|s| {
            let hs: Vec<_> = (0..8u64).map(|t| { let e = eng.clone(); s.spawn(move || {
                let mut out = vec![];
                for j in 0..per_thread { let k = (t + j as u64) % nkeys; out.push((k, e.try_consume_key(&k))); }
                out }) }).collect();
            for h in hs { if let Ok(o) = h.join() { results.extend(o); } }
        });
        let t = t0.elapsed().as_nanos();
        let counts: Vec<(u64, usize, usize)> = (0..nkeys).map(|k| (k, results.iter().filter(|(q, _)| *q == k).count(), results.iter().filter(|(q, r)| *q == k && *r).count())).collect();
        for (k, att, adm) in &counts {
            let bound_ok = (*adm as u128) * c.window_ns <= (c.burst as u128) * c.window_ns + (c.max as u128) * t && (t > c.window_ns || *adm <= c.max as usize);
            if !bound_ok { sum.violation(id, "concurrent tasks: a key was admitted more often than burst + refill / the window maximum", &[], json!({"key": k, "attempts": att, "admitted": adm, "cfg": c.json(), "elapsed_ns": t.to_string()})); }
        }
        if (c.max as u128) * t >= c.window_ns { sum.count("concurrent_inexact_regime"); }
        w.push(id, format!("CConc {} {} {}", c.coq(), t, coq_list(counts.iter().map(|(k, a, d)| format!("({}, {}, {})", k, a, d)))));
        let adm: usize = counts.iter().map(|c| c.2).sum(); let att: usize = counts.iter().map(|c| c.1).sum();
        nontrivial(format!("C{:?}{:?}", (c.max, c.burst), counts), adm, att - adm, &mut sum);
        sum.case(id, json!({"kind": "concurrent-engine", "cfg": c.json(), "threads": 8, "counts(key,attempts,admitted)": counts, "elapsed_ns": t.to_string()}));
        sum.count("kind:concurrent-engine"); sum.add("calls_total", att as u64); sum.evaluations += 1; id += 1;
    }

    // ---- concurrent joins
    for _ in 0..(20 * mult) {
        let jc = pick_jcfg(&mut rng);
        let mut lists: Vec<Vec<Addr>> = vec![];
        let (shared, _) = join_scenario(&mut rng, &jc);
        for t in 0..8 { let mut l = shared.clone(); let mut r2 = rng.fork(); r2.shuffle(&mut l); l.truncate(3 + t % 4); lists.push(l); }
        let lim = Arc::new(JoinRateLimiter::new(jc.real()));
        let t0 = Instant::now();
        let mut outs: Vec<(Addr, JR)> = vec![];
        std::thread::scope(|s| {
            let hs: Vec<_> = lists.iter().map(|l| { let lim = lim.clone(); s.spawn(move || l.iter().map(|a| (*a, jconv(&lim.check_join_allowed(&a.ip())))).collect::<Vec<_>>()) }).collect();
            for h in hs { if let Ok(o) = h.join() { outs.extend(o); } }
        });
        let t = t0.elapsed().as_nanos();
        outs.sort_by_key(|(a, r)| (*a, *r as u8));
        if (jc.maxmax() as u128) * t < JOIN_MIN_WINDOW_NS {
            let (tr, obs): (Vec<Addr>, Vec<JR>) = outs.iter().cloned().unzip();
            if let Some(what) = join_caps_violated(&jc, &tr, &obs) {
                sum.violation(id, &format!("concurrent joins: caps exceeded in a zero-refill burst: {}", what), &[], json!({"cfg": jc.json()}));
            }
        }
        w.push(id, format!("CConcJoin {} {} {}", jc.coq(), t, coq_list(outs.iter().map(|(a, r)| format!("({}, {})", a.coq(), r.coq())))));
        let adm = outs.iter().filter(|(_, r)| *r == JR::Ok).count();
        nontrivial(format!("CJ{:?}{:?}", jc, outs), adm, outs.len() - adm, &mut sum);
        sum.case(id, json!({"kind": "concurrent-join", "cfg": jc.json(), "threads": 8, "outcomes": outs.iter().map(|(a, r)| json!([a.ip().to_string(), r.coq()])).collect::<Vec<_>>(), "elapsed_ns": t.to_string()}));
        sum.count("kind:concurrent-join"); sum.add("calls_total", outs.len() as u64); sum.evaluations += 1; id += 1;
    }

    // ---- known class lru-eviction: more than MAX_RATE_LIMIT_KEYS distinct keys between two uses of a key
    {
        let c = Cfg { window_ns: 3600 * NS, max: 1, burst: 1 };
        let t0 = Instant::now();
        let eng: Engine<u64> = Engine::new(c.engine_cfg());
        let first = eng.try_consume_key(&0);
        let second = eng.try_consume_key(&0);
        for k in 1..=100_000u64 { eng.try_consume_key(&k); }
        let third = eng.try_consume_key(&0);
        let t = t0.elapsed().as_nanos();
        sum.count("kind:lru-eviction-probe");
        if first && !second && third && (c.max as u128) * t < c.window_ns {
            sum.case(id, json!({"kind": "lru-eviction-probe", "tags": ["lru-eviction"], "cfg": c.json(),
                "history": "key 0 twice, keys 1..=100000 once each, key 0 again", "observed_for_key_0": [first, second, third], "elapsed_ns": t.to_string()}));
            sum.violation(id, "key 0 admitted twice within a burst (max 1 per hour) after 100000 other keys evicted its bucket from the LRU", &["lru-eviction"],
                json!({"observed_for_key_0": [first, second, third]}));
            id += 1;
        }
    }

    // ---- refill cases
    if let Ok(rs) = refill_handle.join() {
        for o in rs {
            let c = o.spec.cfg;
            let (ml, mh) = (m_run(&c, &o.t_lo), m_run(&c, &o.t_hi));
            if ml != mh { sum.discarded_ambiguous += 1; sum.count("refill_ambiguous(count bracket only)"); }
            let adm = o.obs.iter().filter(|b| **b).count();
            let t_hi_span = o.t_hi.last().copied().unwrap_or(0);
            if (adm as u128) * c.window_ns > (c.burst as u128) * c.window_ns + (c.max as u128) * t_hi_span {
                sum.violation(id, "admitted more than burst + refill over the measured (upper bound) duration", &[], json!({"cfg": c.json(), "admitted": adm, "elapsed_hi_ns": t_hi_span.to_string()}));
            }
            w.push(id, format!("CRefill {} {} {} {}", c.coq(), coq_list(o.t_lo.iter().map(|t| t.to_string())), coq_list(o.t_hi.iter().map(|t| t.to_string())), bools(&o.obs)));
            nontrivial(format!("R{}{:?}{:?}", o.spec.kind, o.spec.phases, o.obs), adm, o.obs.len() - adm, &mut sum);
            sum.case(id, json!({"kind": o.spec.kind, "cfg": c.json(), "phases(calls,sleep_ms_before)": o.spec.phases, "observed": o.obs,
                "t_lo_ns": o.t_lo.iter().map(|t| t.to_string()).collect::<Vec<_>>(), "t_hi_ns": o.t_hi.iter().map(|t| t.to_string()).collect::<Vec<_>>()}));
            sum.count(&format!("kind:{}", o.spec.kind)); sum.add("calls_total", o.obs.len() as u64); sum.evaluations += 1; id += 1;
        }
    }
    w.flush();
    sum.notes.push("frozen-clock cases are accepted only when max*elapsed < window for every bucket (theorem C14_frozen_clock_exact); others are discarded and counted".into());
    sum.write(&args.out);
}
