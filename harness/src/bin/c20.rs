//! C20: concurrent DHT operations and shutdown on 2..12 real nodes over the in-memory router with
//! seeded delivery delays and peers turned silent mid-operation.  Observed completion times are
//! checked (inside Coq) against the bounds of Model/Liveness.v; the RPC trace after stop() returned
//! must contain no request from the stopped node.
use saorsa_core::dht_network_manager::*;
use serde_json::json;
use std::net::SocketAddr;
use std::sync::Arc;
use std::time::{Duration, Instant};
use vh::net::*;
use vh::*;

const HEADER: &str = "From SV Require Import Lib.Base Model.Liveness.\nLocal Open Scope N_scope.";
const T_MS: u64 = 150;

#[derive(Clone, Copy, Debug)]
enum Kind { Lookup, Put, Get }

async fn run_world(wi: u64, mut rng: Rng) -> anyhow::Result<(String, serde_json::Value, bool, Vec<serde_json::Value>)> {
    let net = SimNet::new();
    let tw0 = Instant::now();
    let n = rng.range(2, 12) as usize;
    let timeout = Duration::from_millis(T_MS);
    let mut nodes = vec![];
    for i in 0..n {
        let addr: SocketAddr = format!("10.{}.{}.1:9000", i + 1, i + 1).parse()?;
        // the transport's connection timeout is much longer than the DHT request timeout: every wait of an operation
        // must be governed by the REQUEST timeout (the bound the property speaks of)
        nodes.push(Arc::new(spawn_node_ct(&net, &format!("c20w{}n{}x{}", wi, i, rng.below(1 << 20)), addr, timeout, Duration::from_millis(20 * T_MS), 4).await?));
    }
    let mut degree = vec![0usize; n];
    for i in 0..n { for j in (i + 1)..n {
        if rng.chance(2, 3) || j == i + 1 {
            let _ = nodes[i].transport.connect_peer(&nodes[j].addr.to_string()).await;
            degree[i] += 1; degree[j] += 1;
        }
    } }
    for i in 0..n {
        let mg = nodes[i].manager.clone(); let want = degree[i];
        wait_until(|| { let mg = mg.clone(); async move { mg.get_connected_peers().await.len() >= want } }, Duration::from_secs(3)).await;
    }
    let t_setup = tw0.elapsed().as_millis();
    net.set_delays(rng.next(), rng.range(0, 20_000));
    // a silent node is a dead address: dialling it never completes
    net.hang_silent_dials.store(true, std::sync::atomic::Ordering::SeqCst);
    // some stored data so that gets can succeed
    let mut keys = vec![];
    for _ in 0..3 { let b = rng.bytes(32); let mut k = [0u8; 32]; k.copy_from_slice(&b); keys.push(k); }
    let _ = tokio::time::timeout(Duration::from_secs(20), nodes[0].manager.put(keys[0], vec![7u8; 40])).await;
    net.take_trace();

    // the node under test runs a mix of concurrent operations; other nodes run some too (served inbound requests)
    let a = rng.below(n as u64) as usize;
    let mut tasks: Vec<(Kind, usize, tokio::task::JoinHandle<(bool, u64)>)> = vec![];
    let nops = rng.range(3, 9);
    for k in 0..nops {
        let who = if k % 3 == 2 { rng.below(n as u64) as usize } else { a };
        let node = nodes[who].clone();
        let key = *rng.pick(&keys);
        let kind = *rng.pick(&[Kind::Lookup, Kind::Lookup, Kind::Put, Kind::Get, Kind::Get]);
        let start_delay = rng.below(40);
        let vlen = rng.range(1, 200) as usize; let val = rng.bytes(vlen);
        tasks.push((kind, who, tokio::spawn(async move {
            tokio::time::sleep(Duration::from_millis(start_delay)).await;
            let t0 = Instant::now();
            let ok = match kind {
                Kind::Lookup => node.manager.find_closest_nodes(&key, 8).await.is_ok(),
                Kind::Put => node.manager.put(key, val).await.is_ok(),
                Kind::Get => node.manager.get(&key).await.is_ok(),
            };
            (ok, t0.elapsed().as_millis() as u64)
        })));
    }
    // peers go silent at arbitrary times
    let nsilent = rng.below((n as u64).min(4)) as usize;
    let mut silent_plan = vec![];
    for _ in 0..nsilent {
        let j = rng.below(n as u64) as usize;
        if j != a { silent_plan.push((rng.below(120), j)); }
    }
    let net2 = net.clone(); let tids: Vec<String> = nodes.iter().map(|x| x.tid.clone()).collect();
    let plan = silent_plan.clone();
    let silencer = tokio::spawn(async move {
        let t0 = Instant::now();
        let mut plan = plan; plan.sort();
        for (at, j) in plan {
            let el = t0.elapsed().as_millis() as u64;
            if at > el { tokio::time::sleep(Duration::from_millis(at - el)).await; }
            net2.set_silent(&tids[j], true);
        }
    });
    // stop the node under test at an arbitrary moment
    let stop_at = rng.below(200);
    tokio::time::sleep(Duration::from_millis(stop_at)).await;
    let peers_known = nodes[a].manager.get_connected_peers().await.len() as u64;
    // every third world: stop() is called while local stores keep the core engine's write lock busy
    let mut storm = vec![];
    if wi % 3 == 0 {
        for t in 0..16u8 {
            let node = nodes[a].clone(); let seed = rng.bytes(31);
            storm.push(tokio::spawn(async move {
                for i in 0..40u8 {
                    let mut k = [t; 32]; k[1..].copy_from_slice(&seed); k[1] = i;
                    let _ = node.manager.store_local(k, vec![i; 64]).await;
                    tokio::task::yield_now().await;
                }
            }));
        }
        tokio::task::yield_now().await;
    }
    let t_stop0 = Instant::now();
    let stopped = tokio::time::timeout(Duration::from_secs(60), nodes[a].manager.stop()).await;
    let stop_ms = t_stop0.elapsed().as_millis() as u64;
    let stop_returned_at = net.now_ms();
    let _ = silencer.await;
    let mut obs: Vec<(String, u64)> = vec![];
    let mut hung = vec![];
    for (kind, who, t) in tasks {
        match tokio::time::timeout(Duration::from_secs(60), t).await {
            Ok(Ok((_ok, ms))) => obs.push((match kind { Kind::Lookup => "OpLookup".into(), Kind::Put => "OpPut".into(), Kind::Get => "OpGet".into() }, ms)),
            _ => hung.push(json!({"kind": format!("{kind:?}"), "node": who})),
        }
    }
    obs.push((format!("(OpStop {})", peers_known), stop_ms));
    // nothing may leave the stopped node after stop() returned (allow 2 ms of trace-clock skew)
    tokio::time::sleep(Duration::from_millis(2 * T_MS)).await;
    let trace = net.take_trace();
    if std::env::var("C20_ONLY").is_ok() {
        eprintln!("stop began at {} ms, returned at {} ms (trace clock)", stop_returned_at - stop_ms, stop_returned_at);
        for e in trace.iter().filter(|e| e.at_ms + 50 >= stop_returned_at - stop_ms) {
            eprintln!("  {:>6} {}->{} req={} {} delivered={} {:?}", e.at_ms, &e.from[..6], &e.to[..6.min(e.to.len())], e.is_request, e.op, e.delivered, e.result);
        }
    }
    // every dial to a dead address must have been given up within the request timeout
    for e in trace.iter().filter(|e| e.op == "DialEnd") {
        obs.push(("OpWait".into(), e.msg_id.parse().unwrap_or(0)));
    }
    let late: Vec<&TraceEv> = trace.iter().filter(|e| e.is_request && e.from == nodes[a].tid && e.at_ms > stop_returned_at + 2).collect();
    let mut viol = vec![];
    if stopped.is_err() { viol.push(json!({"what": "stop() did not return within 60 s", "world": wi})); }
    // "ends its background tasks": both the manager's tasks and the core engine's maintenance task must have been told to stop
    let storm_n = storm.len();
    for t in storm { let _ = tokio::time::timeout(Duration::from_secs(30), t).await; }
    if stopped.is_ok() {
        let core_told = tokio::time::timeout(Duration::from_secs(5), nodes[a].manager.verif_core_shutdown_signalled()).await.unwrap_or(false);
        if !nodes[a].manager.verif_is_shut_down() || !core_told {
            viol.push(json!({"what": "stop() returned but a background task was never told to stop", "manager_tasks_told": nodes[a].manager.verif_is_shut_down(),
                "core_maintenance_told": core_told, "local_stores_in_flight_at_stop": storm_n, "world": wi}));
        }
    }
    for h in &hung { viol.push(json!({"what": "operation did not complete within 60 s", "op": h, "world": wi})); }
    // D = dial (<= T) + send (<= T) + answer-or-timeout (<= T)
    let term = format!("({}, {}, {}, {})", 3 * T_MS, 1500,
        coq_list(obs.iter().map(|(k, ms)| format!("({}, {})", k, ms))), late.len() + hung.len() + if stopped.is_err() { 1 } else { 0 });
    let desc = json!({"world": wi, "nodes": n, "node_under_test": a, "ops": obs.iter().map(|(k, ms)| json!([k, ms])).collect::<Vec<_>>(),
        "silent_plan_ms_node": silent_plan, "stop_at_ms": stop_at, "stop_took_ms": stop_ms, "peers_known_at_stop": peers_known,
        "requests_after_stop": late.iter().map(|e| json!([e.at_ms - stop_returned_at, e.op.clone(), &e.to[..8]])).collect::<Vec<_>>(),
        "tags": if late.is_empty() { vec![] } else { vec!["request-after-stop"] }});
    let nontrivial = obs.len() >= 3;
    let t_run = tw0.elapsed().as_millis();
    for (i, nd) in nodes.iter().enumerate() {
        net.set_silent(&nd.tid, false);
        if i != a { let _ = tokio::time::timeout(Duration::from_secs(10), nd.manager.stop()).await; }
        let _ = tokio::time::timeout(Duration::from_secs(5), nd.transport.stop()).await;
    }
    if std::env::var("C20_DEBUG").is_ok() { eprintln!("world {wi}: n={n} setup {t_setup} ms, run until {t_run} ms, teardown until {} ms", tw0.elapsed().as_millis()); }
    Ok((term, desc, nontrivial, viol))
}

fn main() {
    let args = Args::parse();
    install_trace_sink();
    let rt = tokio::runtime::Builder::new_multi_thread().worker_threads(8).enable_all().build().unwrap();
    let mut rng = Rng::new(args.seed);
    let mut sum = Summary::default();
    sum.rule = "2..12 real nodes, random connectivity, seeded per-frame delivery delays (0..20 ms), 3..9 concurrent lookups/puts/gets (most on one node, some elsewhere so that it also serves inbound requests), up to 3 peers turned silent at random instants, stop() of the node under test at a random instant 0..200 ms. Non-trivial = at least 3 operations measured; distinct = different world seeds".into();
    let mut w = CaseWriter::new(&args.out, "cases_c20", HEADER, "N * N * list (opkind * N) * N", "check_tcase", "check_tcase", 40);
    let worlds = if args.thorough() { 400 } else { 40 };
    let conc = 3usize;
    let mut id = 0u64; let mut wi = 0;
    while wi < worlds {
        let only: Option<usize> = std::env::var("C20_ONLY").ok().and_then(|x| x.parse().ok());
        let futs: Vec<_> = (0..conc.min(worlds - wi)).map(|k| (wi + k, rng.fork())).filter(|(w, _)| only.map(|o| o == *w).unwrap_or(true)).map(|(w, r)| run_world(w as u64, r)).collect();
        for o in rt.block_on(futures::future::join_all(futs)) {
            match o {
    Ok((term, desc, nontrivial, viol)) => {
                    w.push(id, term); sum.evaluations += 1; if nontrivial { sum.distinct_nontrivial += 1; }
                    for v in viol { sum.violation(id, v["what"].as_str().unwrap_or("liveness"), &[], v.clone()); }
                    if let Some(arr) = desc["ops"].as_array() { sum.add("ops_measured", arr.len() as u64); }
                    sum.add("requests_after_stop", desc["requests_after_stop"].as_array().map(|a| a.len()).unwrap_or(0) as u64);
                    sum.case(id, desc); id += 1;
                }
                Err(e) => { sum.notes.push(format!("world failed: {e}")); sum.count("world_failed"); }
            }
        }
        wi += conc;
    }
    w.flush();
    sum.write(&args.out);
    std::process::exit(0);
}
