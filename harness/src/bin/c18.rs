//! C18 correspondence: real EncryptedKeyStorageManager vs Model/KeyStore.v.
//!
//! Two families of cases:
//!  * histories: initialize / store / retrieve (right, wrong, previous, unconstructible
//!    passwords) / change_password / clear_cache / reopen / crash at a point of a
//!    file update (directory copied from inside encrypt_and_store through the
//!    verif-hooks callback, then reopened) -- verdicts compared with the model run on
//!    the same history, seeds compared by equality tokens;
//!  * tamper: the real store file with one byte changed (every byte in the thorough
//!    tier), truncated or extended: postcard's parse of the damaged bytes is compared
//!    field by field with the model's parser, and the real verdict of
//!    retrieve_master_seed with the model's verdict.
use saorsa_core::encrypted_key_storage::{EncryptedKeyStorage, EncryptedKeyStorageManager, SecurityLevel};
use saorsa_core::key_derivation::MasterSeed;
use saorsa_core::secure_memory::SecureString;
use saorsa_core::verif_hooks::c18 as hook;
use serde_json::{json, Value};
use std::collections::{BTreeMap, HashMap, HashSet};
use std::path::{Path, PathBuf};
use std::sync::{Arc, Mutex};
use vh::*;

const HEADER: &str = "From SV Require Import Lib.Base Model.KeyStore.\nLocal Open Scope N_scope.";
const UNKNOWN_SEED: u64 = 999_999;

// ---------------------------------------------------------------- pools
fn pw_text(tok: u64) -> String {
    match tok {
        1 => "G00d-Pa55w0rd_#1".into(),
        2 => "Old-G00d-Pa55_#7".into(),
        3 => "New-G00d-Pa55_#8".into(),
        4 => "G00d-Pa55w0rd_#1 ".into(),
        5 => "g00d-Pa55w0rd_#1".into(),
        6 => "P\u{e4}ssw\u{f6}rd-\u{dc}n\u{ef}_#9x".into(),
        7 => "Pa\u{308}sswo\u{308}rd-U\u{308}ni\u{308}_#9x".into(),
        8 => "Zq7#".repeat(16384),          // 65536 bytes: the largest SecureString
        9 => "123".into(),
        10 => String::new(),                // SecureString refuses an empty string
        11 => "Zq7#".repeat(16384) + "x",   // 65537 bytes: refused
        12 => "password-Abc_#1".into(),     // refused by the policy (common word)
        _ => format!("Other-Pw_{}#", tok),
    }
}
const PW_TOKENS: [u64; 12] = [1, 2, 3, 4, 5, 6, 7, 8, 9, 10, 11, 12];
fn id_text(tok: u64) -> String {
    match tok { 1 => "test_seed".into(), 2 => String::new(), 3 => "seed/\u{fc}".into(), 4 => "k".repeat(300), _ => format!("id{}", tok) }
}
fn seed_bytes(tok: u64) -> [u8; 32] {
    let mut b = [0u8; 32];
    let h = blake3::hash(&tok.to_le_bytes());
    b.copy_from_slice(h.as_bytes());
    b
}
fn level(l: u64) -> SecurityLevel { if l == 0 { SecurityLevel::Fast } else { SecurityLevel::Standard } }

// ---------------------------------------------------------------- ops / results
#[derive(Clone, Debug, PartialEq)]
enum Op {
    Init { p: u64 },
    Store { id: u64, sd: u64, p: u64 },
    Retrieve { id: u64, p: u64 },
    Change { old: u64, new: u64 },
    Clear,
    Reopen { lvl: u64 },
}
#[derive(Clone, Copy, Debug, PartialEq)]
enum Cp { Before, Torn, Tmp, Done }
#[derive(Clone, Copy, Debug, PartialEq)]
enum R { Ok, Seed(u64), Err }
/// an executed op with the oracle values read back from the file it wrote
#[derive(Clone, Debug)]
struct Ex { op: Op, crash: Option<Cp>, salt: u64, nonce: u64, ts: u64, res: R }

fn coq_res(r: &R) -> String {
    match r { R::Ok => "ROk".into(), R::Seed(s) => format!("RSeed {}", s), R::Err => "RErr".into() }
}
fn coq_op(e: &Ex) -> String {
    let o = match &e.op {
        Op::Init { p } => format!("Init {} [{}] [{}] {}", p, e.salt, e.nonce, e.ts),
        Op::Store { id, sd, p } => format!("Store {} {} {} [{}] {}", id, sd, p, e.nonce, e.ts),
        Op::Retrieve { id, p } => format!("Retrieve {} {}", id, p),
        Op::Change { old, new } => format!("Change {} {} [{}] [{}] {}", old, new, e.salt, e.nonce, e.ts),
        Op::Clear => "Clear".into(),
        Op::Reopen { lvl } => format!("Reopen {}", lvl),
    };
    match e.crash {
        None => o,
        Some(c) => format!("Crash {} ({})", match c { Cp::Before => "CBefore", Cp::Torn => "CTorn", Cp::Tmp => "CTmp", Cp::Done => "CDone" }, o),
    }
}
fn json_ex(e: &Ex) -> Value {
    let o = match &e.op {
        Op::Init { p } => json!({"initialize": {"password": p}}),
        Op::Store { id, sd, p } => json!({"store": {"id": id, "seed": sd, "password": p}}),
        Op::Retrieve { id, p } => json!({"retrieve": {"id": id, "password": p}}),
        Op::Change { old, new } => json!({"change_password": {"old": old, "new": new}}),
        Op::Clear => json!("clear_cache"),
        Op::Reopen { lvl } => json!({"reopen": {"level": lvl}}),
    };
    match e.crash {
        None => json!({"op": o, "result": coq_res(&e.res)}),
        Some(c) => json!({"crash_at": format!("{:?}", c), "during": o}),
    }
}

// ---------------------------------------------------------------- crash-point registry
struct Watch { label: &'static str, dest: PathBuf, fired: bool }
static WATCH: Mutex<Option<HashMap<PathBuf, Watch>>> = Mutex::new(None);

fn copy_dir(from: &Path, to: &Path) {
    std::fs::create_dir_all(to).ok();
    if let Ok(rd) = std::fs::read_dir(from) {
        for e in rd.flatten() {
            if e.path().is_file() { std::fs::copy(e.path(), to.join(e.file_name())).ok(); }
        }
    }
}
fn install_hook() {
    *WATCH.lock().unwrap() = Some(HashMap::new());
    hook::set_keystore_crash_hook(Some(Arc::new(|label: &str, path: &Path| {
        let mut g = WATCH.lock().unwrap();
        if let Some(m) = g.as_mut() {
            if let Some(w) = m.get_mut(path) {
                if w.label == label && !w.fired {
                    if let Some(parent) = path.parent() { copy_dir(parent, &w.dest); }
                    w.fired = true;
                }
            }
        }
    })));
}
fn watch(path: &Path, label: &'static str, dest: &Path) {
    WATCH.lock().unwrap().as_mut().unwrap().insert(path.to_path_buf(), Watch { label, dest: dest.to_path_buf(), fired: false });
}
fn unwatch(path: &Path) -> bool {
    WATCH.lock().unwrap().as_mut().unwrap().remove(path).map(|w| w.fired).unwrap_or(false)
}

// ---------------------------------------------------------------- running the real manager
struct World {
    #[allow(dead_code)]
    dir: PathBuf,
    file: PathBuf,
    mgr: EncryptedKeyStorageManager,
    salts: Vec<Vec<u8>>,
    nonces: Vec<Vec<u8>>,
    seen_pairs: HashSet<(Vec<u8>, Vec<u8>)>,
    nonce_reuse: bool,
    stale_tmp: bool,
}
fn tok_of(pool: &mut Vec<Vec<u8>>, v: &[u8]) -> u64 {
    if let Some(i) = pool.iter().position(|x| x == v) { return i as u64 + 1; }
    pool.push(v.to_vec());
    pool.len() as u64
}
fn read_store(path: &Path) -> Option<EncryptedKeyStorage> {
    let b = std::fs::read(path).ok()?;
    postcard::from_bytes::<EncryptedKeyStorage>(&b).ok()
}
fn secure(tok: u64) -> Option<SecureString> { SecureString::from_plain_str(&pw_text(tok)).ok() }
fn seed_tok(bytes: &[u8], known: u64) -> u64 {
    for t in 1..=known { if seed_bytes(t)[..] == *bytes { return t; } }
    UNKNOWN_SEED
}
const SEED_TOKENS: u64 = 40;

impl World {
    fn new(dir: &Path, lvl: u64) -> World {
        let file = dir.join("keys.enc");
        World { dir: dir.to_path_buf(), file: file.clone(), mgr: EncryptedKeyStorageManager::new(&file, level(lvl)).expect("manager"),
                salts: vec![], nonces: vec![], seen_pairs: HashSet::new(), nonce_reuse: false, stale_tmp: false }
    }
    /// oracle values of the file a write produced (read back), or of the tmp file of a crash snapshot
    fn oracle(&mut self, path: &Path, fresh: bool) -> (u64, u64, u64) {
        match read_store(path) {
            Some(s) => {
                let (sa, no) = (s.header.salt.to_vec(), s.header.nonce.to_vec());
                if fresh && !self.seen_pairs.insert((sa.clone(), no.clone())) { self.nonce_reuse = true; }
                (tok_of(&mut self.salts, &sa), tok_of(&mut self.nonces, &no), s.header.updated_at)
            }
            None => (0, 0, 0),
        }
    }
    async fn exec(&mut self, op: &Op) -> Ex {
        let mut wrote = false;
        let res = match op {
            Op::Init { p } => match secure(*p) {
                Some(s) => match self.mgr.initialize(&s).await { Ok(()) => { wrote = true; R::Ok } Err(_) => R::Err },
                None => R::Err,
            },
            Op::Store { id, sd, p } => match (secure(*p), MasterSeed::from_entropy(&seed_bytes(*sd))) {
                (Some(s), Ok(ms)) => match self.mgr.store_master_seed(&id_text(*id), &ms, &s).await { Ok(()) => { wrote = true; R::Ok } Err(_) => R::Err },
                _ => R::Err,
            },
            Op::Retrieve { id, p } => match secure(*p) {
                Some(s) => match self.mgr.retrieve_master_seed(&id_text(*id), &s).await {
                    Ok(ms) => R::Seed(seed_tok(ms.seed_material(), SEED_TOKENS)),
                    Err(_) => R::Err,
                },
                None => R::Err,
            },
            Op::Change { old, new } => match (secure(*old), secure(*new)) {
                (Some(o), Some(n)) => match self.mgr.change_password(&o, &n).await { Ok(()) => { wrote = true; R::Ok } Err(_) => R::Err },
                _ => R::Err,
            },
            Op::Clear => match self.mgr.clear_cache() { Ok(()) => R::Ok, Err(_) => R::Err },
            Op::Reopen { lvl } => {
                self.mgr = EncryptedKeyStorageManager::new(&self.file, level(*lvl)).expect("manager");
                R::Ok
            }
        };
        let (salt, nonce, ts) = if wrote {
            if self.file.with_extension("tmp").exists() { self.stale_tmp = true; }
            let f = self.file.clone();
            self.oracle(&f, true)
        } else { (0, 0, 0) };
        Ex { op: op.clone(), crash: None, salt, nonce, ts, res }
    }
}

// ---------------------------------------------------------------- history generation
struct Hist { lvl0: u64, exs: Vec<Ex>, kind: String, tags: Vec<&'static str> }

/// the generator's own bookkeeping (only to direct the choice of passwords; never an oracle)
#[derive(Clone, Default)]
struct Track { cur: Option<u64>, prev: Vec<u64>, ids: Vec<u64>, next_seed: u64 }

fn pick_pw(rng: &mut Rng, t: &Track, valid_only: bool) -> u64 {
    let valid = [1u64, 2, 3, 4, 5, 6, 7];
    if valid_only { return *rng.pick(&valid); }
    match rng.below(12) {
        0..=4 => t.cur.unwrap_or(1),
        5..=6 => t.prev.last().copied().unwrap_or(2),
        7 => *rng.pick(&[4u64, 5]),            // near misses of password 1
        8 => *rng.pick(&[6u64, 7]),            // the two unicode spellings
        9 => *rng.pick(&[9u64, 10, 11, 12]),   // weak / unconstructible
        10 => 8,
        _ => *rng.pick(&valid),
    }
}
fn gen_op(rng: &mut Rng, t: &mut Track, allow_std: bool) -> Op {
    match rng.below(20) {
        0..=4 => {
            let id = *rng.pick(&[1u64, 1, 2, 3, 4]);
            t.next_seed += 1;
            let sd = if rng.chance(1, 6) && t.next_seed > 1 { rng.range(1, t.next_seed - 1) } else { t.next_seed };
            Op::Store { id, sd, p: if rng.chance(4, 5) { t.cur.unwrap_or(1) } else { pick_pw(rng, t, false) } }
        }
        5..=11 => {
            let id = if !t.ids.is_empty() && rng.chance(5, 6) { *rng.pick(&t.ids) } else { *rng.pick(&[1u64, 2, 3, 4]) };
            Op::Retrieve { id, p: pick_pw(rng, t, false) }
        }
        12..=14 => {
            let old = if rng.chance(4, 5) { t.cur.unwrap_or(1) } else { pick_pw(rng, t, false) };
            let new = if rng.chance(5, 6) { pick_pw(rng, t, true) } else { pick_pw(rng, t, false) };
            Op::Change { old, new }
        }
        15..=16 => Op::Clear,
        17..=18 => Op::Reopen { lvl: if allow_std && rng.chance(1, 2) { 1 } else { 0 } },
        _ => { let v = rng.chance(3, 4); Op::Init { p: pick_pw(rng, t, v) } }
    }
}
fn track(t: &mut Track, e: &Ex) {
    match (&e.op, e.res) {
        (Op::Init { p }, R::Ok) => { if let Some(c) = t.cur { t.prev.push(c); } t.cur = Some(*p); t.ids.clear(); }
        (Op::Store { id, .. }, R::Ok) => { if !t.ids.contains(id) { t.ids.push(*id); } }
        (Op::Change { new, .. }, R::Ok) => { if let Some(c) = t.cur { t.prev.push(c); } t.cur = Some(*new); }
        _ => {}
    }
}
/// scripted openings that aim at the known weak points
fn script(n: u64) -> Vec<Op> {
    match n {
        // F18a: wrong password right after a store in the same process
        0 => vec![Op::Init { p: 1 }, Op::Store { id: 1, sd: 1, p: 1 }, Op::Retrieve { id: 1, p: 2 }, Op::Retrieve { id: 1, p: 1 }],
        // previous password after a change, cache refilled in between
        1 => vec![Op::Init { p: 2 }, Op::Store { id: 1, sd: 1, p: 2 }, Op::Change { old: 2, new: 3 }, Op::Retrieve { id: 1, p: 3 },
                  Op::Retrieve { id: 1, p: 2 }, Op::Retrieve { id: 1, p: 3 }],
        // wrong password after a retrieve filled the cache of a reopened manager
        2 => vec![Op::Init { p: 1 }, Op::Store { id: 1, sd: 1, p: 1 }, Op::Reopen { lvl: 0 }, Op::Retrieve { id: 1, p: 5 },
                  Op::Retrieve { id: 1, p: 1 }, Op::Retrieve { id: 1, p: 4 }, Op::Retrieve { id: 1, p: 10 }],
        // re-initialisation with another password while a seed is cached
        3 => vec![Op::Init { p: 1 }, Op::Store { id: 1, sd: 1, p: 1 }, Op::Init { p: 2 }, Op::Retrieve { id: 1, p: 1 },
                  Op::Retrieve { id: 1, p: 2 }],
        // seed ids: another id, overwritten id, empty id
        4 => vec![Op::Init { p: 1 }, Op::Store { id: 1, sd: 1, p: 1 }, Op::Store { id: 2, sd: 2, p: 1 }, Op::Store { id: 1, sd: 3, p: 1 },
                  Op::Retrieve { id: 1, p: 1 }, Op::Retrieve { id: 2, p: 1 }, Op::Retrieve { id: 3, p: 1 }, Op::Clear,
                  Op::Retrieve { id: 1, p: 1 }, Op::Retrieve { id: 2, p: 1 }, Op::Retrieve { id: 3, p: 1 }],
        // unicode spellings and the 64 KiB password
        5 => vec![Op::Init { p: 6 }, Op::Store { id: 3, sd: 1, p: 6 }, Op::Retrieve { id: 3, p: 7 }, Op::Change { old: 6, new: 8 },
                  Op::Retrieve { id: 3, p: 8 }, Op::Retrieve { id: 3, p: 6 }, Op::Reopen { lvl: 0 }, Op::Retrieve { id: 3, p: 8 }],
        // weak / unconstructible new passwords leave the old one in force
        6 => vec![Op::Init { p: 9 }, Op::Init { p: 1 }, Op::Store { id: 1, sd: 1, p: 1 }, Op::Change { old: 1, new: 9 }, Op::Change { old: 1, new: 10 },
                  Op::Change { old: 1, new: 12 }, Op::Retrieve { id: 1, p: 9 }, Op::Clear, Op::Retrieve { id: 1, p: 1 }],
        // the previous password immediately after a change, nothing in between
        8 => vec![Op::Init { p: 2 }, Op::Store { id: 1, sd: 1, p: 2 }, Op::Retrieve { id: 1, p: 2 }, Op::Change { old: 2, new: 3 },
                  Op::Retrieve { id: 1, p: 2 }, Op::Retrieve { id: 1, p: 3 }, Op::Change { old: 3, new: 3 }, Op::Retrieve { id: 1, p: 3 }],
        // store with a wrong password must not fill the cache or change the file
        _ => vec![Op::Init { p: 1 }, Op::Store { id: 1, sd: 1, p: 2 }, Op::Retrieve { id: 1, p: 2 }, Op::Retrieve { id: 1, p: 1 },
                  Op::Store { id: 1, sd: 2, p: 1 }, Op::Store { id: 1, sd: 3, p: 5 }, Op::Retrieve { id: 1, p: 5 }, Op::Retrieve { id: 1, p: 1 }],
    }
}

struct Plan { lvl0: u64, ops: Vec<Op>, crash: Option<(usize, Cp)>, probes: Vec<Op>, kind: String, other_level: bool }

fn plan(rng: &mut Rng, idx: u64, thorough: bool) -> Plan {
    let nscripts = 9;
    let mut t = Track::default();
    let mut ops = vec![];
    let mut kind = "random".to_string();
    // a few histories reopen at another security level (slow Argon2): recorded finding class
    let other_level = if thorough { idx % 40 == 17 } else { idx == 11 };
    if idx < nscripts { ops = script(idx); kind = format!("script{}", idx); }
    else if idx < 2 * nscripts && rng.chance(1, 2) { ops = script(idx - nscripts); kind = format!("script{}+random", idx - nscripts); }
    else { ops.push(Op::Init { p: *rng.pick(&[1u64, 2, 3, 6]) }); }
    // the generator tracks what it expects to be the current password (heuristically)
    for o in &ops { let e = Ex { op: o.clone(), crash: None, salt: 0, nonce: 0, ts: 0, res: R::Ok };
        match o { Op::Init { p } if *p != 9 => track(&mut t, &e), Op::Store { p, .. } if Some(*p) == t.cur => track(&mut t, &e),
                  Op::Change { old, new } if Some(*old) == t.cur && *new <= 8 => track(&mut t, &e), _ => {} } }
    if idx >= nscripts {
        let extra = rng.range(2, 8) as usize;
        for _ in 0..extra {
            let o = gen_op(rng, &mut t, false);
            let e = Ex { op: o.clone(), crash: None, salt: 0, nonce: 0, ts: 0, res: R::Ok };
            match &o { Op::Init { p } if *p <= 8 => track(&mut t, &e), Op::Store { p, .. } if Some(*p) == t.cur => track(&mut t, &e),
                       Op::Change { old, new } if Some(*old) == t.cur && *new <= 8 => track(&mut t, &e), _ => {} }
            ops.push(o);
        }
    }
    if other_level {
        let p = *rng.pick(&[1u64, 2, 3, 6]);
        ops = vec![Op::Init { p }, Op::Store { id: 1, sd: 1, p }, Op::Retrieve { id: 1, p }, Op::Reopen { lvl: 1 },
                   Op::Retrieve { id: 1, p }, Op::Retrieve { id: 1, p: 5 }, Op::Store { id: 3, sd: 2, p }, Op::Reopen { lvl: 0 }, Op::Retrieve { id: 1, p }];
        kind = "other-level".into();
    }
    // crash inside one of the file updates (about half of the histories)
    let writes: Vec<usize> = ops.iter().enumerate().filter(|(_, o)| matches!(o, Op::Init { .. } | Op::Store { .. } | Op::Change { .. })).map(|(i, _)| i).collect();
    let crash = if !other_level && !writes.is_empty() && (idx % 2 == 1 || thorough) {
        Some((*rng.pick(&writes), *rng.pick(&[Cp::Before, Cp::Torn, Cp::Tmp, Cp::Tmp, Cp::Done])))
    } else { None };
    // probes after the crash: every id with the passwords in play, then a store and a read back
    let mut probes = vec![];
    let mut pws: Vec<u64> = ops.iter().flat_map(|o| match o { Op::Init { p } => vec![*p], Op::Store { p, .. } => vec![*p], Op::Change { old, new } => vec![*old, *new], _ => vec![] }).collect();
    pws.sort(); pws.dedup(); pws.retain(|p| *p <= 9 && *p != 8); pws.truncate(3);
    let mut ids: Vec<u64> = ops.iter().filter_map(|o| match o { Op::Store { id, .. } => Some(*id), _ => None }).collect();
    ids.sort(); ids.dedup(); if ids.is_empty() { ids.push(1); } ids.truncate(2);
    for p in &pws { for id in &ids { probes.push(Op::Retrieve { id: *id, p: *p }); } }
    if let Some(p) = pws.first() { probes.push(Op::Store { id: 1, sd: 39, p: *p }); probes.push(Op::Retrieve { id: 1, p: *p }); }
    Plan { lvl0: 0, ops, crash, probes, kind, other_level }
}

fn run_plan(pl: &Plan, base: &Path) -> (Vec<Hist>, Vec<(String, Value)>) {
    let rt = tokio::runtime::Builder::new_current_thread().enable_all().build().unwrap();
    let dir = base.join("live");
    std::fs::create_dir_all(&dir).unwrap();
    let snap = base.join("snap");
    let mut w = World::new(&dir, pl.lvl0);
    let mut exs: Vec<Ex> = vec![];
    let mut out = vec![];
    let mut viol = vec![];
    let mut crash_hist: Option<(Vec<Ex>, Cp)> = None;
    for (i, o) in pl.ops.iter().enumerate() {
        let mut crashing = None;
        if let Some((k, cp)) = pl.crash { if k == i { crashing = Some(cp); } }
        if let Some(cp) = crashing {
            match cp {
                Cp::Before => copy_dir(&dir, &snap),
                Cp::Torn | Cp::Tmp => watch(&w.file, "tmp-written", &snap),
                Cp::Done => watch(&w.file, "renamed", &snap),
            }
        }
        let e = rt.block_on(w.exec(o));
        if let Some(cp) = crashing {
            let fired = if cp == Cp::Before { true } else { unwatch(&w.file) };
            if !fired { copy_dir(&dir, &snap); } // the op failed before touching the disk
            let tmp = snap.join("keys.tmp");
            if cp == Cp::Torn && fired {
                if let Ok(b) = std::fs::read(&tmp) { std::fs::write(&tmp, &b[..b.len() / 2]).ok(); }
            }
            // oracle values of the interrupted write: from the tmp file when it is whole, else from the file the completed op wrote
            let mut ce = e.clone();
            ce.crash = Some(cp);
            ce.res = R::Ok;
            let mut pre = exs.clone();
            pre.push(ce);
            crash_hist = Some((pre, cp));
        }
        exs.push(e);
    }
    if w.nonce_reuse { viol.push(("the same (salt, nonce) pair was written twice (AEAD nonce reuse under one key)".to_string(), json!({}))); }
    if w.stale_tmp { viol.push(("temporary file still present after a completed update".to_string(), json!({}))); }
    let mut tags = vec![];
    if pl.other_level { tags.push("reopen-other-level"); }
    out.push(Hist { lvl0: pl.lvl0, exs, kind: pl.kind.clone(), tags: tags.clone() });
    if let Some((mut pre, cp)) = crash_hist {
        // reopen the snapshot as a fresh process would
        let mut w2 = World::new(&snap, 0);
        w2.salts = w.salts.clone(); w2.nonces = w.nonces.clone();
        pre.push(Ex { op: Op::Reopen { lvl: 0 }, crash: None, salt: 0, nonce: 0, ts: 0, res: R::Ok });
        for o in &pl.probes { let e = rt.block_on(w2.exec(o)); pre.push(e); }
        if w2.nonce_reuse { viol.push(("nonce reuse after crash recovery".to_string(), json!({}))); }
        out.push(Hist { lvl0: pl.lvl0, exs: pre, kind: format!("{}+crash-{:?}", pl.kind, cp), tags });
    }
    (out, viol)
}

// ---------------------------------------------------------------- tamper cases
#[derive(Clone, Debug)]
enum Tamper { Set(usize, u8), Trunc(usize), Append(u8) }
fn apply(t: &Tamper, b: &[u8]) -> Vec<u8> {
    let mut v = b.to_vec();
    match t { Tamper::Set(i, x) => v[*i] = *x, Tamper::Trunc(n) => v.truncate(*n), Tamper::Append(x) => v.push(*x) }
    v
}
fn varint_len(b: &[u8], at: usize) -> usize { let mut n = 1; while b[at + n - 1] & 0x80 != 0 { n += 1; } n }
/// byte classes of the file, from the layout (for directing the sample and for the evidence)
fn classes(b: &[u8]) -> Vec<&'static str> {
    let mut c: Vec<&'static str> = vec![];
    let mut at = 0;
    let var = |name: &'static str, c: &mut Vec<&'static str>, at: &mut usize| { let n = varint_len(b, *at); for _ in 0..n { c.push(name); } *at += n; };
    var("version", &mut c, &mut at);
    for _ in 0..4 { var("argon2_config", &mut c, &mut at); }
    for _ in 0..32 { c.push("salt"); } at += 32;
    for _ in 0..12 { c.push("nonce"); } at += 12;
    var("created_at", &mut c, &mut at); var("updated_at", &mut c, &mut at); var("encrypted_size", &mut c, &mut at);
    for _ in 0..16 { c.push("auth_tag_field"); } at += 16;
    var("data_len", &mut c, &mut at);
    let body = b.len() - at;
    for i in 0..body { c.push(if i + 16 >= body { "poly1305_tag" } else { "ciphertext" }); }
    c
}
fn coq_file(s: &EncryptedKeyStorage) -> String {
    let h = &s.header;
    format!("(mkFile {} [{}; {}; {}; {}] {} {} {} {} {} {} {})", h.version, h.argon2_config.memory_cost, h.argon2_config.time_cost,
        h.argon2_config.parallelism, h.argon2_config.hash_length, coq_bytes(&h.salt), coq_bytes(&h.nonce), h.created_at, h.updated_at,
        h.encrypted_size, coq_bytes(&h.auth_tag), coq_bytes(&s.encrypted_data))
}
struct TCase { p_right: u64, p: u64, id: u64, pl: Vec<(u64, u64)>, orig: Arc<Vec<u8>>, t: Tamper, class: String, parsed: Option<String>, res: R }

fn tamper_cases(rng: &mut Rng, base: &Path, thorough: bool, sum: &mut Summary) -> Vec<TCase> {
    let rt = tokio::runtime::Builder::new_current_thread().enable_all().build().unwrap();
    let dir = base.join("tamper");
    std::fs::create_dir_all(&dir).unwrap();
    let mut w = World::new(&dir, 0);
    let pr = 1u64;
    let pl = vec![(1u64, 1u64), (3u64, 2u64)];
    rt.block_on(w.exec(&Op::Init { p: pr }));
    for (id, sd) in &pl { rt.block_on(w.exec(&Op::Store { id: *id, sd: *sd, p: pr })); }
    let orig = Arc::new(std::fs::read(&w.file).expect("store file"));
    #[cfg(unix)]
    {
        use std::os::unix::fs::PermissionsExt;
        if let Ok(m) = std::fs::metadata(&w.file) { sum.notes.push(format!("store file mode as created by the library: {:o}", m.permissions().mode() & 0o7777)); }
    }
    let cls = classes(&orig);
    sum.add("store_file_bytes", orig.len() as u64);
    let mut ts: Vec<(Tamper, String)> = vec![];
    if thorough {
        for i in 0..orig.len() {
            ts.push((Tamper::Set(i, orig[i] ^ 0x01), cls[i].into()));
            ts.push((Tamper::Set(i, orig[i] ^ 0x80), cls[i].into()));
            if rng.chance(1, 4) { ts.push((Tamper::Set(i, rng.next() as u8 | 1).clone(), cls[i].into())); }
        }
        for n in 0..orig.len() { if n % 7 == 0 || n + 20 > orig.len() { ts.push((Tamper::Trunc(n), "truncate".into())); } }
    } else {
        // every byte class at least twice, every header varint byte, ends of the arrays
        let mut by: BTreeMap<&str, Vec<usize>> = BTreeMap::new();
        for (i, c) in cls.iter().enumerate() { by.entry(c).or_default().push(i); }
        for (c, idxs) in &by {
            let mut pick: Vec<usize> = vec![idxs[0], *idxs.last().unwrap()];
            if idxs.len() <= 6 { pick = idxs.clone(); }
            pick.push(*rng.pick(idxs));
            pick.sort(); pick.dedup();
            for i in pick {
                // one change that keeps the varint framing (low seven bits), one that breaks it (bit 7)
                ts.push((Tamper::Set(i, orig[i] ^ (1 << rng.below(7))), c.to_string()));
                if matches!(*c, "version" | "argon2_config" | "created_at" | "updated_at" | "encrypted_size" | "data_len") { ts.push((Tamper::Set(i, orig[i] ^ 0x80), c.to_string())); }
                if *c == "version" { for v in [0u8, 2, 0x7f] { ts.push((Tamper::Set(i, v), c.to_string())); } }
            }
        }
        for n in [0usize, 1, 40, orig.len() - 17, orig.len() - 1] { ts.push((Tamper::Trunc(n), "truncate".into())); }
    }
    ts.push((Tamper::Append(0), "append".into()));
    ts.push((Tamper::Append(0xff), "append".into()));
    // the undamaged file, as the baseline (Set to the same value)
    ts.push((Tamper::Set(0, orig[0]), "unchanged".into()));
    // run them, a few threads at a time
    let results: Mutex<Vec<Option<TCase>>> = Mutex::new((0..ts.len()).map(|_| None).collect());
    let next = Mutex::new(0usize);
    let pl2 = pl.clone();
    std::thread::scope(|sc| {
        for _ in 0..6 {
            sc.spawn(|| {
                let rt = tokio::runtime::Builder::new_current_thread().enable_all().build().unwrap();
                loop {
                    let i = { let mut g = next.lock().unwrap(); let i = *g; *g += 1; i };
                    if i >= ts.len() { break; }
                    let (t, class) = &ts[i];
                    let bytes = apply(t, &orig);
                    let d = dir.join(format!("t{}", i));
                    std::fs::create_dir_all(&d).unwrap();
                    let f = d.join("keys.enc");
                    std::fs::write(&f, &bytes).unwrap();
                    let parsed = postcard::from_bytes::<EncryptedKeyStorage>(&bytes).ok().map(|s| coq_file(&s));
                    // mostly the right password; every 5th case a wrong one
                    let p = if i % 5 == 4 { 5 } else { pr };
                    let id = if i % 3 == 2 { 3 } else { 1 };
                    let mgr = EncryptedKeyStorageManager::new(&f, SecurityLevel::Fast).expect("manager");
                    let res = match rt.block_on(mgr.retrieve_master_seed(&id_text(id), &secure(p).unwrap())) {
                        Ok(ms) => R::Seed(seed_tok(ms.seed_material(), SEED_TOKENS)),
                        Err(_) => R::Err,
                    };
                    std::fs::remove_dir_all(&d).ok();
                    results.lock().unwrap()[i] = Some(TCase { p_right: pr, p, id, pl: pl2.clone(), orig: orig.clone(), t: t.clone(), class: class.clone(), parsed, res });
                }
            });
        }
    });
    results.into_inner().unwrap().into_iter().flatten().collect()
}

fn main() {
    let args = Args::parse();
    install_trace_sink();
    install_hook();
    let thorough = args.thorough();
    let mut rng = Rng::new(args.seed);
    let mut sum = Summary::default();
    sum.rule = "histories: initialize, then up to 8 of store / retrieve / change_password / clear_cache / reopen / re-initialize on the real manager (SecurityLevel::Fast), passwords drawn from {current, previous, near misses, two unicode spellings, 64 KiB, weak, empty and oversized (unconstructible)}, 4 seed ids incl. the empty one; 9 scripted openings aimed at the cache; about half of the histories also crash inside one file update (before / torn tmp / tmp written / renamed: directory copied from inside encrypt_and_store) and are reopened and probed. Non-trivial = at least one seed returned and one refusal; distinct = different (ops, verdicts). tamper: the real store file with one byte changed (each byte class in quick, every byte twice in thorough), truncated, extended; distinct = different (byte class, parse outcome, verdict)".into();
    let base = tempfile::Builder::new().prefix("c18-").tempdir().expect("tempdir");

    // policy oracle: which pool passwords the real validate_password / SecureString accept
    let probe = EncryptedKeyStorageManager::new(base.path().join("probe").join("k.enc"), SecurityLevel::Fast).expect("manager");
    let weak: Vec<u64> = PW_TOKENS.iter().copied().filter(|t| match secure(*t) {
        None => true,
        Some(s) => !probe.validate_password(&s).map(|v| v.valid).unwrap_or(false),
    }).collect();
    sum.notes.push(format!("password tokens refused by validate_password or by SecureString: {:?}", weak));

    // ---- histories
    let nplans: u64 = if thorough { 600 } else { 44 };
    let plans: Vec<Plan> = (0..nplans).map(|i| { let mut r = rng.fork(); plan(&mut r, i, thorough) }).collect();
    let results: Mutex<Vec<Option<(Vec<Hist>, Vec<(String, Value)>)>>> = Mutex::new((0..plans.len()).map(|_| None).collect());
    let next = Mutex::new(0usize);
    std::thread::scope(|sc| {
        for _ in 0..6 {
            sc.spawn(|| loop {
                let i = { let mut g = next.lock().unwrap(); let i = *g; *g += 1; i };
                if i >= plans.len() { break; }
                let d = base.path().join(format!("h{}", i));
                let r = run_plan(&plans[i], &d);
                std::fs::remove_dir_all(&d).ok();
                results.lock().unwrap()[i] = Some(r);
            });
        }
    });
    let mut w = CaseWriter::new(&args.out, "cases_c18h", HEADER, "hcase", "check_hist", "prop_hist", 60);
    let mut id = 0u64;
    let mut seen = HashSet::new();
    let weak_coq = coq_list(weak.iter().map(|x| x.to_string()));
    for r in results.into_inner().unwrap().into_iter().flatten() {
        let (hists, viol) = r;
        let first = id;
        for h in hists {
            let term = format!("({}, {}, {}, {})", h.lvl0, weak_coq, coq_list(h.exs.iter().map(coq_op)), coq_list(h.exs.iter().map(|e| coq_res(&e.res))));
            w.push(id, term);
            let nseed = h.exs.iter().filter(|e| matches!(e.res, R::Seed(_))).count();
            let nerr = h.exs.iter().filter(|e| e.res == R::Err).count();
            let key = format!("{:?}", h.exs.iter().map(|e| (format!("{:?}{:?}", e.op, e.crash), format!("{:?}", e.res))).collect::<Vec<_>>());
            if nseed > 0 && nerr > 0 && seen.insert(key) { sum.distinct_nontrivial += 1; }
            sum.evaluations += 1;
            sum.count(&format!("history:{}", if h.kind.contains("crash") { "with-crash" } else if h.kind.starts_with("script") { "scripted" } else { h.kind.as_str() }));
            for e in &h.exs {
                sum.count(&format!("op:{}", match (&e.op, e.crash) { (_, Some(c)) => format!("crash-{:?}", c).to_lowercase(), (Op::Init { .. }, _) => "initialize".into(), (Op::Store { .. }, _) => "store".into(),
                    (Op::Retrieve { .. }, _) => "retrieve".into(), (Op::Change { .. }, _) => "change_password".into(), (Op::Clear, _) => "clear_cache".into(), (Op::Reopen { .. }, _) => "reopen".into() }));
                if let Op::Retrieve { .. } = e.op { sum.count(&format!("retrieve:{}", if e.res == R::Err { "refused" } else { "seed" })); }
                if let R::Seed(UNKNOWN_SEED) = e.res { sum.violation(id, "retrieve returned key material that was never stored", &[], json!({})); }
            }
            sum.case(id, json!({"kind": h.kind, "tags": h.tags, "level": h.lvl0, "passwords_refused_by_policy": weak,
                "history": h.exs.iter().map(json_ex).collect::<Vec<_>>()}));
            id += 1;
        }
        for (what, detail) in viol { sum.violation(first, &what, &[], detail); }
    }
    w.flush();

    // ---- tamper
    let tcs = tamper_cases(&mut rng, base.path(), thorough, &mut sum);
    let mut wt = CaseWriter::new(&args.out, "cases_c18t", HEADER, "tcase", "check_tamper", "prop_tamper", 40);
    let mut tid = 1_000_000u64;
    for c in tcs {
        let tam = match &c.t { Tamper::Set(i, b) => format!("TSet {} {}", i, b), Tamper::Trunc(n) => format!("TTrunc {}", n), Tamper::Append(b) => format!("TAppend {}", b) };
        let term = format!("(0, {}, {}, {}, {}, {}, {}, {}, {})", c.p_right, c.p, c.id,
            coq_list(c.pl.iter().map(|(a, b)| format!("({}, {})", a, b))), coq_bytes(&c.orig), tam,
            coq_opt(c.parsed.clone()), coq_res(&c.res));
        wt.push(tid, term);
        let want = c.pl.iter().find(|(i, _)| *i == c.id).map(|(_, s)| *s);
        if let R::Seed(s) = c.res {
            if Some(s) != want { sum.violation(tid, "damaged store file opened to different key material", &[], json!({"tamper": tam, "class": c.class})); }
        }
        let key = format!("{}|{}|{:?}", c.class, c.parsed.is_some(), c.res);
        if seen.insert(key) { sum.distinct_nontrivial += 1; }
        sum.evaluations += 1;
        sum.count(&format!("tamper:{}:{}", c.class, match c.res { R::Err => "refused", _ => "seed" }));
        sum.case(tid, json!({"kind": "tamper", "tamper": tam, "byte_class": c.class, "password": c.p, "right_password": c.p_right, "id": c.id,
            "postcard_parse": if c.parsed.is_some() { "ok" } else { "error" }, "result": coq_res(&c.res)}));
        tid += 1;
    }
    wt.flush();
    hook::set_keystore_crash_hook(None);
    sum.write(&args.out);
    // base (TempDir) is removed on drop
}
