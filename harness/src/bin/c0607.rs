//! C06 / C07 correspondence: the real PersistentStateManager vs Model/Wal.v.
//!   --mode c06 : crash points (labelled hooks + byte truncation of the last record),
//!                rotation, checkpoints, repeated crash/reopen cycles
//!   --mode c07 : damaged directories (flips, truncations, duplicated / transplanted /
//!                reordered records, garbage length prefixes, junk, snapshot damage),
//!                peak allocation during recovery
use saorsa_core::persistent_state::*;
use serde_json::json;
use std::alloc::{GlobalAlloc, Layout, System};
use std::collections::{BTreeMap, BTreeSet, HashMap};
use std::path::{Path, PathBuf};
use std::sync::atomic::{AtomicUsize, Ordering};
use std::sync::{Arc, Mutex};
use std::time::Duration;
use vh::*;

// ---------------------------------------------------------------- counting allocator
struct Counting;
static CUR: AtomicUsize = AtomicUsize::new(0);
static PEAK: AtomicUsize = AtomicUsize::new(0);
static BIGGEST: AtomicUsize = AtomicUsize::new(0);
unsafe impl GlobalAlloc for Counting {
    unsafe fn alloc(&self, l: Layout) -> *mut u8 {
        let p = System.alloc(l);
        if !p.is_null() { note_alloc(l.size()); }
        p
    }
    unsafe fn alloc_zeroed(&self, l: Layout) -> *mut u8 {
        let p = System.alloc_zeroed(l);
        if !p.is_null() { note_alloc(l.size()); }
        p
    }
    unsafe fn dealloc(&self, p: *mut u8, l: Layout) {
        CUR.fetch_sub(l.size(), Ordering::Relaxed);
        System.dealloc(p, l)
    }
    unsafe fn realloc(&self, p: *mut u8, l: Layout, new: usize) -> *mut u8 {
        let q = System.realloc(p, l, new);
        if !q.is_null() {
            CUR.fetch_sub(l.size(), Ordering::Relaxed);
            note_alloc(new);
        }
        q
    }
}
fn note_alloc(n: usize) {
    let c = CUR.fetch_add(n, Ordering::Relaxed) + n;
    PEAK.fetch_max(c, Ordering::Relaxed);
    BIGGEST.fetch_max(n, Ordering::Relaxed);
}
#[global_allocator]
static A: Counting = Counting;

// ---------------------------------------------------------------- SHA-256 / HMAC (independent of the library)
fn sha256(data: &[u8]) -> [u8; 32] {
    const K: [u32; 64] = [
        0x428a2f98, 0x71374491, 0xb5c0fbcf, 0xe9b5dba5, 0x3956c25b, 0x59f111f1, 0x923f82a4, 0xab1c5ed5, 0xd807aa98, 0x12835b01,
        0x243185be, 0x550c7dc3, 0x72be5d74, 0x80deb1fe, 0x9bdc06a7, 0xc19bf174, 0xe49b69c1, 0xefbe4786, 0x0fc19dc6, 0x240ca1cc,
        0x2de92c6f, 0x4a7484aa, 0x5cb0a9dc, 0x76f988da, 0x983e5152, 0xa831c66d, 0xb00327c8, 0xbf597fc7, 0xc6e00bf3, 0xd5a79147,
        0x06ca6351, 0x14292967, 0x27b70a85, 0x2e1b2138, 0x4d2c6dfc, 0x53380d13, 0x650a7354, 0x766a0abb, 0x81c2c92e, 0x92722c85,
        0xa2bfe8a1, 0xa81a664b, 0xc24b8b70, 0xc76c51a3, 0xd192e819, 0xd6990624, 0xf40e3585, 0x106aa070, 0x19a4c116, 0x1e376c08,
        0x2748774c, 0x34b0bcb5, 0x391c0cb3, 0x4ed8aa4a, 0x5b9cca4f, 0x682e6ff3, 0x748f82ee, 0x78a5636f, 0x84c87814, 0x8cc70208,
        0x90befffa, 0xa4506ceb, 0xbef9a3f7, 0xc67178f2,
    ];
    let mut h: [u32; 8] = [0x6a09e667, 0xbb67ae85, 0x3c6ef372, 0xa54ff53a, 0x510e527f, 0x9b05688c, 0x1f83d9ab, 0x5be0cd19];
    let mut m = data.to_vec();
    let bitlen = (data.len() as u64) * 8;
    m.push(0x80);
    while m.len() % 64 != 56 { m.push(0); }
    m.extend_from_slice(&bitlen.to_be_bytes());
    for chunk in m.chunks(64) {
        let mut w = [0u32; 64];
        for i in 0..16 { w[i] = u32::from_be_bytes([chunk[4 * i], chunk[4 * i + 1], chunk[4 * i + 2], chunk[4 * i + 3]]); }
        for i in 16..64 {
            let s0 = w[i - 15].rotate_right(7) ^ w[i - 15].rotate_right(18) ^ (w[i - 15] >> 3);
            let s1 = w[i - 2].rotate_right(17) ^ w[i - 2].rotate_right(19) ^ (w[i - 2] >> 10);
            w[i] = w[i - 16].wrapping_add(s0).wrapping_add(w[i - 7]).wrapping_add(s1);
        }
        let mut v = h;
        for i in 0..64 {
            let s1 = v[4].rotate_right(6) ^ v[4].rotate_right(11) ^ v[4].rotate_right(25);
            let ch = (v[4] & v[5]) ^ (!v[4] & v[6]);
            let t1 = v[7].wrapping_add(s1).wrapping_add(ch).wrapping_add(K[i]).wrapping_add(w[i]);
            let s0 = v[0].rotate_right(2) ^ v[0].rotate_right(13) ^ v[0].rotate_right(22);
            let maj = (v[0] & v[1]) ^ (v[0] & v[2]) ^ (v[1] & v[2]);
            let t2 = s0.wrapping_add(maj);
            v = [t1.wrapping_add(t2), v[0], v[1], v[2], v[3].wrapping_add(t1), v[4], v[5], v[6]];
        }
        for i in 0..8 { h[i] = h[i].wrapping_add(v[i]); }
    }
    let mut out = [0u8; 32];
    for i in 0..8 { out[4 * i..4 * i + 4].copy_from_slice(&h[i].to_be_bytes()); }
    out
}
fn hmac_sha256(key: &[u8], msg: &[u8]) -> [u8; 32] {
    let mut k = [0u8; 64];
    if key.len() > 64 { k[..32].copy_from_slice(&sha256(key)); } else { k[..key.len()].copy_from_slice(key); }
    let mut inner: Vec<u8> = k.iter().map(|b| b ^ 0x36).collect();
    inner.extend_from_slice(msg);
    let ih = sha256(&inner);
    let mut outer: Vec<u8> = k.iter().map(|b| b ^ 0x5c).collect();
    outer.extend_from_slice(&ih);
    sha256(&outer)
}

// ---------------------------------------------------------------- model-side encodings
type Mgr = PersistentStateManager<Vec<u8>>;
type Change = (String, Option<Vec<u8>>);

#[derive(Clone, Debug)]
enum Op {
    Upsert(u64, String, Vec<u8>),
    Delete(u64, String),
    Batch(u64, Vec<Change>),
    BatchFail,
    Checkpoint(u64),
}
/// a byte string as one little-endian numeral: (B len value), far cheaper for Coq to parse than a list of numerals
fn cb(b: &[u8]) -> String {
    if b.is_empty() { return "[]".into(); }
    let le = |c: &[u8]| { let rev: Vec<u8> = c.iter().rev().cloned().collect(); n_of_be(&rev) };
    if b.len() <= 8 { return format!("(B {}%nat {})", b.len(), le(b)); }
    let full = b.len() / 8 * 8;
    let chunks: Vec<String> = b[..full].chunks(8).map(|c| le(c)).collect();
    if full == b.len() { format!("(B8 [{}])", chunks.join(";")) }
    else { format!("(B8 [{}] ++ B {}%nat {})", chunks.join(";"), b.len() - full, le(&b[full..])) }
}
fn pc(v: &[u8]) -> Vec<u8> { postcard::to_stdvec(&v.to_vec()).unwrap() }
fn coq_change(c: &Change) -> String {
    format!("({}, {})", cb(c.0.as_bytes()), coq_opt(c.1.as_ref().map(|v| cb(&pc(v)))))
}
fn coq_op(o: &Op) -> String {
    match o {
        Op::Upsert(ts, k, v) => format!("OUpsert {} {} {}", ts, cb(k.as_bytes()), cb(&pc(v))),
        Op::Delete(ts, k) => format!("ODelete {} {}", ts, cb(k.as_bytes())),
        Op::Batch(ts, cs) => format!("OBatch {} {}", ts, coq_list(cs.iter().map(coq_change))),
        Op::BatchFail => "OBatchFail".into(),
        Op::Checkpoint(ts) => format!("OCheckpoint {}", ts),
    }
}
fn json_op(o: &Op) -> serde_json::Value {
    match o {
        Op::Upsert(_, k, v) => json!({"upsert": [k, hex::encode(v)]}),
        Op::Delete(_, k) => json!({"delete": k}),
        Op::Batch(_, cs) => json!({"batch": cs.iter().map(|(k, v)| json!([k, v.as_ref().map(hex::encode)])).collect::<Vec<_>>()}),
        Op::BatchFail => json!("batch_fail"),
        Op::Checkpoint(ts) => json!({"checkpoint": ts}),
    }
}

#[derive(Clone, Debug, Default, PartialEq)]
struct Obs {
    listing: Vec<(u8, u64, u64)>,
    state: Vec<(Vec<u8>, Vec<u8>)>,
    next: u64,
    recovered: u64,
    failed: u64,
    snaps: u64,
    wals: u64,
    events: Vec<&'static str>,
}
fn coq_state(st: &[(Vec<u8>, Vec<u8>)]) -> String {
    coq_list(st.iter().map(|(k, v)| format!("({}, {})", cb(k), cb(v))))
}
fn coq_stats(o: &Obs) -> String {
    format!("mkStats {} {} {} {} {}", o.recovered, o.failed, o.snaps, o.wals, coq_list(o.events.iter().map(|e| e.to_string())))
}
fn coq_obs(o: &Obs) -> String {
    format!("({}, {}, {}, {})", coq_list(o.listing.iter().map(|(k, n, s)| format!("({}, {}, {})", k, n, s))), coq_state(&o.state), o.next, coq_stats(o))
}
fn json_obs(o: &Obs) -> serde_json::Value {
    json!({"listing": o.listing, "state": o.state.iter().map(|(k, v)| json!([String::from_utf8_lossy(k), hex::encode(v)])).collect::<Vec<_>>(),
           "next_txid": o.next, "entries_recovered": o.recovered, "entries_failed": o.failed, "snapshots": o.snaps, "wal_files": o.wals, "events": o.events})
}

// ---------------------------------------------------------------- directory helpers
fn classify(name: &str) -> Option<(u8, u64)> {
    if name == "state.wal" { return Some((0, 0)); }
    if let Some(n) = name.strip_prefix("wal.").and_then(|r| r.strip_suffix(".wal")) { return n.parse().ok().map(|n| (1, n)); }
    if let Some(n) = name.strip_prefix("snapshot.").and_then(|r| r.strip_suffix(".snap")) { return n.parse().ok().map(|n| (2, n)); }
    if let Some(n) = name.strip_prefix("snapshot.").and_then(|r| r.strip_suffix(".tmp")) { return n.parse().ok().map(|n| (3, n)); }
    None
}
const IGNORED: [&str; 3] = [".state.key", ".state.key.tmp", ".state.lock"];
fn listing(dir: &Path) -> (Vec<(u8, u64, u64)>, Vec<String>) {
    let mut v = vec![]; let mut unknown = vec![];
    if let Ok(rd) = std::fs::read_dir(dir) {
        for e in rd.flatten() {
            let name = e.file_name().to_string_lossy().to_string();
            if IGNORED.contains(&name.as_str()) { continue; }
            match classify(&name) {
                Some((k, n)) => v.push((k, n, e.metadata().map(|m| m.len()).unwrap_or(0))),
                None => unknown.push(name),
            }
        }
    }
    v.sort();
    (v, unknown)
}
fn copy_dir(src: &Path, dst: &Path) {
    let _ = std::fs::remove_dir_all(dst);
    std::fs::create_dir_all(dst).unwrap();
    if let Ok(rd) = std::fs::read_dir(src) {
        for e in rd.flatten() {
            if e.file_type().map(|t| t.is_file()).unwrap_or(false) {
                let _ = std::fs::copy(e.path(), dst.join(e.file_name()));
            }
        }
    }
}
fn frames_of(bytes: &[u8]) -> (Vec<(usize, usize)>, usize) {
    // (offset of length prefix, body length) of every complete frame; end of the last complete frame
    let mut v = vec![]; let mut pos = 0usize;
    while bytes.len() - pos >= 4 {
        let n = u32::from_le_bytes([bytes[pos], bytes[pos + 1], bytes[pos + 2], bytes[pos + 3]]) as usize;
        if n > bytes.len() - pos - 4 { break; }
        v.push((pos, n));
        pos += 4 + n;
    }
    (v, pos)
}
fn entry_fields(e: &WalEntry) -> Vec<u8> {
    let mut f = vec![e.version];
    f.extend_from_slice(&e.transaction_id.to_le_bytes());
    f.extend_from_slice(&e.timestamp.to_le_bytes());
    f.push(e.transaction_type as u8);
    f.extend_from_slice(&(e.key.len() as u64).to_le_bytes());
    f.extend_from_slice(e.key.as_bytes());
    match &e.value {
        None => f.push(0),
        Some(v) => { f.push(1); f.extend_from_slice(&(v.len() as u64).to_le_bytes()); f.extend_from_slice(v); }
    }
    f
}
fn snap_parts(bytes: &[u8]) -> Option<(SnapshotHeader, Vec<u8>, Vec<u8>)> {
    if bytes.len() < 4 { return None; }
    let n = u32::from_le_bytes([bytes[0], bytes[1], bytes[2], bytes[3]]) as usize;
    if n > bytes.len() - 4 { return None; }
    let h: SnapshotHeader = postcard::from_bytes(&bytes[4..4 + n]).ok()?;
    let data = bytes[4 + n..].to_vec();
    let mut f = vec![h.version];
    f.extend_from_slice(&h.created_at.to_le_bytes());
    f.extend_from_slice(&h.last_transaction_id.to_le_bytes());
    f.extend_from_slice(&h.entry_count.to_le_bytes());
    f.extend_from_slice(&h.total_size.to_le_bytes());
    f.extend_from_slice(&data);
    Some((h, data, f))
}
fn newest_snapshot_ts(dir: &Path) -> u64 {
    listing(dir).0.iter().filter(|(k, _, _)| *k == 2).map(|(_, n, _)| *n).max().unwrap_or(0)
}

/// recovery modes the library offers; the property holds for every one of them (the model has no mode),
/// so every (re)open picks one in turn
static MODE_TICK: std::sync::atomic::AtomicU64 = std::sync::atomic::AtomicU64::new(0);
fn next_mode() -> RecoveryMode {
    match MODE_TICK.fetch_add(1, std::sync::atomic::Ordering::Relaxed) % 4 { 0 => RecoveryMode::Standard, 1 => RecoveryMode::Fast, 2 => RecoveryMode::Full, _ => RecoveryMode::Repair }
}

fn config(dir: &Path, flush: u64) -> StateConfig {
    StateConfig {
        state_dir: dir.to_path_buf(),
        flush_strategy: match flush % 4 { 0 => FlushStrategy::Always, 1 => FlushStrategy::Adaptive, 2 => FlushStrategy::Periodic(Duration::from_secs(3600)), _ => FlushStrategy::BufferSize(1 << 20) },
        checkpoint_interval: Duration::from_secs(86_400),
        enable_compression: false,
        recovery_mode: next_mode(),
        max_state_size: 1 << 30,
    }
}

/// Open a fresh manager on `dir` (the directory is modified: use a copy) and observe it.
async fn observe(dir: &Path, listing_before: Vec<(u8, u64, u64)>, sum: &mut Summary, what: &serde_json::Value) -> Option<Obs> {
    let mgr = match Mgr::new(config(dir, 0)).await {
        Ok(m) => m,
        Err(e) => { sum.violation(0, "opening the state directory fails", &[], json!({"at": what, "error": e.to_string()})); return None; }
    };
    let all = mgr.get_all().ok()?;
    let stats = mgr.recovery_stats().ok()?;
    if dir.join(".state.lock").exists() {
        sum.violation(0, "lock file left behind after a successful open", &[], what.clone());
    }
    let mut state: Vec<(Vec<u8>, Vec<u8>)> = all.iter().map(|(k, v)| (k.as_bytes().to_vec(), pc(v))).collect();
    state.sort();
    let mut events = vec![];
    for ev in &stats.corruption_events {
        let is_snap = ev.file_path.extension().and_then(|s| s.to_str()) == Some("snap");
        events.push(if is_snap { "EvSnapBad" } else if ev.corruption_type == CorruptionType::IncompleteWrite { "EvTorn" } else { "EvSkipped" });
    }
    // verify_integrity must not change the live state
    if let Ok(_rep) = mgr.verify_integrity().await {
        let again = mgr.get_all().ok()?;
        if again != all {
            sum.violation(0, "verify_integrity() changed the live state", &[], what.clone());
        }
    }
    // next transaction id: stamp one more record and read it back
    let _ = mgr.upsert("\u{1}probe".to_string(), vec![]).await;
    let wal = std::fs::read(dir.join("state.wal")).unwrap_or_default();
    let (fr, _) = frames_of(&wal);
    let next = fr.last().and_then(|(p, n)| postcard::from_bytes::<WalEntry>(&wal[p + 4..p + 4 + n]).ok()).map(|e| e.transaction_id).unwrap_or(0);
    drop(mgr);
    Some(Obs { listing: listing_before, state, next, recovered: stats.entries_recovered, failed: stats.entries_failed,
               snaps: stats.snapshots_processed, wals: stats.wal_files_processed, events })
}

// ---------------------------------------------------------------- crash-point collector
struct Point { i: usize, a: usize, b: usize, dir: PathBuf, label: String }
struct Collector {
    src: PathBuf, scratch: PathBuf, op: usize, a: usize, b: usize, record: bool, trunc: Vec<usize>, all_trunc: bool,
    wal_begin: u64, points: Vec<Point>, n: usize, labels: BTreeMap<String, u64>, opening: bool,
}
static COLL: Mutex<Option<Collector>> = Mutex::new(None);

fn on_crash_point(label: &'static str) {
    let mut g = COLL.lock().unwrap();
    let Some(c) = g.as_mut() else { return };
    *c.labels.entry(label.to_string()).or_insert(0) += 1;
    match label {
        "wal.write.begin" => { c.b = 0; c.wal_begin = std::fs::metadata(c.src.join("state.wal")).map(|m| m.len()).unwrap_or(0); }
        "wal.write.after_size" => c.b = 4,
        "wal.write.after_data" => { c.a += 1; c.b = 0; }
        "wal.rotate.after_rename" | "wal.rotate.after_create" | "checkpoint.tmp_created" | "checkpoint.after_header"
        | "checkpoint.after_data" | "checkpoint.after_rename" | "cleanup.wal.removed" | "cleanup.snapshot.removed" => c.a += 1,
        _ => {}
    }
    if !c.record { return; }
    let d = c.scratch.join(format!("p{}", c.n)); c.n += 1;
    copy_dir(&c.src, &d);
    c.points.push(Point { i: c.op, a: c.a, b: c.b, dir: d, label: label.to_string() });
    if label == "wal.write.after_data" && !c.opening {
        let cur = std::fs::metadata(c.src.join("state.wal")).map(|m| m.len()).unwrap_or(0);
        let flen = (cur - c.wal_begin) as usize;
        let offs: Vec<usize> = if c.all_trunc { (1..flen).collect() } else { c.trunc.iter().map(|t| match *t { 0 => flen - 1, 9 => flen / 2, x => x.min(flen - 1) }).collect::<BTreeSet<_>>().into_iter().collect() };
        for t in offs {
            if t == 0 || t >= flen { continue; }
            let d = c.scratch.join(format!("p{}", c.n)); c.n += 1;
            copy_dir(&c.src, &d);
            let f = std::fs::OpenOptions::new().write(true).open(d.join("state.wal")).unwrap();
            f.set_len(c.wal_begin + t as u64).unwrap();
            c.points.push(Point { i: c.op, a: c.a - 1, b: t, dir: d, label: format!("truncate+{}", t) });
        }
    }
}

// ---------------------------------------------------------------- operation generator
fn gen_key(rng: &mut Rng, nkeys: u64) -> String {
    match rng.below(48) {
        0 | 1 => String::new(),
        2 | 3 => "k\u{2}".to_string(),
        4 | 5 => "é".to_string(),
        6 => "k".repeat(130),
        _ => format!("k{}", rng.below(nkeys)),
    }
}
fn gen_val(rng: &mut Rng) -> Vec<u8> {
    match rng.below(36) { 0..=2 => vec![], 3 => rng.bytes(200), 4..=6 => vec![1, 7], _ => { let n = rng.range(1, 3) as usize; rng.bytes(n) } }
}
fn gen_changes(rng: &mut Rng, nkeys: u64) -> Vec<Change> {
    let n = rng.range(0, 4);
    (0..n).map(|_| (gen_key(rng, nkeys), if rng.chance(1, 3) { None } else { Some(gen_val(rng)) })).collect()
}

async fn apply_op(mgr: &Mgr, dir: &Path, rng: &mut Rng, kind: u64, nkeys: u64) -> Option<Op> {
    let ts = now_secs();
    Some(match kind {
        0..=5 => { let (k, v) = (gen_key(rng, nkeys), gen_val(rng)); mgr.upsert(k.clone(), v.clone()).await.ok()?; Op::Upsert(ts, k, v) }
        6..=7 => { let k = gen_key(rng, nkeys); mgr.delete(&k).await.ok()?; Op::Delete(ts, k) }
        8 => {
            let cs = gen_changes(rng, nkeys); let cs2 = cs.clone();
            mgr.batch_update(move |m: &mut HashMap<String, Vec<u8>>| {
                for (k, v) in cs2 { match v { Some(v) => { m.insert(k, v); } None => { m.remove(&k); } } }
                Ok(())
            }).await.ok()?;
            Op::Batch(ts, cs)
        }
        9 => {
            let cs = gen_changes(rng, nkeys);
            let r = mgr.batch_update(move |m: &mut HashMap<String, Vec<u8>>| {
                for (k, v) in cs { match v { Some(v) => { m.insert(k, v); } None => { m.remove(&k); } } }
                Err(saorsa_core::P2PError::Storage(saorsa_core::error::StorageError::Database("rejected by caller".into())))
            }).await;
            if r.is_ok() { return None; }
            Op::BatchFail
        }
        _ => { mgr.checkpoint().await.ok()?; Op::Checkpoint(newest_snapshot_ts(dir)) }
    })
}

struct Cycle { ops: Vec<Op>, probes: Vec<(usize, usize, usize, Obs, String)>, next: (usize, usize, usize) }

/// One crash/reopen cycle on `dir`.  Returns the cycle and the directory the next cycle continues from.
async fn run_cycle(dir: &Path, scratch: &Path, rng: &mut Rng, sum: &mut Summary, plan: &Plan, cyc: usize, prev_state: &Option<Vec<(Vec<u8>, Vec<u8>)>>) -> Option<(Cycle, PathBuf)> {
    *COLL.lock().unwrap() = Some(Collector { src: dir.to_path_buf(), scratch: scratch.join(format!("c{}", cyc)), op: 0, a: 0, b: 0, record: true, trunc: vec![], all_trunc: false,
        wal_begin: 0, points: vec![], n: 0, labels: BTreeMap::new(), opening: true });
    let mgr = Mgr::new(config(dir, rng.below(4))).await.ok()?;
    // crash points inside the open (key creation, torn-tail repair): reopening must give what the
    // crash copy this cycle started from gave
    let open_points: Vec<Point> = { let mut g = COLL.lock().unwrap(); let c = g.as_mut().unwrap(); c.opening = false; c.record = false; std::mem::take(&mut c.points) };
    for p in open_points {
        let what = json!({"cycle": cyc, "during_open": p.label});
        let (ls, _) = listing(&p.dir);
        if let Some(o) = observe(&p.dir, ls, sum, &what).await {
            let want = prev_state.clone().unwrap_or_default();
            if o.state != want {
                sum.violation(0, "crash while opening (key creation / torn-tail repair): reopening does not give the state the directory held", &[], json!({"at": what, "got": json_obs(&o)}));
            }
            sum.count("probe:during-open");
        }
        let _ = std::fs::remove_dir_all(&p.dir);
    }
    let mut ops = vec![];
    let mut i = 0usize;
    let mut nwrites = 0u64;
    while i < plan.nops {
        let kind = plan.kind(rng, i);
        if kind == 10 && plan.pause_ck { tokio::time::sleep(std::time::Duration::from_millis(1100)).await; }
        {
            let mut g = COLL.lock().unwrap(); let c = g.as_mut().unwrap();
            c.op = i; c.a = 0; c.b = 0;
            c.record = plan.record(i, nwrites);
            c.trunc = if c.record && plan.trunc { if plan.nops > 100 { vec![3, 0] } else { vec![1, 3, 5, 9, 0] } } else { vec![] };
            c.all_trunc = c.record && plan.all_trunc;
        }
        match apply_op(&mgr, dir, rng, kind, plan.nkeys).await {
            Some(op) => { if !matches!(op, Op::BatchFail | Op::Checkpoint(_)) { nwrites += 1; } sum.count(&format!("op:{}", match op { Op::Upsert(..) => "upsert", Op::Delete(..) => "delete", Op::Batch(..) => "batch", Op::BatchFail => "batch_fail", Op::Checkpoint(_) => "checkpoint" })); ops.push(op); i += 1; }
            None => { sum.violation(0, "operation returned an error", &[], json!({"cycle": cyc, "op_index": i, "kind": kind})); return None; }
        }
    }
    // clean stop after the last operation
    let (points, labels) = {
        let mut g = COLL.lock().unwrap(); let c = g.as_mut().unwrap();
        let d = c.scratch.join(format!("p{}", c.n)); c.n += 1;
        copy_dir(&c.src, &d);
        c.points.push(Point { i: plan.nops, a: 0, b: 0, dir: d, label: "clean-stop".into() });
        (std::mem::take(&mut c.points), std::mem::take(&mut c.labels))
    };
    *COLL.lock().unwrap() = None;
    drop(mgr);
    for (l, n) in labels { sum.add(&format!("label:{}", l), n); }
    // choose the point the next cycle continues from, then probe every copy
    let pick = match plan.next_pick { Some(f) => f(&points), None => rng.below(points.len() as u64) as usize };
    let next = (points[pick].i, points[pick].a, points[pick].b);
    let next_dir = scratch.join(format!("next{}", cyc));
    copy_dir(&points[pick].dir, &next_dir);
    let mut probes = vec![];
    let mut seen = BTreeSet::new();
    for p in &points {
        if !seen.insert((p.i, p.a, p.b)) { let _ = std::fs::remove_dir_all(&p.dir); continue; }
        let (ls, unknown) = listing(&p.dir);
        let what = json!({"cycle": cyc, "op_index": p.i, "actions_done": p.a, "bytes_of_next_append": p.b, "label": p.label});
        if !unknown.is_empty() { sum.violation(0, "unexpected file in the state directory", &[], json!({"at": what, "files": unknown})); }
        if let Some(o) = observe(&p.dir, ls, sum, &what).await {
            sum.count(&format!("probe:{}", if p.label.starts_with("truncate") { "byte-truncation" } else { p.label.as_str() }));
            probes.push((p.i, p.a, p.b, o, p.label.clone()));
        }
        let _ = std::fs::remove_dir_all(&p.dir);
    }
    let _ = std::fs::remove_dir_all(scratch.join(format!("c{}", cyc)));
    Some((Cycle { ops, probes, next }, next_dir))
}

struct Plan {
    nops: usize, nkeys: u64, trunc: bool, all_trunc: bool,
    /// wait for the wall clock to reach a new second before every checkpoint (snapshot names are per second)
    pause_ck: bool,
    kinds: Box<dyn Fn(&mut Rng, usize) -> u64>,
    rec: Box<dyn Fn(usize, u64) -> bool>,
    next_pick: Option<fn(&[Point]) -> usize>,
}
impl Plan {
    fn kind(&self, rng: &mut Rng, i: usize) -> u64 { (self.kinds)(rng, i) }
    fn record(&self, i: usize, nw: u64) -> bool { (self.rec)(i, nw) }
}

fn coq_cycle(c: &Cycle) -> String {
    format!("({}, {}, ({}, {}%nat, {}%nat))", coq_list(c.ops.iter().map(coq_op)),
        coq_list(c.probes.iter().map(|(i, a, b, o, _)| format!("({}, {}%nat, {}%nat, {})", i, a, b, coq_obs(o)))), c.next.0, c.next.1, c.next.2)
}
fn json_cycle(c: &Cycle) -> serde_json::Value {
    json!({"ops": c.ops.iter().map(json_op).collect::<Vec<_>>(), "continues_from": [c.next.0, c.next.1, c.next.2],
           "probes": c.probes.iter().map(|(i, a, b, o, l)| json!({"op_index": i, "actions_done": a, "bytes": b, "label": l, "observed": json_obs(o)})).collect::<Vec<_>>()})
}

const HEADER: &str = "From SV Require Import Lib.Base Model.Wal.\nLocal Open Scope N_scope.";

async fn mode_c06(args: &Args, sum: &mut Summary) {
    let mut rng = Rng::new(args.seed);
    let root = std::env::temp_dir().join(format!("vh-c06-{}-{}", std::process::id(), args.seed));
    let _ = std::fs::remove_dir_all(&root);
    saorsa_core::verif_hooks::set_crash_point_callback(Some(Arc::new(on_crash_point)));
    let mut w = CaseWriter::new(&args.out, "cases_c06", HEADER, "c06_case", "check_c06", "prop_c06", 2);
    let mut wbig = CaseWriter::new(&args.out, "cases_c06_rot", HEADER, "c06_case", "check_c06", "prop_c06", 1);
    let thorough = args.thorough();
    let nsmall = if thorough { 120 } else { 30 };
    let nbig = if thorough { 8 } else { 2 };
    let mut id = 0u64;
    let mut seen = std::collections::HashSet::new();
    for h in 0..(nsmall + nbig) {
        let big = h >= nsmall;
        let mut r = rng.fork();
        let scratch = root.join(format!("h{}", h));
        let mut dir = scratch.join("base"); std::fs::create_dir_all(&dir).unwrap();
        let ncycles = if big { 2 } else { r.range(1, 4) as usize };
        let mut cycles = vec![];
        let mut prev_state: Option<Vec<(Vec<u8>, Vec<u8>)>> = None;
        let mut ok = true;
        for cyc in 0..ncycles {
            let plan = if big {
                // force rotation: > MAX_WAL_ENTRIES writes (two rotations inside one second in variant 1),
                // then a checkpoint, a few more writes; probes only around the interesting steps
                // variant 3 (the second rotation history of the quick tier): a rotation, then FIVE checkpoints in five different
                // wall-clock seconds with writes in between, so that snapshot retention and log clean-up really delete something
                let variant = match (h - nsmall) % 4 { 1 => 3, 3 => 1, v => v };
                let n = match (variant, cyc) { (1, 0) => 2070, (_, 0) => 1040, _ => 8 };
                let slow = variant == 3 && cyc == 0;
                Plan { nops: if slow { n + 13 } else { n + 4 }, nkeys: 24, trunc: true, all_trunc: false, pause_ck: slow,
                    kinds: Box::new(move |rng, i| if i == n { 10 } else if slow && i > n && (i - n) % 3 == 0 { 10 } else if i == n + 2 && variant == 2 { 10 } else { match rng.below(10) { 0..=7 => 0, 8 => 6, _ => 8 } }),
                    rec: Box::new(move |i, nw| i < 2 || (nw % 1000 >= 998 || nw % 1000 <= 1) || i >= n), next_pick: Some(|p| p.len() - 1) }
            } else {
                let n = r.range(1, 14) as usize;
                let all_trunc = thorough && r.chance(1, 5);
                let ck = r.below(4);
                Plan { nops: n, nkeys: r.range(2, 6), trunc: true, all_trunc, pause_ck: false,
                    kinds: Box::new(move |rng, _| match rng.below(16) { 0..=7 => rng.below(6), 8..=10 => 6, 11..=12 => 8, 13 => 9, _ => if ck > 0 { 10 } else { 0 } }),
                    rec: Box::new(|_, _| true), next_pick: None }
            };
            match run_cycle(&dir, &scratch, &mut r, sum, &plan, cyc, &prev_state).await {
                Some((c, next_dir)) => {
                    prev_state = c.probes.iter().find(|p| (p.0, p.1, p.2) == c.next).map(|p| p.3.state.clone());
                    // acknowledged operations survive: direct check of the flush-always clause
                    cycles.push(c); dir = next_dir;
                }
                None => { ok = false; break; }
            }
        }
        let _ = std::fs::remove_dir_all(&scratch);
        if !ok || cycles.is_empty() { continue; }
        let term = coq_list(cycles.iter().map(coq_cycle));
        if big { wbig.push(id, term); } else { w.push(id, term); }
        let nprobes: usize = cycles.iter().map(|c| c.probes.len()).sum();
        sum.evaluations += nprobes as u64;
        sum.add("probes_total", nprobes as u64);
        sum.count(if big { "history:rotation" } else { "history:small" });
        sum.add("cycles_total", cycles.len() as u64);
        let key = format!("{:?}", cycles.iter().map(|c| (c.ops.iter().map(|o| json_op(o).to_string()).collect::<Vec<_>>(), c.next)).collect::<Vec<_>>());
        let torn = cycles.iter().any(|c| c.probes.iter().any(|p| p.3.events.contains(&"EvTorn")));
        if torn && seen.insert(key) { sum.distinct_nontrivial += 1; }
        let mut j = json!({"kind": if big { "rotation" } else { "small" }, "cycles": cycles.iter().map(json_cycle).collect::<Vec<_>>()});
        if big { // keep the replay description small
            j = json!({"kind": "rotation", "ops_per_cycle": cycles.iter().map(|c| c.ops.len()).collect::<Vec<_>>(),
                       "probes": cycles.iter().map(|c| c.probes.iter().map(|(i, a, b, o, l)| json!([i, a, b, l, o.state.len(), o.next, o.recovered, o.failed, o.listing])).collect::<Vec<_>>()).collect::<Vec<_>>()});
        }
        sum.case(id, j);
        id += 1;
    }
    w.flush(); wbig.flush();
    saorsa_core::verif_hooks::set_crash_point_callback(None);
    let _ = std::fs::remove_dir_all(&root);
    sum.rule = "histories of upsert/delete/batch/failed batch/checkpoint over 1-4 crash/reopen cycles from an empty directory; a probe = one copy of the directory taken at a labelled crash point (or the last record cut at a byte offset) reopened by a fresh manager; rotation histories issue >1000 (and >2000 within one second) writes. evaluations = probes; distinct_nontrivial = histories (ops and continuation point) with at least one torn-tail probe".into();
}

// ---------------------------------------------------------------- C07
struct Base { ops: Vec<Op>, dir: PathBuf, key: Vec<u8>, files: Vec<(u8, u64, Vec<u8>)>, frame_op: Vec<usize> }

async fn build_store(dir: &Path, rng: &mut Rng, nops: usize, with_ckpt: bool, nkeys: u64, shiftable: bool) -> Option<Base> {
    std::fs::create_dir_all(dir).ok()?;
    let mgr = Mgr::new(config(dir, 0)).await.ok()?;
    let mut ops = vec![];
    let ck_at = if with_ckpt { rng.below(nops as u64) as usize } else { usize::MAX };
    for i in 0..nops {
        let kind = if i == ck_at { 10 } else if shiftable && i % 3 == 0 { 100 } else { match rng.below(12) { 0..=6 => 0, 7..=8 => 6, 9..=10 => 8, _ => 0 } };
        if kind == 100 {
            // a record whose key/value boundary can be moved: key "k<n>\x02", one-byte value
            let k = format!("k{}\u{2}", rng.below(nkeys)); let v = vec![rng.below(256) as u8];
            mgr.upsert(k.clone(), v.clone()).await.ok()?;
            ops.push(Op::Upsert(0, k, v));
        } else {
            ops.push(apply_op(&mgr, dir, rng, kind, nkeys).await?);
        }
    }
    drop(mgr);
    let key = std::fs::read(dir.join(".state.key")).unwrap_or_default();
    let mut files = vec![];
    for (k, n, _) in listing(dir).0 {
        let name = match k { 0 => "state.wal".to_string(), 1 => format!("wal.{:020}.wal", n), 2 => format!("snapshot.{}.snap", n), _ => format!("snapshot.{}.tmp", n) };
        files.push((k, n, std::fs::read(dir.join(name)).ok()?));
    }
    // timestamps of the records as written; which operation produced each frame of state.wal
    let wal = files.iter().find(|f| f.0 == 0).map(|f| f.2.clone()).unwrap_or_default();
    let (fr, _) = frames_of(&wal);
    let mut frame_op = vec![]; let mut fi = 0; let mut ctr = 0u64;
    for (i, o) in ops.iter_mut().enumerate() {
        // every operation except a checkpoint consumes a transaction id
        if !matches!(o, Op::Checkpoint(_)) { ctr += 1; }
        let writes = match o { Op::Upsert(..) | Op::Delete(..) => true, Op::Batch(..) => true, _ => false };
        if !writes { continue; }
        if fi >= fr.len() { break; }
        let e: WalEntry = postcard::from_bytes(&wal[fr[fi].0 + 4..fr[fi].0 + 4 + fr[fi].1]).ok()?;
        // an empty batch writes nothing: match the record on its transaction id
        if e.transaction_id != ctr { continue; }
        match o { Op::Upsert(ts, ..) | Op::Delete(ts, ..) | Op::Batch(ts, ..) => *ts = e.timestamp, _ => {} }
        frame_op.push(i); fi += 1;
    }
    Some(Base { ops, dir: dir.to_path_buf(), key, files, frame_op })
}

fn file_name(k: u8, n: u64) -> String {
    match k { 0 => "state.wal".into(), 1 => format!("wal.{:020}.wal", n), 2 => format!("snapshot.{}.snap", n), _ => format!("snapshot.{}.tmp", n) }
}
fn coq_files(fs: &[(u8, u64, Vec<u8>)]) -> String {
    coq_list(fs.iter().map(|(k, n, b)| format!("({}, {}, {})", k, n, cb(b))))
}
fn table_for(key: &[u8], sets: &[&[(u8, u64, Vec<u8>)]]) -> Vec<(Vec<u8>, Vec<u8>)> {
    let mut t: BTreeMap<Vec<u8>, Vec<u8>> = BTreeMap::new();
    for fs in sets {
        for (k, _, b) in fs.iter() {
            if *k <= 1 {
                let (fr, _) = frames_of(b);
                for (p, n) in fr {
                    if let Ok(e) = postcard::from_bytes::<WalEntry>(&b[p + 4..p + 4 + n]) {
                        let f = entry_fields(&e);
                        let tag = hmac_sha256(key, &f).to_vec();
                        t.insert(f, tag);
                    }
                }
            } else if *k == 2 {
                if let Some((_, _, f)) = snap_parts(b) { let tag = hmac_sha256(key, &f).to_vec(); t.insert(f, tag); }
            }
        }
    }
    t.into_iter().collect()
}

struct Mutation { kind: String, files: Vec<(u8, u64, Vec<u8>)>, survivors: Option<Vec<usize>>, tags: Vec<&'static str>, alloc_bound_extra: usize }

fn all_ops(b: &Base) -> Vec<usize> { (0..b.ops.len()).collect() }
fn without(b: &Base, drop: &[usize]) -> Vec<usize> { (0..b.ops.len()).filter(|i| !drop.contains(i)).collect() }

fn mutations(b: &Base, other: &Base, rng: &mut Rng, per_kind: usize) -> Vec<Mutation> {
    let mut out = vec![];
    let wal_idx = b.files.iter().position(|f| f.0 == 0);
    let set_wal = |new: Vec<u8>| -> Vec<(u8, u64, Vec<u8>)> { let mut fs = b.files.clone(); if let Some(i) = wal_idx { fs[i].2 = new; } else { fs.push((0, 0, new)); } fs };
    let wal: Vec<u8> = wal_idx.map(|i| b.files[i].2.clone()).unwrap_or_default();
    let (fr, _) = frames_of(&wal);
    let has_snap = b.files.iter().any(|f| f.0 == 2);
    // the snapshot covers every operation before the checkpoint; state.wal still holds all of them (no rotation here)
    let nf = fr.len();
    out.push(Mutation { kind: "none".into(), files: b.files.clone(), survivors: Some(all_ops(b)), tags: vec![], alloc_bound_extra: 0 });
    for _ in 0..per_kind {
        if nf == 0 { break; }
        let j = rng.below(nf as u64) as usize; let (p, n) = fr[j];
        // 1 flip inside the body (framing intact): every region
        for off in [4usize, 5, 4 + n / 2, 4 + n - 33, 4 + n - 32, 4 + n - 1, 4 + rng.below(n as u64) as usize] {
            if off >= 4 + n { continue; }
            let mut w2 = wal.clone(); w2[p + off] ^= 1 << rng.below(8);
            let surv = if has_snap { None } else { Some(without(b, &[b.frame_op[j]])) };
            out.push(Mutation { kind: format!("flip-body@frame{}+{}", j, off), files: set_wal(w2), survivors: surv, tags: vec![], alloc_bound_extra: 0 });
        }
        // 2 flip inside the length prefix
        for off in 0..4usize {
            let mut w2 = wal.clone(); w2[p + off] ^= 1 << rng.below(8);
            out.push(Mutation { kind: format!("flip-len@frame{}+{}", j, off), files: set_wal(w2), survivors: None, tags: vec![], alloc_bound_extra: 0 });
        }
        // 3 truncation at and around the frame boundary
        for cutpos in [p, p + 1, p + 3, p + 4, p + 5, p + 4 + n - 1, p + 4 + n] {
            if cutpos > wal.len() { continue; }
            let w2 = wal[..cutpos].to_vec();
            let kept = frames_of(&w2).0.len();
            let surv = if has_snap { None } else { Some(b.frame_op[..kept].iter().cloned().collect::<Vec<_>>()) };
            // operations that write nothing (failed/empty batch, checkpoint) have no effect either way
            out.push(Mutation { kind: format!("truncate@{}", cutpos), files: set_wal(w2), survivors: surv, tags: vec![], alloc_bound_extra: 0 });
        }
        // 4 duplicated record (right after itself, and at the end)
        let fbytes = wal[p..p + 4 + n].to_vec();
        let mut w2 = wal.clone(); w2.splice(p + 4 + n..p + 4 + n, fbytes.clone());
        out.push(Mutation { kind: format!("duplicate-adjacent@frame{}", j), files: set_wal(w2), survivors: if has_snap { None } else { Some(all_ops(b)) }, tags: vec![], alloc_bound_extra: 0 });
        let mut w2 = wal.clone(); w2.extend_from_slice(&fbytes);
        out.push(Mutation { kind: format!("duplicate-at-end@frame{}", j), files: set_wal(w2), survivors: None, tags: vec![], alloc_bound_extra: 0 });
        // 5 two records swapped
        if nf >= 2 {
            let j2 = (j + 1) % nf; let (a, b2) = (j.min(j2), j.max(j2));
            let (pa, na) = fr[a]; let (pb, nb) = fr[b2];
            let mut w2 = wal[..pa].to_vec(); w2.extend_from_slice(&wal[pb..pb + 4 + nb]); w2.extend_from_slice(&wal[pa + 4 + na..pb]);
            w2.extend_from_slice(&wal[pa..pa + 4 + na]); w2.extend_from_slice(&wal[pb + 4 + nb..]);
            out.push(Mutation { kind: format!("swap@frame{}/{}", a, b2), files: set_wal(w2), survivors: None, tags: vec![], alloc_bound_extra: 0 });
        }
        // 6 record transplanted from another store (different key file)
        let owal: Vec<u8> = other.files.iter().find(|f| f.0 == 0).map(|f| f.2.clone()).unwrap_or_default();
        let (ofr, _) = frames_of(&owal);
        if !ofr.is_empty() {
            let (op, on) = ofr[rng.below(ofr.len() as u64) as usize];
            let mut w2 = wal.clone(); w2.splice(p..p, owal[op..op + 4 + on].iter().cloned());
            out.push(Mutation { kind: format!("transplant-record-before-frame{}", j), files: set_wal(w2), survivors: if has_snap { None } else { Some(all_ops(b)) }, tags: vec![], alloc_bound_extra: 0 });
            let mut w2 = wal.clone(); w2.extend_from_slice(&owal[op..op + 4 + on]);
            out.push(Mutation { kind: "transplant-record-at-end".into(), files: set_wal(w2), survivors: if has_snap { None } else { Some(all_ops(b)) }, tags: vec![], alloc_bound_extra: 0 });
        }
        // 7 garbage length prefixes (claiming up to 128 MiB) appended / inserted / alone
        for claim in [0x0800_0000u32, 0x0000_ffff, 0x0100_0000, wal.len() as u32, 1, 0] {
            let mut w2 = wal.clone(); w2.extend_from_slice(&claim.to_le_bytes());
            out.push(Mutation { kind: format!("append-length-prefix-{:#x}", claim), files: set_wal(w2), survivors: if has_snap { None } else { Some(all_ops(b)) }, tags: vec![], alloc_bound_extra: 0 });
        }
        let mut w2 = wal.clone(); w2.splice(p..p, 0x0800_0000u32.to_le_bytes());
        out.push(Mutation { kind: format!("insert-length-prefix-before-frame{}", j), files: set_wal(w2), survivors: None, tags: vec![], alloc_bound_extra: 0 });
        let mut w2 = wal.clone(); w2.splice(p..p, [0u8; 4]);
        out.push(Mutation { kind: format!("insert-empty-record-before-frame{}", j), files: set_wal(w2), survivors: if has_snap { None } else { Some(all_ops(b)) }, tags: vec![], alloc_bound_extra: 0 });
        // 8 junk appended
        let nj = rng.range(1, 40) as usize; let mut w2 = wal.clone(); w2.extend_from_slice(&rng.bytes(nj));
        out.push(Mutation { kind: format!("append-junk-{}", nj), files: set_wal(w2), survivors: None, tags: vec![], alloc_bound_extra: 0 });
        // 9 length prefix enlarged to swallow the next record
        if j + 1 < nf {
            let (_, n2) = fr[j + 1];
            let mut w2 = wal.clone(); w2[p..p + 4].copy_from_slice(&((n + 4 + n2) as u32).to_le_bytes());
            out.push(Mutation { kind: format!("length-swallows-next@frame{}", j), files: set_wal(w2), survivors: if has_snap { None } else { Some(without(b, &[b.frame_op[j + 1]])) }, tags: vec![], alloc_bound_extra: 0 });
        }
        // 10 key/value boundary moved (tag unchanged): key loses its last byte, which becomes the
        //    length byte of the value
        if let Ok(e) = postcard::from_bytes::<WalEntry>(&wal[p + 4..p + 4 + n]) {
            if let (true, Some(v)) = (e.key.ends_with('\u{2}') && e.transaction_type == TransactionType::Upsert, e.value.clone()) {
                let mut e2 = e.clone();
                e2.key.pop();
                let mut v2 = vec![2u8]; v2.extend_from_slice(&v);
                e2.value = Some(v2);
                let body = postcard::to_stdvec(&e2).unwrap();
                let mut w2 = wal[..p].to_vec(); w2.extend_from_slice(&(body.len() as u32).to_le_bytes()); w2.extend_from_slice(&body); w2.extend_from_slice(&wal[p + 4 + n..]);
                out.push(Mutation { kind: format!("move-key-value-boundary@frame{}", j), files: set_wal(w2), survivors: if has_snap { None } else { Some(without(b, &[b.frame_op[j]])) }, tags: vec![], alloc_bound_extra: 0 });
            }
            if e.transaction_type == TransactionType::Delete {
                let mut e2 = e.clone(); e2.value = Some(vec![]);
                let body = postcard::to_stdvec(&e2).unwrap();
                let mut w2 = wal[..p].to_vec(); w2.extend_from_slice(&(body.len() as u32).to_le_bytes()); w2.extend_from_slice(&body); w2.extend_from_slice(&wal[p + 4 + n..]);
                out.push(Mutation { kind: format!("none-to-empty-value@frame{}", j), files: set_wal(w2), survivors: None, tags: vec![], alloc_bound_extra: 0 });
            }
        }
    }
    // whole files
    out.push(Mutation { kind: "wal-is-4-bytes-claiming-128MiB".into(), files: set_wal(0x0800_0000u32.to_le_bytes().to_vec()), survivors: None, tags: vec![], alloc_bound_extra: 0 });
    out.push(Mutation { kind: "wal-empty".into(), files: set_wal(vec![]), survivors: None, tags: vec![], alloc_bound_extra: 0 });
    out.push(Mutation { kind: "wal-replaced-by-other-store".into(), files: set_wal(other.files.iter().find(|f| f.0 == 0).map(|f| f.2.clone()).unwrap_or_default()), survivors: None, tags: vec![], alloc_bound_extra: 0 });
    // snapshots
    for (si, f) in b.files.iter().enumerate().filter(|(_, f)| f.0 == 2) {
        let sb = &f.2;
        let hlen = if sb.len() >= 4 { u32::from_le_bytes([sb[0], sb[1], sb[2], sb[3]]) as usize } else { 0 };
        let mut offs = vec![0usize, 3, 4, 5, 4 + hlen / 2, 4 + hlen - 32, 4 + hlen - 1, 4 + hlen, sb.len() - 1];
        offs.push(rng.below(sb.len() as u64) as usize);
        for off in offs {
            if off >= sb.len() { continue; }
            let mut fs = b.files.clone(); fs[si].2[off] ^= 1 << rng.below(8);
            out.push(Mutation { kind: format!("snapshot-flip@{}", off), files: fs, survivors: None, tags: vec![], alloc_bound_extra: 0 });
        }
        for cutpos in [0usize, 2, 4, 4 + hlen - 1, 4 + hlen, sb.len() - 1] {
            if cutpos > sb.len() { continue; }
            let mut fs = b.files.clone(); fs[si].2.truncate(cutpos);
            out.push(Mutation { kind: format!("snapshot-truncate@{}", cutpos), files: fs, survivors: None, tags: vec![], alloc_bound_extra: 0 });
        }
        let mut fs = b.files.clone(); fs[si].2.extend_from_slice(&rng.bytes(3));
        out.push(Mutation { kind: "snapshot-append-junk".into(), files: fs, survivors: None, tags: vec![], alloc_bound_extra: 0 });
        let mut fs = b.files.clone(); fs[si].2 = 0x0800_0000u32.to_le_bytes().to_vec();
        out.push(Mutation { kind: "snapshot-is-4-bytes-claiming-128MiB".into(), files: fs, survivors: None, tags: vec![], alloc_bound_extra: 0 });
        // header edited (transaction id raised), checksum kept
        if let Some((mut h, data, _)) = snap_parts(sb) {
            h.last_transaction_id += 1000;
            let hb = postcard::to_stdvec(&h).unwrap();
            let mut nb = (hb.len() as u32).to_le_bytes().to_vec(); nb.extend_from_slice(&hb); nb.extend_from_slice(&data);
            let mut fs = b.files.clone(); fs[si].2 = nb;
            out.push(Mutation { kind: "snapshot-header-edited".into(), files: fs, survivors: None, tags: vec![], alloc_bound_extra: 0 });
        }
    }
    // snapshot transplanted from the other store as the newest snapshot, with the logs emptied:
    // if it were accepted, the other store's values would be served
    if let Some(of) = other.files.iter().find(|f| f.0 == 2) {
        let mut fs: Vec<(u8, u64, Vec<u8>)> = b.files.iter().filter(|f| f.0 != 2).cloned().collect();
        fs.push((2, 4_000_000_000, of.2.clone()));
        out.push(Mutation { kind: "snapshot-transplanted-from-other-store".into(), files: fs.clone(), survivors: None, tags: vec![], alloc_bound_extra: 0 });
        for f in fs.iter_mut() { if f.0 == 0 { f.2.clear(); } }
        out.push(Mutation { kind: "snapshot-transplanted-from-other-store,log-emptied".into(), files: fs, survivors: Some(vec![]), tags: vec![], alloc_bound_extra: 0 });
    }
    out
}

async fn mode_c07(args: &Args, sum: &mut Summary) {
    let mut rng = Rng::new(args.seed ^ 0xC07);
    let root = std::env::temp_dir().join(format!("vh-c07-{}-{}", std::process::id(), args.seed));
    let _ = std::fs::remove_dir_all(&root);
    let thorough = args.thorough();
    let nbases = if thorough { 60 } else { 10 };
    let per_kind = if thorough { 3 } else { 1 };
    let mut id = 0u64;
    let mut seen = std::collections::HashSet::new();
    let mut peak_max = 0usize;
    for h in 0..nbases {
        let mut r = rng.fork();
        let with_ckpt = h % 3 == 1;
        let nops = r.range(2, 14) as usize;
        let nkeys = r.range(2, 5);
        let Some(base) = build_store(&root.join(format!("b{}", h)), &mut r, nops, with_ckpt, nkeys, h % 2 == 0).await else {
            sum.violation(0, "building a pristine store failed", &[], json!({"base": h})); continue };
        let Some(other) = build_store(&root.join(format!("o{}", h)), &mut r, 6, true, nkeys, false).await else { continue };
        if base.key.len() != 32 || base.key == other.key {
            sum.violation(0, "store key file missing, wrong size, or equal for two stores", &[], json!({"base": h}));
        }
        let header = format!("{}\nDefinition base_ops := {}.\nDefinition pristine : files := {}.\nDefinition base_tbl : list (bytes * bytes) := {}.",
            HEADER, coq_list(base.ops.iter().map(coq_op)), coq_files(&base.files),
            coq_list(table_for(&base.key, &[&base.files]).iter().map(|(f, t)| format!("({}, {})", cb(f), cb(t)))));
        let mut w = CaseWriter::new(&args.out, &format!("cases_c07_b{:03}", h), &header, "c07_case", "check_c07", "prop_c07", 40);
        let only = args.extra.get("only").cloned();
        for m in mutations(&base, &other, &mut r, per_kind) {
            if let Some(o) = &only { if !m.kind.contains(o.as_str()) { continue; } }
            let md = root.join("m");
            let _ = std::fs::remove_dir_all(&md); std::fs::create_dir_all(&md).unwrap();
            std::fs::write(md.join(".state.key"), &base.key).unwrap();
            for (k, n, b) in &m.files { std::fs::write(md.join(file_name(*k, *n)), b).unwrap(); }
            let total: usize = m.files.iter().map(|f| f.2.len()).sum();
            let what = json!({"base": h, "mutation": m.kind});
            let (ls, _) = listing(&md);
            // peak allocation during recovery
            let before = CUR.load(Ordering::Relaxed);
            PEAK.store(before, Ordering::Relaxed); BIGGEST.store(0, Ordering::Relaxed);
            let mgr = Mgr::new(config(&md, 0)).await;
            let peak = PEAK.load(Ordering::Relaxed).saturating_sub(before);
            let biggest = BIGGEST.load(Ordering::Relaxed);
            peak_max = peak_max.max(peak);
            match mgr {
                Ok(mgr) => drop(mgr),
                Err(e) => { sum.violation(id, "recovery of a damaged directory fails instead of completing", &[], json!({"at": what, "error": e.to_string()})); }
            }
            // serde caps the pre-allocation for a claimed collection length at about 1 MiB worth of
            // elements (1.6 MB observed for a garbage HashMap length), independent of the input: allow 4 MiB
            let bound = 64 * total + (4 << 20);
            if peak > bound || biggest > bound {
                sum.violation(id, "memory requested during recovery is not proportional to the size of the files", &[],
                    json!({"at": what, "peak_bytes": peak, "largest_single_request": biggest, "bytes_on_disk": total, "bound": bound}));
            }
            // observe on a fresh copy (the measured open above already repaired the directory)
            let _ = std::fs::remove_dir_all(&md); std::fs::create_dir_all(&md).unwrap();
            std::fs::write(md.join(".state.key"), &base.key).unwrap();
            for (k, n, b) in &m.files { std::fs::write(md.join(file_name(*k, *n)), b).unwrap(); }
            let Some(o) = observe(&md, ls, sum, &what).await else { continue };
            let extra = table_for(&base.key, &[&m.files]);
            let term = format!("(base_ops, base_tbl ++ {}, pristine, {}, ({}, {}, {}), {})",
                coq_list(extra.iter().map(|(f, t)| format!("({}, {})", cb(f), cb(t)))), coq_files(&m.files),
                coq_state(&o.state), o.next, coq_stats(&o),
                coq_opt(m.survivors.as_ref().map(|v| coq_list(v.iter().map(|i| format!("{}%nat", i))))));
            w.push(id, term);
            sum.evaluations += 1;
            let class = m.kind.split('@').next().unwrap_or("").to_string();
            sum.count(&format!("damage:{}", class.trim_end_matches(|c: char| c.is_ascii_digit() || c == '-')));
            if !o.events.is_empty() && seen.insert((h, m.kind.clone())) { sum.distinct_nontrivial += 1; }
            sum.case(id, json!({"base_ops": base.ops.iter().map(json_op).collect::<Vec<_>>(), "mutation": m.kind, "tags": m.tags,
                "damaged_files": m.files.iter().map(|(k, n, b)| json!([file_name(*k, *n), hex::encode(b)])).collect::<Vec<_>>(),
                "observed": json_obs(&o), "expected_survivors": m.survivors}));
            id += 1;
        }
        w.flush();
        let _ = std::fs::remove_dir_all(&base.dir); let _ = std::fs::remove_dir_all(&other.dir);
    }
    let _ = std::fs::remove_dir_all(&root);
    sum.add("peak_allocation_bytes_max", peak_max as u64);
    sum.rule = "one pristine store per base history (2-14 operations, every third with a checkpoint) plus a second store with its own key; every case = one damaged copy of the directory (bit flips in each region of a record, truncations at and around record boundaries, duplicated / swapped / transplanted records, garbage and swallowing length prefixes, junk, key/value boundary moved under an unchanged tag, snapshot flips / truncations / edited header / transplanted snapshot) reopened by a fresh manager, with peak allocation measured by a counting allocator. distinct_nontrivial = cases in which recovery reported at least one corruption event".into();
}

fn main() {
    let args = Args::parse();
    install_trace_sink();
    let rt = tokio::runtime::Builder::new_multi_thread().worker_threads(2).enable_all().build().unwrap();
    let mut sum = Summary::default();
    let mode = args.extra.get("mode").cloned().unwrap_or_else(|| "c06".into());
    if mode == "c07" { rt.block_on(mode_c07(&args, &mut sum)); } else { rt.block_on(mode_c06(&args, &mut sum)); }
    sum.write(&args.out);
}
