//! C01 correspondence (mode A): one real DhtNetworkManager, a scripted universe of
//! peers behind the in-memory router, vs Model/Lookup.v.
use saorsa_core::dht_network_manager::*;
use serde_json::json;
use std::collections::HashMap;
use std::net::SocketAddr;
use std::sync::Arc;
use std::time::Duration;
use vh::net::*;
use vh::*;

const HEADER: &str = "From SV Require Import Lib.Base Model.Lookup.\nLocal Open Scope N_scope.";

#[derive(Clone, Copy, Debug, PartialEq)]
enum Class { Honest, Silent, SendError, Slow, NotFound, LieSelf, LieDup, LieUnknown, LieDistance, LieFlood, Unreachable }

struct Peer { id: String, addr: String, knows: Vec<usize>, class: Class }

fn node_of(id: &str, addr: &str, distance: Option<Vec<u8>>) -> DHTNode {
    DHTNode { peer_id: id.to_string(), address: addr.to_string(), distance, reliability: 1.0, cached_dht_key: None }
}

fn xor_lt(a: &[u8; 32], b: &[u8; 32], t: &[u8; 32]) -> std::cmp::Ordering {
    for i in 0..32 {
        let (x, y) = (a[i] ^ t[i], b[i] ^ t[i]);
        if x != y { return x.cmp(&y); }
    }
    std::cmp::Ordering::Equal
}

struct World {
    peers: Vec<Peer>,
    self_names: Vec<String>, // app name, tid, dht key hex
    unknown: Vec<(String, String)>,
}

/// what peer `i` names when asked FindNode(key): (id, addr, distance field)
fn names_for(w: &World, i: usize, key: &[u8; 32], salt: u64) -> Vec<(String, String, Option<Vec<u8>>)> {
    let p = &w.peers[i];
    let mut known: Vec<usize> = p.knows.clone();
    known.sort_by(|a, b| xor_lt(&dht_key_of(&w.peers[*a].id), &dht_key_of(&w.peers[*b].id), key));
    known.truncate(8);
    let honest: Vec<(String, String, Option<Vec<u8>>)> = known.iter().map(|&j| {
        let q = &w.peers[j];
        (q.id.clone(), q.addr.clone(), Some(dht_key_of(&q.id).to_vec()))
    }).collect();
    match p.class {
        Class::LieSelf => {
            let mut v = honest;
            for (k, s) in w.self_names.iter().enumerate() {
                v.insert(k.min(v.len()), (s.clone(), "10.250.0.1:9000".into(), None));
            }
            v
        }
        Class::LieDup => {
            let mut v = honest.clone();
            v.extend(honest.iter().cloned());
            if let Some(f) = honest.first() { v.push(f.clone()); }
            v
        }
        Class::LieUnknown => {
            let mut v = honest;
            let n = w.unknown.len().max(1);
            for k in 0..3 {
                let (id, addr) = &w.unknown[((salt as usize) + k + i) % n];
                v.insert(0, (id.clone(), addr.clone(), Some(dht_key_of(id).to_vec())));
            }
            v
        }
        Class::LieDistance => {
            // claims that the peers it names sit exactly at / next to the target
            honest.into_iter().enumerate().map(|(k, (id, addr, _))| {
                let mut d = *key; d[31] ^= k as u8;
                (id, addr, Some(d.to_vec()))
            }).collect()
        }
        Class::LieFlood => {
            let mut v = honest;
            for (id, addr) in w.unknown.iter() { v.push((id.clone(), addr.clone(), None)); }
            v
        }
        _ => honest,
    }
}

fn main() {
    let args = Args::parse();
    install_trace_sink();
    let rt = tokio::runtime::Builder::new_multi_thread().worker_threads(8).enable_all().build().unwrap();
    let mut rng = Rng::new(args.seed);
    let mut sum = Summary::default();
    sum.rule = "one real DhtNetworkManager + scripted universe (2..60 peers; mesh/ring/sparse/partitioned knowledge graphs; faults: silent, send error, slow, unreachable; lies: self under each identifier, duplicates, unknown ids, bogus distance fields, floods of fresh ids); lookups for random / peer-equal / self keys with count in {1,3,8,16,20}. Non-trivial = at least 2 requests and at least one reply naming a peer not initially known; distinct = different (topology seed, key, count)".into();
    let mut w = CaseWriter::new(&args.out, "cases_c01", HEADER, "lcase", "check_case", "prop_case", 10);
    let worlds = if args.thorough() { 400 } else { 36 };
    let mut id = 0u64;
    let conc = 12usize;
    let mut wi = 0usize;
    while wi < worlds {
        let mut futs = vec![];
        for k in 0..conc.min(worlds - wi) {
            let r2 = rng.fork();
            futs.push(run_world(r2, (wi + k) as u64));
        }
        let outs = rt.block_on(futures::future::join_all(futs));
        for (k, o) in outs.into_iter().enumerate() {
            match o {
                Ok(local) => {
                    for (kname, n) in local.distribution.iter() { sum.add(kname, *n); }
                    for v in local.direct_violations.iter() {
                        let mut v = v.clone(); v["case"] = json!(id);
                        sum.direct_violations.push(v);
                    }
                    for (term, cj, nontrivial) in local_cases(&local) {
                        w.push(id, term);
                        sum.evaluations += 1;
                        if nontrivial { sum.distinct_nontrivial += 1; }
                        sum.case(id, cj);
                        id += 1;
                    }
                }
                Err(e) => { sum.notes.push(format!("world {} setup failed: {e}", wi + k)); sum.count("world_setup_failed"); }
            }
        }
        wi += conc;
    }
    w.flush();
    sum.write(&args.out);
    std::process::exit(0);
}

fn local_cases(s: &Summary) -> Vec<(String, serde_json::Value, bool)> {
    let mut keys: Vec<u64> = s.cases.keys().filter_map(|k| k.parse().ok()).collect();
    keys.sort();
    keys.into_iter().map(|k| {
        let v = s.cases[&k.to_string()].clone();
        (v["term"].as_str().unwrap_or("").to_string(), v["desc"].clone(), v["nontrivial"].as_bool().unwrap_or(false))
    }).collect()
}

fn dist_of(id: &str, key: &[u8; 32]) -> [u8; 32] {
    let k = dht_key_of(id); let mut d = [0u8; 32];
    for i in 0..32 { d[i] = k[i] ^ key[i]; }
    d
}

async fn run_world(mut rng: Rng, wi: u64) -> anyhow::Result<Summary> {
    let rng = &mut rng;
    let mut local = Summary::default();
    let sum = &mut local;
    let mut lid = 0u64;
    let id = &mut lid;
    let net = SimNet::new();
    let timeout = Duration::from_millis(150);
    let maddr: SocketAddr = "10.250.0.1:9000".parse()?;
    let name = format!("m{}x{}", wi, rng.below(1 << 30));
    let m = spawn_node(&net, &name, maddr, timeout, 8).await?;
    let n = match rng.below(6) { 0 => rng.range(1, 4), 1..=3 => rng.range(5, 25), _ => rng.range(26, 60) } as usize;
    let topo = rng.below(5);
    // every fourth world: all peers behind ONE IP address (different ports): the routing table's per-IP limit then
    // admits only the first, the others are known to the node as connected peers only
    let one_ip = wi % 4 == 3;
    let mut peers: Vec<Peer> = (0..n).map(|i| Peer {
        id: hex::encode(rng.bytes(32)),
        addr: if one_ip { format!("10.77.77.1:{}", 9000 + i) } else { format!("10.{}.{}.1:9000", 1 + i / 200, 1 + i % 200) },
        knows: vec![], class: Class::Honest }).collect();
    for i in 0..n {
        let knows: Vec<usize> = match topo {
            0 => (0..n).filter(|&j| j != i).collect(),                                   // full mesh
            1 => (1..=3).flat_map(|d| [(i + d) % n, (i + n - d % n) % n]).filter(|&j| j != i).collect(), // ring
            2 => (0..rng.range(1, 6)).map(|_| rng.below(n as u64) as usize).filter(|&j| j != i).collect(), // sparse
            3 => (0..n).filter(|&j| j != i && j % 2 == i % 2).collect(),                 // two partitions
            _ => (0..n).filter(|&j| j != i && (j > i || rng.chance(1, 4))).collect(),      // mostly forward
        };
        let mut k = knows; k.sort(); k.dedup();
        peers[i].knows = k;
    }
    // fault / lie classes
    let mut silent_budget = 3;
    for p in peers.iter_mut() {
        p.class = match rng.below(20) {
            0 if silent_budget > 0 => { silent_budget -= 1; Class::Silent }
            1 => Class::SendError, 2 => Class::Slow, 3 => Class::NotFound, 4 => Class::LieSelf, 5 => Class::LieDup,
            6 => Class::LieUnknown, 7 => Class::LieDistance, 8 if rng.chance(1, 3) => Class::LieFlood, 9 => Class::Unreachable,
            _ => Class::Honest,
        };
        sum.count(&format!("class:{:?}", p.class));
    }
    let n_unknown = if peers.iter().any(|p| p.class == Class::LieFlood) { 260 } else { 6 };
    let unknown: Vec<(String, String)> = (0..n_unknown).map(|i| (hex::encode(rng.bytes(32)), format!("10.249.{}.{}:9000", i / 250, 1 + i % 250))).collect();
    let self_names = vec![name.clone(), m.tid.clone(), hex::encode(dht_key_of(&name))];
    let world = Arc::new(World { peers, self_names: self_names.clone(), unknown });
    // behaviours
    for (i, p) in world.peers.iter().enumerate() {
        if p.class == Class::Unreachable { continue; } // never registered: dial fails
        let wd = world.clone();
        let beh: Behaviour = Arc::new(move |_me, msg| {
            let class = wd.peers[i].class;
            match (&msg.payload, class) {
                (_, Class::Silent) => Reply::Silent,
                (_, Class::SendError) => Reply::SendError,
                (DhtNetworkOperation::FindNode { key }, Class::NotFound) =>
                    Reply::Result(DhtNetworkResult::GetNotFound { key: *key, peers_queried: 0, peers_failed: 0, last_error: None }),
                (DhtNetworkOperation::FindNode { key }, c) => {
                    let nodes: Vec<DHTNode> = names_for(&wd, i, key, 0).into_iter().map(|(id, addr, d)| node_of(&id, &addr, d)).collect();
                    let r = DhtNetworkResult::NodesFound { key: *key, nodes };
                    if c == Class::Slow { Reply::Delayed(40, r) } else { Reply::Result(r) }
                }
                (DhtNetworkOperation::Leave, _) => Reply::Result(DhtNetworkResult::LeaveSuccess),
                _ => Reply::Silent,
            }
        });
        net.add_scripted(&p.id, &p.addr, beh);
    }
    // initial knowledge: connect to a few reachable peers
    let reachable: Vec<usize> = (0..n).filter(|&i| world.peers[i].class != Class::Unreachable).collect();
    let mut init_idx = reachable.clone();
    rng.shuffle(&mut init_idx);
    init_idx.truncate(match rng.below(4) { 0 => 1, 1 => 3, 2 => 9, _ => 24 }.min(reachable.len()));
    let mut connected0: Vec<usize> = vec![];
    for &i in &init_idx { if m.transport.connect_peer(&world.peers[i].addr).await.is_ok() { connected0.push(i); } }
    let want = init_idx.len();
    let mg = m.manager.clone();
    wait_until(|| { let mg = mg.clone(); async move { mg.get_connected_peers().await.len() >= want } }, Duration::from_secs(3)).await;
    // every second world: some of those connections are lost and come back before the first lookup
    // (connected -> disconnected -> connected: the peer is known and connected again)
    let mut reconnected = 0u64;
    if wi % 2 == 1 {
        for &i in &connected0 {
            if !rng.chance(1, 2) { continue; }
            let p = &world.peers[i];
            m.transport.verif_mark_disconnected(&p.id).await;
            tokio::time::sleep(Duration::from_millis(25)).await;
            if let Ok(sa) = p.addr.parse::<SocketAddr>() { m.transport.verif_register_incoming(&p.id, sa).await; reconnected += 1; }
        }
        if reconnected > 0 {
            sum.add("connections_lost_and_restored", reconnected);
            tokio::time::sleep(Duration::from_millis(150)).await;
            let mg = m.manager.clone();
            wait_until(|| { let mg = mg.clone(); async move { mg.get_connected_peers().await.len() >= want } }, Duration::from_millis(800)).await;
        }
    }

    // pid table
    let mut pid: HashMap<String, u64> = HashMap::new();
    let mut names: Vec<String> = vec![];
    let intern = |s: &str, pid: &mut HashMap<String, u64>, names: &mut Vec<String>| -> u64 {
        if let Some(&i) = pid.get(s) { return i; }
        let i = names.len() as u64 + 1; pid.insert(s.to_string(), i); names.push(s.to_string()); i
    };
    for s in &self_names { intern(s, &mut pid, &mut names); }
    for p in &world.peers { intern(&p.id, &mut pid, &mut names); }
    for (u, _) in &world.unknown { intern(u, &mut pid, &mut names); }

    let nlook = 4;
    for li in 0..nlook {
        let key: [u8; 32] = match rng.below(6) {
            0 => dht_key_of(&name),
            1 if n > 0 => dht_key_of(&world.peers[rng.below(n as u64) as usize].id),
            2 => [0u8; 32], 3 => [0xffu8; 32],
            _ => { let b = rng.bytes(32); let mut k = [0u8; 32]; k.copy_from_slice(&b); k }
        };
        let count = *rng.pick(&[1usize, 3, 8, 8, 16, 20]);
        let mut init = m.manager.find_closest_nodes_local(&key, count).await;
        // "learned of from its own tables": before the first lookup every peer the node is connected to is a
        // candidate - it is among the lookup's starting nodes unless `count` nearer ones are
        if li == 0 {
            // the events of the history above are handled asynchronously: a peer counts as missing only if it stays missing
            let mut missing: Option<(usize, usize)> = None;
            for attempt in 0..4 {
                let cur = if attempt == 0 { init.clone() } else {
                    tokio::time::sleep(Duration::from_millis(300)).await;
                    m.manager.find_closest_nodes_local(&key, count).await };
                let far = cur.last().map(|x| dist_of(&x.peer_id, &key));
                missing = connected0.iter().copied().find(|&i| {
                    let p = &world.peers[i];
                    !cur.iter().any(|x| x.peer_id == p.id) && !(cur.len() >= count && far.map(|f| dist_of(&p.id, &key) > f).unwrap_or(false))
                }).map(|i| (i, cur.len()));
                if attempt > 0 { init = cur; }
                if missing.is_none() { break; }
            }
            if let Some((i, have)) = missing {
                sum.violation(*id, "a connected peer is missing from the lookup's own starting nodes although fewer than `count` nearer peers are known", &[],
                    json!({"world": wi, "peer": &world.peers[i].id[..8], "connected_peers": connected0.len(), "starting_nodes": have, "count": count,
                           "connections_lost_and_restored": reconnected, "all_peers_behind_one_ip": one_ip}));
            }
        }
        net.take_trace();
        let res = match tokio::time::timeout(Duration::from_secs(30), m.manager.find_closest_nodes(&key, count)).await {
            Ok(Ok(r)) => r,
            Ok(Err(e)) => { sum.violation(*id, "lookup returned an error", &[], json!({"error": e.to_string()})); continue; }
            Err(_) => { sum.violation(*id, "lookup did not terminate within 30 s (request timeout 150 ms)", &[], json!({"world": wi, "lookup": li})); continue; }
        };
        let trace = net.take_trace();
        // a request = a FindNode frame handed to the wire, or an attempt that died at the dial (unroutable address)
        let addr_owner: HashMap<String, String> = world.unknown.iter().map(|(u, a)| (a.clone(), u.clone()))
            .chain(world.peers.iter().map(|p| (p.addr.clone(), p.id.clone()))).collect();
        let requests: Vec<String> = trace.iter().filter(|e| e.from == m.tid).filter_map(|e| {
            if e.is_request && e.op.starts_with("FindNode") { Some(e.to.clone()) }
            else if e.op == "Dial:refused" { addr_owner.get(&e.to).cloned() }
            else { None } }).collect();
        // requests that failed before reaching the router (unknown peer) are invisible in the trace: they are failures in the model too
        // replies as the model sees them
        let mut replies: Vec<String> = vec![];
        let mut named_new = false;
        for (i, p) in world.peers.iter().enumerate() {
            let r = match p.class {
                Class::Silent | Class::SendError | Class::Unreachable => "None".to_string(),
                Class::NotFound => "Some []".to_string(),
                _ => {
                    let l = names_for(&world, i, &key, 0);
                    if l.iter().any(|(idn, _, _)| !init.iter().any(|x| &x.peer_id == idn)) { named_new = true; }
                    format!("Some {}", coq_list(l.iter().map(|(idn, _, _)| intern(idn, &mut pid, &mut names).to_string())))
                }
            };
            replies.push(format!("({}, {})", pid[&p.id], r));
        }
        for s in init.iter().map(|x| x.peer_id.clone()).chain(requests.iter().cloned()).chain(res.iter().map(|x| x.peer_id.clone())) {
            intern(&s, &mut pid, &mut names);
        }
        let keys = coq_list(names.iter().enumerate().map(|(i, s)| format!("({}, {})", i + 1, n_of_be(&dht_key_of(s)))));
        // requests to peers that are not routable never appear in the trace; the model counts them as sent.
        // Make the comparison fair: the observed request set is extended by ids the model may have tried and the
        // transport refused locally (unknown / unreachable ids) -- these are exactly the non-registered ids.
        let unroutable: Vec<u64> = world.unknown.iter().map(|(u, _)| pid[u]).chain(world.peers.iter().filter(|p| p.class == Class::Unreachable).map(|p| pid[&p.id])).collect();
        let term = format!("mkCase {} {} {} {} {} {} {} {} {} {}",
            keys, coq_list(replies.into_iter()),
            pid[&self_names[0]], coq_list([pid[&self_names[0]], pid[&self_names[1]]].iter().map(|x| x.to_string())),
            coq_list(self_names.iter().map(|s| pid[s].to_string())),
            n_of_be(&key), count,
            coq_list(init.iter().map(|x| pid[&x.peer_id].to_string())),
            coq_list(requests.iter().map(|x| pid[x].to_string())),
            coq_list(res.iter().map(|x| pid[&x.peer_id].to_string())));
        let _ = unroutable;
        let nontrivial = requests.len() >= 2 && named_new;
        sum.count(&format!("topology:{topo}"));
        sum.count(&format!("count:{count}"));
        sum.add("requests_total", requests.len() as u64);
        sum.cases.insert(id.to_string(), json!({"term": term, "nontrivial": nontrivial, "desc": {"world": wi, "topology": topo, "n_peers": n, "key": hex::encode(key), "count": count,
            "classes": world.peers.iter().map(|p| format!("{:?}", p.class)).collect::<Vec<_>>(),
            "init": init.iter().map(|x| x.peer_id[..8.min(x.peer_id.len())].to_string()).collect::<Vec<_>>(),
            "requests": requests.iter().map(|x| x[..8].to_string()).collect::<Vec<_>>(),
            "result": res.iter().map(|x| x.peer_id[..8.min(x.peer_id.len())].to_string()).collect::<Vec<_>>() }}));
        *id += 1;
    }
    let _ = tokio::time::timeout(Duration::from_secs(20), m.manager.stop()).await;
    let _ = tokio::time::timeout(Duration::from_secs(5), m.transport.stop()).await;
    Ok(local)
}
