//! C12 correspondence: real MonotonicCounterSystem vs Model/Counter.v.
use saorsa_core::monotonic_counter::*;
use saorsa_core::peer_record::UserId;
use serde_json::json;
use std::time::Duration;
use vh::*;

const HEADER: &str = "From SV Require Import Lib.Base Model.Counter.\nLocal Open Scope N_scope.";

#[derive(Clone, Debug)]
enum Op {
    Submit { now: u64, p: u8, seq: u64, h: u8, ts: u64 },
    Cleanup { cutoff: u64 },
}
#[derive(Clone, Debug, PartialEq)]
enum R { Valid, Replay, TooOld, Gap(u64, u64), FromFuture }

fn conv(r: &SequenceValidationResult) -> R {
    match r {
        SequenceValidationResult::Valid => R::Valid,
        SequenceValidationResult::Replay => R::Replay,
        SequenceValidationResult::TooOld => R::TooOld,
        SequenceValidationResult::Gap { expected, received } => R::Gap(*expected, *received),
        SequenceValidationResult::FromFuture => R::FromFuture,
    }
}
fn uid(p: u8) -> UserId { UserId::from_bytes([p; 32]) }
fn hash(h: u8) -> [u8; 32] { let mut x = [0u8; 32]; x[31] = h; x[0] = h.wrapping_mul(7); x }
fn coq_op(o: &Op) -> String {
    match o {
        Op::Submit { now, p, seq, h, ts } => format!("Submit {} {} {} {} {}", now, n_of_be(&[*p; 32]), seq, n_of_be(&hash(*h)), ts),
        Op::Cleanup { cutoff } => format!("Cleanup {}", cutoff),
    }
}
fn coq_res(r: &Option<R>) -> String {
    match r {
        None => "None".into(),
        Some(R::Valid) => "Some Valid".into(),
        Some(R::Replay) => "Some Replay".into(),
        Some(R::TooOld) => "Some TooOld".into(),
        Some(R::FromFuture) => "Some FromFuture".into(),
        Some(R::Gap(e, r)) => format!("Some (Gap {} {})", e, r),
    }
}
fn json_op(o: &Op) -> serde_json::Value {
    match o {
        Op::Submit { now, p, seq, h, ts } => json!({"submit": {"now": now, "peer": p, "seq": seq.to_string(), "hash": h, "ts": ts.to_string()}}),
        Op::Cleanup { cutoff } => json!({"cleanup": cutoff}),
    }
}

struct Case { ops: Vec<Op>, obs: Vec<Option<R>>, finals: Vec<(u8, u64)>, kind: &'static str }

fn pick_seq(rng: &mut Rng, last: u64) -> u64 {
    match rng.below(20) {
        0..=10 => last + 1,
        11 => last,
        12 => last + 2,
        13 => 0,
        14 => 1,
        15 => u64::MAX,
        16 => u64::MAX - 1,
        17 => last.saturating_sub(1),
        18 => last + 1 + rng.below(5),
        _ => rng.below(8),
    }
}
fn pick_ts(rng: &mut Rng, now: u64, age: u64, skew: u64) -> u64 {
    match rng.below(16) {
        0..=6 => now,
        7 => now - age,
        8 => now - age - 1,
        9 => now - age + 1,
        10 => now + skew,
        11 => now + skew + 1,
        12 => now + skew - 1,
        13 => 0,
        14 => u64::MAX,
        _ => now - rng.below(2 * age),
    }
}

async fn finals_of(sys: &MonotonicCounterSystem, peers: &[u8]) -> Vec<(u8, u64)> {
    let mut v = vec![];
    for &p in peers {
        let l = sys.get_peer_counter(&uid(p)).await.map(|c| c.last_valid_sequence).unwrap_or(0);
        v.push((p, l));
    }
    v
}

/// run a generated op script; returns None when a clock tick made a batch ambiguous
async fn run_script(sys: &MonotonicCounterSystem, rng: &mut Rng, nops: usize, peers: &[u8], lasts: &mut [u64; 256],
                    ops: &mut Vec<Op>, obs: &mut Vec<Option<R>>, sum: &mut Summary) -> Option<()> {
    const AGE: u64 = 3600; const SKEW: u64 = 60; // generator boundaries only; the model takes its constants from the source
    let mut i = 0;
    while i < nops {
        match rng.below(10) {
            0..=4 => {
                let p = *rng.pick(peers); let h = rng.below(3) as u8 + 1;
                let seq = pick_seq(rng, lasts[p as usize]);
                let now0 = now_secs();
                let r = conv(&sys.validate_sequence(&uid(p), seq, hash(h)).await.ok()?);
                if now_secs() != now0 { return None; }
                if r == R::Valid { lasts[p as usize] = seq; }
                sum.count(&format!("verdict:{}", kind_of(&r)));
                ops.push(Op::Submit { now: now0, p, seq, h, ts: now0 }); obs.push(Some(r)); i += 1;
            }
            5..=8 => {
                let n = rng.range(1, 6) as usize;
                let now0 = now_secs();
                let mut reqs = vec![]; let mut metas = vec![];
                let mut tmp_last = *lasts;
                for _ in 0..n {
                    let p = *rng.pick(peers); let h = rng.below(3) as u8 + 1;
                    let seq = pick_seq(rng, tmp_last[p as usize]);
                    let ts = pick_ts(rng, now0, AGE, SKEW);
                    // optimistic tracking so that in-batch follow-ups are generated
                    if seq == tmp_last[p as usize] + 1 && ts <= now0 + SKEW && ts + AGE >= now0 { tmp_last[p as usize] = seq; }
                    reqs.push(BatchUpdateRequest { user_id: uid(p), sequence: seq, message_hash: hash(h), timestamp: ts });
                    metas.push((p, seq, h, ts));
                }
                let rs = sys.batch_update(reqs).await.ok()?;
                if now_secs() != now0 { return None; }
                for ((p, seq, h, ts), br) in metas.into_iter().zip(rs.iter()) {
                    let r = conv(&br.result);
                    if br.applied != (r == R::Valid) {
                        sum.violation(0, "batch result applied flag disagrees with verdict", &[], json!({"seq": seq.to_string()}));
                    }
                    if r == R::Valid { lasts[p as usize] = seq; }
                    sum.count(&format!("verdict:{}", kind_of(&r)));
                    ops.push(Op::Submit { now: now0, p, seq, h, ts }); obs.push(Some(r)); i += 1;
                }
                sum.count("batches");
            }
            _ => {
                let now0 = now_secs();
                sys.cleanup_old_sequences().await.ok()?;
                if now_secs() != now0 { return None; }
                ops.push(Op::Cleanup { cutoff: now0.saturating_sub(AGE) }); obs.push(None); i += 1;
                sum.count("cleanups");
            }
        }
    }
    Some(())
}
fn kind_of(r: &R) -> &'static str {
    match r { R::Valid => "valid", R::Replay => "replay", R::TooOld => "too_old", R::Gap(..) => "gap", R::FromFuture => "from_future" }
}

async fn wait_synced(sys: &MonotonicCounterSystem) {
    let k = sys.get_stats().await.persistence_ops;
    for _ in 0..2000 {
        if sys.get_stats().await.persistence_ops >= k + 2 { return; }
        tokio::time::sleep(Duration::from_millis(2)).await;
    }
}

async fn gen_case(rng: &mut Rng, sum: &mut Summary, kind_sel: u64) -> Option<Vec<Case>> {
    let dir = tempfile::tempdir().ok()?;
    let path = dir.path().join("ctr").join("counters.bin");
    let npeers = rng.range(1, 3) as usize;
    let mut peers: Vec<u8> = (0..npeers).map(|_| rng.range(1, 5) as u8).collect();
    peers.sort(); peers.dedup();
    let mut lasts = [0u64; 256];
    let mut ops = vec![]; let mut obs = vec![];
    match kind_sel {
        // plain sequential history
        0 => {
            let sys = MonotonicCounterSystem::new(path).await.ok()?;
            let n = rng.range(1, 40) as usize;
            run_script(&sys, rng, n, &peers, &mut lasts, &mut ops, &mut obs, sum).await?;
            let finals = finals_of(&sys, &peers).await;
            Some(vec![Case { ops, obs, finals, kind: "sequential" }])
        }
        // sync, (unsynced tail), drop, reopen, continue
        1 => {
            let mut sys = MonotonicCounterSystem::new_with_sync_interval(path.clone(), Duration::from_millis(5)).await.ok()?;
            sys.start_sync_task().await.ok()?;
            let n = rng.range(1, 25) as usize;
            run_script(&sys, rng, n, &peers, &mut lasts, &mut ops, &mut obs, sum).await?;
            wait_synced(&sys).await;
            sys.stop_sync_task().await;
            tokio::time::sleep(Duration::from_millis(10)).await;
            // tail that is never persisted
            let (mut ops_a, mut obs_a, mut lasts_a) = (ops.clone(), obs.clone(), lasts);
            let nt = rng.below(6) as usize;
            run_script(&sys, rng, nt, &peers, &mut lasts_a, &mut ops_a, &mut obs_a, sum).await?;
            let finals_a = finals_of(&sys, &peers).await;
            drop(sys);
            let sys2 = MonotonicCounterSystem::new(path).await.ok()?;
            // first thing after reload: resubmit every number at or below the persisted counter
            for &p in &peers {
                for seq in [lasts[p as usize], 1, lasts[p as usize].saturating_sub(1)] {
                    let now0 = now_secs();
                    let r = conv(&sys2.validate_sequence(&uid(p), seq, hash(1)).await.ok()?);
                    if now_secs() != now0 { return None; }
                    if r == R::Valid && seq <= lasts[p as usize] {
                        sum.violation(0, "number at or below the persisted counter re-accepted after reload", &[], json!({"peer": p, "seq": seq.to_string()}));
                    }
                    if r == R::Valid { lasts[p as usize] = seq; }
                    ops.push(Op::Submit { now: now0, p, seq, h: 1, ts: now0 }); obs.push(Some(r));
                }
            }
            let n2 = rng.range(1, 15) as usize;
            run_script(&sys2, rng, n2, &peers, &mut lasts, &mut ops, &mut obs, sum).await?;
            let finals = finals_of(&sys2, &peers).await;
            sum.count("reloads");
            Some(vec![Case { ops: ops_a, obs: obs_a, finals: finals_a, kind: "pre-crash" }, Case { ops, obs, finals, kind: "reload" }])
        }
        // 16 tasks submit the same (peer, seq): exactly one Valid
        2 => {
            let sys = std::sync::Arc::new(MonotonicCounterSystem::new(path).await.ok()?);
            let n = rng.range(0, 10) as usize;
            run_script(&sys, rng, n, &peers, &mut lasts, &mut ops, &mut obs, sum).await?;
            let p = peers[0]; let seq = lasts[p as usize] + 1; let h = 2u8;
            let now0 = now_secs();
            let mut hs = vec![];
            for _ in 0..16 {
                let s = sys.clone();
                hs.push(tokio::spawn(async move { s.validate_sequence(&uid(p), seq, hash(h)).await.map(|r| conv(&r)) }));
            }
            let mut rs = vec![];
            for h in hs { rs.push(h.await.ok()?.ok()?); }
            if now_secs() != now0 { return None; }
            let nvalid = rs.iter().filter(|r| **r == R::Valid).count();
            if nvalid != 1 {
                sum.violation(0, "concurrent submissions of one (peer, seq): number accepted != 1", &[], json!({"accepted": nvalid, "seq": seq.to_string()}));
            }
            // canonical order: the accepted one first (the sequential model's order for identical submissions)
            rs.sort_by_key(|r| if *r == R::Valid { 0 } else { 1 });
            for r in rs { ops.push(Op::Submit { now: now0, p, seq, h, ts: now0 }); obs.push(Some(r)); }
            let finals = finals_of(&sys, &peers).await;
            sum.count("concurrent_same");
            Some(vec![Case { ops, obs, finals, kind: "concurrent-same" }])
        }
        // many never-seen peers, 8 tasks racing on each peer's FIRST message: exactly one acceptance per peer
        4 => {
            let sys = std::sync::Arc::new(MonotonicCounterSystem::new(path).await.ok()?);
            let npeers = 40usize;
            let barrier = std::sync::Arc::new(tokio::sync::Barrier::new(8));
            let now0 = now_secs();
            let mut hs = vec![];
            for t in 0..8u8 {
                let s = sys.clone(); let b = barrier.clone();
                hs.push(tokio::spawn(async move {
                    let mut out = vec![];
                    for p in 0..npeers {
                        b.wait().await;
                        let r = s.validate_sequence(&uid(100 + p as u8), 1, hash(1 + (t % 3))).await.map(|r| conv(&r));
                        out.push(r);
                    }
                    out
                }));
            }
            let mut per_peer: Vec<Vec<R>> = vec![vec![]; npeers];
            for h in hs { for (p, r) in h.await.ok()?.into_iter().enumerate() { per_peer[p].push(r.ok()?); } }
            if now_secs() != now0 { return None; }
            let mut finals = vec![];
            for (p, rs) in per_peer.iter_mut().enumerate() {
                let nvalid = rs.iter().filter(|r| **r == R::Valid).count();
                if nvalid != 1 {
                    sum.violation(0, "concurrent first submissions for a never-seen peer: number accepted != 1", &[], json!({"accepted": nvalid, "peer": 100 + p}));
                }
                rs.sort_by_key(|r| if *r == R::Valid { 0 } else { 1 });
                for r in rs.iter() { ops.push(Op::Submit { now: now0, p: 100 + p as u8, seq: 1, h: 1, ts: now0 }); obs.push(Some(r.clone())); }
                finals.push((100 + p as u8, sys.get_peer_counter(&uid(100 + p as u8)).await.map(|c| c.last_valid_sequence).unwrap_or(0)));
            }
            sum.count("concurrent_fresh_peers");
            Some(vec![Case { ops, obs, finals, kind: "concurrent-fresh" }])
        }
        // one task per peer, each submitting its own script concurrently: isolation
        _ => {
            let sys = std::sync::Arc::new(MonotonicCounterSystem::new(path).await.ok()?);
            let ps: Vec<u8> = (1..=6).collect();
            let mut hs = vec![];
            for &p in &ps {
                let s = sys.clone(); let mut r2 = rng.fork();
                hs.push(tokio::spawn(async move {
                    let mut last = 0u64; let mut out = vec![];
                    for _ in 0..12 {
                        let seq = pick_seq(&mut r2, last); let h = r2.below(3) as u8 + 1;
                        let now0 = now_secs();
                        let r = match s.validate_sequence(&uid(p), seq, hash(h)).await { Ok(r) => conv(&r), Err(_) => return None };
                        if now_secs() != now0 { return None; }
                        if r == R::Valid { last = seq; }
                        out.push((Op::Submit { now: now0, p, seq, h, ts: now0 }, r));
                        tokio::task::yield_now().await;
                    }
                    Some(out)
                }));
            }
            for h in hs { for (o, r) in h.await.ok()?? { ops.push(o); obs.push(Some(r)); } }
            let finals = finals_of(&sys, &ps).await;
            sum.count("concurrent_peers");
            Some(vec![Case { ops, obs, finals, kind: "concurrent-peers" }])
        }
    }
}

fn main() {
    let args = Args::parse();
    install_trace_sink();
    let rt = tokio::runtime::Builder::new_multi_thread().worker_threads(8).enable_all().build().unwrap();
    let mut rng = Rng::new(args.seed);
    let mut sum = Summary::default();
    sum.rule = "histories of validate_sequence / batch_update / cleanup on 1-3 peers with boundary-directed sequence numbers (last, last+1, last+2, 0, u64::MAX) and timestamps (window edges +-1 s); reload-after-sync, 16 concurrent identical submissions, concurrent per-peer scripts. Non-trivial = contains at least one accepted and one rejected submission; distinct = different (ops, verdicts) after erasing wall-clock values".into();
    let mut w = CaseWriter::new(&args.out, "cases_c12", HEADER, "case3", "check_case", "prop_case", 100);
    let target = if args.thorough() { 3000 } else { 400 };
    let mut id = 0u64;
    let mut seen = std::collections::HashSet::new();
    // replay: a single stored case is re-run through the model only (the implementation part is re-generated from the seed)
    let mut attempts = 0;
    while id < target && attempts < target * 3 {
        attempts += 1;
        let kind_sel = match rng.below(12) { 0..=5 => 0, 6..=7 => 1, 8 => 2, 9 => 3, _ => 4 };
        let mut r2 = rng.fork();
        let cases = rt.block_on(gen_case(&mut r2, &mut sum, kind_sel));
        let Some(cases) = cases else { sum.discarded_ambiguous += 1; continue };
        for c in cases {
            let term = format!("({}, {}, {})",
                coq_list(c.ops.iter().map(coq_op)), coq_list(c.obs.iter().map(coq_res)),
                coq_list(c.finals.iter().map(|(p, l)| format!("({}, {})", n_of_be(&[*p; 32]), l))));
            w.push(id, term);
            let nv = c.obs.iter().filter(|r| **r == Some(R::Valid)).count();
            let nr = c.obs.iter().filter(|r| r.is_some() && **r != Some(R::Valid)).count();
            // distinctness key: ops without clock values
            let key = format!("{:?}|{:?}", c.ops.iter().map(|o| match o {
                Op::Submit { now, p, seq, h, ts } => format!("S{}:{}:{}:{}", p, seq, h, *ts as i128 - *now as i128),
                Op::Cleanup { .. } => "C".into() }).collect::<Vec<_>>(), c.obs);
            if nv > 0 && nr > 0 && seen.insert(key) { sum.distinct_nontrivial += 1; }
            sum.evaluations += 1;
            sum.count(&format!("kind:{}", c.kind));
            sum.add("ops_total", c.ops.len() as u64);
            sum.case(id, json!({"kind": c.kind, "ops": c.ops.iter().map(json_op).collect::<Vec<_>>(),
                "observed": c.obs.iter().map(coq_res).collect::<Vec<_>>(),
                "finals": c.finals.iter().map(|(p, l)| json!([p, l.to_string()])).collect::<Vec<_>>()}));
            id += 1;
        }
    }
    w.flush();
    // direct violations were recorded with case id 0 placeholder: keep as is (they carry their own detail)
    sum.write(&args.out);
}
