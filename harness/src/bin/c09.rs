//! C09 correspondence: real PeerDHTRecord / SignatureCache vs Model/PeerRecord.v.
//!
//! Runs in the dev profile: `ml_dsa_sign` / `ml_dsa_verify` are then the keyless
//! digest shim of src/quantum_crypto/ant_quic_integration.rs (signature =
//! H(pk) || H(msg) || XOF(H(pk), H(msg), len, msg), verify = recompute and
//! compare).  The shim behaves as an ideal deterministic scheme (exactly one
//! signature verifies per (key, message)), which is what the record logic under
//! test needs.  "Forged" here always means a signature the shim rejects for the
//! presented (key, message): a genuine signature carried over to altered fields,
//! a signature made with another identity's secret key, flipped signature bytes,
//! the all-zero placeholder.  The harness never recomputes the shim itself.
use saorsa_core::peer_record::*;
use saorsa_core::quantum_crypto::ant_quic_integration::{
    ml_dsa_verify, register_debug_ml_dsa_keypair, MlDsaPublicKey, MlDsaSecretKey, MlDsaSignature,
};
use saorsa_core::NetworkAddress;
use serde_json::{json, Value};
use std::net::{Ipv4Addr, Ipv6Addr, SocketAddr, SocketAddrV4, SocketAddrV6};
use vh::*;

const HEADER: &str = "From SV Require Import Lib.Base Model.PeerRecord.\nLocal Open Scope N_scope.";
const TAG_V6: &str = "v6-scope-flowinfo";

// ------------------------------------------------------------------ Coq terms
/// bytes as a plain Coq list of N (measured: far cheaper for coqc to read than big-number chunks)
fn packed(b: &[u8]) -> String { coq_bytes(b) }
fn coq_optb(o: Option<&[u8]>) -> String {
    match o { None => "None".into(), Some(b) => format!("(Some {})", packed(b)) }
}
fn nat_idx(n: NatType) -> u8 {
    match n {
        NatType::NoNat => 0, NatType::FullCone => 1, NatType::RestrictedCone => 2,
        NatType::PortRestricted => 3, NatType::Symmetric => 4, NatType::Unknown => 5,
    }
}
const NATS: [NatType; 6] = [NatType::NoNat, NatType::FullCone, NatType::RestrictedCone, NatType::PortRestricted, NatType::Symmetric, NatType::Unknown];

fn coq_addr(a: &SocketAddr) -> String {
    match a {
        SocketAddr::V4(v) => format!("(V4 {} {})", coq_bytes(&v.ip().octets()), v.port()),
        SocketAddr::V6(v) => format!("(V6 {} {} {} {})", coq_bytes(&v.ip().octets()), v.port(), v.flowinfo(), v.scope_id()),
    }
}
fn coq_ep(e: &PeerEndpoint) -> String {
    format!("(mkEp {} {} {} {} {} {} {})",
        coq_bytes(e.endpoint_id.uuid.as_bytes()),
        coq_addr(&e.external_address.socket_addr),
        coq_optb(e.external_address.four_words.as_deref().map(|s| s.as_bytes())),
        nat_idx(e.nat_type),
        coq_list(e.coordinator_nodes.iter().map(|s| packed(s.as_bytes()))),
        coq_optb(e.device_info.as_deref().map(|s| s.as_bytes())),
        e.last_updated)
}

// ------------------------------------------------------------------ identities
struct Ident { pk: MlDsaPublicKey, sk: MlDsaSecretKey }
/// Public keys are arbitrary byte strings for the record logic (and for the debug shim); they are
/// produced by a formula that Model/PeerRecord.v repeats ([mk_key]), so that the 1952 bytes need not be
/// written into every case file.  A disagreement between the two formulas shows up as a byte mismatch.
fn key_byte(i: u64, j: u64) -> u8 {
    (((i + 1) * 73 + j * 151 + (j / 256) * 29 + (j * j) % 251) % 256) as u8
}
fn make_ident(rng: &mut Rng, i: u64) -> Ident {
    let mut p = Box::new([0u8; 1952]);
    let mut s = Box::new([0u8; 4032]);
    for (j, b) in p.iter_mut().enumerate() { *b = key_byte(i, j as u64); }
    for b in s.iter_mut() { *b = rng.next() as u8; }
    let pk = MlDsaPublicKey(p);
    let sk = MlDsaSecretKey(s);
    register_debug_ml_dsa_keypair(&sk, &pk);
    Ident { pk, sk }
}
fn key_expr(i: usize) -> String { format!("(mk_key {} 1952%nat)", i) }

/// a record together with the Coq expressions of its key and signature and a
/// human-readable account of how it was made
#[derive(Clone)]
struct R {
    rec: PeerDHTRecord,
    pk_expr: String,
    how: String,
    /// signed by the secret key that belongs to the embedded public key, fields unchanged since
    owner_signed: bool,
}

// ------------------------------------------------------------------ generators
fn gen_string(rng: &mut Rng) -> String {
    match rng.below(32) {
        0..=3 => String::new(),
        4..=7 => "a".into(),
        8..=10 => "é".into(),
        11..=13 => "日本".into(),
        14 => "x".repeat(127),   // last length with a 1-byte varint prefix
        15 => "y".repeat(128),   // first length with a 2-byte varint prefix
        _ => { let n = rng.range(1, 8) as usize; (0..n).map(|_| (b'a' + rng.below(26) as u8) as char).collect() }
    }
}
fn gen_u64_varint_edge(rng: &mut Rng) -> u64 {
    match rng.below(12) {
        0 => 0, 1 => 127, 2 => 128, 3 => 16383, 4 => 16384, 5 => u64::MAX, 6 => u64::MAX - 1,
        7 => (1u64 << 63) - 1, 8 => 1u64 << 63, 9 => (1u64 << 56) + 5,
        _ => 1_700_000_000 + rng.below(100_000_000),
    }
}
fn gen_port(rng: &mut Rng) -> u16 {
    match rng.below(8) { 0 => 0, 1 => 127, 2 => 128, 3 => 16383, 4 => 16384, 5 => 65535, _ => rng.below(65536) as u16 }
}
fn gen_addr(rng: &mut Rng) -> SocketAddr {
    if rng.chance(1, 2) {
        let b = rng.bytes(4);
        SocketAddr::V4(SocketAddrV4::new(Ipv4Addr::new(b[0], b[1], b[2], b[3]), gen_port(rng)))
    } else {
        let b: [u8; 16] = rng.bytes(16).try_into().unwrap();
        SocketAddr::V6(SocketAddrV6::new(Ipv6Addr::from(b), gen_port(rng), 0, 0))
    }
}
fn gen_endpoint(rng: &mut Rng) -> PeerEndpoint {
    let id: [u8; 16] = rng.bytes(16).try_into().unwrap();
    let ncoord = match rng.below(8) { 0 | 1 => 0, 2..=4 => 1, 5 | 6 => 2, _ => 3 };
    PeerEndpoint {
        endpoint_id: EndpointId::from_uuid(uuid::Uuid::from_bytes(id)),
        external_address: NetworkAddress {
            socket_addr: gen_addr(rng),
            four_words: if rng.chance(1, 2) { Some(gen_string(rng)) } else { None },
        },
        nat_type: *rng.pick(&NATS),
        coordinator_nodes: (0..ncoord).map(|_| gen_string(rng)).collect(),
        device_info: if rng.chance(1, 2) { Some(gen_string(rng)) } else { None },
        last_updated: gen_u64_varint_edge(rng),
    }
}
fn gen_name(rng: &mut Rng) -> Option<String> {
    match rng.below(24) {
        0..=5 => None,
        6..=8 => Some("a".into()),
        9 => Some("n".repeat(255)),
        10 => Some(format!("{}a", "é".repeat(127))),
        11 => Some("日".repeat(85)),
        // edge whitespace and control characters are part of the name exactly as presented
        12 => Some(" bob ".into()),
        13 => Some("alice\n".into()),
        14 => Some("\tcarol".into()),
        15 => Some(" ".into()),
        _ => Some(gen_string(rng)).filter(|s| !s.is_empty() && s.len() < 100).or(Some("bob".into())),
    }
}

/// a genuine record: built by `new`, timestamp fixed from the PRNG, signed by its owner
fn gen_genuine(rng: &mut Rng, ids: &[Ident], i: usize, sum: &mut Summary) -> R {
    let id = &ids[i];
    let neps = match rng.below(24) { 0 => 16, 1..=4 => 2, 5 | 6 => 3, _ => 1 };
    let eps: Vec<PeerEndpoint> = (0..neps).map(|_| gen_endpoint(rng)).collect();
    let seq = match rng.below(6) { 0 => 0, 1 => 1, 2 => u64::MAX, 3 => 255, 4 => 256, _ => rng.below(1000) };
    let ttl = match rng.below(6) { 0 => 1, 1 => 86400, 2 => 300, 3 => 255, 4 => 256, _ => rng.range(1, 86400) as u32 };
    let name = gen_name(rng);
    let mut rec = match PeerDHTRecord::new(UserId::from_public_key(&id.pk), id.pk.clone(), seq, name.clone(), eps.clone(), ttl) {
        Ok(r) => r,
        Err(e) => {
            // the generator stays inside the documented bounds: a refusal is a violation of C09's bounds clause
            sum.violation(0, "constructor refuses a record inside the documented bounds (name 1..255 bytes or none, 1..16 endpoints, ttl 1..86400)", &[],
                json!({"name_bytes": name.as_ref().map(|s| s.len()), "endpoints": eps.len(), "ttl": ttl, "error": e.to_string()}));
            PeerDHTRecord::new(UserId::from_public_key(&id.pk), id.pk.clone(), seq, None, vec![eps[0].clone()], 300).expect("plain record")
        }
    };
    rec.timestamp = gen_u64_varint_edge(rng);
    rec.sign(&id.sk).expect("sign");
    R { rec, pk_expr: format!("k{}", i), how: format!("genuine(id{})", i), owner_signed: true }
}

const N_MUT: u64 = 41;
/// field-level and byte-level alterations of a record; the signature is kept unless the mutation is about it
fn mutate(rng: &mut Rng, g: &R, kind: u64, ids: &[Ident], other: usize) -> R {
    let mut r = g.clone();
    r.owner_signed = false;
    let ne = r.rec.endpoints.len();
    let ei = rng.below(ne as u64) as usize;
    let what: String = match kind {
        0 => { r.rec.version = r.rec.version.wrapping_add(1); "version+1".into() }
        1 => { let p = rng.below(32) as usize; r.rec.user_id.hash[p] ^= 1 << rng.below(8); format!("uid byte {} flipped", p) }
        2 => { r.rec.user_id = UserId::from_public_key(&ids[other].pk); format!("uid := id of id{}", other) }
        3 => {
            let rp = rng.below(1952) as usize;
            let p = *rng.pick(&[0usize, 1, 31, 32, 1950, 1951, rp]);
            let v = r.rec.public_key.0[p] ^ (1 << rng.below(8));
            r.rec.public_key.0[p] = v;
            r.pk_expr = format!("(set_nth {}%nat {} {})", p, v, g.pk_expr);
            format!("key byte {} flipped", p)
        }
        4 => { r.rec.public_key = ids[other].pk.clone(); r.pk_expr = format!("k{}", other); format!("key := key of id{} (own id, foreign key)", other) }
        5 => { r.rec.sequence_number = r.rec.sequence_number.wrapping_add(1); "seq+1".into() }
        6 => { r.rec.sequence_number = r.rec.sequence_number.wrapping_sub(1); "seq-1".into() }
        7 => { r.rec.sequence_number ^= 1 << rng.below(64); "seq bit flipped".into() }
        8 => { r.rec.name = match &r.rec.name { None => Some("mallory".into()), Some(_) => None }; "name None<->Some".into() }
        9 => { let suffix = *rng.pick(&["x", " ", "\n", "\t", "\u{a0}"]);
               r.rec.name = Some(match &r.rec.name { Some(n) => if rng.chance(1, 2) { format!("{}{}", n, suffix) } else { format!("{}{}", suffix, n) }, None => "x".into() });
               "name extended at an edge (letters / whitespace)".into() }
        10 => { r.rec.name = Some(String::new()); "name := Some(\"\")".into() }
        11 => {
            // move the name's last byte (ASCII names only) into nothing: shorter name
            r.rec.name = match &r.rec.name { Some(n) if n.len() > 1 && n.is_ascii() => Some(n[..n.len() - 1].into()), _ => Some("zz".into()) };
            "name shortened/replaced".into()
        }
        12 => { r.rec.ttl = r.rec.ttl.wrapping_add(1); "ttl+1".into() }
        13 => { r.rec.ttl = r.rec.ttl.wrapping_sub(1); "ttl-1".into() }
        14 => { r.rec.timestamp = r.rec.timestamp.wrapping_add(1); "ts+1".into() }
        15 => { r.rec.timestamp = r.rec.timestamp.wrapping_sub(1); "ts-1".into() }
        16 => { r.rec.endpoints.push(gen_endpoint(rng)); "endpoint appended".into() }
        17 => { if ne > 1 { r.rec.endpoints.remove(ei); } else { r.rec.endpoints.clear(); } "endpoint removed".into() }
        18 => { if ne > 1 { r.rec.endpoints.swap(0, ne - 1); if r.rec.endpoints[0] == r.rec.endpoints[ne - 1] { r.rec.endpoints[0].last_updated ^= 1; } } else { let e = r.rec.endpoints[0].clone(); r.rec.endpoints.push(e); } "endpoints reordered/duplicated".into() }
        19 => { let mut b = *r.rec.endpoints[ei].endpoint_id.uuid.as_bytes(); b[rng.below(16) as usize] ^= 1; r.rec.endpoints[ei].endpoint_id = EndpointId::from_uuid(uuid::Uuid::from_bytes(b)); "endpoint uuid byte".into() }
        20 => {
            let a = &mut r.rec.endpoints[ei].external_address.socket_addr;
            *a = match *a {
                SocketAddr::V4(v) => { let mut o = v.ip().octets(); o[rng.below(4) as usize] ^= 1; SocketAddr::V4(SocketAddrV4::new(Ipv4Addr::from(o), v.port())) }
                SocketAddr::V6(v) => { let mut o = v.ip().octets(); o[rng.below(16) as usize] ^= 1; SocketAddr::V6(SocketAddrV6::new(Ipv6Addr::from(o), v.port(), v.flowinfo(), v.scope_id())) }
            };
            "endpoint ip byte".into()
        }
        21 => { let a = &mut r.rec.endpoints[ei].external_address.socket_addr; a.set_port(a.port().wrapping_add(1)); "endpoint port+1".into() }
        22 => {
            // v4 <-> v6 with related bytes
            let a = &mut r.rec.endpoints[ei].external_address.socket_addr;
            *a = match *a {
                SocketAddr::V4(v) => SocketAddr::V6(SocketAddrV6::new(v.ip().to_ipv6_mapped(), v.port(), 0, 0)),
                SocketAddr::V6(v) => { let o = v.ip().octets(); SocketAddr::V4(SocketAddrV4::new(Ipv4Addr::new(o[12], o[13], o[14], o[15]), v.port())) }
            };
            "endpoint v4<->v6".into()
        }
        23 => { let w = &mut r.rec.endpoints[ei].external_address.four_words; *w = match w { None => Some(String::new()), Some(s) if s.is_empty() => None, Some(s) => Some(format!("{}-", s)) }; "four_words changed (None/Some(\"\")/longer)".into() }
        24 => { let n = r.rec.endpoints[ei].nat_type; r.rec.endpoints[ei].nat_type = NATS[(nat_idx(n) as usize + 1 + rng.below(5) as usize) % 6]; "nat type".into() }
        25 => { r.rec.endpoints[ei].coordinator_nodes.push(gen_string(rng)); "coordinator appended".into() }
        26 => {
            // same concatenated text, different split: ["ab","c"] vs ["a","bc"]
            let c = &mut r.rec.endpoints[ei].coordinator_nodes;
            if c.len() >= 2 && !c[0].is_empty() && c[0].is_ascii() { let ch = c[0].pop().unwrap(); c[1].insert(0, ch); }
            else if !c.is_empty() && c[0].len() >= 2 && c[0].is_ascii() { let t = c[0].split_off(1); c.insert(1, t); }
            else { c.insert(0, "q".into()); }
            "coordinator strings re-split".into()
        }
        27 => { let d = &mut r.rec.endpoints[ei].device_info; *d = match d { None => Some(String::new()), Some(s) if s.is_empty() => None, Some(_) => None }; "device_info None<->Some".into() }
        28 => { r.rec.endpoints[ei].last_updated = r.rec.endpoints[ei].last_updated.wrapping_add(1); "last_updated+1".into() }
        29 => { r.rec.endpoints[ei].last_updated ^= 1 << rng.below(64); "last_updated bit".into() }
        30 => {
            // move text between two neighbouring fields of an endpoint
            let e = &mut r.rec.endpoints[ei];
            let t = e.device_info.take();
            e.device_info = e.external_address.four_words.take();
            e.external_address.four_words = t;
            if e.device_info == e.external_address.four_words { e.device_info = Some("swapped".into()); }
            "four_words <-> device_info".into()
        }
        31..=35 => {
            // byte-level signature mutation
            let p = match kind { 31 => 0usize, 32 => *rng.pick(&[31usize, 32, 63, 64]), 33 => 3308, _ => rng.below(3309) as usize };
            let v = r.rec.signature.0[p] ^ (1u8 << rng.below(8));
            r.rec.signature.0[p] = v;
            format!("signature byte {} flipped", p)
        }
        36 => { r.rec.signature = MlDsaSignature(Box::new([0u8; 3309])); "signature := zero placeholder".into() }
        37 => {
            // altered name, re-signed by another identity's secret key, owner's key kept
            r.rec.name = Some("eve".into());
            r.rec.sign(&ids[other].sk).expect("sign");
            format!("name altered, re-signed with secret key of id{}", other)
        }
        38 => {
            // attacker's own key pair, victim's user id, correctly signed by the attacker
            r.rec.public_key = ids[other].pk.clone(); r.pk_expr = format!("k{}", other);
            r.rec.sign(&ids[other].sk).expect("sign");
            r.owner_signed = true;
            format!("foreign id with own key: key+signature of id{}, user id of the victim", other)
        }
        40 => {
            // the key owner signs a record whose user id is off by one bit: only the id check can refuse it
            let p = *rng.pick(&[0usize, 15, 16, 31, 7, 24]);
            r.rec.user_id.hash[p] ^= 1 << rng.below(8);
            match ids.iter().find(|x| x.pk.as_bytes() == r.rec.public_key.as_bytes()) {
                Some(id) => { r.rec.sign(&id.sk).expect("sign"); r.owner_signed = true; }
                None => {}
            }
            format!("uid byte {} flipped, then signed by the key owner", p)
        }
        _ => {
            // same (id, seq, ts), every other covered field replaced, genuine signature kept
            r.rec.name = Some("forged".into());
            r.rec.endpoints = vec![gen_endpoint(rng)];
            r.rec.ttl = if r.rec.ttl == 86400 { 1 } else { 86400 };
            "forged: same (id, seq, ts), other fields replaced".into()
        }
    };
    r.how = format!("{} <- {}", what, g.how);
    r
}

// ------------------------------------------------------------------ one history
struct Pres { ri: usize, msg_ok: bool, sv: bool, direct: bool, cached: bool }

fn rec_term(r: &R, sig_token: usize) -> String {
    let x = &r.rec;
    format!("(mkRec {} {} {} {} {} {} {} {} {})",
        x.version, packed(&x.user_id.hash), r.pk_expr, x.sequence_number,
        coq_optb(x.name.as_deref().map(|s| s.as_bytes())),
        coq_list(x.endpoints.iter().map(coq_ep)), x.ttl, x.timestamp, format!("[{}]", sig_token))
}
fn msg_term(r: &R, m: &Option<Vec<u8>>) -> String {
    match m {
        None => "(@None bytes)".into(),
        Some(b) => {
            let pk = r.rec.public_key.as_bytes();
            // transport compression only: the key slice is replaced by the name bound to exactly those bytes
            if b.len() >= 33 + pk.len() && &b[33..33 + pk.len()] == pk {
                format!("(Some ({} ++ {} ++ {}))", coq_bytes(&b[..33]), r.pk_expr, coq_bytes(&b[33 + pk.len()..]))
            } else {
                format!("(Some {})", packed(b))
            }
        }
    }
}
fn rec_json(r: &R) -> Value {
    let x = &r.rec;
    json!({"how": r.how, "seq": x.sequence_number.to_string(), "ts": x.timestamp.to_string(), "ttl": x.ttl,
           "uid8": hex::encode(&x.user_id.hash[..8]), "name": x.name, "version": x.version,
           "endpoints": x.endpoints.iter().map(|e| json!({
               "uuid": e.endpoint_id.uuid.to_string(), "addr": e.external_address.socket_addr.to_string(),
               "scope": match e.external_address.socket_addr { SocketAddr::V6(v) => json!([v.flowinfo(), v.scope_id()]), _ => Value::Null },
               "four_words": e.external_address.four_words, "nat": nat_idx(e.nat_type), "coord": e.coordinator_nodes,
               "device": e.device_info, "last_updated": e.last_updated.to_string()})).collect::<Vec<_>>()})
}

#[derive(PartialEq, Clone, Copy)]
enum Kind { Mixed, SharedKey, ForgedFirst, Evict, V6Scope }

fn fields_equal(a: &PeerDHTRecord, b: &PeerDHTRecord) -> bool {
    a.version == b.version && a.user_id == b.user_id && a.public_key.as_bytes() == b.public_key.as_bytes()
        && a.sequence_number == b.sequence_number && a.name == b.name && a.endpoints == b.endpoints
        && a.timestamp == b.timestamp && a.ttl == b.ttl
}

fn gen_history(rng: &mut Rng, ids: &[Ident], kind: Kind, case_no: u64, thorough: bool, sum: &mut Summary) -> (String, Value, bool, String) {
    let mut pool: Vec<R> = vec![];
    let ngen = match kind { Kind::V6Scope => 1, Kind::SharedKey | Kind::ForgedFirst => 1, _ => rng.range(1, 3) as usize };
    for _ in 0..ngen {
        let i = rng.below(ids.len() as u64) as usize;
        let mut g = gen_genuine(rng, ids, i, sum);
        if kind == Kind::V6Scope {
            // make sure there is an IPv6 endpoint, signed with scope 0
            g.rec.endpoints[0].external_address.socket_addr = SocketAddr::V6(SocketAddrV6::new(Ipv6Addr::new(0xfe80, 0, 0, 0, 0, 0, 0, 1 + rng.below(9) as u16), gen_port(rng), 0, 0));
            g.rec.sign(&ids[i].sk).expect("sign");
        }
        pool.push(g);
    }
    let mut order: Vec<usize> = vec![];
    match kind {
        Kind::V6Scope => {
            let mut m = pool[0].clone();
            if let SocketAddr::V6(v) = m.rec.endpoints[0].external_address.socket_addr {
                let (fl, sc) = match rng.below(3) { 0 => (0, 1 + rng.below(9) as u32), 1 => (1 + rng.below(9) as u32, 0), _ => (7, 7) };
                m.rec.endpoints[0].external_address.socket_addr = SocketAddr::V6(SocketAddrV6::new(*v.ip(), v.port(), fl, sc));
            }
            m.owner_signed = false;
            m.how = format!("IPv6 flowinfo/scope_id changed <- {}", pool[0].how);
            pool.push(m);
            order = vec![0, 1, 0, 1];
        }
        Kind::SharedKey | Kind::ForgedFirst => {
            // forgeries that share (user id, sequence number, timestamp) with the genuine record
            let kinds = [8u64, 9, 12, 16, 21, 25, 39, 36, 31, 37, 33];
            let n = rng.range(1, 3);
            for _ in 0..n {
                let k = *rng.pick(&kinds);
                let own = ids.iter().position(|x| x.pk.as_bytes() == pool[0].rec.public_key.as_bytes()).unwrap_or(0);
                let other = (own + 1 + rng.below(ids.len() as u64 - 1) as usize) % ids.len();
                let m = mutate(rng, &pool[0].clone(), k, ids, other);
                sum.count(&format!("mut:{:02}", k));
                pool.push(m);
            }
            if kind == Kind::SharedKey { order.push(0); for i in 1..pool.len() { order.push(i); } order.push(0); for i in 1..pool.len() { order.push(i); } }
            else { for i in 1..pool.len() { order.push(i); } order.push(0); order.push(1); order.push(0); }
        }
        Kind::Mixed | Kind::Evict => {
            let nm = rng.range(2, if thorough { 8 } else { 5 });
            for j in 0..nm {
                let gi = rng.below(ngen as u64) as usize;
                let k = (case_no * 7 + j * 11 + rng.below(3)) % N_MUT;
                let own = ids.iter().position(|x| x.pk.as_bytes() == pool[gi].rec.public_key.as_bytes()).unwrap_or(0);
                let other = (own + 1 + rng.below(ids.len() as u64 - 1) as usize) % ids.len();
                let base = pool[gi].clone();
                let m = mutate(rng, &base, k, ids, other);
                sum.count(&format!("mut:{:02}", k));
                pool.push(m);
            }
            let len = rng.range(4, if thorough { 20 } else { 14 }) as usize;
            for _ in 0..len {
                // revisit recent records often so that hits, misses and evictions all occur
                let i = if !order.is_empty() && rng.chance(1, 3) { order[order.len() - 1 - rng.below(order.len().min(3) as u64) as usize] } else { rng.below(pool.len() as u64) as usize };
                order.push(i);
            }
        }
    }
    let cap = match kind {
        Kind::Evict => rng.range(1, 2) as usize,
        Kind::V6Scope => 4,
        _ => match rng.below(10) { 0 => 0, 1 => 1, 2 => 2, _ => rng.range(1, 8) as usize },
    };
    // ---- drive the real code
    let mut cache = SignatureCache::new(cap);
    let mut msgs: Vec<Option<Vec<u8>>> = vec![];
    let mut hashes: Vec<[u8; 32]> = vec![];
    let mut hpks: Vec<[u8; 32]> = vec![];
    for r in &pool {
        msgs.push(r.rec.create_signable_message().ok());
        hashes.push(*r.rec.content_hash().as_bytes());
        hpks.push(*blake3::hash(r.rec.public_key.as_bytes()).as_bytes());
    }
    let mut pres: Vec<Pres> = vec![];
    for &ri in &order {
        let r = &pool[ri];
        let direct = r.rec.verify_signature().is_ok();
        let sv = match &msgs[ri] { Some(m) => ml_dsa_verify(&r.rec.public_key, m, &r.rec.signature).unwrap_or(false), None => false };
        let cached = cache.verify_cached(&r.rec).is_ok();
        sum.count(if direct { "verdict:valid" } else { "verdict:rejected" });
        if cached != direct { sum.count("cached!=direct"); }
        pres.push(Pres { ri, msg_ok: msgs[ri].is_some(), sv, direct, cached });
    }
    // the finding class hides Coq-side failures of the whole case: check the other conclusions here, untagged
    if kind == Kind::V6Scope {
        for p in &pres {
            if p.cached != p.direct {
                sum.violation(case_no, "verify_cached differs from verify_signature", &[], json!({"record": rec_json(&pool[p.ri])}));
            }
            if p.direct && pool[p.ri].rec.user_id != UserId::from_public_key(&pool[p.ri].rec.public_key) {
                sum.violation(case_no, "record verifies although its user id is not the hash of its key", &[], json!({"record": rec_json(&pool[p.ri])}));
            }
        }
    }
    // ---- Coq term
    let used_ids: Vec<usize> = (0..ids.len()).filter(|i| pool.iter().any(|r| r.pk_expr.contains(&format!("k{}", i)))).collect();
    let mut t = String::from("(");
    for i in &used_ids { t += &format!("let k{} := {} in\n  ", i, key_expr(*i)); }
    // signatures (3309 bytes each) and hashes go to the model as tokens: equal token <=> equal bytes
    // (within this history).  The model uses them only for equality (cache key) -- see design/C09.md.
    let mut sig_tab: Vec<Vec<u8>> = vec![];
    let mut hash_tab: Vec<[u8; 32]> = vec![];
    let mut sig_tok = vec![]; let mut hash_tok = vec![];
    for (i, r) in pool.iter().enumerate() {
        let b = r.rec.signature.as_bytes().to_vec();
        sig_tok.push(match sig_tab.iter().position(|x| *x == b) { Some(k) => k, None => { sig_tab.push(b); sig_tab.len() - 1 } });
        hash_tok.push(match hash_tab.iter().position(|x| *x == hashes[i]) { Some(k) => k, None => { hash_tab.push(hashes[i]); hash_tab.len() - 1 } });
    }
    for (i, r) in pool.iter().enumerate() { t += &format!("let r{} := {} in\n  ", i, rec_term(r, sig_tok[i])); }
    for (i, r) in pool.iter().enumerate() { t += &format!("let m{} := {} in\n  ", i, msg_term(r, &msgs[i])); }
    let signed = coq_list(pool.iter().enumerate().filter(|(_, r)| r.owner_signed).map(|(i, _)| format!("r{}", i)));
    let ps = coq_list(pres.iter().map(|p| format!("mkP r{} m{} {} {} {} {} {}", p.ri, p.ri, packed(&hpks[p.ri]), coq_bool(p.sv),
        hash_tok[p.ri], coq_bool(p.direct), coq_bool(p.cached))));
    t += &format!("Hist {}%nat {} {})", cap, signed, ps);
    // ---- replayable description
    let tags: Vec<&str> = if kind == Kind::V6Scope { vec![TAG_V6] } else { vec![] };
    let kind_s = match kind { Kind::Mixed => "mixed", Kind::SharedKey => "genuine-then-forgery-sharing-id-seq-ts", Kind::ForgedFirst => "forgery-first", Kind::Evict => "small-capacity", Kind::V6Scope => "v6-scope" };
    let j = json!({"kind": kind_s, "capacity": cap, "tags": tags,
        "records": pool.iter().map(rec_json).collect::<Vec<_>>(),
        "presented": pres.iter().map(|p| json!({"record": p.ri, "message_built": p.msg_ok, "primitive_accepts": p.sv, "verify_signature": p.direct, "verify_cached": p.cached})).collect::<Vec<_>>()});
    // sanity of the harness's own bookkeeping: a record marked owner_signed must equal some signed record
    for r in pool.iter().filter(|r| r.owner_signed) { debug_assert!(pool.iter().any(|g| g.owner_signed && fields_equal(&g.rec, &r.rec))); }
    let nontrivial = pres.iter().any(|p| p.direct) && pres.iter().any(|p| !p.direct)
        && (0..pres.len()).any(|i| (0..i).any(|k| pres[k].ri == pres[i].ri));
    let key = format!("{}|{}|{:?}", kind_s, cap, pres.iter().map(|p| (pool[p.ri].how.clone(), p.direct, p.cached)).collect::<Vec<_>>());
    sum.add("presentations", pres.len() as u64);
    sum.count(&format!("cap:{}", cap));
    (t, j, nontrivial, key)
}

// ------------------------------------------------------------------ construction bounds
fn construct_cases(ids: &[Ident], rng: &mut Rng, viol: &mut Vec<Value>) -> Vec<(String, Value)> {
    let names: Vec<Option<String>> = vec![
        None, Some(String::new()), Some("a".into()), Some("n".repeat(255)), Some("n".repeat(256)),
        Some("é".repeat(127)) /* 254 bytes */, Some(format!("{}a", "é".repeat(127))) /* 255 */, Some("é".repeat(128)) /* 256 bytes, 128 chars */,
        Some("日".repeat(85)) /* 255 */, Some("😀".repeat(64)) /* 256 bytes, 64 chars */, Some("n".repeat(1000)),
    ];
    let neps = [0usize, 1, 2, 15, 16, 17, 40];
    let ttls = [0u32, 1, 2, 300, 86399, 86400, 86401, u32::MAX];
    let ep = gen_endpoint(rng);
    let mut out = vec![];
    for n in &names { for &k in &neps { for &t in &ttls {
        let id = &ids[0];
        let ok = PeerDHTRecord::new(UserId::from_public_key(&id.pk), id.pk.clone(), 1, n.clone(), vec![ep.clone(); k], t).is_ok();
        let nl = n.as_ref().map(|s| s.len());
        // the bounds as the property text states them (reported directly so that a failing input is
        // available even when a changed constant stops the Coq model from compiling)
        let documented = nl.map_or(true, |l| (1..=255).contains(&l)) && (1..=16).contains(&k) && (1..=86400).contains(&t);
        if ok != documented {
            viol.push(json!({"name_bytes": nl, "name_chars": n.as_ref().map(|s| s.chars().count()), "endpoints": k, "ttl": t, "accepted": ok, "documented": documented}));
        }
        out.push((format!("Construct {} {} {} {}", coq_opt(nl.map(|l| l.to_string())), k, t, coq_bool(ok)),
                  json!({"kind": "construct", "name_bytes": nl, "name_chars": n.as_ref().map(|s| s.chars().count()), "endpoints": k, "ttl": t, "accepted": ok})));
    } } }
    out
}

fn main() {
    let args = Args::parse();
    install_trace_sink();
    let mut rng = Rng::new(args.seed);
    let mut sum = Summary::default();
    sum.rule = "histories of verify_signature / verify_cached on one SignatureCache (capacity 0..8) over pools of genuine records (names None/1/255 bytes/multi-byte, 1..16 endpoints, varint and integer boundaries), 41 kinds of field-level and byte-level alterations, forgeries sharing (id, seq, ts), foreign id with own key, own id with foreign key, re-signed by a foreign key, zero signature; plus the constructor on name length {none,0,1,254,255,256,1000 bytes incl. multi-byte} x endpoints {0,1,2,15,16,17,40} x ttl {0,1,2,300,86399,86400,86401,u32::MAX}. Non-trivial history = contains an accepted and a rejected presentation and at least one repeated record; distinct = different (kind, capacity, sequence of (how the record was made, verdicts))".into();
    let ids: Vec<Ident> = (0..4).map(|i| make_ident(&mut rng, i)).collect();
    let mut wb = CaseWriter::new(&args.out, "cases_c09_bounds", HEADER, "c09case", "check_case", "prop_case", 400);
    let mut id = 0u64;
    let mut viol = vec![];
    for (t, j) in construct_cases(&ids, &mut rng, &mut viol) {
        wb.push(id, t); sum.case(id, j); sum.evaluations += 1; sum.count("kind:construct"); id += 1;
    }
    for v in viol.into_iter().take(5) {
        sum.violation(0, "PeerDHTRecord::new accepts/refuses differently from the documented bounds (name 1..255 bytes or none, 1..16 endpoints, ttl 1..86400)", &[], v);
    }
    wb.flush();
    let mut w = CaseWriter::new(&args.out, "cases_c09_hist", HEADER, "c09case", "check_case", "prop_case", if args.thorough() { 30 } else { 9 });
    let nhist = if args.thorough() { 1200 } else { 144 };
    let mut seen = std::collections::HashSet::new();
    for h in 0..nhist {
        let kind = match h % 12 { 0 | 1 => Kind::SharedKey, 2 => Kind::ForgedFirst, 3 | 4 => Kind::Evict, 5 => if h % 24 == 5 { Kind::V6Scope } else { Kind::Mixed }, _ => Kind::Mixed };
        let mut r2 = rng.fork();
        let (t, j, nontrivial, key) = gen_history(&mut r2, &ids, kind, id, args.thorough(), &mut sum);
        w.push(id, t);
        sum.count(&format!("kind:{}", j["kind"].as_str().unwrap_or("")));
        sum.case(id, j);
        sum.evaluations += 1;
        if nontrivial && seen.insert(key) { sum.distinct_nontrivial += 1; }
        id += 1;
    }
    w.flush();
    sum.write(&args.out);
}
