//! probe (temporary)
use saorsa_core::peer_record::*;
use saorsa_core::quantum_crypto::ant_quic_integration::{generate_ml_dsa_keypair, MlDsaPublicKey, MlDsaSignature};
use saorsa_core::NetworkAddress;
use std::net::{Ipv6Addr, SocketAddr, SocketAddrV6};

fn ep(addr: SocketAddr) -> PeerEndpoint {
    PeerEndpoint {
        endpoint_id: EndpointId::from_uuid(uuid::Uuid::from_bytes([7u8; 16])),
        external_address: NetworkAddress { socket_addr: addr, four_words: Some("ab".into()) },
        nat_type: NatType::Symmetric,
        coordinator_nodes: vec!["c1".into(), "".into()],
        device_info: None,
        last_updated: 300,
    }
}

fn main() {
    let (pk, sk) = generate_ml_dsa_keypair().unwrap();
    let (pk2, sk2) = generate_ml_dsa_keypair().unwrap();
    let uid = UserId::from_public_key(&pk);
    let e = ep("1.2.3.4:80".parse().unwrap());
    println!("postcard ep v4: {:?}", postcard::to_stdvec(&vec![e.clone()]).unwrap());
    let e6 = ep(SocketAddr::V6(SocketAddrV6::new(Ipv6Addr::new(0xfe80, 0, 0, 0, 0, 0, 0, 1), 65535, 5, 9)));
    println!("postcard ep v6: {:?}", postcard::to_stdvec(&vec![e6.clone()]).unwrap());
    let mut r = PeerDHTRecord::new(uid.clone(), pk.clone(), 1, None, vec![e.clone()], 300).unwrap();
    r.sign(&sk).unwrap();
    println!("genuine direct {:?}", r.verify_signature().is_ok());
    let m = r.create_signable_message().unwrap();
    println!("signable len {} tail {:?}", m.len(), &m[33 + 1952..]);
    // F09a
    let mut cache = SignatureCache::new(4);
    println!("cached genuine {:?}", cache.verify_cached(&r).is_ok());
    let mut f = r.clone();
    f.name = Some("mallory".into());
    println!("forged direct {:?} cached {:?}", f.verify_signature().is_ok(), cache.verify_cached(&f).is_ok());
    // F09b
    let mut g = PeerDHTRecord::new(uid.clone(), pk2.clone(), 1, None, vec![e.clone()], 300).unwrap();
    g.sign(&sk2).unwrap();
    println!("foreign uid with own key: direct {:?}", g.verify_signature().is_ok());
    // F09c
    let mut h = r.clone();
    h.name = Some(String::new());
    println!("empty name: direct {:?}", h.verify_signature().is_ok());
    // v6 scope
    let mut a = PeerDHTRecord::new(uid.clone(), pk.clone(), 2, None, vec![e6.clone()], 300).unwrap();
    a.sign(&sk).unwrap();
    let mut b = a.clone();
    b.endpoints[0].external_address.socket_addr = SocketAddr::V6(SocketAddrV6::new(Ipv6Addr::new(0xfe80, 0, 0, 0, 0, 0, 0, 1), 65535, 6, 10));
    println!("v6 scope: endpoints equal {:?} direct {:?}", a.endpoints == b.endpoints, b.verify_signature().is_ok());
    let _ = (MlDsaPublicKey(Box::new([0u8; 1952])), MlDsaSignature(Box::new([0u8; 3309])));
    println!("hash {:?}", r.content_hash().as_bytes());
}
