//! C15 correspondence: real CloseGroupValidator (validate_membership, cache_result + validate,
//! validate_trust_only) and NodeValidationResult counters vs Model/CloseGroup.v.
//!
//! Trust values and thresholds are drawn from decimal grids (thousandths / hundredths) and handed to
//! the implementation as `k as f64 / 1000.0` (= the f64 nearest to the decimal) and to Coq as the exact
//! rational k/1000, so that the rational model reproduces every f64 comparison except when a
//! weighted ratio lies within 1e-6 (relative) of its threshold and the weights are not dyadic; those
//! inputs are discarded and counted.  With dyadic weights (multiples of 1/8) all f64 sums are exact
//! and the quotient is correctly rounded, so exact ties (7/10 vs 0.7) are kept and must match.
use saorsa_core::dht::routing_maintenance::close_group_validator::*;
use saorsa_core::dht::routing_maintenance::config::MaintenanceConfig;
use saorsa_core::dht::routing_maintenance::validator::{NodeValidationResult, ValidationFailure};
use saorsa_core::dht::DhtNodeId;
use serde_json::json;
use std::time::{Duration, Instant};
use vh::*;

const HEADER: &str = "From SV Require Import Lib.Base Model.CloseGroup.\nFrom Coq Require Import QArith.";
const MS: u64 = 1_000_000;

#[derive(Clone, Debug, PartialEq)]
enum Trust { None, Milli(i64), NaN, Inf, NegInf }
impl Trust {
    fn f(&self) -> Option<f64> {
        match self {
            Trust::None => None,
            Trust::Milli(k) => Some(*k as f64 / 1000.0),
            Trust::NaN => Some(f64::NAN),
            Trust::Inf => Some(f64::INFINITY),
            Trust::NegInf => Some(f64::NEG_INFINITY),
        }
    }
    fn special(&self) -> bool { matches!(self, Trust::NaN | Trust::Inf | Trust::NegInf) }
    fn coq(&self) -> String {
        match self { Trust::None => "TNone".into(), Trust::Milli(k) => format!("(TM ({}))", k), _ => unreachable!() }
    }
    fn js(&self) -> serde_json::Value {
        match self { Trust::None => json!(null), Trust::Milli(k) => json!(*k as f64 / 1000.0), Trust::NaN => json!("NaN"), Trust::Inf => json!("inf"), Trust::NegInf => json!("-inf") }
    }
}

#[derive(Clone, Debug)]
struct W { confirms: bool, trust: Trust, region: Option<u8>, lat_ns: u64 }

#[derive(Clone, Debug)]
enum CfgKind { Default, LogOnly, Maint(usize, bool), Custom }
#[derive(Clone, Debug)]
struct Cfg { kind: CfgKind, min_peers: usize, thr_w: i64, thr_bft: i64, min_trust: i64, min_regions: usize, strict: bool }
// thr_* in hundredths, min_trust in thousandths (Custom only; the other kinds take the values of the real config)

const REGION_NAMES: [&str; 9] = ["", "A", "B", "C", "D", "E", "F", "G", "H"];

fn real_cfg(c: &Cfg) -> CloseGroupValidatorConfig {
    let mode = |s: bool| if s { CloseGroupEnforcementMode::Strict } else { CloseGroupEnforcementMode::LogOnly };
    match c.kind {
        CfgKind::Default => CloseGroupValidatorConfig::default(),
        CfgKind::LogOnly => CloseGroupValidatorConfig::log_only(),
        CfgKind::Maint(f, s) => CloseGroupValidatorConfig::from_maintenance_config(&MaintenanceConfig { bft_fault_tolerance: f, ..Default::default() }).with_enforcement_mode(mode(s)),
        CfgKind::Custom => CloseGroupValidatorConfig {
            min_peers_to_query: c.min_peers, max_peers_to_query: c.min_peers + 5,
            trust_weighted_threshold: c.thr_w as f64 / 100.0, bft_threshold: c.thr_bft as f64 / 100.0,
            min_witness_trust: c.min_trust as f64 / 1000.0, min_regions: c.min_regions,
            enforcement_mode: mode(c.strict), ..Default::default() },
    }
}
fn coq_cfg(c: &Cfg) -> String {
    match c.kind {
        CfgKind::Default => "cfg_default".into(),
        CfgKind::LogOnly => "cfg_log_only".into(),
        CfgKind::Maint(f, s) => format!("(with_strict (cfg_from_maintenance {}) {})", f, coq_bool(s)),
        CfgKind::Custom => format!("(mkCfg {} ({} # 100) ({} # 100) ({} # 1000) {} {})", c.min_peers, c.thr_w, c.thr_bft, c.min_trust, c.min_regions, coq_bool(c.strict)),
    }
}
/// numeric view of a config for the generator and the tie detector: (min_peers, thr_w num/den, min_trust thousandths, min_regions)
fn cfg_numbers(c: &Cfg) -> (usize, (i128, i128), (i128, i128), i64, usize) {
    match c.kind {
        CfgKind::Default | CfgKind::LogOnly => (5, (70, 100), (71, 100), 300, 3),
        CfgKind::Maint(f, _) => (3 * f + 1, (70, 100), ((2 * f + 1) as i128, (3 * f + 1) as i128), 300, 3),
        CfgKind::Custom => (c.min_peers, (c.thr_w as i128, 100), (c.thr_bft as i128, 100), c.min_trust, c.min_regions),
    }
}

fn fail_name(f: &CloseGroupFailure) -> Option<&'static str> {
    match f {
        CloseGroupFailure::InsufficientConfirmation => Some("InsufficientConfirmation"),
        CloseGroupFailure::LowTrustScore => Some("LowTrustScore"),
        CloseGroupFailure::InsufficientGeographicDiversity => Some("InsufficientGeographicDiversity"),
        CloseGroupFailure::SuspectedCollusion => Some("SuspectedCollusion"),
        _ => None,
    }
}
fn f64_coq(x: f64) -> String {
    if !x.is_finite() { return "FNaN".into(); }
    if x == 0.0 { return "(FQ 0 0)".into(); }
    let bits = x.to_bits();
    let neg = bits >> 63 == 1;
    let exp = ((bits >> 52) & 0x7ff) as i64;
    let frac = bits & ((1u64 << 52) - 1);
    let (mut m, mut e) = if exp == 0 { (frac, -1074i64) } else { (frac | (1u64 << 52), exp - 1075) };
    while m % 2 == 0 { m /= 2; e += 1; }
    format!("(FQ ({}{}) ({}))", if neg { "-" } else { "" }, m, e)
}
fn pair_coq(p: &(bool, Option<CloseGroupFailure>)) -> Option<String> {
    let f = match &p.1 { None => "None".to_string(), Some(f) => format!("(Some {})", fail_name(f)?) };
    Some(format!("({}, {})", coq_bool(p.0), f))
}

fn responses(ws: &[W]) -> Vec<CloseGroupResponse> {
    ws.iter().map(|w| CloseGroupResponse {
        peer_id: DhtNodeId::random(), confirms_membership: w.confirms, peer_trust_score: w.trust.f(),
        peer_region: w.region.map(|g| REGION_NAMES[g as usize].to_string()),
        response_latency: Duration::from_nanos(w.lat_ns), received_at: Instant::now() }).collect()
}

struct Obs { valid: bool, fails: Vec<CloseGroupFailure>, bft: bool, regions: usize, ratio: f64, weighted: f64,
             enforced: bool, toc: (bool, Option<CloseGroupFailure>), tof: (bool, Option<CloseGroupFailure>) }

fn run_real(c: &Cfg, attack: bool, ws: &[W], cand: &Trust) -> Obs {
    let v = CloseGroupValidator::new(real_cfg(c));
    v.set_attack_mode(attack);
    let node = DhtNodeId::random();
    let r = v.validate_membership(&node, &responses(ws), cand.f());
    let fresh = CloseGroupValidator::new(real_cfg(c));
    fresh.set_attack_mode(attack);
    let tof = fresh.validate_trust_only(&node, cand.f());
    v.cache_result(r.clone());
    let enforced = v.validate(&node);
    let toc = v.validate_trust_only(&node, cand.f());
    Obs { valid: r.is_valid, fails: r.failure_reasons.clone(), bft: r.used_bft_consensus, regions: r.confirming_regions,
          ratio: r.confirmation_ratio, weighted: r.weighted_confirmation, enforced, toc, tof }
}
fn verdict_only(c: &Cfg, attack: bool, ws: &[W], cand: &Trust) -> bool {
    let v = CloseGroupValidator::new(real_cfg(c));
    v.set_attack_mode(attack);
    v.validate_membership(&DhtNodeId::random(), &responses(ws), cand.f()).is_valid
}

/// exact weighted sums in thousandths: (total, confirming) with the weights the model uses
/// (unknown = 500, kept within [0, 1000])
fn exact_sums(ws: &[W]) -> (i128, i128) {
    let (mut tw, mut cw) = (0i128, 0i128);
    for w in ws {
        let k = match w.trust { Trust::None => 500, Trust::Milli(k) => k as i128, _ => 0 };
        let k = k.clamp(0, 1000);
        tw += k;
        if w.confirms { cw += k; }
    }
    (tw, cw)
}
fn all_dyadic(ws: &[W]) -> bool {
    ws.iter().all(|w| match w.trust { Trust::None => true, Trust::Milli(k) => k % 125 == 0, _ => false })
}
/// weighted decision too close to its threshold for the rational model to predict the f64 result
fn ambiguous(c: &Cfg, attack: bool, ws: &[W]) -> bool {
    if attack || all_dyadic(ws) { return false; }
    let (_, (n, d), _, _, _) = cfg_numbers(c);
    let (tw, cw) = exact_sums(ws);
    if tw <= 0 { return false; }
    (cw * d - n * tw).abs() * 1_000_000 <= d * tw
}

fn json_ws(ws: &[W]) -> serde_json::Value {
    json!(ws.iter().map(|w| json!({"confirms": w.confirms, "trust": w.trust.js(), "region": w.region.map(|g| REGION_NAMES[g as usize]), "latency_ns": w.lat_ns})).collect::<Vec<_>>())
}
fn json_cfg(c: &Cfg) -> serde_json::Value {
    let rc = real_cfg(c);
    json!({"kind": format!("{:?}", c.kind), "min_peers_to_query": rc.min_peers_to_query, "trust_weighted_threshold": rc.trust_weighted_threshold,
           "bft_threshold": rc.bft_threshold, "min_witness_trust": rc.min_witness_trust, "min_regions": rc.min_regions,
           "enforcement": format!("{:?}", rc.enforcement_mode)})
}

// ------------------------------------------------------------------ generators
const TRUST_GRID: [Trust; 5] = [Trust::None, Trust::Milli(100), Trust::Milli(290), Trust::Milli(300), Trust::Milli(900)];

fn pick_cfg(rng: &mut Rng) -> Cfg {
    let base = Cfg { kind: CfgKind::Default, min_peers: 5, thr_w: 70, thr_bft: 71, min_trust: 300, min_regions: 3, strict: true };
    match rng.below(10) {
        0..=3 => base,
        4..=5 => Cfg { kind: CfgKind::LogOnly, strict: false, ..base },
        6 => { let f = rng.below(4) as usize; let s = rng.chance(1, 2); Cfg { kind: CfgKind::Maint(f, s), strict: s, ..base } }
        _ => Cfg { kind: CfgKind::Custom, min_peers: rng.below(9) as usize,
                   thr_w: *rng.pick(&[0, 50, 67, 70, 71, 75, 100, 101]), thr_bft: *rng.pick(&[0, 34, 50, 67, 70, 71, 72, 100, 101]),
                   min_trust: *rng.pick(&[0, 100, 290, 300, 301, 500]), min_regions: rng.below(5) as usize, strict: rng.chance(1, 2) },
    }
}
fn pick_cand(rng: &mut Rng, min_trust: i64) -> Trust {
    match rng.below(10) {
        0..=2 => Trust::None,
        3 => Trust::Milli(100),
        4 => Trust::Milli(min_trust - 1),
        5 => Trust::Milli(min_trust),
        6 => Trust::Milli(min_trust / 2),
        7 => Trust::Milli(min_trust / 2 - 1),
        _ => Trust::Milli(900),
    }
}
/// latencies by class: 0 spread 20 ms, 1 clustered 1 ms, 2 exactly 10 ms apart (not similar), 3 one ns less (similar),
/// 4 random, 5 all equal, 6 half clustered half spread
fn latency(rng: &mut Rng, class: u64, i: usize, n: usize) -> u64 {
    let i = i as u64;
    match class {
        0 => 50 * MS + i * 20 * MS,
        1 => 50 * MS + i * MS,
        2 => 50 * MS + i * 10 * MS,
        3 => 50 * MS + i * (10 * MS - 1),
        4 => rng.below(120) * MS + rng.below(3),
        5 => 77 * MS,
        _ => if (i as usize) < n / 2 { 50 * MS + i * 3 * MS } else { 500 * MS + i * 25 * MS },
    }
}
fn grid_vector(rng: &mut Rng, n: usize, big: bool) -> Vec<W> {
    let p_conf = *rng.pick(&[0u64, 3, 5, 7, 8, 9, 10]);
    let lat_class = rng.below(7);
    let trust_mix = rng.below(6);
    let nreg = if big { 8 } else { 4 };
    let mut v: Vec<W> = (0..n).map(|i| {
        let trust = match trust_mix {
            0 => rng.pick(&TRUST_GRID).clone(),
            1 => Trust::Milli(*rng.pick(&[300, 900, 900, 500, 301])),
            2 => Trust::Milli(*rng.pick(&[0, 125, 250, 375, 500, 625, 750, 875, 1000])),
            3 => if rng.chance(1, 3) { Trust::None } else { Trust::Milli(*rng.pick(&[250, 500, 750])) },
            4 => Trust::Milli(rng.below(1001) as i64),
            _ => rng.pick(&[Trust::Milli(299), Trust::Milli(300), Trust::Milli(301), Trust::Milli(290), Trust::None, Trust::Milli(900)]).clone(),
        };
        let region = if rng.chance(1, 6) { None } else { Some(rng.range(1, nreg) as u8) };
        W { confirms: rng.below(10) < p_conf, trust, region, lat_ns: latency(rng, lat_class, i, n) }
    }).collect();
    rng.shuffle(&mut v);
    v
}
/// n witnesses with trust 0.9, distinct regions and spread latencies, the first k confirming
fn clean(n: usize, k: usize, trust: Trust) -> Vec<W> {
    (0..n).map(|i| W { confirms: i < k, trust: trust.clone(), region: Some((i % 8) as u8 + 1), lat_ns: 40 * MS + i as u64 * 15 * MS }).collect()
}

struct Gen { kind: &'static str, cfg: Cfg, attack: bool, ws: Vec<W>, cand: Trust }

fn gen_case(rng: &mut Rng, thorough: bool) -> Gen {
    let sel = rng.below(100);
    let mut cfg = pick_cfg(rng);
    let mut attack = rng.chance(1, 2);
    let (mp, _, (bn, bd), mt, mr) = cfg_numbers(&cfg);
    let mut cand = pick_cand(rng, mt);
    let (kind, ws): (&'static str, Vec<W>) = match sel {
        // the property's grid: sizes 0..10
        0..=39 => { let n = rng.below(11) as usize; ("grid", grid_vector(rng, n, false)) }
        // random larger sets
        40..=46 => { let n = rng.range(11, if thorough { 64 } else { 40 }) as usize; ("large", grid_vector(rng, n, true)) }
        // BFT ratio boundary: k around threshold * n, decision depends on the ratio only
        47..=56 => {
            attack = true; cand = Trust::None;
            let n = *rng.pick(&[5usize, 6, 7, 8, 9, 10, 20, 100]).max(&mp.max(1));
            let kstar = ((bn * n as i128 + bd - 1) / bd).max(0) as i64; // ceil(thr * n)
            let k = (kstar + rng.range(0, 2) as i64 - 1).clamp(0, n as i64) as usize;
            let mut v = clean(n, k, Trust::Milli(900));
            rng.shuffle(&mut v);
            ("bft-ratio-boundary", v)
        }
        // weighted ties with dyadic weights (exact in f64)
        57..=64 => {
            attack = false; cand = Trust::None;
            let n = (mp.max(1) + rng.below(8) as usize).max(2);
            let ws: Vec<W> = match rng.below(3) {
                0 => { let k = rng.below(n as u64 + 1) as usize; clean(n, k, Trust::None) }
                1 => { let n = 10; let k = rng.range(6, 8) as usize; clean(n, k, if rng.chance(1, 2) { Trust::None } else { Trust::Milli(250) }) }
                _ => (0..n).map(|i| W { confirms: rng.chance(7, 10), trust: Trust::Milli(*rng.pick(&[125, 250, 375, 500, 750, 1000])), region: Some((i % 5) as u8 + 1), lat_ns: 30 * MS + i as u64 * 12 * MS }).collect(),
            };
            ("weighted-dyadic", ws)
        }
        // number of answers / of trusted answers around min_peers
        65..=72 => {
            let n = (mp as i64 + rng.range(0, 2) as i64 - 1).max(0) as usize;
            let short = rng.below(3) as usize; // how many of them fall just below the trust floor
            let mut v = clean(n + short, n + short, Trust::Milli(mt.max(1)));
            for w in v.iter_mut().take(short) { w.trust = rng.pick(&[Trust::Milli(mt - 1), Trust::None, Trust::Milli(mt - 10)]).clone(); }
            if rng.chance(1, 2) { v.truncate(n); }
            rng.shuffle(&mut v);
            ("min-peers-boundary", v)
        }
        // confirming regions around min_regions; regions of denying / untrusted witnesses must (not) count
        73..=79 => {
            let n = mp.max(3) + rng.below(3) as usize;
            let want = (mr as i64 + rng.range(0, 2) as i64 - 1).max(0) as usize;
            let mut v = clean(n, n, Trust::Milli(900));
            for (i, w) in v.iter_mut().enumerate() { w.region = if want == 0 { None } else { Some((i % want) as u8 + 1) }; }
            // a denying witness in a fresh region, an untrusted confirming witness in a fresh region
            if rng.chance(1, 2) { v.push(W { confirms: false, trust: Trust::Milli(900), region: Some(7), lat_ns: 900 * MS }); }
            if rng.chance(1, 2) { v.push(W { confirms: true, trust: Trust::Milli(100), region: Some(8), lat_ns: 950 * MS }); }
            rng.shuffle(&mut v);
            ("regions-boundary", v)
        }
        // collusion heuristic: number of similar adjacent gaps around half of the trusted answers
        80..=87 => {
            attack = true;
            let m = mp.max(2) + rng.below(4) as usize;
            let similar = (m / 2 + rng.below(2) as usize).min(m.saturating_sub(1));
            let edge = rng.chance(1, 2);
            let mut t = 20 * MS;
            let mut v = vec![];
            for i in 0..m {
                if i > 0 { t += if i <= similar { if edge { 10 * MS - 1 } else { rng.below(10 * MS) } } else if edge { 10 * MS } else { 10 * MS + rng.below(30 * MS) }; }
                v.push(W { confirms: true, trust: Trust::Milli(900), region: Some((i % 4) as u8 + 1), lat_ns: t });
            }
            // untrusted witnesses with clustered times must not count
            for j in 0..rng.below(3) { v.push(W { confirms: rng.chance(1, 2), trust: Trust::Milli(100), region: Some(5), lat_ns: 20 * MS + j }); }
            rng.shuffle(&mut v);
            ("collusion-boundary", v)
        }
        // 3f+1 trusted witnesses, f of them (and any untrusted ones) confirming, the rest denying
        88..=93 => {
            attack = true;
            let f = rng.range(1, 5) as usize;
            if rng.chance(1, 2) { let s = rng.chance(1, 2); cfg = Cfg { kind: CfgKind::Maint(f, s), strict: s, ..cfg }; }
            let mut v = clean(3 * f + 1, f + if rng.chance(1, 4) { 1 } else { 0 }, Trust::Milli(900));
            for j in 0..rng.below(4) { v.push(W { confirms: true, trust: Trust::Milli(290), region: Some(6), lat_ns: 700 * MS + j * 20 * MS }); }
            rng.shuffle(&mut v);
            ("f-liars", v)
        }
        // unanimous confirmation
        94..=96 => { let n = mp + rng.below(4) as usize; let mut v = grid_vector(rng, n, false); for w in v.iter_mut() { w.confirms = true; } ("unanimous", v) }
        // out-of-range trust scores (negative, > 1), dyadic
        _ => {
            let n = mp.max(3) + rng.below(4) as usize;
            let mut v = grid_vector(rng, n, false);
            for w in v.iter_mut() { if rng.chance(1, 3) { w.trust = Trust::Milli(*rng.pick(&[-500, -250, -1000, 1500, 2000, -125])); } }
            ("out-of-range-trust", v)
        }
    };
    Gen { kind, cfg, attack, ws, cand }
}

// ------------------------------------------------------------------ counters of validator.rs
#[derive(Clone, Copy, Debug)]
enum NvOp { C, D, N }
fn gen_nv(rng: &mut Rng) -> (Vec<NvOp>, usize) {
    let f = rng.below(5) as usize;
    let ops: Vec<NvOp> = match rng.below(4) {
        0 => (0..rng.below(20)).map(|_| *rng.pick(&[NvOp::C, NvOp::D, NvOp::N])).collect(),
        // confirmations around 2f+1, total around 3f+1
        1 => {
            let c = (2 * f + 1 + rng.below(3) as usize).saturating_sub(1);
            let t = ((3 * f + 1 + rng.below(3) as usize).saturating_sub(1)).max(c);
            let mut v: Vec<NvOp> = (0..t).map(|i| if i < c { NvOp::C } else if rng.chance(1, 2) { NvOp::D } else { NvOp::N }).collect();
            rng.shuffle(&mut v); v
        }
        // majority ties: 2c = t, t+1, t-1
        2 => {
            let c = rng.below(8) as usize;
            let t = (2 * c + rng.below(3) as usize).saturating_sub(1).max(c);
            let mut v: Vec<NvOp> = (0..t).map(|i| if i < c { NvOp::C } else { NvOp::D }).collect();
            rng.shuffle(&mut v); v
        }
        // 3f+1 witnesses, f liars confirm / f liars deny
        _ => {
            let c = if rng.chance(1, 2) { f } else { 2 * f + 1 };
            let mut v: Vec<NvOp> = (0..3 * f + 1).map(|i| if i < c { NvOp::C } else { NvOp::D }).collect();
            rng.shuffle(&mut v); v
        }
    };
    (ops, f)
}

fn main() {
    let args = Args::parse();
    install_trace_sink();
    let thorough = args.thorough();
    let mut rng = Rng::new(args.seed);
    let mut sum = Summary::default();
    sum.rule = "validate_membership on boundary-directed and grid-sampled inputs (sizes 0..10 over trust {none,0.1,0.29,0.3,0.9,...} x region {none,A..D} x 7 latency classes, both modes, both enforcement modes, candidate trust none/low/at-threshold/high, default / log_only / from_maintenance_config / custom configs) plus sets of 11..64 answers; each compared with Model/CloseGroup.v inside Coq (verdict, failure list, regions, ratios, enforcement wrappers) and with the accept specification of the theorems; every confirming answer is also flipped on the real code. Non-trivial = both gates passed (the mode-specific branch ran); distinct = different (config, mode, response vector, candidate trust)".into();
    let per_shard = if thorough { 1000 } else { 920 };
    let mut cw = CaseWriter::new(&args.out, "cases_c15", HEADER, "case_t", "check_case", "prop_case", per_shard);
    let target: u64 = if thorough { 96_000 } else { 6_400 };
    let mut seen = std::collections::HashSet::new();
    let mut id = 0u64;
    let mut special_checks = 0u64;
    while id < target {
        let g = gen_case(&mut rng, thorough);
        if ambiguous(&g.cfg, g.attack, &g.ws) { sum.discarded_ambiguous += 1; sum.count("discarded:weighted-ratio-within-1e-6-of-threshold-nondyadic"); continue; }
        let o = run_real(&g.cfg, g.attack, &g.ws, &g.cand);
        let case_json = json!({"kind": g.kind, "config": json_cfg(&g.cfg), "attack_mode": g.attack, "responses": json_ws(&g.ws), "candidate_trust": g.cand.js(),
            "observed": {"is_valid": o.valid, "failure_reasons": o.fails.iter().map(|f| format!("{:?}", f)).collect::<Vec<_>>(), "used_bft": o.bft,
                         "confirming_regions": o.regions, "confirmation_ratio": o.ratio, "weighted_confirmation": o.weighted, "validate_after_cache": o.enforced}});
        // thorough tier: keep cases.json small (the Coq term is the replayable description)
        if !thorough { sum.case(id, case_json.clone()); }
        // direct property check on the implementation: turning one confirmation into a denial never turns reject into accept
        if !o.valid {
            for i in 0..g.ws.len() {
                if !g.ws[i].confirms { continue; }
                let mut ws2 = g.ws.clone(); ws2[i].confirms = false;
                if verdict_only(&g.cfg, g.attack, &ws2, &g.cand) {
                    // here ws2 is accepted and ws (one more confirmation) is rejected
                    sum.violation(id, "turning a confirmation into a denial turned a rejection into an acceptance (flip monotonicity)", &[], json!({"flipped_index": i, "rejected_with_confirmation": case_json["responses"], "accepted_after_flip": json_ws(&ws2)}));
                    break;
                }
            }
        } else if id % 4 == 0 {
            // accepted: adding the flip in the other direction is covered when the flipped vector is generated; spot-check denial of each confirmer keeps or drops acceptance (no crash)
            for i in 0..g.ws.len().min(3) { let mut ws2 = g.ws.clone(); ws2[i].confirms = false; let _ = verdict_only(&g.cfg, g.attack, &ws2, &g.cand); }
        }
        let fails: Option<Vec<&str>> = o.fails.iter().map(fail_name).collect();
        let (Some(fails), Some(toc), Some(tof)) = (fails, pair_coq(&o.toc), pair_coq(&o.tof)) else {
            sum.violation(id, "validate_membership / validate_trust_only produced a failure reason outside {InsufficientConfirmation, LowTrustScore, InsufficientGeographicDiversity, SuspectedCollusion}", &[], json!({"failure_reasons": format!("{:?}", o.fails)}));
            id += 1; continue;
        };
        let term = format!("({}, {}, {}, {}, O {} {} {} {} {} {} {} {} {})",
            coq_cfg(&g.cfg), coq_bool(g.attack),
            coq_list(g.ws.iter().map(|w| format!("w {} {} {} {}", coq_bool(w.confirms), w.trust.coq(), match w.region { None => "GNone".to_string(), Some(r) => format!("(G {})", r) }, w.lat_ns))),
            g.cand.coq(), coq_bool(o.valid), coq_list(fails.iter().map(|s| s.to_string())), coq_bool(o.bft), o.regions,
            f64_coq(o.ratio), f64_coq(o.weighted), coq_bool(o.enforced), toc, tof);
        if thorough { sum.case(id, json!({"kind": g.kind, "coq_case": term})); }
        cw.push(id, term);
        sum.evaluations += 1;
        sum.count(&format!("kind:{}", g.kind));
        sum.count(if g.attack { "mode:attack" } else { "mode:normal" });
        sum.count(&format!("config:{}", match g.cfg.kind { CfgKind::Default => "default", CfgKind::LogOnly => "log_only", CfgKind::Maint(..) => "from_maintenance", CfgKind::Custom => "custom" }));
        sum.count(if o.valid { "verdict:accepted" } else { "verdict:rejected" });
        for f in &fails { sum.count(&format!("reason:{}", f)); }
        sum.count(&format!("size:{}", if g.ws.len() <= 10 { g.ws.len().to_string() } else { "11+".into() }));
        if !g.attack { let (tw, cwt) = exact_sums(&g.ws); let (_, (n, d), _, _, _) = cfg_numbers(&g.cfg); if tw > 0 && cwt * d == n * tw { sum.count("boundary:weighted-exact-tie"); } }
        let passed_gates = o.bft == g.attack && !(o.fails.len() == 1 && o.fails[0] == CloseGroupFailure::LowTrustScore) && g.ws.len() >= cfg_numbers(&g.cfg).0;
        let key = format!("{:?}|{}|{:?}|{:?}", g.cfg, g.attack, g.ws, g.cand);
        if passed_gates && seen.insert(key) { sum.distinct_nontrivial += 1; }
        id += 1;
    }
    cw.flush();

    // non-finite trust scores: outside the rational model; checked directly on the implementation
    // (no acceptance gained by a flip; a NaN / infinite witness never produces a panic)
    let nspecial = if thorough { 20_000 } else { 1_500 };
    for _ in 0..nspecial {
        let cfg = pick_cfg(&mut rng); let attack = rng.chance(1, 2);
        let n = cfg_numbers(&cfg).0.max(3) + rng.below(4) as usize;
        let mut ws = grid_vector(&mut rng, n, false);
        for w in ws.iter_mut() { if rng.chance(1, 4) { w.trust = rng.pick(&[Trust::NaN, Trust::Inf, Trust::NegInf]).clone(); } }
        let cand = if rng.chance(1, 5) { Trust::NaN } else { Trust::None };
        if !ws.iter().any(|w| w.trust.special()) && !cand.special() { continue; }
        special_checks += 1;
        let base = verdict_only(&cfg, attack, &ws, &cand);
        if !base {
            for i in 0..ws.len() {
                if !ws[i].confirms { continue; }
                let mut ws2 = ws.clone(); ws2[i].confirms = false;
                if verdict_only(&cfg, attack, &ws2, &cand) {
                    sum.violation(id, "non-finite trust score: turning a confirmation into a denial turned a rejection into an acceptance", &[], json!({"config": json_cfg(&cfg), "attack_mode": attack, "flipped_index": i, "responses": json_ws(&ws), "candidate_trust": cand.js()}));
                    break;
                }
            }
        }
    }
    sum.add("non_finite_trust_flip_checks", special_checks);

    // witness counters
    let mut nw = CaseWriter::new(&args.out, "cases_c15nv", HEADER, "nvcase_t", "nv_check_case", "nv_prop_case", 2000);
    let ntarget: u64 = if thorough { 10_000 } else { 1_000 };
    let mut nid = 10_000_000u64;
    for _ in 0..ntarget {
        let (ops, f) = gen_nv(&mut rng);
        let mut r = NodeValidationResult::new(DhtNodeId::random());
        for o in &ops { match o { NvOp::C => r.record_confirmation(), NvOp::D => r.record_denial(ValidationFailure::CloseGroupRejection), NvOp::N => r.record_no_response() } }
        let mc = MaintenanceConfig { bft_fault_tolerance: f, ..Default::default() };
        let (v, vb, sw) = (r.is_valid(), r.is_valid_bft(&mc), r.has_sufficient_witnesses(&mc));
        let term = format!("NV {} {} {} {} {} {} {} {}",
            coq_list(ops.iter().map(|o| match o { NvOp::C => "RecConfirm", NvOp::D => "RecDeny", NvOp::N => "RecNoResponse" }.to_string())), f,
            r.confirming_witnesses, r.denying_witnesses, r.total_witnesses, coq_bool(v), coq_bool(vb), coq_bool(sw));
        nw.push(nid, term);
        sum.case(nid, json!({"kind": "witness-counters", "ops": format!("{:?}", ops), "f": f, "observed": {"confirming": r.confirming_witnesses, "denying": r.denying_witnesses, "total": r.total_witnesses, "is_valid": v, "is_valid_bft": vb, "has_sufficient_witnesses": sw}}));
        sum.evaluations += 1;
        sum.count("kind:witness-counters");
        nid += 1;
    }
    nw.flush();
    sum.write(&args.out);
}
