//! C15 correspondence (placeholder while the first build warms up)
use saorsa_core::dht::routing_maintenance::close_group_validator::CloseGroupValidator;
fn main() { let v = CloseGroupValidator::with_defaults(); println!("{}", v.is_attack_mode()); }
