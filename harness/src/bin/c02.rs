//! C02 correspondence: the real DhtCoreEngine (routing table through its public API,
//! LogOnly constructor through the verif-hooks wrapper) vs Model/Routing.v.
//!
//! A case = one engine, a history of join_network / add_node / handle_node_failure /
//! evict_node interleaved with find_nodes and FindNode / FindValue requests.  Node ids
//! are crafted per bucket (local id XOR a pattern whose first set bit is the bucket
//! index) so that chosen buckets fill to capacity-1 / capacity / capacity+1; histories
//! re-add listed ids (with a different address), add the local id, and remove ids that
//! are absent.  Observed: Ok/Err of every mutation and the (id, address) list of every
//! query, order included.
use saorsa_core::dht::core_engine::{DhtCoreEngine, DhtKey, DhtRequestWrapper, NodeCapacity, NodeId, NodeInfo};
use saorsa_core::dht::network_integration::{DhtMessage, DhtResponse};
use saorsa_core::dht::routing_maintenance::close_group_validator::CloseGroupEnforcementMode;
use saorsa_core::dht::routing_maintenance::EvictionReason;
use serde_json::json;
use std::collections::{BTreeSet, HashSet};
use std::time::SystemTime;
use vh::*;

const HEADER: &str = "From SV Require Import Lib.Base Model.Routing.\nLocal Open Scope N_scope.";

type Id = [u8; 32];

#[derive(Clone, Debug)]
enum Op {
    Join(Vec<(Id, u64)>),
    Add(Id, u64, bool),
    Fail(Id),
    Evict(Id),
    Find(Id, u64),
    ReqFindNode(Id, u64),
    ReqFindValue(Id),
}
#[derive(Clone, Debug, PartialEq)]
enum Obs { Ok, Err, Nodes(Vec<(Id, u64)>) }

fn xor(a: &Id, b: &Id) -> Id { let mut r = [0u8; 32]; for i in 0..32 { r[i] = a[i] ^ b[i]; } r }
fn set_bit(x: &mut Id, i: usize) { x[i / 8] |= 0x80 >> (i % 8); }
fn clear_bit(x: &mut Id, i: usize) { x[i / 8] &= !(0x80 >> (i % 8)); }
/// an id whose first bit differing from `local` is bit `b` (so it belongs to bucket b); `low` supplies the bits after b
fn id_in_bucket(local: &Id, b: usize, low: &Id) -> Id {
    let mut p = *low;
    for i in 0..b { clear_bit(&mut p, i); }
    set_bit(&mut p, b);
    xor(local, &p)
}
fn bucket_of(local: &Id, id: &Id) -> usize {
    let d = xor(local, id);
    for i in 0..256 { if (d[i / 8] >> (7 - (i % 8))) & 1 == 1 { return i; } }
    255
}
fn rand_id(rng: &mut Rng) -> Id { let mut r = [0u8; 32]; for b in r.iter_mut() { *b = rng.next() as u8; } r }
fn low_pattern(rng: &mut Rng) -> Id {
    match rng.below(6) {
        0 => [0u8; 32],                                                    // only the bucket bit
        1 | 2 => { let mut p = [0u8; 32]; p[31] = rng.next() as u8; p }    // ids differing only in the last byte
        3 => { let mut p = [0xFFu8; 32]; p[31] = rng.next() as u8; p }
        4 => { let mut p = [0u8; 32]; p[rng.below(32) as usize] = rng.next() as u8; p }
        _ => rand_id(rng),
    }
}
fn addr(pl: u64) -> String { format!("a{}", pl) }
fn pl_of(address: &str) -> u64 { address.trim_start_matches('a').parse().unwrap_or(u64::MAX) }
fn info(id: &Id, pl: u64) -> NodeInfo {
    NodeInfo { id: NodeId::from_bytes(*id), address: addr(pl), last_seen: SystemTime::now(), capacity: NodeCapacity::default() }
}
fn nodes_obs(v: Vec<NodeInfo>) -> Obs { Obs::Nodes(v.into_iter().map(|n| (*n.id.as_bytes(), pl_of(&n.address))).collect()) }

/// 256-bit constants are expensive for coqc to parse (5-20 ms each), and the same id occurs
/// many times in a history: every case binds each distinct id once (`let k7 := 0x.. in`) and
/// refers to it by name.
/// the N value of a big-endian byte string written with the constructors of `positive`
/// (coqc parses this about four times faster than a 64-digit hexadecimal numeral)
fn n_ctor(id: &Id) -> String {
    let mut bits: Vec<bool> = vec![];
    for b in id.iter() { for i in (0..8).rev() { bits.push((b >> i) & 1 == 1); } }
    let Some(first) = bits.iter().position(|b| *b) else { return "N0".into() };
    let mut t = String::from("xH");
    for b in &bits[first + 1..] { t = format!("({} {})", if *b { "xI" } else { "xO" }, t); }
    format!("(Npos {})", t)
}
#[derive(Default)]
struct Names { idx: std::collections::HashMap<Id, usize>, defs: Vec<String> }
impl Names {
    fn n(&mut self, id: &Id) -> String {
        if let Some(i) = self.idx.get(id) { return format!("k{}", i); }
        let i = self.defs.len();
        self.idx.insert(*id, i);
        self.defs.push(format!("let k{} := {} in", i, n_ctor(id)));
        format!("k{}", i)
    }
}
fn coq_node(nm: &mut Names, n: &(Id, u64)) -> String { format!("nd {} {}", nm.n(&n.0), n.1) }
fn coq_op(nm: &mut Names, o: &Op) -> String {
    match o {
        Op::Join(l) => format!("Join {}", coq_list(l.iter().map(|x| coq_node(nm, x)).collect::<Vec<_>>())),
        Op::Add(id, pl, gate) => format!("Add (nd {} {}) {}", nm.n(id), pl, coq_bool(*gate)),
        Op::Fail(id) => format!("Fail {}", nm.n(id)),
        Op::Evict(id) => format!("Evict {}", nm.n(id)),
        Op::Find(k, c) => format!("Find {} {}", nm.n(k), c),
        Op::ReqFindNode(k, c) => format!("ReqFindNode {} {}", nm.n(k), c),
        Op::ReqFindValue(k) => format!("ReqFindValue {}", nm.n(k)),
    }
}
fn coq_obs(nm: &mut Names, o: &Obs) -> String {
    match o { Obs::Ok => "OOk".into(), Obs::Err => "OErr".into(), Obs::Nodes(l) => format!("ONodes {}", coq_list(l.iter().map(|x| coq_node(nm, x)).collect::<Vec<_>>())) }
}
fn hx(id: &Id) -> String { hex::encode(id) }
fn json_node(n: &(Id, u64)) -> serde_json::Value { json!([hx(&n.0), n.1]) }
fn json_op(o: &Op) -> serde_json::Value {
    match o {
        Op::Join(l) => json!({"join_network": l.iter().map(json_node).collect::<Vec<_>>()}),
        Op::Add(id, pl, gate) => json!({"add_node": json_node(&(*id, *pl)), "admission_gates_pass": gate}),
        Op::Fail(id) => json!({"handle_node_failure": hx(id)}),
        Op::Evict(id) => json!({"evict_node": hx(id)}),
        Op::Find(k, c) => json!({"find_nodes": {"key": hx(k), "count": c}}),
        Op::ReqFindNode(k, c) => json!({"handle_request FindNode": {"target": hx(k), "count": c.to_string()}}),
        Op::ReqFindValue(k) => json!({"handle_request FindValue": {"key": hx(k)}}),
    }
}
fn json_obs(o: &Obs) -> serde_json::Value {
    match o { Obs::Ok => json!("Ok"), Obs::Err => json!("Err"), Obs::Nodes(l) => json!(l.iter().map(json_node).collect::<Vec<_>>()) }
}

struct Driver {
    case_id: u64,
    eng: DhtCoreEngine,
    strict: bool,
    ops: Vec<Op>,
    obs: Vec<Obs>,
    /// harness-side shadow of which ids should be listed (generator guidance only, never compared)
    listed: Vec<Id>,
}
impl Driver {
    async fn apply(&mut self, op: Op, sum: &mut Summary) {
        let o = match &op {
            Op::Join(l) => {
                let r = self.eng.join_network(l.iter().map(|(id, pl)| info(id, *pl)).collect()).await;
                sum.count(if r.is_ok() { "join:ok" } else { "join:err" });
                if r.is_ok() { Obs::Ok } else { Obs::Err }
            }
            Op::Add(id, pl, _) => {
                let r = self.eng.add_node(info(id, *pl)).await;
                sum.count(if r.is_ok() { "add:ok" } else { "add:err" });
                if r.is_ok() { Obs::Ok } else { Obs::Err }
            }
            Op::Fail(id) => { sum.count("failure"); if self.eng.handle_node_failure(NodeId::from_bytes(*id)).await.is_ok() { Obs::Ok } else { Obs::Err } }
            Op::Evict(id) => { sum.count("evict"); if self.eng.evict_node(&NodeId::from_bytes(*id), EvictionReason::Stale).await.is_ok() { Obs::Ok } else { Obs::Err } }
            Op::Find(k, c) => {
                sum.count("find_nodes");
                match self.eng.find_nodes(&DhtKey::from_bytes(*k), *c as usize).await { Ok(v) => nodes_obs(v), Err(_) => Obs::Err }
            }
            Op::ReqFindNode(k, c) => {
                sum.count("req_find_node");
                let w = DhtRequestWrapper { id: "r".into(), message: DhtMessage::FindNode { target: DhtKey::from_bytes(*k), count: *c as usize } };
                match self.eng.handle_request(w).await.response {
                    DhtResponse::FindNodeReply { nodes, .. } => {
                        // the protocol cap stated by the property, checked here as well so that a concrete
                        // input is reported even when the regenerated constants no longer let the model compile
                        if nodes.len() > 20 {
                            sum.violation(self.case_id, "FindNode reply exceeds the protocol cap of 20 nodes", &[],
                                json!({"requested_count": c.to_string(), "reply_len": nodes.len(), "after_ops": self.ops.len()}));
                        }
                        nodes_obs(nodes)
                    }
                    _ => Obs::Err,
                }
            }
            Op::ReqFindValue(k) => {
                sum.count("req_find_value");
                let w = DhtRequestWrapper { id: "r".into(), message: DhtMessage::FindValue { key: DhtKey::from_bytes(*k) } };
                match self.eng.handle_request(w).await.response {
                    DhtResponse::FindValueReply { value: None, nodes } => {
                        if nodes.len() > 8 {
                            sum.violation(self.case_id, "FindValue reply exceeds K = 8 nodes", &[],
                                json!({"reply_len": nodes.len(), "after_ops": self.ops.len()}));
                        }
                        nodes_obs(nodes)
                    }
                    _ => Obs::Err,
                }
            }
        };
        // shadow (guidance only)
        match (&op, &o) {
            (Op::Add(id, _, _), Obs::Ok) => { if !self.listed.contains(id) { self.listed.push(*id); } }
            (Op::Join(l), _) => { for (id, _) in l { if !self.listed.contains(id) { self.listed.push(*id); } } }
            (Op::Fail(id), _) | (Op::Evict(id), _) => self.listed.retain(|x| x != id),
            _ => {}
        }
        self.ops.push(op); self.obs.push(o);
    }
}

const BOUNDARY_BUCKETS: [usize; 16] = [0, 1, 2, 3, 4, 7, 8, 9, 127, 128, 250, 251, 252, 253, 254, 255];
const COUNTS: [u64; 20] = [0, 1, 2, 3, 4, 5, 7, 8, 9, 12, 15, 16, 17, 19, 20, 21, 32, 63, 64, 40];

fn pick_key(rng: &mut Rng, local: &Id, hot: &[usize], pool: &[Id]) -> (Id, &'static str) {
    match rng.below(14) {
        0 => (*local, "key:local"),
        1 => ([0u8; 32], "key:zero"),
        2 => ([0xFFu8; 32], "key:ones"),
        3 => (*rng.pick(pool), "key:listed-id"),
        4 => { let mut k = *rng.pick(pool); k[31] ^= 1 << rng.below(8); (k, "key:next-to-id") }
        5 => (rand_id(rng), "key:random"),
        6 => { let mut k = *local; k[31] ^= 1; (k, "key:local^1") }
        _ => {
            // a key whose target bucket sits next to a populated bucket
            let h = *rng.pick(hot) as i64;
            let b = (h + rng.range(0, 6) as i64 - 3).clamp(0, 255) as usize;
            (id_in_bucket(local, b, &low_pattern(rng)), "key:near-hot-bucket")
        }
    }
}
fn pick_count(rng: &mut Rng, size: u64) -> u64 {
    match rng.below(10) {
        0 => size.saturating_sub(1),
        1 => size,
        2 => size + 1,
        3 => rng.range(0, 64),
        4 => if rng.chance(1, 4) { 4096 } else { 2 * size + 1 },
        _ => *rng.pick(&COUNTS),
    }
}

async fn gen_case(case_id: u64, rng: &mut Rng, sum: &mut Summary, thorough: bool) -> (Id, Vec<Op>, Vec<Obs>, &'static str) {
    let local: Id = match rng.below(8) { 0 => [0u8; 32], 1 => [0xFFu8; 32], 2 => { let mut l = [0u8; 32]; l[31] = 1; l } _ => rand_id(rng) };
    let strict = rng.chance(1, 12);
    let eng = if strict { DhtCoreEngine::new(NodeId::from_bytes(local)).expect("engine") } else {
        saorsa_core::verif_hooks::dht_core_engine_with_validation_mode(NodeId::from_bytes(local), CloseGroupEnforcementMode::LogOnly).expect("engine")
    };
    // populated buckets and the id pool
    let nhot = rng.range(1, 5) as usize;
    let mut hot: Vec<usize> = vec![];
    let base = *rng.pick(&BOUNDARY_BUCKETS);
    for i in 0..nhot {
        let b = match rng.below(4) { 0 => *rng.pick(&BOUNDARY_BUCKETS), 1 => rng.below(256) as usize, _ => (base + i * (1 + rng.below(3) as usize)).min(255) };
        if !hot.contains(&b) { hot.push(b); }
    }
    let mut pool: Vec<Id> = vec![];
    for &b in &hot {
        let want = rng.range(7, 11);
        for _ in 0..want { let id = id_in_bucket(&local, b, &low_pattern(rng)); if !pool.contains(&id) { pool.push(id); } }
    }
    for _ in 0..rng.below(4) { let id = rand_id(rng); if id != local { pool.push(id); } }
    // a small per-case key set (each key is then asked with several counts; also keeps the number of
    // distinct 256-bit literals per case low)
    let case_keys: Vec<(Id, &'static str)> = (0..10).map(|_| pick_key(rng, &local, &hot, &pool)).collect();
    let mut d = Driver { case_id, eng, strict, ops: vec![], obs: vec![], listed: vec![] };
    let mut next_pl: u64 = 1;
    // fill phase (half of the cases): drive some populated buckets to capacity-1 / capacity / capacity+1 attempts
    if rng.chance(1, 2) {
        for &b in &hot {
            if rng.chance(1, 3) { continue; }
            let members: Vec<Id> = pool.iter().filter(|id| bucket_of(&local, id) == b).cloned().collect();
            let n = (*rng.pick(&[6usize, 7, 8, 9, 10])).min(members.len());
            if rng.chance(1, 4) {
                let l: Vec<(Id, u64)> = members[..n].iter().map(|id| { next_pl += 1; (*id, next_pl - 1) }).collect();
                d.apply(Op::Join(l), sum).await;
            } else {
                for id in &members[..n] { let pl = next_pl; next_pl += 1; let g = !d.strict; d.apply(Op::Add(*id, pl, g), sum).await; }
            }
        }
    }
    let nops = match rng.below(10) { 0 => rng.range(1, 8), 1..=5 => rng.range(10, 60), 6..=8 => rng.range(60, 160), _ => 300 } as usize;
    let kind = if strict { "strict-engine" } else if nops >= 300 { "long-history" } else { "history" };
    for _ in 0..nops {
        let r = rng.below(100);
        let op = if r < 48 {
            let id = match rng.below(20) {
                0 => local,
                1..=3 if !d.listed.is_empty() => *rng.pick(&d.listed),
                _ => *rng.pick(&pool),
            };
            let pl = next_pl; next_pl += 1;
            Op::Add(id, pl, !d.strict)
        } else if r < 58 {
            let n = rng.range(0, 6);
            let mut l = vec![];
            for _ in 0..n {
                let id = match rng.below(16) { 0 => local, 1 if !l.is_empty() => { let p: &(Id, u64) = rng.pick(&l); p.0 } _ => *rng.pick(&pool) };
                l.push((id, next_pl)); next_pl += 1;
            }
            Op::Join(l)
        } else if r < 68 {
            Op::Fail(match rng.below(8) { 0 => local, 1 | 2 => *rng.pick(&pool), _ if !d.listed.is_empty() => *rng.pick(&d.listed), _ => *rng.pick(&pool) })
        } else if r < 75 {
            Op::Evict(match rng.below(8) { 0 => local, 1 | 2 => *rng.pick(&pool), _ if !d.listed.is_empty() => *rng.pick(&d.listed), _ => *rng.pick(&pool) })
        } else if r < 92 {
            let (k, tag) = if rng.chance(9, 10) { *rng.pick(&case_keys) } else { pick_key(rng, &local, &hot, &pool) }; sum.count(tag);
            Op::Find(k, pick_count(rng, d.listed.len() as u64))
        } else if r < 97 {
            let (k, tag) = if rng.chance(9, 10) { *rng.pick(&case_keys) } else { pick_key(rng, &local, &hot, &pool) }; sum.count(tag);
            let c = match rng.below(8) { 0 => 19, 1 => 20, 2 => 21, 3 => u64::MAX, 4 => 0, 5 => 1000, _ => pick_count(rng, d.listed.len() as u64) };
            Op::ReqFindNode(k, c)
        } else {
            let (k, tag) = if rng.chance(9, 10) { *rng.pick(&case_keys) } else { pick_key(rng, &local, &hot, &pool) }; sum.count(tag);
            Op::ReqFindValue(k)
        };
        d.apply(op, sum).await;
    }
    // closing queries on the final table
    let size = d.listed.len() as u64;
    let nq = if thorough { 6 } else { 8 };
    for _ in 0..nq {
        let (k, tag) = if rng.chance(9, 10) { *rng.pick(&case_keys) } else { pick_key(rng, &local, &hot, &pool) }; sum.count(tag);
        d.apply(Op::Find(k, pick_count(rng, size)), sum).await;
    }
    let (k, _) = *rng.pick(&case_keys);
    d.apply(Op::ReqFindNode(k, *rng.pick(&[19u64, 20, 21, 64])), sum).await;
    d.apply(Op::ReqFindValue(k), sum).await;
    if thorough {
        // every count 0..=64 for two keys on the final table
        for _ in 0..2 {
            let (k, tag) = if rng.chance(9, 10) { *rng.pick(&case_keys) } else { pick_key(rng, &local, &hot, &pool) }; sum.count(tag);
            for c in 0..=64u64 { d.apply(Op::Find(k, c), sum).await; }
        }
    }
    // bucket fill distribution of the final table (a full dump of the real table; evidence only, not a case op)
    let mut fill = [0usize; 256];
    let dump = d.eng.find_nodes(&DhtKey::from_bytes(local), 4096).await.unwrap_or_default();
    let dump_ids: BTreeSet<Id> = dump.iter().map(|n| *n.id.as_bytes()).collect();
    for id in &dump_ids { fill[bucket_of(&local, id)] += 1; }
    for f in fill.iter().filter(|f| **f > 0) {
        sum.count(match *f { 0..=6 => "bucket_fill:1-6", 7 => "bucket_fill:7", 8 => "bucket_fill:8(full)", _ => "bucket_fill:>8(!)" });
    }
    (local, d.ops, d.obs, kind)
}

fn main() {
    let args = Args::parse();
    install_trace_sink();
    let rt = tokio::runtime::Builder::new_current_thread().enable_all().build().unwrap();
    let mut rng = Rng::new(args.seed);
    let mut sum = Summary::default();
    sum.rule = "one evaluation = one (table, key, count) query answered by the real DhtCoreEngine (find_nodes, or a FindNode/FindValue request) and compared, order and addresses included, with Model/Routing.v after the same history; histories of join_network/add_node/handle_node_failure/evict_node (up to 300 ops) over ids crafted per bucket (local XOR pattern; buckets filled to 7/8/9 attempts; last-byte-only differences), with re-added listed ids, the local id, removal of absent ids; keys: local, 0, 2^256-1, listed ids, neighbours of listed ids, keys whose target bucket is within 3 of a populated bucket, random; counts 0..64 with table size -1/0/+1, 19/20/21 and usize::MAX for requests. Non-trivial = the table holds at least one node at the time of the query; distinct = different (set of listed ids, key, count)".into();
    let per_shard = if args.thorough() { 12 } else { 8 };
    let mut w = CaseWriter::new(&args.out, "cases_c02", HEADER, "case3", "check_case", "prop_case", per_shard);
    let ncases: u64 = args.extra.get("cases").and_then(|s| s.parse().ok()).unwrap_or(if args.thorough() { 420 } else { 90 });
    let mut seen: HashSet<u64> = HashSet::new();
    for id in 0..ncases {
        let mut r2 = rng.fork();
        let (local, ops, obs, kind) = rt.block_on(gen_case(id, &mut r2, &mut sum, args.thorough()));
        let mut nm = Names::default();
        let body = format!("({}, {}, {})", nm.n(&local),
            coq_list(ops.iter().map(|o| coq_op(&mut nm, o)).collect::<Vec<_>>()),
            coq_list(obs.iter().map(|o| coq_obs(&mut nm, o)).collect::<Vec<_>>()));
        let term = format!("({}\n  {})", nm.defs.join(" "), body);
        w.push(id, term);
        sum.count(&format!("kind:{}", kind));
        sum.add("ops_total", ops.len() as u64);
        // evaluations and distinctness, replaying the shadow of listed ids from the observations
        let mut listed: BTreeSet<Id> = BTreeSet::new();
        for (o, r) in ops.iter().zip(obs.iter()) {
            match (o, r) {
                (Op::Add(i, _, _), Obs::Ok) => { listed.insert(*i); }
                (Op::Join(l), _) => { for (i, _) in l { if *i != local { listed.insert(*i); } } }
                (Op::Fail(i), _) | (Op::Evict(i), _) => { listed.remove(i); }
                (Op::Find(k, c), Obs::Nodes(res)) | (Op::ReqFindNode(k, c), Obs::Nodes(res)) => {
                    sum.evaluations += 1;
                    sum.count(&format!("answer_len:{}", match res.len() { 0 => "0", 1..=7 => "1-7", 8 => "8", 9..=19 => "9-19", 20 => "20", _ => ">20" }));
                    if *c as usize == res.len() && !res.is_empty() { sum.count("answer_cut_exactly_at_count"); }
                    if !listed.is_empty() {
                        use std::hash::{Hash, Hasher};
                        let mut h = std::collections::hash_map::DefaultHasher::new();
                        listed.hash(&mut h); k.hash(&mut h); c.hash(&mut h);
                        if seen.insert(h.finish()) { sum.distinct_nontrivial += 1; }
                    }
                }
                (Op::ReqFindValue(_), Obs::Nodes(_)) => { sum.evaluations += 1; }
                _ => {}
            }
        }
        sum.case(id, json!({"local_id": hx(&local), "kind": kind,
            "ops": ops.iter().map(json_op).collect::<Vec<_>>(),
            "observed": obs.iter().map(json_obs).collect::<Vec<_>>()}));
    }
    w.flush();
    sum.write(&args.out);
}
