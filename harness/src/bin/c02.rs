//! C02 correspondence (stub, replaced below)
use saorsa_core::dht::core_engine::NodeId;
fn main() { let _ = NodeId::from_bytes([0u8; 32]); }
