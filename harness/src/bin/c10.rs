//! C10 / C11 correspondence: the real `EigenTrustEngine` (src/adaptive/trust.rs) vs Model/Trust.v.
//!
//! One binary, two modes (`--mode c10` | `--mode c11`).
//!  * c10: generated histories of reports / statistics / anchor changes / removals / computes /
//!    queries; every observed output is printed next to the history as a Coq `tcase`; direct
//!    checks (determinism, query, monotone pairs) run in Rust.
//!  * c11: graph-building histories (anchors, honest nodes, a closed set S of Sybils, equal
//!    statistics) followed by ONE compute; printed as a Coq `c11case`.
//! Every random choice derives from `Rng::new(seed)`.  Floats are printed as exact hex literals.
use saorsa_core::adaptive::trust::{EigenTrustEngine, NodeStatisticsUpdate};
use saorsa_core::adaptive::TrustProvider;
use saorsa_core::peer_record::UserId as NodeId;
use serde_json::{json, Value};
use std::collections::{BTreeMap, BTreeSet, HashSet};
use std::time::{Duration, Instant};
use vh::*;

const HEADER: &str = "From SV Require Import Lib.Base Lib.GenericField Model.Trust.\nFrom Coq Require Import PrimFloat.\nLocal Open Scope N_scope.";

/// ids that are never used in a report or a statistics update (anchors "never mentioned")
const GHOST0: u32 = 900_000;
/// ids never used in any mutating operation
const UNKNOWN0: u32 = 800_000;
/// the "id unknown to H" of a monotone family
const FAMILY_UNKNOWN0: u32 = 700_000;
const TOL: f64 = 1e-9;
/// cases per shard file: coqc start-up (several seconds on the shared machine) dominates the evaluation
/// (about 1 ms per small case), so shards are as large as CONVENTIONS.md allows
const PER_SHARD: usize = 100;
const PER_SHARD_MID: usize = 10;
const MAX_RUN: Duration = Duration::from_millis(900);
const TAG_ANCHOR: &str = "c10-anchor-unmentioned";
/// known-finding class: `AddPre i` after a compute that published a score for i (get_trust then answers 0.9)
const TAG_ADDPRE: &str = "c10-addpre-overwrite";
/// a compute this slow returned through the 2 s timeout inside `compute_global_trust`
const TIMEOUT_PATH: Duration = Duration::from_millis(1500);
const WHAT_TIMEOUT: &str = "compute_global_trust returned only through its 2 s timeout (self-deadlock on last_update); the returned map is the whole cache";
/// stop generating after this many cases that hit the timeout path
const MAX_TIMEOUT_CASES: u64 = 3;

// ------------------------------------------------------------------------------------------
// exact float printing
// ------------------------------------------------------------------------------------------

/// Coq hex float literal with exactly the bits of `x`.
fn coq_float(x: f64) -> String {
    if x.is_nan() { return "nan".into(); }
    if x == f64::INFINITY { return "infinity".into(); }
    if x == f64::NEG_INFINITY { return "neg_infinity".into(); }
    let bits = x.to_bits();
    let neg = bits >> 63 == 1;
    let e = ((bits >> 52) & 0x7ff) as i64;
    let m = bits & ((1u64 << 52) - 1);
    if e == 0 && m == 0 { return if neg { "(-0)%float".into() } else { "0%float".into() }; }
    let (lead, exp) = if e == 0 { (0, -1022) } else { (1, e - 1023) };
    let mut hex = format!("{:013x}", m);
    while hex.ends_with('0') { hex.pop(); }
    let frac = if hex.is_empty() { String::new() } else { format!(".{}", hex) };
    format!("({}0x{}{}p{}{})%float", if neg { "-" } else { "" }, lead, frac, if exp >= 0 { "+" } else { "-" }, exp.abs())
}

/// manual re-parse of `coq_float`'s output (self-check only): returns the bits
fn parse_coq_float(s: &str) -> Option<u64> {
    match s {
        "nan" => return Some(f64::NAN.to_bits()),
        "infinity" => return Some(f64::INFINITY.to_bits()),
        "neg_infinity" => return Some(f64::NEG_INFINITY.to_bits()),
        "0%float" => return Some(0),
        "(-0)%float" => return Some(1u64 << 63),
        _ => {}
    }
    let s = s.strip_prefix('(')?.strip_suffix(")%float")?;
    let (neg, s) = match s.strip_prefix('-') { Some(r) => (true, r), None => (false, s) };
    let s = s.strip_prefix("0x")?;
    let (mant, exp) = s.split_once('p')?;
    let exp: i64 = exp.parse().ok()?;
    let (lead, frac) = match mant.split_once('.') { Some((l, f)) => (l, f.to_string()), None => (mant, String::new()) };
    if frac.len() > 13 { return None; }
    let frac = format!("{:0<13}", frac);
    let m = u64::from_str_radix(&frac, 16).ok()?;
    let e = match lead {
        "1" => { if !(-1022..=1023).contains(&exp) { return None; } (exp + 1023) as u64 }
        "0" => { if exp != -1022 { return None; } 0 }
        _ => return None,
    };
    Some(((neg as u64) << 63) | (e << 52) | m)
}

fn float_selfcheck() {
    let vals = [0.0, -0.0, 1.0, -3.0, 3.0, 0.5, 0.1, 0.2, 1e-4, 1e-9, 0.9, 1.0 / 3.0, f64::MIN_POSITIVE, f64::MAX, -f64::MAX,
        f64::from_bits(1), f64::from_bits(0x000f_ffff_ffff_ffff), f64::EPSILON, 2f64.powi(40), (1.0f64 + 1e12).ln(),
        f64::NAN, f64::INFINITY, f64::NEG_INFINITY, 0.38462660000000004, 6.02e23, 5e-324];
    for v in vals {
        let s = coq_float(v);
        let back = parse_coq_float(&s);
        assert!(back == Some(v.to_bits()), "float printing self-check failed for {:e}: {} -> {:?}", v, s, back);
    }
    debug_assert_eq!(coq_float(3.0), "(0x1.8p+1)%float");
    debug_assert_eq!(coq_float(-3.0), "(-0x1.8p+1)%float");
    debug_assert_eq!(coq_float(0.5), "(0x1p-1)%float");
    debug_assert_eq!(coq_float(f64::from_bits(1)), "(0x0.0000000000001p-1022)%float");
}

// ------------------------------------------------------------------------------------------
// ids, operations, observations
// ------------------------------------------------------------------------------------------

fn nid(i: u32) -> NodeId {
    let mut b = [0u8; 32];
    b[28..32].copy_from_slice(&i.to_be_bytes());
    b[0] = (i.wrapping_mul(37).wrapping_add(11) as u8) ^ 0x5a;
    b[1] = (i >> 3) as u8;
    NodeId::from_bytes(b)
}
fn uid_of(k: &NodeId) -> u32 {
    let i = u32::from_be_bytes([k.hash[28], k.hash[29], k.hash[30], k.hash[31]]);
    assert!(nid(i) == *k, "engine returned an id the harness never created");
    i
}

#[derive(Clone, Debug, PartialEq)]
enum Upd { Uptime(u64), Correct, Failed, Unavailable, Corrupted, Protocol, Storage(u64), Bandwidth(u64), Compute(u64) }

#[derive(Clone, Debug, PartialEq)]
enum Op {
    /// `via`: true = `TrustProvider::update_trust` (spawned task), false = `update_local_trust`
    UpdLocal { f: u32, t: u32, ok: bool, via: bool },
    UpdStats(u32, Upd),
    AddPre(u32),
    RemPre(u32),
    RemoveNode(u32),
    Compute,
    Query(u32),
}

#[derive(Clone, Debug)]
enum Obs { None, Map(Vec<(u32, f64)>), Val(f64) }

fn to_engine_upd(u: &Upd) -> NodeStatisticsUpdate {
    match u {
        Upd::Uptime(x) => NodeStatisticsUpdate::Uptime(*x),
        Upd::Correct => NodeStatisticsUpdate::CorrectResponse,
        Upd::Failed => NodeStatisticsUpdate::FailedResponse,
        Upd::Unavailable => NodeStatisticsUpdate::DataUnavailable,
        Upd::Corrupted => NodeStatisticsUpdate::CorruptedData,
        Upd::Protocol => NodeStatisticsUpdate::ProtocolViolation,
        Upd::Storage(x) => NodeStatisticsUpdate::StorageContributed(*x),
        Upd::Bandwidth(x) => NodeStatisticsUpdate::BandwidthContributed(*x),
        Upd::Compute(x) => NodeStatisticsUpdate::ComputeContributed(*x),
    }
}
fn coq_upd(u: &Upd) -> String {
    match u {
        Upd::Uptime(x) => format!("(UUptime {})", x),
        Upd::Correct => "UCorrect".into(),
        Upd::Failed => "UFailed".into(),
        Upd::Unavailable => "UUnavailable".into(),
        Upd::Corrupted => "UCorrupted".into(),
        Upd::Protocol => "UProtocol".into(),
        Upd::Storage(x) => format!("(UStorage {})", x),
        Upd::Bandwidth(x) => format!("(UBandwidth {})", x),
        Upd::Compute(x) => format!("(UCompute {})", x),
    }
}
fn upd_kind(u: &Upd) -> &'static str {
    match u {
        Upd::Uptime(_) => "uptime", Upd::Correct => "correct", Upd::Failed => "failed", Upd::Unavailable => "unavailable",
        Upd::Corrupted => "corrupted", Upd::Protocol => "protocol", Upd::Storage(_) => "storage",
        Upd::Bandwidth(_) => "bandwidth", Upd::Compute(_) => "compute",
    }
}
fn coq_op(o: &Op) -> String {
    match o {
        Op::UpdLocal { f, t, ok, .. } => format!("UpdLocal {} {} {}", f, t, coq_bool(*ok)),
        Op::UpdStats(i, u) => format!("UpdStats {} {}", i, coq_upd(u)),
        Op::AddPre(i) => format!("AddPre {}", i),
        Op::RemPre(i) => format!("RemPre {}", i),
        Op::RemoveNode(i) => format!("RemoveNode {}", i),
        Op::Compute => "fCompute 1%float".into(),
        Op::Query(i) => format!("Query {}", i),
    }
}
/// readable and replayable: the Coq text plus the API route for reports
fn json_op(o: &Op) -> Value {
    match o {
        Op::UpdLocal { via, .. } => json!(format!("{} via={}", coq_op(o), if *via { "TrustProvider::update_trust" } else { "update_local_trust" })),
        Op::Compute => json!("Compute"),
        _ => json!(coq_op(o)),
    }
}
fn coq_vec(v: &[(u32, f64)]) -> String { coq_list(v.iter().map(|(i, x)| format!("({}, {})", i, coq_float(*x)))) }
fn coq_obs(o: &Obs) -> String {
    match o {
        Obs::None => "fNone".into(),
        Obs::Map(m) => format!("fMap {}", coq_vec(m)),
        Obs::Val(x) => format!("fVal {}", coq_float(*x)),
    }
}
fn ln_oracle(x: u64) -> f64 { (1.0 + x as f64).ln() }
fn coq_tbl(vals: &BTreeSet<u64>) -> String { coq_list(vals.iter().map(|x| format!("({}, {})", x, coq_float(ln_oracle(*x))))) }

// ------------------------------------------------------------------------------------------
// shadow state: counters for the ln table, node set, and the replica of the REPAIRED iteration.
// The replica is used ONLY to obtain the per-round L1 differences (ambiguity of the convergence
// test) and the number of rounds for the input distribution; its scores are compared with nothing.
// Its constants (0.4, 1e-4, min 4 rounds, 100/5, 500/2, 50) are the present source's; if the source changes the
// Coq model (generated constants) still decides, only the ambiguity filter becomes less precise.
// ------------------------------------------------------------------------------------------

#[derive(Clone, Default)]
struct Shadow {
    local: BTreeMap<(u32, u32), f64>,
    stats: BTreeMap<u32, [u64; 6]>, // up ok fail sto bw cpu
    pre: BTreeSet<u32>,
}
impl Shadow {
    fn new(pre: &[u32]) -> Self { Shadow { pre: pre.iter().copied().collect(), ..Default::default() } }
    fn apply(&mut self, op: &Op) {
        match op {
            Op::UpdLocal { f, t, ok, .. } => {
                let nv = if *ok { 1.0 } else { 0.0 };
                self.local.entry((*f, *t)).and_modify(|v| *v = 0.9 * *v + 0.1 * nv).or_insert(nv);
            }
            Op::UpdStats(i, u) => {
                let s = self.stats.entry(*i).or_insert([0; 6]);
                match u {
                    Upd::Uptime(x) => s[0] += x,
                    Upd::Correct => s[1] += 1,
                    Upd::Failed | Upd::Unavailable => s[2] += 1,
                    Upd::Corrupted | Upd::Protocol => s[2] += 2,
                    Upd::Storage(x) => s[3] += x,
                    Upd::Bandwidth(x) => s[4] += x,
                    Upd::Compute(x) => s[5] += x,
                }
            }
            Op::AddPre(i) => { self.pre.insert(*i); }
            Op::RemPre(i) => { self.pre.remove(i); }
            Op::RemoveNode(i) => self.local.retain(|(f, t), _| f != i && t != i),
            Op::Compute | Op::Query(_) => {}
        }
    }
    fn node_set(&self) -> BTreeSet<u32> {
        let mut s = BTreeSet::new();
        for (f, t) in self.local.keys() { s.insert(*f); s.insert(*t); }
        for i in self.stats.keys() { s.insert(*i); }
        s
    }
    fn has_positive_edge(&self) -> bool { self.local.values().any(|v| *v > 0.0) }
    fn ln_args(&self, into: &mut BTreeSet<u64>) {
        for s in self.stats.values() { into.insert(s[3]); into.insert(s[4]); into.insert(s[5]); }
    }
    /// per-round L1 differences of the repaired power iteration, BTreeMap order
    fn round_diffs(&self) -> Vec<f64> {
        let alpha = 0.4f64;
        let nodes = self.node_set();
        let n = nodes.len();
        if n == 0 { return vec![]; }
        let mut outs: BTreeMap<u32, f64> = BTreeMap::new();
        for ((f, _), v) in &self.local { if *v > 0.0 { *outs.entry(*f).or_insert(0.0) += *v; } }
        let mut incoming: BTreeMap<u32, Vec<(u32, f64)>> = BTreeMap::new();
        for ((f, t), v) in &self.local {
            if *v <= 0.0 { continue; }
            let Some(s) = outs.get(f) else { continue };
            if *s <= 0.0 { continue; }
            incoming.entry(*t).or_default().push((*f, *v / *s));
        }
        let mut tv: BTreeMap<u32, f64> = nodes.iter().map(|i| (*i, 1.0 / n as f64)).collect();
        let pre_val = if self.pre.is_empty() { 0.0 } else { 1.0 / self.pre.len() as f64 };
        let mut diffs = vec![];
        for iteration in 0..50usize {
            let mut nt: BTreeMap<u32, f64> = BTreeMap::new();
            for i in &nodes {
                let mut s = 0.0;
                if let Some(es) = incoming.get(i) {
                    for (j, w) in es { if let Some(tj) = tv.get(j) { s += w * tj; } }
                }
                nt.insert(*i, (1.0 - alpha) * s);
            }
            let dangling: f64 = tv.iter().filter(|(k, _)| !outs.contains_key(*k)).map(|(_, t)| *t).sum();
            let tm = alpha + (1.0 - alpha) * dangling;
            if !self.pre.is_empty() {
                for a in &self.pre { *nt.entry(*a).or_insert(0.0) += tm * pre_val; }
            } else {
                let u = tm / n as f64;
                for i in &nodes { *nt.entry(*i).or_insert(0.0) += u; }
            }
            let sum: f64 = nt.values().sum();
            if sum > 0.0 { for v in nt.values_mut() { *v /= sum; } }
            let mut diff = 0.0;
            for i in &nodes { diff += (tv.get(i).unwrap_or(&0.0) - nt.get(i).unwrap_or(&0.0)).abs(); }
            diffs.push(diff);
            tv = nt;
            if diff < 0.0001 && iteration + 1 >= 4 { break; }
            if n > 100 && iteration > 5 { break; }
            if n > 500 && iteration > 2 { break; }
        }
        diffs
    }
}
fn diffs_ambiguous(d: &[f64]) -> bool { d.iter().any(|x| !x.is_finite() || (x - 0.0001).abs() < 1e-9) }

/// facts about a complete op list derived from the shadow
struct ShadowFacts {
    ambiguous: bool,
    tbl: BTreeSet<u64>,
    rounds: Vec<usize>,
    n_final: usize,
    any_positive_edge: bool,
    any_stats: bool,
    /// key set the last compute must return: node set plus anchors (empty when the node set is empty)
    expected_keys_last: BTreeSet<u32>,
    end: Shadow,
}
/// `extra_final_compute`: C11 histories carry no Compute op; the single compute happens at the end
fn shadow_facts(pre: &[u32], ops: &[Op], extra_final_compute: bool) -> ShadowFacts {
    let mut sh = Shadow::new(pre);
    let mut f = ShadowFacts { ambiguous: false, tbl: BTreeSet::from([0u64]), rounds: vec![], n_final: 0,
        any_positive_edge: false, any_stats: false, expected_keys_last: BTreeSet::new(), end: Shadow::default() };
    let at_compute = |sh: &Shadow, f: &mut ShadowFacts| {
        sh.ln_args(&mut f.tbl);
        let d = sh.round_diffs();
        if diffs_ambiguous(&d) { f.ambiguous = true; }
        f.rounds.push(d.len());
        let ns = sh.node_set();
        f.n_final = ns.len();
        f.expected_keys_last = if ns.is_empty() { BTreeSet::new() } else { ns.union(&sh.pre).copied().collect() };
    };
    for op in ops {
        match op {
            Op::Compute => at_compute(&sh, &mut f),
            Op::UpdStats(..) => { f.any_stats = true; sh.apply(op); }
            _ => sh.apply(op),
        }
        // a positive entry can only come from a `true` report
        if !f.any_positive_edge && matches!(op, Op::UpdLocal { ok: true, .. }) && sh.has_positive_edge() { f.any_positive_edge = true; }
    }
    if extra_final_compute { at_compute(&sh, &mut f); }
    f.end = sh;
    f
}

// ------------------------------------------------------------------------------------------
// driving the real engine
// ------------------------------------------------------------------------------------------

async fn yield3() { for _ in 0..3 { tokio::task::yield_now().await; } }

struct Exec { t0: Instant, eng: EigenTrustEngine, obs: Vec<Obs>, qviol: Vec<Value>, timeout_at: Option<(usize, u64)> }
impl Exec {
    fn new(pre: &[u32]) -> Self {
        let t0 = Instant::now();
        let set: HashSet<NodeId> = pre.iter().map(|i| nid(*i)).collect();
        Exec { t0, eng: EigenTrustEngine::new(set), obs: vec![], qviol: vec![], timeout_at: None }
    }
    async fn compute(&mut self) -> Vec<(u32, f64)> {
        let t = Instant::now();
        let m = self.eng.compute_global_trust().await;
        let el = t.elapsed();
        if el >= TIMEOUT_PATH && self.timeout_at.is_none() { self.timeout_at = Some((self.obs.len(), el.as_millis() as u64)); }
        let mut v: Vec<(u32, f64)> = m.iter().map(|(k, x)| (uid_of(k), *x)).collect();
        v.sort_by_key(|p| p.0);
        v
    }
    async fn step(&mut self, op: &Op) {
        match op {
            Op::UpdLocal { f, t, ok, via } => {
                if *via { TrustProvider::update_trust(&self.eng, &nid(*f), &nid(*t), *ok); yield3().await; }
                else { self.eng.update_local_trust(&nid(*f), &nid(*t), *ok).await; }
                self.obs.push(Obs::None);
            }
            Op::UpdStats(i, u) => { self.eng.update_node_stats(&nid(*i), to_engine_upd(u)).await; self.obs.push(Obs::None); }
            Op::AddPre(i) => { self.eng.add_pre_trusted(nid(*i)).await; self.obs.push(Obs::None); }
            Op::RemPre(i) => { self.eng.remove_pre_trusted(&nid(*i)).await; self.obs.push(Obs::None); }
            Op::RemoveNode(i) => { TrustProvider::remove_node(&self.eng, &nid(*i)); yield3().await; self.obs.push(Obs::None); }
            Op::Compute => {
                let v = self.compute().await;
                // direct check 2: the cache answers exactly what was just returned
                for (i, x) in &v {
                    let q = TrustProvider::get_trust(&self.eng, &nid(*i));
                    if q.to_bits() != x.to_bits() {
                        self.qviol.push(json!({"op_index": self.obs.len(), "id": i, "returned": coq_float(*x), "get_trust": coq_float(q)}));
                    }
                }
                self.obs.push(Obs::Map(v));
            }
            Op::Query(i) => { let x = TrustProvider::get_trust(&self.eng, &nid(*i)); self.obs.push(Obs::Val(x)); }
        }
    }
}

/// `timeout_at`: (index of the compute that hit the timeout path, its wall time in ms); the run stops there
struct RunOut { ops: Vec<Op>, obs: Vec<Obs>, final_map: Vec<(u32, f64)>, elapsed: Duration, qviol: Vec<Value>, timeout_at: Option<(usize, u64)> }

/// base ops, then Compute, then a Query of every id of the returned map and of `unknown`
fn run_with_tail(rt: &tokio::runtime::Runtime, pre: &[u32], base: &[Op], unknown: &[u32]) -> RunOut {
    rt.block_on(async {
        let mut ex = Exec::new(pre);
        let mut ops: Vec<Op> = vec![];
        for op in base {
            ex.step(op).await;
            ops.push(op.clone());
            if ex.timeout_at.is_some() { break; }
        }
        if ex.timeout_at.is_none() {
            ex.step(&Op::Compute).await;
            ops.push(Op::Compute);
        }
        let fm = ex.obs.iter().rev().find_map(|o| match o { Obs::Map(m) => Some(m.clone()), _ => None }).unwrap_or_default();
        if ex.timeout_at.is_none() {
            for i in fm.iter().map(|p| p.0).chain(unknown.iter().copied()) {
                let q = Op::Query(i);
                ex.step(&q).await;
                ops.push(q);
            }
        }
        RunOut { ops, obs: ex.obs, final_map: fm, elapsed: ex.t0.elapsed(), qviol: ex.qviol, timeout_at: ex.timeout_at }
    })
}
fn run_fixed(rt: &tokio::runtime::Runtime, pre: &[u32], ops: &[Op]) -> (Vec<Obs>, Duration) {
    rt.block_on(async {
        let mut ex = Exec::new(pre);
        for op in ops { ex.step(op).await; }
        let el = ex.t0.elapsed();
        (ex.obs, el)
    })
}
/// C11: ops (no compute), then one compute; returns the map, the run's wall time and the compute's wall time
fn run_then_compute(rt: &tokio::runtime::Runtime, pre: &[u32], ops: &[Op]) -> (Vec<(u32, f64)>, Duration, Duration) {
    rt.block_on(async {
        let mut ex = Exec::new(pre);
        for op in ops { ex.step(op).await; }
        let t = Instant::now();
        let m = ex.compute().await;
        (m, ex.t0.elapsed(), t.elapsed())
    })
}

fn close(a: f64, b: f64) -> bool { a.to_bits() == b.to_bits() || (a - b).abs() <= TOL }

/// first difference between two observation lists (direct check 1)
fn obs_difference(a: &[Obs], b: &[Obs]) -> Option<Value> {
    if a.len() != b.len() { return Some(json!({"lengths": [a.len(), b.len()]})); }
    for (k, (x, y)) in a.iter().zip(b.iter()).enumerate() {
        match (x, y) {
            (Obs::None, Obs::None) => {}
            (Obs::Val(p), Obs::Val(q)) => if !close(*p, *q) { return Some(json!({"op_index": k, "first": coq_float(*p), "second": coq_float(*q)})); },
            (Obs::Map(p), Obs::Map(q)) => {
                let kp: Vec<u32> = p.iter().map(|e| e.0).collect();
                let kq: Vec<u32> = q.iter().map(|e| e.0).collect();
                if kp != kq { return Some(json!({"op_index": k, "keys_first": kp, "keys_second": kq})); }
                for (e, g) in p.iter().zip(q.iter()) {
                    if !close(e.1, g.1) { return Some(json!({"op_index": k, "id": e.0, "first": coq_float(e.1), "second": coq_float(g.1)})); }
                }
            }
            _ => return Some(json!({"op_index": k, "kinds": "differ"})),
        }
    }
    None
}

// ------------------------------------------------------------------------------------------
// value generators (boundary directed)
// ------------------------------------------------------------------------------------------

fn pick_uptime(rng: &mut Rng) -> u64 {
    match rng.below(10) {
        0 => 0, 1 => 1, 2 => 86399, 3 => 86400, 4 => 86401, 5 => 1u64 << 40,
        6 => rng.below(86400), 7 => 43200, 8 => rng.below(200_000), _ => rng.below(1u64 << 40),
    }
}
fn pick_contrib(rng: &mut Rng) -> u64 {
    match rng.below(9) {
        0 => 0, 1 => 1, 2 => 2, 3 => 1000, 4 => 1u64 << 40,
        5 => rng.below(10), 6 => rng.below(5000), 7 => rng.below(1u64 << 20), _ => rng.below(1u64 << 40),
    }
}
fn pick_upd(rng: &mut Rng) -> Upd {
    match rng.below(14) {
        0 | 1 => Upd::Uptime(pick_uptime(rng)),
        2 | 3 | 4 => Upd::Correct,
        5 | 6 => Upd::Failed,
        7 => Upd::Unavailable,
        8 => Upd::Corrupted,
        9 => Upd::Protocol,
        10 => Upd::Storage(pick_contrib(rng)),
        11 => Upd::Bandwidth(pick_contrib(rng)),
        12 => Upd::Compute(pick_contrib(rng)),
        _ => Upd::Correct,
    }
}

// ------------------------------------------------------------------------------------------
// mode c10: history generator
// ------------------------------------------------------------------------------------------

struct Hist { pre: Vec<u32>, ops: Vec<Op>, shape: String, pool: u32 }

struct Gen<'a> {
    rng: &'a mut Rng,
    p: u32,
    pre_now: BTreeSet<u32>,
    removed: Vec<u32>,
    pairs: Vec<(u32, u32)>,
    ops: Vec<Op>,
}
impl<'a> Gen<'a> {
    fn pool_id(&mut self) -> u32 { self.rng.range(1, self.p as u64) as u32 }
    fn ghost(&mut self) -> u32 { GHOST0 + self.rng.below(3) as u32 }
    fn unknown(&mut self) -> u32 { UNKNOWN0 + self.rng.below(40) as u32 }
    fn local(&mut self, f: u32, t: u32, ok: bool) {
        let via = self.rng.chance(1, 2);
        if !self.pairs.contains(&(f, t)) { self.pairs.push((f, t)); }
        self.ops.push(Op::UpdLocal { f, t, ok, via });
    }
    fn r_local(&mut self, p_true: u64) {
        let ok = self.rng.chance(p_true, 100);
        match self.rng.below(10) {
            0 => { let i = self.pool_id(); self.local(i, i, ok); }                       // self-rating
            1 | 2 if !self.pairs.is_empty() => { let (f, t) = *self.rng.pick(&self.pairs); self.local(f, t, ok); } // EMA on a pair
            3 if !self.pairs.is_empty() => { let (f, t) = *self.rng.pick(&self.pairs); self.local(t, f, ok); }     // reverse edge
            _ => { let f = self.pool_id(); let t = self.pool_id(); self.local(f, t, ok); }
        }
    }
    fn r_stats(&mut self) { let i = self.pool_id(); let u = pick_upd(self.rng); self.ops.push(Op::UpdStats(i, u)); }
    fn r_addpre(&mut self) {
        let i = if self.rng.chance(3, 4) { self.pool_id() } else { self.ghost() };
        self.pre_now.insert(i);
        self.ops.push(Op::AddPre(i));
    }
    fn r_rempre(&mut self) {
        let cur: Vec<u32> = self.pre_now.iter().copied().collect();
        let i = if !cur.is_empty() && self.rng.chance(4, 5) { *self.rng.pick(&cur) } else { self.pool_id() };
        self.pre_now.remove(&i);
        self.ops.push(Op::RemPre(i));
    }
    fn r_remove(&mut self) {
        let i = match self.rng.below(8) { 0 => self.ghost(), 1 => self.unknown(), _ => self.pool_id() };
        self.removed.push(i);
        self.pairs.retain(|(f, t)| *f != i && *t != i);
        self.ops.push(Op::RemoveNode(i));
    }
    fn r_compute(&mut self) { self.ops.push(Op::Compute); }
    fn query_id(&mut self) -> u32 {
        let cur: Vec<u32> = self.pre_now.iter().copied().collect();
        match self.rng.below(10) {
            0 => self.unknown(),
            1 | 2 if !self.removed.is_empty() => *self.rng.pick(&self.removed),
            3 | 4 if !cur.is_empty() => *self.rng.pick(&cur),
            5 => self.ghost(),
            _ => self.pool_id(),
        }
    }
    fn r_query(&mut self) { let i = self.query_id(); self.ops.push(Op::Query(i)); }
    /// short scripted sequences around the cache
    fn r_special(&mut self) {
        match self.rng.below(5) {
            0 => { // an id right after AddPre following a compute
                let i = if self.rng.chance(1, 2) { self.pool_id() } else { self.ghost() };
                self.r_compute(); self.pre_now.insert(i); self.ops.push(Op::AddPre(i)); self.ops.push(Op::Query(i));
            }
            1 => { // anchor before and after a compute
                let cur: Vec<u32> = self.pre_now.iter().copied().collect();
                let i = if cur.is_empty() { self.pool_id() } else { *self.rng.pick(&cur) };
                self.ops.push(Op::Query(i)); self.r_compute(); self.ops.push(Op::Query(i));
            }
            2 => { // removed id
                let i = self.pool_id();
                self.r_compute(); self.ops.push(Op::Query(i));
                self.removed.push(i); self.pairs.retain(|(f, t)| *f != i && *t != i);
                self.ops.push(Op::RemoveNode(i)); self.ops.push(Op::Query(i));
                if self.rng.chance(1, 2) { self.r_compute(); self.ops.push(Op::Query(i)); }
            }
            3 => { // anchor demoted, then compute
                let cur: Vec<u32> = self.pre_now.iter().copied().collect();
                if let Some(i) = cur.first().copied() { self.pre_now.remove(&i); self.ops.push(Op::RemPre(i)); self.ops.push(Op::Query(i)); }
                self.r_compute();
            }
            _ => { // removed anchor (stays an anchor, leaves the cache)
                let i = self.ghost();
                self.pre_now.insert(i); self.ops.push(Op::AddPre(i)); self.ops.push(Op::RemoveNode(i)); self.removed.push(i);
                self.ops.push(Op::Query(i)); self.r_compute(); self.ops.push(Op::Query(i));
            }
        }
    }
    /// weights: local, stats, addpre, rempre, remove, compute, query, special
    fn mix(&mut self, n: usize, w: [u64; 8], p_true: u64) {
        let total: u64 = w.iter().sum();
        let target = self.ops.len() + n;
        while self.ops.len() < target {
            let mut r = self.rng.below(total);
            let mut k = 0;
            while r >= w[k] { r -= w[k]; k += 1; }
            match k {
                0 => self.r_local(p_true), 1 => self.r_stats(), 2 => self.r_addpre(), 3 => self.r_rempre(),
                4 => self.r_remove(), 5 => self.r_compute(), 6 => self.r_query(), _ => self.r_special(),
            }
        }
    }
    /// Sybil-like pattern among a sub-pool
    fn pattern(&mut self, ids: &[u32], kind: u64) {
        let k = ids.len();
        if k == 0 { return; }
        match kind {
            0 => for a in 0..k { for b in 0..k { if a != b && (b + k - a) % k <= 8 { self.local(ids[a], ids[b], true); } } }, // clique (degree cap 8)
            1 => for a in 1..k { self.local(ids[a], ids[0], true); if self.rng.chance(1, 2) { self.local(ids[0], ids[a], true); } }, // star
            2 => for a in 0..k.saturating_sub(1) { self.local(ids[a], ids[a + 1], true); },                                        // chain
            3 => for a in 0..k { self.local(ids[a], ids[(a + 1) % k], true); },                                                   // ring
            _ => for a in 0..k { self.local(ids[a], ids[a], true); },                                                             // self loops
        }
    }
}

const SHAPES: [(&str, u64); 13] = [("random", 6), ("edges", 3), ("stats-only", 2), ("sybil", 4), ("ema", 2), ("false-first", 2),
    ("receivers", 2), ("empty", 1), ("anchors-only", 1), ("churn", 2), ("dangling", 2), ("stale-cache", 1), ("addpre-overwrite", 1)];

/// Keeps the known-finding class `c10-addpre-overwrite` (an `AddPre i` after a compute that published a
/// score for i, i not removed since) out of every shape but the dedicated one: elsewhere such an AddPre is
/// redirected to a fresh never-mentioned id.  In the dedicated shape (`allow`) every such AddPre is followed
/// immediately by `Query i`, so the overwritten answer is always observed.  "Published" is predicted from the
/// shadow (node set plus anchors at each compute); the TAG itself is decided from the observed maps.
fn sanitize_addpre(pre: &[u32], ops: Vec<Op>, allow: bool) -> Vec<Op> {
    let mut sh = Shadow::new(pre);
    let mut published: BTreeSet<u32> = BTreeSet::new();
    let mut fresh = GHOST0 + 100;
    let mut out: Vec<Op> = Vec::with_capacity(ops.len() + 4);
    let mut k = 0;
    while k < ops.len() {
        let op = ops[k].clone();
        match &op {
            Op::Compute => {
                let ns = sh.node_set();
                if !ns.is_empty() { published.extend(ns.iter().copied()); published.extend(sh.pre.iter().copied()); }
                out.push(op);
            }
            Op::RemoveNode(x) => { published.remove(x); sh.apply(&op); out.push(op); }
            Op::AddPre(x) if published.contains(x) => {
                let follows = ops.get(k + 1) == Some(&Op::Query(*x));
                if allow {
                    sh.apply(&op);
                    out.push(op.clone());
                    if !follows { out.push(Op::Query(*x)); }
                } else {
                    let y = fresh;
                    fresh += 1;
                    let nop = Op::AddPre(y);
                    sh.apply(&nop);
                    out.push(nop);
                    if follows { out.push(Op::Query(y)); k += 1; }
                }
            }
            _ => { sh.apply(&op); out.push(op); }
        }
        k += 1;
    }
    out
}

fn gen_base(rng: &mut Rng) -> Hist {
    let total: u64 = SHAPES.iter().map(|s| s.1).sum();
    let mut r = rng.below(total);
    let mut si = 0;
    while r >= SHAPES[si].1 { r -= SHAPES[si].1; si += 1; }
    let shape = SHAPES[si].0;
    let mut p = match rng.below(10) { 0..=3 => rng.range(2, 6), 4..=7 => rng.range(7, 20), _ => rng.range(21, 40) } as u32;
    if shape == "stale-cache" { p = p.max(4); }
    // initial anchors: 0..3 ids, some of them never mentioned in any report, sometimes a duplicate
    let mut pre: Vec<u32> = vec![];
    let npre = match shape { "anchors-only" => rng.range(1, 3), _ => rng.below(4) };
    for _ in 0..npre {
        let i = if rng.chance(7, 10) { rng.range(1, p as u64) as u32 } else { GHOST0 + rng.below(3) as u32 };
        pre.push(i);
    }
    if !pre.is_empty() && rng.chance(1, 12) { let d = pre[0]; pre.push(d); }
    let mut g = Gen { p, pre_now: pre.iter().copied().collect(), removed: vec![], pairs: vec![], ops: vec![], rng };
    let nops = match g.rng.below(4) { 0 => g.rng.range(5, 12), 1 | 2 => g.rng.range(13, 40), _ => g.rng.range(41, 80) } as usize;
    match shape {
        "random" => g.mix(nops, [30, 20, 4, 3, 4, 8, 10, 4], 75),
        "edges" => g.mix(nops, [60, 4, 2, 1, 3, 8, 8, 2], 85),
        "stats-only" => g.mix(nops, [0, 60, 3, 2, 2, 8, 10, 2], 75),
        "sybil" => {
            let half = (p / 2).max(1);
            let honest = (nops / 3).max(1);
            for _ in 0..honest { let f = g.rng.range(1, half as u64) as u32; let t = g.rng.range(1, half as u64) as u32; let ok = g.rng.chance(4, 5); g.local(f, t, ok); }
            let k = g.rng.range(1, (p - half).max(1).min(12) as u64) as u32;
            let ids: Vec<u32> = (0..k).map(|j| (half + 1 + j).min(p)).collect::<BTreeSet<u32>>().into_iter().collect();
            let kind = g.rng.below(5);
            g.pattern(&ids, kind);
            if g.rng.chance(1, 2) { let s = *g.rng.pick(&ids); let t = g.rng.range(1, half as u64) as u32; g.local(s, t, true); }
            g.mix(nops / 4, [10, 25, 4, 2, 3, 10, 10, 3], 75);
        }
        "ema" => {
            let npairs = g.rng.range(1, 3);
            for _ in 0..npairs { let f = g.pool_id(); let t = g.pool_id(); let ok = g.rng.chance(1, 2); g.local(f, t, ok); }
            let target = g.ops.len() + nops;
            while g.ops.len() < target {
                match g.rng.below(12) {
                    0 => g.r_compute(), 1 => g.r_query(), 2 => g.r_stats(),
                    _ => { let (f, t) = *g.rng.pick(&g.pairs); let ok = g.rng.chance(1, 2); g.local(f, t, ok); }
                }
            }
        }
        "false-first" => {
            // first report `false` (value 0.0): the engine ignores the edge but both ends are in the node set
            let k = g.rng.range(1, 6);
            for _ in 0..k { let f = g.pool_id(); let t = g.pool_id(); g.local(f, t, false); }
            if g.rng.chance(1, 2) { g.r_compute(); }
            g.mix(nops / 2, [40, 15, 3, 2, 3, 10, 10, 3], 40);
        }
        "receivers" => {
            let raters = g.rng.range(1, 3) as u32;
            for _ in 0..nops {
                let f = g.rng.range(1, raters.min(p) as u64) as u32; let t = g.pool_id(); let ok = g.rng.chance(9, 10);
                g.local(f, t, ok);
                if g.rng.chance(1, 10) { g.r_compute(); }
                if g.rng.chance(1, 10) { g.r_query(); }
                if g.rng.chance(1, 8) { g.r_stats(); }
            }
        }
        "empty" => { if g.rng.chance(1, 2) { let q = g.rng.range(1, 4) as usize; g.mix(q, [0, 0, 0, 0, 1, 2, 6, 0], 75); } }
        "anchors-only" => g.mix(nops.min(20), [0, 0, 6, 4, 3, 5, 8, 0], 75),
        "churn" => g.mix(nops, [25, 15, 10, 8, 14, 10, 12, 8], 70),
        "stale-cache" => {
            // A->B and C->D, compute, remove A, compute, query B: B is no longer in the node set, the second map
            // has the remaining keys only and B keeps its old published score in the cache
            let mut ids: Vec<u32> = (1..=p).collect();
            g.rng.shuffle(&mut ids);
            let (a, b, c, d) = (ids[0], ids[1], ids[2], ids[3]);
            if g.rng.chance(1, 2) { let q = g.rng.below(6) as usize; g.mix(q, [10, 10, 2, 1, 0, 0, 3, 0], 80); }
            g.local(a, b, true); g.local(c, d, true);
            g.r_compute();
            if g.rng.chance(1, 2) { g.ops.push(Op::Query(b)); }
            g.removed.push(a); g.pairs.retain(|(f, t)| *f != a && *t != a);
            g.ops.push(Op::RemoveNode(a));
            g.r_compute();
            g.ops.push(Op::Query(b));
            if g.rng.chance(1, 2) { g.ops.push(Op::Query(a)); }
            if g.rng.chance(1, 3) { let q = g.rng.below(8) as usize; g.mix(q, [10, 10, 2, 1, 2, 3, 5, 0], 80); }
        }
        "addpre-overwrite" => {
            // known-finding class: a published id is made an anchor afterwards; get_trust answers 0.9 until the next compute
            g.mix((nops / 3).max(3), [30, 20, 3, 1, 0, 0, 4, 0], 85);
            g.r_compute();
            let mut sh = Shadow::new(&pre);
            for o in &g.ops { sh.apply(o); }
            let mut keys: Vec<u32> = sh.node_set().into_iter().collect();
            if !keys.is_empty() && g.rng.chance(1, 3) { keys.extend(sh.pre.iter().copied()); }   // also an id that already is an anchor
            let i = if keys.is_empty() { g.pool_id() } else { *g.rng.pick(&keys) };
            if g.rng.chance(1, 2) { g.ops.push(Op::Query(i)); }
            g.pre_now.insert(i);
            g.ops.push(Op::AddPre(i));
            g.ops.push(Op::Query(i));
            if g.rng.chance(1, 2) { g.r_compute(); g.ops.push(Op::Query(i)); }
            if g.rng.chance(1, 3) { let q = g.rng.below(6) as usize; g.mix(q, [10, 10, 0, 1, 1, 3, 5, 0], 80); }
        }
        _ => { // "dangling": statistics for everybody, few raters, most nodes make no statement
            for i in 1..=p.min(25) { let u = pick_upd(g.rng); g.ops.push(Op::UpdStats(i, u)); }
            let e = g.rng.range(1, 6);
            for _ in 0..e { let f = g.pool_id(); let t = g.pool_id(); g.local(f, t, true); }
            g.mix(nops / 4, [5, 10, 2, 1, 1, 8, 8, 2], 90);
        }
    }
    let ops = std::mem::take(&mut g.ops);
    let ops = sanitize_addpre(&pre, ops, shape == "addpre-overwrite");
    Hist { pre, ops, shape: shape.into(), pool: p }
}

/// node set of exactly `n` ids (one statistics update each) with sparse edges (<= 2 per node)
fn gen_big(rng: &mut Rng, n: u32) -> Hist {
    let mut ops = vec![];
    let cheap = rng.chance(1, 2);
    for i in 1..=n {
        let u = if cheap { match rng.below(4) { 0 => Upd::Correct, 1 => Upd::Failed, 2 => Upd::Uptime(pick_uptime(rng)), _ => Upd::Correct } } else { pick_upd(rng) };
        ops.push(Op::UpdStats(i, u));
    }
    let structure = rng.below(4);
    let edge = |f: u32, t: u32, rng: &mut Rng, ops: &mut Vec<Op>| {
        let ok = rng.chance(19, 20); let via = rng.chance(1, 2);
        ops.push(Op::UpdLocal { f, t, ok, via });
    };
    match structure {
        0 => for i in 1..=n { edge(i, i % n + 1, rng, &mut ops); },                  // ring over everybody
        1 => for i in 1..n { edge(i, i + 1, rng, &mut ops); },                        // chain
        2 => for i in 1..=n / 2 { edge(i, i % (n / 2) + 1, rng, &mut ops); },         // ring over one half, the other half isolated
        _ => {}
    }
    // random extra edges: at most one more outgoing edge per node
    let extra = match structure { 3 => n, _ => n / 3 };
    let mut froms: Vec<u32> = (1..=n).collect();
    rng.shuffle(&mut froms);
    for f in froms.into_iter().take(extra as usize) { let t = rng.range(1, n as u64) as u32; edge(f, t, rng, &mut ops); }
    rng.shuffle(&mut ops);
    let mut pre = vec![];
    for _ in 0..rng.below(4) { pre.push(if rng.chance(4, 5) { rng.range(1, n as u64) as u32 } else { GHOST0 + rng.below(3) as u32 }); }
    // a compute and a few queries in the middle of some
    if rng.chance(1, 3) { let at = ops.len() / 2; ops.insert(at, Op::Compute); ops.insert(at + 1, Op::Query(rng.range(1, n as u64) as u32)); }
    Hist { pre, ops, shape: format!("big-{}", ["ring", "chain", "half-ring", "random"][structure as usize]), pool: n }
}

/// a complete evaluated C10 history
struct Evald {
    pre: Vec<u32>,
    run: RunOut,
    facts: ShadowFacts,
}
enum EvalErr { Ambiguous, Slow, TimeoutPath(Box<Evald>) }

/// does the history contain `AddPre i` after a compute whose returned map contained i (i not removed in between)?
fn addpre_overwrites(ops: &[Op], obs: &[Obs]) -> bool {
    let mut published: BTreeSet<u32> = BTreeSet::new();
    for (op, ob) in ops.iter().zip(obs.iter()) {
        match (op, ob) {
            (Op::Compute, Obs::Map(m)) => published.extend(m.iter().map(|p| p.0)),
            (Op::RemoveNode(i), _) => { published.remove(i); }
            (Op::AddPre(i), _) if published.contains(i) => return true,
            _ => {}
        }
    }
    false
}

fn timeout_violation(sum: &mut Summary, id: u64, pre: &[u32], ops: &[Op], at: (usize, u64), returned: &[(u32, f64)], expected: &BTreeSet<u32>) {
    let got: BTreeSet<u32> = returned.iter().map(|p| p.0).collect();
    sum.violation(id, WHAT_TIMEOUT, &[], json!({
        "pre": pre, "history": ops.iter().map(json_op).collect::<Vec<_>>(), "compute_op_index": at.0, "elapsed_ms": at.1,
        "returned_keys": got, "expected_keys(node_set+anchors)": expected, "key_set_differs": got != *expected}));
    sum.count("timeout-path-cases");
}

fn eval_c10(rt: &tokio::runtime::Runtime, sum: &mut Summary, id: u64, tags: &[&str], pre: &[u32], base: &[Op], unknown: &[u32]) -> Result<Evald, EvalErr> {
    let mut attempt = 0;
    loop {
        attempt += 1;
        let run = run_with_tail(rt, pre, base, unknown);
        if let Some(at) = run.timeout_at {
            // the run stopped at that compute; the executed prefix is the reproduction
            let facts = shadow_facts(pre, &run.ops, false);
            timeout_violation(sum, id, pre, &run.ops, at, &run.final_map, &facts.expected_keys_last);
            return Err(EvalErr::TimeoutPath(Box::new(Evald { pre: pre.to_vec(), run, facts })));
        }
        let (obs2, el2) = run_fixed(rt, pre, &run.ops);
        if run.elapsed > MAX_RUN || el2 > MAX_RUN {
            // a decay factor other than 1.0 may have been applied: the run says nothing; retry, then give up
            if attempt < 3 { continue; }
            return Err(EvalErr::Slow);
        }
        let facts = shadow_facts(pre, &run.ops, false);
        if facts.ambiguous { return Err(EvalErr::Ambiguous); }
        if let Some(d) = obs_difference(&run.obs, &obs2) { sum.violation(id, "determinism", tags, d); }
        for q in &run.qviol { sum.violation(id, "query", tags, q.clone()); }
        for x in &facts.tbl {
            let y = ln_oracle(*x);
            if !(y >= 0.0) { sum.violation(id, "ln oracle assumption", tags, json!({"x": x.to_string(), "ln": coq_float(y)})); }
        }
        return Ok(Evald { pre: pre.to_vec(), run, facts });
    }
}

fn c10_term(e: &Evald) -> String {
    format!("({}, {}, {}, {})", coq_tbl(&e.facts.tbl), coq_list(e.pre.iter().map(|i| i.to_string())),
        coq_list(e.run.ops.iter().map(coq_op)), coq_list(e.run.obs.iter().map(coq_obs)))
}
fn nontrivial(f: &ShadowFacts, final_map_len: usize) -> bool { (f.any_positive_edge || f.any_stats) && final_map_len > 0 }
fn size_class(n: usize) -> &'static str {
    match n { 0 => "0", 1 => "1", 2..=5 => "2-5", 6..=20 => "6-20", 21..=60 => "21-60", 61..=98 => "61-98", 99..=102 => "99-102",
        103..=498 => "103-498", 499..=502 => "499-502", _ => "503+" }
}
fn rounds_class(r: usize) -> &'static str {
    match r { 0 => "0", 1 => "1", 2 => "2", 3 => "3", 4 => "4", 5..=6 => "5-6", 7 => "7", 8..=15 => "8-15", 16..=30 => "16-30", 31..=49 => "31-49", _ => "50" }
}

/// Three writers (all match the runner's `cases_*.v`): small cases 100 per shard, node sets of 61-200 ids ten per
/// shard, larger ones alone (their evaluation takes seconds, so they run in parallel).
struct Out { w: CaseWriter, w_mid: CaseWriter, w_big: CaseWriter, sum: Summary, next_id: u64, seen: HashSet<String>, timeout_cases: u64 }

impl Out {
    fn stop(&self) -> bool { self.timeout_cases >= MAX_TIMEOUT_CASES }
    fn new(out: &std::path::Path, ty: &str, check: &str, prop: &str) -> Out {
        Out { w: CaseWriter::new(out, "cases", HEADER, ty, check, prop, PER_SHARD),
              w_mid: CaseWriter::new(out, "cases_mid", HEADER, ty, check, prop, PER_SHARD_MID),
              w_big: CaseWriter::new(out, "cases_big", HEADER, ty, check, prop, 1),
              sum: Summary::default(), next_id: 0, seen: HashSet::new(), timeout_cases: 0 }
    }
    fn finish(&mut self, dir: &std::path::Path) {
        if self.stop() { self.sum.notes.push(format!("generation stopped after {} cases whose compute returned through the timeout path", self.timeout_cases)); }
        self.w.flush(); self.w_mid.flush(); self.w_big.flush();
        self.sum.write(dir);
    }
    fn emit(&mut self, term: String, desc: Value, n: usize, nontriv: bool, key: String) -> u64 {
        let id = self.next_id;
        self.next_id += 1;
        match n {
            0..=60 => self.w.push(id, term),
            61..=200 => { self.w_mid.push(id, term); self.sum.count("shard-class:mid(61-200)"); }
            _ => { self.w_big.push(id, term); self.sum.count("shard-class:own(>200)"); }
        }
        self.sum.evaluations += 1;
        if nontriv && self.seen.insert(key) { self.sum.distinct_nontrivial += 1; }
        self.sum.case(id, desc);
        id
    }
}

fn count_ops(sum: &mut Summary, ops: &[Op]) {
    for o in ops {
        match o {
            Op::UpdLocal { f, t, ok, via } => {
                sum.count("op:UpdLocal");
                if f == t { sum.count("report:self-rating"); }
                sum.count(if *ok { "report:true" } else { "report:false" });
                sum.count(if *via { "report:via-TrustProvider" } else { "report:via-update_local_trust" });
            }
            Op::UpdStats(_, u) => {
                sum.count("op:UpdStats");
                sum.count(&format!("upd:{}", upd_kind(u)));
                match u {
                    Upd::Uptime(x) if [0, 1, 86399, 86400, 86401, 1u64 << 40].contains(x) => sum.count(&format!("boundary:uptime={}", x)),
                    Upd::Storage(x) | Upd::Bandwidth(x) | Upd::Compute(x) if [0, 1, 2, 1000, 1u64 << 40].contains(x) => sum.count(&format!("boundary:contribution={}", x)),
                    _ => {}
                }
            }
            Op::AddPre(i) => { sum.count("op:AddPre"); if *i >= GHOST0 { sum.count("anchor:never-mentioned(AddPre)"); } }
            Op::RemPre(_) => sum.count("op:RemPre"),
            Op::RemoveNode(_) => sum.count("op:RemoveNode"),
            Op::Compute => sum.count("op:Compute"),
            Op::Query(i) => { sum.count("op:Query"); if (UNKNOWN0..GHOST0).contains(i) { sum.count("query:unknown-id"); } }
        }
    }
}

fn c10_desc(e: &Evald, shape: &str, tags: &[&str], family: Value) -> Value {
    json!({"kind": shape, "pre": e.pre, "ops": e.run.ops.iter().map(json_op).collect::<Vec<_>>(), "tags": tags,
           "n_final": e.facts.n_final, "rounds_per_compute": e.facts.rounds, "final_map_len": e.run.final_map.len(), "family": family})
}
fn hist_key(pre: &[u32], ops: &[Op]) -> String { format!("{:?}|{}", pre, ops.iter().map(coq_op).collect::<Vec<_>>().join(";")) }
fn score(m: &[(u32, f64)], x: u32) -> f64 { m.iter().find(|p| p.0 == x).map(|p| p.1).unwrap_or(0.0) }

/// one base history with its derived monotone families
fn do_base(rt: &tokio::runtime::Runtime, out: &mut Out, rng: &mut Rng, h: Hist, families: usize) {
    let u1 = UNKNOWN0 + 100 + rng.below(50) as u32;
    let u2 = UNKNOWN0 + 200 + rng.below(50) as u32;
    let unknown = [u1, u2];
    let base_id = out.next_id;
    let base = match eval_c10(rt, &mut out.sum, base_id, &[], &h.pre, &h.ops, &unknown) {
        Ok(e) => e,
        Err(EvalErr::Ambiguous) => { out.sum.discarded_ambiguous += 1; out.sum.count("discarded:threshold"); return; }
        Err(EvalErr::Slow) => { out.sum.discarded_ambiguous += 1; out.sum.count("discarded:slow-run"); return; }
        Err(EvalErr::TimeoutPath(e)) => {
            // reported as a direct violation; the executed prefix is still written so that the model is compared with the returned cache
            out.timeout_cases += 1;
            let nt = nontrivial(&e.facts, e.run.final_map.len());
            out.emit(c10_term(&e), c10_desc(&e, &format!("{}(timeout-path prefix)", h.shape), &[], Value::Null), e.facts.n_final, nt, hist_key(&h.pre, &e.run.ops));
            return;
        }
    };
    // known-finding class of the base history (inherited by its derived histories: same operations)
    let base_tags: Vec<&str> = if addpre_overwrites(&base.run.ops, &base.run.obs) { vec![TAG_ADDPRE] } else { vec![] };
    if !base_tags.is_empty() { out.sum.count(&format!("tag:{}(base histories)", TAG_ADDPRE)); }
    // input distribution (base histories only; derived ones repeat the same operations)
    out.sum.count(&format!("shape:{}", h.shape));
    out.sum.count(&format!("n_final:{}", size_class(base.facts.n_final)));
    out.sum.count(&format!("pre_initial:{}", h.pre.iter().collect::<BTreeSet<_>>().len()));
    if h.pre.iter().any(|i| *i >= GHOST0) { out.sum.count("anchor:never-mentioned(initial)"); }
    out.sum.count(&format!("pool:{}", size_class(h.pool as usize)));
    for r in &base.facts.rounds { out.sum.count(&format!("rounds:{}", rounds_class(*r))); }
    out.sum.add("ops_total", base.run.ops.len() as u64);
    count_ops(&mut out.sum, &h.ops);
    let end = &base.facts.end;
    if end.pre.is_empty() { out.sum.count("final:no-anchors"); } else { out.sum.count("final:anchors"); }
    let ns = end.node_set();
    if end.pre.iter().any(|a| !ns.contains(a)) { out.sum.count("final:anchor-outside-node-set"); }
    let dangling = ns.iter().filter(|i| !end.local.iter().any(|((f, _), v)| f == *i && *v > 0.0)).count();
    if !ns.is_empty() { out.sum.count(&format!("final:dangling-share:{}", match dangling * 4 / ns.len() { 0 => "<25%", 1 => "25-50%", 2 => "50-75%", _ => ">=75%" })); }

    let nt = nontrivial(&base.facts, base.run.final_map.len());
    let id = out.emit(c10_term(&base), c10_desc(&base, &h.shape, &base_tags, Value::Null), base.facts.n_final, nt, hist_key(&h.pre, &base.run.ops));
    debug_assert_eq!(id, base_id);

    // ---- monotone families (direct check 3) ----
    let with_stats: Vec<u32> = end.stats.keys().copied().collect();
    let edge_only: Vec<u32> = ns.iter().copied().filter(|i| !end.stats.contains_key(i)).collect();
    let anchors_unmentioned: Vec<u32> = end.pre.iter().copied().filter(|a| !ns.contains(a)).collect();
    let mut classes: Vec<&str> = vec!["unknown"];
    if !with_stats.is_empty() { classes.push("with-statistics"); classes.push("with-statistics"); }
    if !edge_only.is_empty() { classes.push("edges-only"); classes.push("edges-only"); }
    if !anchors_unmentioned.is_empty() { classes.push("anchor-unmentioned"); classes.push("anchor-unmentioned"); }
    let mut used: BTreeSet<(String, u32)> = BTreeSet::new();
    for fam in 0..families {
        let class = *rng.pick(&classes);
        let x = match class {
            "with-statistics" => *rng.pick(&with_stats),
            "edges-only" => *rng.pick(&edge_only),
            "anchor-unmentioned" => *rng.pick(&anchors_unmentioned),
            _ => FAMILY_UNKNOWN0 + fam as u32,
        };
        if !used.insert((class.to_string(), x)) { continue; }
        let tags: Vec<&str> = if class == "anchor-unmentioned" { vec![TAG_ANCHOR] } else { vec![] };
        let upds = [Upd::Correct, Upd::Failed, Upd::Corrupted, Upd::Protocol, Upd::Unavailable];
        let first_id = out.next_id;
        let mut ds: Vec<Evald> = vec![];
        let mut bad = false;
        let mut timeout_hit = false;
        let nviol = out.sum.direct_violations.len();
        for (k, u) in upds.iter().enumerate() {
            let mut ops = h.ops.clone();
            ops.push(Op::UpdStats(x, u.clone()));
            match eval_c10(rt, &mut out.sum, first_id + k as u64, &tags, &h.pre, &ops, &unknown) {
                Ok(e) => ds.push(e),
                Err(EvalErr::TimeoutPath(_)) => { out.timeout_cases += 1; bad = true; timeout_hit = true; break; }
                Err(_) => { bad = true; break; }
            }
        }
        if bad {
            // the whole family is discarded (also the direct violations its members may have recorded)
            if timeout_hit {
                // keep only the timeout-path report of this family
                let keep: Vec<Value> = out.sum.direct_violations.drain(nviol..).filter(|v| v["what"] == WHAT_TIMEOUT).collect();
                out.sum.direct_violations.extend(keep);
                if out.stop() { return; }
            } else {
                out.sum.direct_violations.truncate(nviol);
            }
            out.sum.discarded_ambiguous += 1;
            out.sum.count("discarded:family");
            continue;
        }
        out.sum.count(&format!("family:{}", class));
        let sb = score(&base.run.final_map, x);
        let s: Vec<f64> = ds.iter().map(|d| score(&d.run.final_map, x)).collect();
        let detail = |what: &str, a: f64, b: f64| json!({"base_case": base_id, "x": x, "class": class, "compared": what,
            "left": coq_float(a), "right": coq_float(b), "left_dec": a, "right_dec": b});
        if s[0] < sb - TOL { out.sum.violation(first_id, "success lowered the score", &tags, detail("score(H+[UCorrect x]) >= score(H)", s[0], sb)); }
        if s[1] > sb + TOL { out.sum.violation(first_id + 1, "failure raised the score", &tags, detail("score(H+[UFailed x]) <= score(H)", s[1], sb)); }
        if s[2] > s[1] + TOL { out.sum.violation(first_id + 2, "corrupted/protocol cost less than a plain failure", &tags, detail("score(H+[UCorrupted x]) <= score(H+[UFailed x])", s[2], s[1])); }
        if s[3] > s[1] + TOL { out.sum.violation(first_id + 3, "corrupted/protocol cost less than a plain failure", &tags, detail("score(H+[UProtocol x]) <= score(H+[UFailed x])", s[3], s[1])); }
        if (s[4] - s[1]).abs() > TOL { out.sum.violation(first_id + 4, "unavailable data scored differently from a plain failure", &tags, detail("score(H+[UUnavailable x]) = score(H+[UFailed x])", s[4], s[1])); }
        if s.iter().chain([sb].iter()).any(|v| !v.is_finite()) { out.sum.violation(first_id, "score not finite", &tags, detail("finite", s[0], sb)); }
        for (k, d) in ds.iter().enumerate() {
            let fam_desc = json!({"base_case": base_id, "x": x, "class": class, "appended": coq_upd(&upds[k]),
                "score_base": sb, "score_here": s[k]});
            let nt = nontrivial(&d.facts, d.run.final_map.len());
            let mut case_tags = tags.clone();
            if addpre_overwrites(&d.run.ops, &d.run.obs) { case_tags.push(TAG_ADDPRE); }
            let id = out.emit(c10_term(d), c10_desc(d, &format!("{}+{}", h.shape, upd_kind(&upds[k])), &case_tags, fam_desc), d.facts.n_final, nt, hist_key(&h.pre, &d.run.ops));
            debug_assert_eq!(id, first_id + k as u64);
            out.sum.count(&format!("derived:{}", upd_kind(&upds[k])));
        }
    }
}

fn mode_c10(args: &Args, rt: &tokio::runtime::Runtime) {
    let mut rng = Rng::new(args.seed);
    let mut out = Out::new(&args.out, "tcase", "check_case", "prop_case");
    out.sum.rule = "C10: histories (5-80 operations, id pools 2-40, plus node sets of exactly 99/100/101/102/120/499/500/501/502/520) of reports \
(both API routes), statistics updates with boundary values (uptime 86399/86400/86401, contributions 0/1/2/1000/2^40), anchor additions/removals \
(some anchors never mentioned in a report), node removals, computes and queries; each ends with a compute and a query of every returned id and \
two unknown ids; about 3 derived families H+[UCorrect|UFailed|UCorrupted|UProtocol|UUnavailable x] per base history, each written as its own case. \
Non-trivial = the history contains at least one positive edge or one statistics update and its final compute returned a non-empty map; \
distinct = different (anchors, operations) text".into();
    let (nbase, nfam) = if args.thorough() { (3000, 3) } else { (280, 3) };
    for _ in 0..nbase {
        if out.stop() { break; }
        let mut r2 = rng.fork();
        let h = gen_base(&mut r2);
        // the known-finding shape stays a handful of cases: no derived families
        let fams = if h.shape == "addpre-overwrite" { 0 } else { nfam };
        do_base(rt, &mut out, &mut r2, h, fams);
    }
    // big node sets (own shards)
    let mut bigs: Vec<u32> = vec![99, 100, 101, 102, 120, 499, 500, 501, 502, 520];
    if args.thorough() {
        for _ in 0..4 { bigs.extend([99, 100, 101, 102, 499, 500, 501, 502]); }
        for _ in 0..30 { bigs.push(rng.range(61, 600) as u32); }
    }
    for n in bigs {
        if out.stop() { break; }
        let mut r2 = rng.fork();
        let h = gen_big(&mut r2, n);
        let fams = if n <= 120 { 1 } else { 0 };
        out.sum.count(&format!("big:{}", n));
        do_base(rt, &mut out, &mut r2, h, fams);
    }
    out.finish(&args.out);
}

// ------------------------------------------------------------------------------------------
// mode c11
// ------------------------------------------------------------------------------------------

struct C11 { pre: Vec<u32>, ops: Vec<Op>, sybils: Vec<u32>, a: u32, h: u32, s: u32, pattern: String, stats_mode: String }

fn ledger_case() -> C11 {
    // DESIGN ledger scenario: 1 anchor, 10 honest nodes with one correct response each and no
    // statements, 1 Sybil rating itself (and one correct response so that statistics are equal)
    let mut ops: Vec<Op> = (1..=11).map(|i| Op::UpdStats(i, Upd::Correct)).collect();
    ops.push(Op::UpdLocal { f: 12, t: 12, ok: true, via: false });
    ops.push(Op::UpdStats(12, Upd::Correct));
    C11 { pre: vec![1], ops, sybils: vec![12], a: 1, h: 10, s: 1, pattern: "ledger".into(), stats_mode: "equal:[UCorrect]".into() }
}

/// The scenario of the repaired defect F11b (convergence exit before the fourth round), always the LAST case (own
/// shard): anchor 2, Sybil 1 rating itself, 4998 honest ids 3..5000 known only through a `false` report of the
/// anchor (a 0.0 entry: no edge, but the id is in the node set); nobody has statistics.  Before the repair the loop
/// left after 2 rounds with mass(S) = 0.36/5000 > 1/(7*5000); now it runs 4 rounds: 0.1296/5000.  Ordinary, untagged.
fn early_exit_case() -> C11 {
    let mut ops = vec![Op::UpdLocal { f: 1, t: 1, ok: true, via: false }];
    for h in 3..=5000u32 { ops.push(Op::UpdLocal { f: 2, t: h, ok: false, via: h % 2 == 0 }); }
    C11 { pre: vec![2], ops, sybils: vec![1], a: 1, h: 4998, s: 1, pattern: "early-exit".into(), stats_mode: "none".into() }
}

fn gen_c11(rng: &mut Rng, n: u32, a: u32, s: u32) -> C11 {
    let h = n - a - s;
    let anchors: Vec<u32> = (1..=a).collect();
    let good: Vec<u32> = (1..=a + h).collect();
    let syb: Vec<u32> = (a + h + 1..=n).collect();
    // reports as (from, to, outcomes)
    let mut reports: Vec<(u32, u32, Vec<bool>)> = vec![];
    let outcomes = |rng: &mut Rng, p_true: u64| -> Vec<bool> { (0..rng.range(1, 4)).map(|_| rng.chance(p_true, 100)).collect() };
    // honest graph: a fraction of the honest nodes makes NO statement
    let silent_pct = *rng.pick(&[0u64, 30, 60, 90, 100]);
    for &g in &good {
        let is_anchor = g <= a;
        let speaks = if is_anchor { rng.chance(7, 10) } else { !rng.chance(silent_pct, 100) };
        if !speaks { continue; }
        for _ in 0..rng.range(1, 3) {
            let t = *rng.pick(&good);
            if t == g && !rng.chance(1, 10) { continue; }
            let o = outcomes(rng, 80);
            reports.push((g, t, o));
        }
    }
    // Sybil internal pattern
    let pat = rng.below(6);
    let k = syb.len();
    let pname = ["clique", "star", "chain", "ring", "self-loops", "random"][pat as usize];
    let sy = |f: u32, t: u32, rng: &mut Rng, reports: &mut Vec<(u32, u32, Vec<bool>)>| {
        let o = if rng.chance(4, 5) { vec![true] } else { (0..rng.range(1, 4)).map(|_| rng.chance(9, 10)).collect() };
        reports.push((f, t, o));
    };
    match pat {
        // degree cap 8 (2 for very large S: the model's evaluation is quadratic in the number of entries)
        0 => for x in 0..k { for d in 1..=(if k > 300 { 2usize } else { 8 }).min(k.saturating_sub(1)) { sy(syb[x], syb[(x + d) % k], rng, &mut reports); } },
        1 => for x in 1..k { sy(syb[x], syb[0], rng, &mut reports); if rng.chance(1, 2) { sy(syb[0], syb[x], rng, &mut reports); } },
        2 => for x in 0..k.saturating_sub(1) { sy(syb[x], syb[x + 1], rng, &mut reports); },
        3 => for x in 0..k { sy(syb[x], syb[(x + 1) % k], rng, &mut reports); },
        4 => for x in 0..k { sy(syb[x], syb[x], rng, &mut reports); },
        _ => for x in 0..k { for _ in 0..rng.range(1, if k > 300 { 1 } else { 3 }) { let t = *rng.pick(&syb); sy(syb[x], t, rng, &mut reports); } },
    }
    // Sybils praising (or blaming) honest nodes and anchors: outgoing only
    let out_pct = *rng.pick(&[0u64, 0, 20, 60]);
    for &x in &syb { if rng.chance(out_pct, 100) { let t = *rng.pick(&good); let o = outcomes(rng, 70); reports.push((x, t, o)); } }
    // equal statistics: nobody, or the same sequence for everybody
    let seq: Vec<Upd> = if rng.chance(1, 2) { vec![] } else {
        match rng.below(14) {
            0 => vec![Upd::Failed],                 // factor 0 for everybody
            1 => vec![Upd::Correct],
            _ => (0..rng.range(1, 3)).map(|_| pick_upd(rng)).collect(),
        }
    };
    let stats_mode = if seq.is_empty() { "none".to_string() } else { format!("equal:[{}]", seq.iter().map(coq_upd).collect::<Vec<_>>().join("; ")) };
    // every id must be in the node set
    if seq.is_empty() {
        let mut touched: BTreeSet<u32> = BTreeSet::new();
        for (f, t, _) in &reports { touched.insert(*f); touched.insert(*t); }
        for &g in &good {
            if touched.contains(&g) { continue; }
            let from = if good.len() > 1 { loop { let c = *rng.pick(&good); if c != g { break c; } } } else { g };
            reports.push((from, g, vec![true]));
            touched.insert(g); touched.insert(from);
        }
        for &x in &syb {
            if touched.contains(&x) { continue; }
            let t = if rng.chance(1, 2) { x } else { *rng.pick(&syb) };
            reports.push((x, t, vec![true]));
            touched.insert(x); touched.insert(t);
        }
    }
    let mut ops: Vec<Op> = vec![];
    for (f, t, os) in &reports {
        debug_assert!(!(syb.contains(t) && !syb.contains(f)), "generator: edge into S from outside");
        for ok in os { ops.push(Op::UpdLocal { f: *f, t: *t, ok: *ok, via: rng.chance(1, 2) }); }
    }
    for i in 1..=n { for u in &seq { ops.push(Op::UpdStats(i, u.clone())); } }
    // anchors: initial set, or partly added later
    let mut pre = anchors.clone();
    // some anchors are configured but never mentioned by anybody (no statement, no statistics record): they are not
    // in the node set, yet they must keep their floor and the teleport share they stand for must not leak to others
    // (only when nobody has statistics, so that factors stay equal)
    if seq.is_empty() && rng.chance(1, 3) {
        for g in 0..rng.range(1, 2) as u32 { pre.push(GHOST0 + 900 + g); }
    }
    if a > 1 && rng.chance(1, 5) {
        let later = rng.range(1, (a - 1) as u64) as usize;
        for _ in 0..later { if let Some(x) = pre.pop() { ops.push(Op::AddPre(x)); } }
    }
    rng.shuffle(&mut ops);
    C11 { pre, ops, sybils: syb, a, h, s, pattern: pname.into(), stats_mode }
}

fn mode_c11(args: &Args, rt: &tokio::runtime::Runtime) {
    let mut rng = Rng::new(args.seed);
    let mut out = Out::new(&args.out, "c11case", "check_c11", "prop_c11");
    out.sum.rule = "C11: a anchors (1-5, sometimes 50), h honest nodes (a share of them silent), s Sybils (1-30, sometimes 100-300; thorough up to 1000) \
forming a closed set (clique/star/chain/ring/self-loops/random, optionally rating honest nodes), equal statistics (none, or one identical update \
sequence for every id), n = a+h+s hitting 12, 99-102, 499-502 and random sizes; operations shuffled, no compute inside, ONE final compute. \
Case 0 is the ledger scenario; the last case is the F11b scenario (n = 5000, one self-rating Sybil, everybody else silent: the loop must run 4 rounds). Non-trivial = at least one positive edge or one statistics update and a non-empty returned map; distinct = different \
(anchors, operations, S) text".into();
    // plan of (n, a, s)
    let mut plan: Vec<(u32, u32, u32)> = vec![];
    let thorough = args.thorough();
    let pick_a = |rng: &mut Rng, n: u32| -> u32 { let a = if n > 60 && rng.chance(1, 6) { 50 } else { rng.range(1, 5) as u32 }; a.min(n.saturating_sub(1)).max(1) };
    let pick_s = |rng: &mut Rng, n: u32, a: u32| -> u32 {
        let room = n - a; // s <= room (h may be 0)
        let s = if n >= 200 && rng.chance(1, 2) { rng.range(100, 300) as u32 } else { rng.range(1, 30) as u32 };
        s.min(room).max(1)
    };
    let (nsmall, nmid, nrep_big) = if thorough { (3000, 400, 10) } else { (300, 40, 1) };
    for _ in 0..nsmall {
        let n = if rng.chance(1, 5) { 12 } else { rng.range(3, 60) as u32 };
        let a = pick_a(&mut rng, n); let s = pick_s(&mut rng, n, a);
        plan.push((n, a, s));
    }
    for _ in 0..nmid { let n = rng.range(61, 120) as u32; let a = pick_a(&mut rng, n); let s = pick_s(&mut rng, n, a); plan.push((n, a, s)); }
    for _ in 0..(2 * nrep_big) { for n in [99u32, 100, 101, 102] { let a = pick_a(&mut rng, n); let s = pick_s(&mut rng, n, a); plan.push((n, a, s)); } }
    for _ in 0..(2 * nrep_big) { for n in [499u32, 500, 501, 502] { let a = pick_a(&mut rng, n); let s = pick_s(&mut rng, n, a); plan.push((n, a, s)); } }
    if thorough {
        for _ in 0..6 { let n = rng.range(505, 515) as u32; let a = pick_a(&mut rng, n); let s = pick_s(&mut rng, n, a); plan.push((n, a, s)); }
        for _ in 0..4 { let n = rng.range(1100, 1300) as u32; let a = pick_a(&mut rng, n); let s = rng.range(600, 1000) as u32; plan.push((n, a, s)); }
        let a = rng.range(1, 5) as u32; let s = rng.range(1, 5) as u32; plan.push((960, a, s));
    }
    let mut cases: Vec<C11> = vec![ledger_case()];
    for (n, a, s) in plan { let mut r2 = rng.fork(); cases.push(gen_c11(&mut r2, n, a, s)); }
    cases.push(early_exit_case());

    for c in cases {
        let n = c.a + c.h + c.s;
        let facts = shadow_facts(&c.pre, &c.ops, true);
        if facts.ambiguous { out.sum.discarded_ambiguous += 1; out.sum.count("discarded:threshold"); continue; }
        if out.stop() { break; }
        let id = out.next_id;
        let mut res = None;
        for _ in 0..3 {
            let (m, el, cel) = run_then_compute(rt, &c.pre, &c.ops);
            if cel >= TIMEOUT_PATH {
                // reported; the case is still written so that the model is compared with the returned cache
                let mut ops = c.ops.clone();
                ops.push(Op::Compute);
                timeout_violation(&mut out.sum, id, &c.pre, &ops, (c.ops.len(), cel.as_millis() as u64), &m, &facts.expected_keys_last);
                out.timeout_cases += 1;
                res = Some(m);
                break;
            }
            if el <= MAX_RUN { res = Some(m); break; }
        }
        let Some(m) = res else { out.sum.discarded_ambiguous += 1; out.sum.count("discarded:slow-run"); continue };
        for x in &facts.tbl {
            let y = ln_oracle(*x);
            if !(y >= 0.0) { out.sum.violation(id, "ln oracle assumption", &[], json!({"x": x.to_string(), "ln": coq_float(y)})); }
        }
        if facts.n_final != n as usize {
            // generator self-check: every id must be in the node set (prop_c11 would also flag it)
            out.sum.notes.push(format!("case {}: node set has {} ids, planned {}", id, facts.n_final, n));
        }
        let mass: f64 = c.sybils.iter().map(|x| score(&m, *x)).sum();
        let anchors_now: Vec<u32> = facts.end.pre.iter().copied().collect();
        let min_anchor = anchors_now.iter().map(|x| score(&m, *x)).fold(f64::INFINITY, f64::min);
        let total: f64 = m.iter().map(|p| p.1).sum();
        let term = format!("({}, {}, {}, 1%float, {}, {})", coq_tbl(&facts.tbl), coq_list(c.pre.iter().map(|i| i.to_string())),
            coq_list(c.ops.iter().map(coq_op)), coq_list(c.sybils.iter().map(|i| i.to_string())), coq_vec(&m));
        let rounds = facts.rounds.last().copied().unwrap_or(0);
        // every exit of the repaired loop is taken after at least 4 rounds (C11_at_least_four_rounds)
        if rounds < 4 { out.sum.count("rounds<4 (replica)"); }
        let tags: Vec<&str> = vec![];
        let desc = json!({"kind": c.pattern, "pre": c.pre, "ops": c.ops.iter().map(json_op).collect::<Vec<_>>(), "S": c.sybils, "tags": tags,
            "n": n, "a": c.a, "h": c.h, "s": c.s, "node_set": facts.n_final, "stats": c.stats_mode, "rounds": rounds,
            "mass_S": mass, "bound_s_over_7n": c.s as f64 / (7.0 * n as f64), "min_anchor_score": min_anchor, "total": total,
            "returned_len": m.len()});
        out.sum.count(&format!("pattern:{}", c.pattern));
        out.sum.count(&format!("n:{}", size_class(n as usize)));
        if n == 12 { out.sum.count("n:=12"); }
        out.sum.count(&format!("a:{}", match c.a { 1 => "1", 2..=5 => "2-5", _ => "6+" }));
        out.sum.count(&format!("s:{}", match c.s { 1 => "1", 2..=5 => "2-5", 6..=30 => "6-30", 31..=99 => "31-99", 100..=300 => "100-300", _ => "301+" }));
        out.sum.count(&format!("stats:{}", if c.stats_mode == "none" { "none" } else { "equal-sequence" }));
        out.sum.count(&format!("rounds:{}", rounds_class(rounds)));
        out.sum.count(&format!("initial_anchors:{}", if c.pre.len() as u32 == c.a { "all" } else { "some-added-later" }));
        let speakers: BTreeSet<u32> = facts.end.local.iter().filter(|(_, v)| **v > 0.0).map(|((f, _), _)| *f).collect();
        let good: Vec<u32> = facts.end.node_set().into_iter().filter(|i| !c.sybils.contains(i)).collect();
        let silent = good.iter().filter(|i| !speakers.contains(i)).count();
        out.sum.count(&format!("silent-good-share:{}", match silent * 4 / good.len().max(1) { 0 => "<25%", 1 => "25-50%", 2 => "50-75%", _ => ">=75%" }));
        if total == 0.0 { out.sum.count("all-scores-zero"); }
        out.sum.add("ops_total", c.ops.len() as u64);
        count_ops(&mut out.sum, &c.ops);
        let nt = nontrivial(&facts, m.len());
        let key = format!("{}|{:?}", hist_key(&c.pre, &c.ops), c.sybils);
        out.emit(term, desc, n as usize, nt, key);
    }
    out.finish(&args.out);
}

fn main() {
    let args = Args::parse();
    float_selfcheck();
    install_trace_sink();
    let rt = tokio::runtime::Builder::new_current_thread().enable_all().build().unwrap();
    let mode = args.extra.get("mode").cloned().unwrap_or_else(|| "c10".into());
    match mode.as_str() {
        "c10" => mode_c10(&args, &rt),
        "c11" => mode_c11(&args, &rt),
        "probe" => { // diagnostic: wall time of one report + one compute
            let (m, el, cel) = run_then_compute(&rt, &[], &[Op::UpdLocal { f: 1, t: 2, ok: true, via: false }]);
            println!("probe: run {:?}, compute {:?}, returned {:?}", el, cel, m);
        }
        other => { eprintln!("unknown --mode {} (c10 | c11 | probe)", other); std::process::exit(2); }
    }
}
